(* C08, layer 3 (continued): syllable- and word-level tokenization of a rendered
   tree with three defined levels.  Here the final strip_with over all separators
   does real work (it removes the trailing lower-level separators of each token),
   so two more hypotheses are needed: phones contain no separator's first
   character, and separators do not overlap the end of a separator group. *)
From WS Require Import Base.Py Base.Str Separator.Model Separator.Render.
From WS Require Import Separator.StrLemmas Separator.StripLemmas Separator.ProofsTree.

Lemma starts_ok_app_inv (a b : str) : a <> [] -> starts_ok (a ++ b) -> starts_ok a.
Proof.
  destruct a as [|c a]; [congruence|]. intros _ H. cbn [app] in H.
  apply starts_ok_hd. now apply starts_ok_hd in H.
Qed.

Lemma phone_headed_starts_ok (seps : list str) (s : str) : phone_headed seps s -> starts_ok s.
Proof.
  intros (ph & rest & -> & Hn & Hws & _). apply starts_ok_app; [exact Hn|].
  now apply ws_free_starts_ok.
Qed.

Lemma strip_prefix_phone_headed (seps : list str) (s : str) :
  Forall (fun x : str => x <> []) seps -> phone_headed seps s -> strip_prefix seps s = s.
Proof.
  intros Hne (ph & rest & -> & Hn & _ & Hh).
  destruct (walk_phone_prefix seps Hne ph rest Hh); [assumption|congruence].
Qed.

Section ThreeStrip.
  Variables xp xs xw : str.
  Hypothesis Hxp : xp <> [].
  Hypothesis Hxs : xs <> [].
  Hypothesis Hxw : xw <> [].
  Hypothesis Hes : ends_ok xs.
  Hypothesis Hep : ends_ok xp.

  Let sep := sep3 xp xs xw.
  Let seps := [xw; xs; xp].
  Let regions := [xp; xp ++ xs].

  (* no separator has a proper non-empty prefix that ends a separator group *)
  Hypothesis NB : forall x R : str, In x seps -> In R regions -> no_border x R.

  Definition tree_hf (t : utree) : Prop := Forall (Forall (Forall (head_free [xw; xs; xp]))) t.

  Let seps_ne : Forall (fun x : str => x <> []) seps.
  Proof. repeat constructor; assumption. Qed.

  Let in_xp : In xp seps. Proof. cbn. auto. Qed.
  Let in_xs : In xs seps. Proof. cbn. auto. Qed.
  Let r_xp : In xp regions. Proof. cbn. auto. Qed.
  Let r_xps : In (xp ++ xs) regions. Proof. cbn. auto. Qed.

  Lemma good_phones (syl : list str) :
    Forall (phone_ok xp) syl -> Forall (head_free seps) syl -> Forall (good_phone seps) syl.
  Proof.
    intros H. induction H as [|ph syl (Hn & Hws & _) _ IH]; intros Hh; [constructor|].
    inversion Hh; subst. constructor; [|now apply IH]. repeat split; assumption.
  Qed.

  (* ---- one syllable ---- *)

  Definition syl_facts (syl : list str) : Prop :=
    syl_ok xp xs syl /\ Forall (head_free seps) syl /\ infix_b xw (terminated xp syl) = false.

  Lemma syl_strip_remove (syl : list str) : syl_facts syl ->
    remove_all sep (strip_with seps (terminated xp syl)) = concat syl.
  Proof.
    intros ((Hn & Hp & Hy) & Hh & Hw).
    pose proof (good_phones syl Hp Hh) as Hg.
    assert (Hpo : Forall (fun ph : str => only_at_end xp ph = true) syl).
    { eapply Forall_impl; [|exact Hp]. now intros ph (_ & _ & Ho). }
    assert (Hws : Forall ws_free syl).
    { eapply Forall_impl; [|exact Hp]. now intros ph (_ & Hw' & _). }
    apply only_at_end_no_infix in Hy; [|exact Hxs].
    destruct (exists_last Hn) as (init & ph & ->).
    apply Forall_app in Hg as [Hgi Hgp]. inversion Hgp as [|? ? Hgph _]; subst.
    apply Forall_app in Hpo as [Hpoi Hpop]. inversion Hpop as [|? ? Hoph _]; subst.
    apply Forall_app in Hws as [Hwsi Hwsp]. inversion Hwsp as [|? ? Hwph _]; subst.
    assert (Hstrip : strip_with seps (terminated xp (init ++ [ph])) = terminated xp init ++ ph).
    { unfold strip_with, seps. fold seps.
      rewrite strip_prefix_phone_headed; [|exact seps_ne|].
      2:{ rewrite <- (app_nil_r (terminated _ _)).
          apply phone_headed_terminated; [destruct init; discriminate|].
          apply Forall_app. split; [exact Hgi|now constructor]. }
      rewrite <- (app_nil_r (terminated xp (init ++ [ph]))).
      rewrite (walk_terminated_last seps seps_ne regions NB); try assumption; [|constructor].
      apply strip_clean_ends. split.
      - apply (starts_ok_app_inv _ (xp ++ [])).
        + intros E. apply app_eq_nil in E as [_ E]. now destruct Hgph.
        + rewrite <- app_assoc. replace (ph ++ xp ++ []) with (terminated xp [ph] ++ [])
            by (now rewrite terminated_one, <- app_assoc).
          rewrite app_assoc, <- terminated_app.
          apply (phone_headed_starts_ok seps).
          apply phone_headed_terminated; [destruct init; discriminate|].
          apply Forall_app. split; [exact Hgi|now constructor].
      - apply ends_ok_app; [now destruct Hgph|now apply ws_free_ends_ok]. }
    rewrite Hstrip. unfold sep. rewrite remove_all3.
    assert (E : terminated xp (init ++ [ph]) = (terminated xp init ++ ph) ++ xp).
    { now rewrite terminated_app, terminated_one, app_assoc. }
    rewrite E in Hw, Hy.
    apply infix_b_false_app_l in Hw. apply infix_b_false_app_l in Hy.
    rewrite (replace_all_no_infix xw) by exact Hw.
    rewrite (replace_all_no_infix xs) by exact Hy.
    unfold terminated. rewrite replace_all_joined_rest by assumption.
    rewrite (replace_all_no_infix xp) by now apply only_at_end_no_infix.
    rewrite concat_app. cbn [concat]. rewrite app_nil_r.
    apply collapse_spaces_ws_free, ws_free_app. split; [|exact Hwph].
    now apply ws_free_concat.
  Qed.

  Lemma syl_plain_nonnil (syl : list str) : syl_ok xp xs syl -> concat syl <> [].
  Proof.
    intros (Hn & Hp & _). destruct Hp as [|ph syl (Hph & _) _]; [congruence|].
    now apply concat_nonnil_hd.
  Qed.

  (* ---- one word ---- *)

  Lemma word_syl_facts (w : list (list str)) :
    word_ok xp xs xw w -> Forall (Forall (head_free seps)) w -> Forall syl_facts w.
  Proof.
    intros (_ & Hs & Hw) Hh. apply only_at_end_no_infix in Hw; [|exact Hxw].
    apply Forall_forall. intros syl Hin. repeat split.
    - exact (proj1 (proj1 (Forall_forall _ _) Hs syl Hin)).
    - exact (proj1 (proj2 (proj1 (Forall_forall _ _) Hs syl Hin))).
    - exact (proj2 (proj2 (proj1 (Forall_forall _ _) Hs syl Hin))).
    - exact (proj1 (Forall_forall _ _) Hh syl Hin).
    - eapply infix_b_false_In_terminated; [exact Hw|]. now apply in_map.
  Qed.

  Lemma word_strip_remove (w : list (list str)) :
    word_ok xp xs xw w -> Forall (Forall (head_free seps)) w ->
    remove_all sep (strip_with seps (word_body xp xs w)) = word_plain w.
  Proof.
    intros Hok Hh. pose proof (word_syl_facts w Hok Hh) as Hf.
    destruct Hok as (Hn & Hs & Hw). apply only_at_end_no_infix in Hw; [|exact Hxw].
    destruct (exists_last Hn) as (winit & slast & ->).
    apply Forall_app in Hf as [Hfi Hfl]. inversion Hfl as [|? ? Hflast _]; subst.
    destruct Hflast as ((Hsn & Hsp & Hsy) & Hsh & _).
    pose proof (good_phones slast Hsp Hsh) as Hg.
    assert (Hpo : Forall (fun ph : str => only_at_end xp ph = true) slast).
    { eapply Forall_impl; [|exact Hsp]. now intros ph (_ & _ & Ho). }
    assert (Hws : Forall ws_free slast).
    { eapply Forall_impl; [|exact Hsp]. now intros ph (_ & Hw' & _). }
    apply only_at_end_no_infix in Hsy; [|exact Hxs].
    destruct (exists_last Hsn) as (sinit & ph & ->).
    apply Forall_app in Hg as [Hgi Hgp]. inversion Hgp as [|? ? Hgph _]; subst.
    apply Forall_app in Hpo as [Hpoi Hpop]. inversion Hpop as [|? ? Hoph _]; subst.
    apply Forall_app in Hws as [Hwsi Hwsp]. inversion Hwsp as [|? ? Hwph _]; subst.
    assert (Hgw : Forall (fun syl : list str => syl <> [] /\ Forall (good_phone seps) syl) winit).
    { eapply Forall_impl; [|exact Hfi]. intros syl ((Hyn & Hyp & _) & Hyh & _).
      split; [exact Hyn|now apply good_phones]. }
    assert (Hgall : Forall (fun syl : list str => syl <> [] /\ Forall (good_phone seps) syl)
                           (winit ++ [sinit ++ [ph]])).
    { apply Forall_app. split; [exact Hgw|]. constructor; [|constructor]. split.
      - destruct sinit; discriminate.
      - apply Forall_app. split; [exact Hgi|now constructor]. }
    set (R := terminated xs (map (terminated xp) winit) ++ terminated xp sinit ++ ph).
    assert (EB : word_body xp xs (winit ++ [sinit ++ [ph]]) = R ++ xp ++ xs).
    { unfold word_body, R. rewrite map_app, terminated_app. cbn [map].
      rewrite terminated_one, terminated_app, terminated_one. now rewrite <- !app_assoc. }
    assert (HRn : R <> []).
    { unfold R. intros E. apply app_eq_nil in E as [_ E]. apply app_eq_nil in E as [_ E].
      now destruct Hgph. }
    assert (Hhead : phone_headed seps (word_body xp xs (winit ++ [sinit ++ [ph]]))).
    { unfold word_body. apply phone_headed_body; [destruct winit; discriminate|exact Hgall]. }
    assert (Hstrip : strip_with seps (word_body xp xs (winit ++ [sinit ++ [ph]])) = R).
    { unfold strip_with, seps. fold seps.
      rewrite strip_prefix_phone_headed; [|exact seps_ne|exact Hhead].
      unfold word_body.
      rewrite (walk_body seps seps_ne regions NB); try assumption. fold R.
      apply strip_clean_ends. split.
      - apply (starts_ok_app_inv _ (xp ++ xs)); [exact HRn|]. rewrite <- EB.
        now apply (phone_headed_starts_ok seps).
      - unfold R. rewrite app_assoc.
        apply ends_ok_app; [now destruct Hgph|now apply ws_free_ends_ok]. }
    rewrite Hstrip. unfold sep. rewrite remove_all3.
    rewrite EB in Hw. apply infix_b_false_app_l in Hw.
    rewrite (replace_all_no_infix xw) by exact Hw.
    (* syllable separators *)
    unfold R. unfold terminated at 1.
    rewrite replace_all_joined_rest; [|exact Hxs|].
    2:{ apply Forall_map. eapply Forall_impl; [|exact Hfi]. now intros syl ((_ & _ & Hy) & _). }
    assert (E : terminated xp (sinit ++ [ph]) = (terminated xp sinit ++ ph) ++ xp).
    { now rewrite terminated_app, terminated_one, app_assoc. }
    rewrite E in Hsy. apply infix_b_false_app_l in Hsy.
    rewrite (replace_all_no_infix xs) by exact Hsy.
    (* phone separators *)
    rewrite concat_terminated, app_assoc, <- terminated_app.
    unfold terminated. rewrite replace_all_joined_rest; [|exact Hxp|].
    2:{ apply Forall_app. split; [|exact Hpoi]. apply Forall_concat.
        eapply Forall_impl; [|exact Hfi]. intros syl ((_ & Hp & _) & _).
        eapply Forall_impl; [|exact Hp]. now intros q (_ & _ & Ho). }
    rewrite (replace_all_no_infix xp) by now apply only_at_end_no_infix.
    assert (EP : word_plain (winit ++ [sinit ++ [ph]]) = concat (concat winit ++ sinit) ++ ph).
    { unfold word_plain, syll_plain. rewrite map_app, !concat_app. cbn [map concat].
      rewrite concat_app. cbn [concat]. rewrite !app_nil_r, <- app_assoc. f_equal.
      symmetry. apply (@concat_concat char). }
    rewrite EP. apply collapse_spaces_ws_free.
    apply ws_free_app. split; [|exact Hwph]. apply ws_free_concat.
    apply Forall_app. split; [|exact Hwsi]. apply Forall_concat.
    eapply Forall_impl; [|exact Hfi]. intros syl ((_ & Hp & _) & _).
    eapply Forall_impl; [|exact Hp]. now intros q (_ & Hq & _).
  Qed.

  Lemma word_plain_nonnil (w : list (list str)) : word_ok xp xs xw w -> word_plain w <> [].
  Proof.
    intros (Hn & Hs & _). destruct Hs as [|syl w Hsy _]; [congruence|].
    unfold word_plain. cbn [map]. apply concat_nonnil_hd. now apply (syl_plain_nonnil syl).
  Qed.

  (* ---- the theorems ---- *)

  Theorem tokenize_word3 : forall t : utree, tree_ok xp xs xw t -> tree_hf t ->
    tokenize sep (render sep t) Word false = Ok (map word_plain t).
  Proof.
    intros t H Hh. unfold sep. rewrite tokenize3_word. cbv zeta.
    rewrite tok1_word3 by assumption. f_equal.
    rewrite !map_map.
    rewrite (map_ext_Forall _ word_plain).
    2:{ apply Forall_forall. intros w Hin. apply word_strip_remove.
        - exact (proj1 (Forall_forall _ _) H w Hin).
        - exact (proj1 (Forall_forall _ _) Hh w Hin). }
    apply filter_nonempty_id. apply Forall_map.
    eapply Forall_impl; [|exact H]. intros w. apply word_plain_nonnil.
  Qed.

  Theorem tokenize_syll3 : forall t : utree, tree_ok xp xs xw t -> tree_hf t ->
    tokenize sep (render sep t) Syll false = Ok (concat (map (map syll_plain) t)).
  Proof.
    intros t H Hh. unfold sep. rewrite tokenize3_syll. cbv zeta.
    rewrite tok1_word3, flat_syll3 by assumption. f_equal.
    rewrite !map_map, <- concat_map.
    assert (Hf : Forall syl_facts (concat t)).
    { apply Forall_concat. apply Forall_forall. intros w Hin. apply word_syl_facts.
      - exact (proj1 (Forall_forall _ _) H w Hin).
      - exact (proj1 (Forall_forall _ _) Hh w Hin). }
    rewrite (map_ext_Forall _ syll_plain).
    2:{ eapply Forall_impl; [|exact Hf]. intros syl. apply syl_strip_remove. }
    apply filter_nonempty_id. apply Forall_map.
    eapply Forall_impl; [|exact Hf]. intros syl (Hy & _). now apply syl_plain_nonnil.
  Qed.

End ThreeStrip.
