(* C08, layer 3: word > syllable > phone trees, compact rendering. *)
From WS Require Import Base.Py Base.Str Separator.Model Separator.Render.
From WS Require Import Separator.StrLemmas Separator.StripLemmas.

(* ---------- one level of tokenization on a terminated string ---------- *)

Lemma tok1_terminated (sep : separator) (l : level) (x : str) (toks : list str) :
  get_level sep l = Some x -> x <> [] ->
  Forall (fun t : str => t <> [] /\ clean_ends t /\ only_at_end x t = true) toks ->
  tok1 sep (terminated x toks) l = toks.
Proof.
  intros Hl Hx H. unfold tok1. rewrite Hl. unfold terminated.
  rewrite split_on_joined; [|exact Hx|].
  2:{ eapply Forall_impl; [|exact H]. now intros t (_ & _ & Ht). }
  rewrite filter_app. cbn [filter nonempty]. rewrite app_nil_r.
  rewrite filter_nonempty_id.
  2:{ eapply Forall_impl; [|exact H]. now intros t (Ht & _). }
  apply map_id_Forall. eapply Forall_impl; [|exact H].
  intros t (Hn & Hc & Ho). apply strip_with_id; [|exact Hc].
  constructor; [now apply only_at_end_no_infix|constructor].
Qed.

(* ---------- three defined levels ---------- *)

Definition sep3 (xp xs xw : str) : separator :=
  {| s_phone := Some xp; s_syll := Some xs; s_word := Some xw |}.

Definition word_body (xp xs : str) (w : list (list str)) : str :=
  terminated xs (map (terminated xp) w).

Lemma render3_eq (xp xs xw : str) (t : utree) :
  render (sep3 xp xs xw) t = terminated xw (map (word_body xp xs) t).
Proof.
  unfold render, render_word, render_syll, word_body, terminated.
  cbn [sep3 s_phone s_syll s_word osep].
  rewrite map_map. f_equal. apply map_ext. intros w. f_equal. now rewrite map_map.
Qed.

Lemma word_body_eq (xp xs xw : str) (w : list (list str)) :
  word_body xp xs w = concat (map (render_syll (sep3 xp xs xw)) w).
Proof.
  unfold word_body, terminated, render_syll. cbn [sep3 s_phone s_syll osep].
  now rewrite map_map.
Qed.

Lemma plain_phones (t : utree) : concat (map word_plain t) = concat (concat (concat t)).
Proof.
  induction t as [|w t IH]; [reflexivity|].
  cbn [map concat]. rewrite !concat_app, IH. f_equal.
  unfold word_plain, syll_plain. symmetry. apply (@concat_concat char).
Qed.

Lemma remove_all3 (xp xs xw u : str) :
  remove_all (sep3 xp xs xw) u
  = collapse_spaces (replace_all xp [] (replace_all xs [] (replace_all xw [] u))).
Proof. reflexivity. Qed.

Lemma tokenize3_phone (xp xs xw utt : str) (keep : bool) :
  let sep := sep3 xp xs xw in
  tokenize sep utt Phone keep =
  Ok (filter nonempty
        (let t3 := map (strip_with [xw; xs; xp])
                       (flat_map (fun s : str => tok1 sep s Phone)
                          (flat_map (fun w : str => tok1 sep w Syll) (tok1 sep utt Word))) in
         if keep then t3 else map (remove_all sep) t3)).
Proof. reflexivity. Qed.

Lemma tokenize3_syll (xp xs xw utt : str) (keep : bool) :
  let sep := sep3 xp xs xw in
  tokenize sep utt Syll keep =
  Ok (filter nonempty
        (let t3 := map (strip_with [xw; xs; xp])
                       (flat_map (fun w : str => tok1 sep w Syll) (tok1 sep utt Word)) in
         if keep then t3 else map (remove_all sep) t3)).
Proof. reflexivity. Qed.

Lemma tokenize3_word (xp xs xw utt : str) (keep : bool) :
  let sep := sep3 xp xs xw in
  tokenize sep utt Word keep =
  Ok (filter nonempty
        (let t3 := map (strip_with [xw; xs; xp]) (tok1 sep utt Word) in
         if keep then t3 else map (remove_all sep) t3)).
Proof. reflexivity. Qed.

Section Three.
  Variables xp xs xw : str.
  Hypothesis Hxp : xp <> [].
  Hypothesis Hxs : xs <> [].
  Hypothesis Hxw : xw <> [].

  Let sep := sep3 xp xs xw.

  Definition phone_ok (ph : str) : Prop :=
    ph <> [] /\ ws_free ph /\ only_at_end xp ph = true.
  Definition syl_ok (syl : list str) : Prop :=
    syl <> [] /\ Forall phone_ok syl /\ only_at_end xs (terminated xp syl) = true.
  Definition word_ok (w : list (list str)) : Prop :=
    w <> [] /\ Forall syl_ok w /\ only_at_end xw (word_body xp xs w) = true.
  Definition tree_ok (t : utree) : Prop := Forall word_ok t.

  (* what a recovered phone satisfies w.r.t. all three separators *)
  Definition phone_full (ph : str) : Prop :=
    ph <> [] /\ ws_free ph /\
    infix_b xp ph = false /\ infix_b xs ph = false /\ infix_b xw ph = false.

  Lemma word_ok_phones (w : list (list str)) : word_ok w -> Forall phone_full (concat w).
  Proof.
    intros (_ & Hs & Hw). apply only_at_end_no_infix in Hw; [|exact Hxw].
    apply Forall_concat. apply Forall_forall. intros syl Hin.
    pose proof (proj1 (Forall_forall _ _) Hs syl Hin) as (_ & Hp & Hsy).
    apply only_at_end_no_infix in Hsy; [|exact Hxs].
    assert (Hwy : infix_b xw (terminated xp syl) = false).
    { eapply infix_b_false_In_terminated; [exact Hw|]. now apply in_map. }
    apply Forall_forall. intros ph Hph.
    pose proof (proj1 (Forall_forall _ _) Hp ph Hph) as (Hn & Hws & Ho).
    repeat split; try assumption.
    - now apply only_at_end_no_infix.
    - eapply infix_b_false_In_terminated; eauto.
    - eapply infix_b_false_In_terminated; eauto.
  Qed.

  Lemma tree_ok_phones (t : utree) : tree_ok t -> Forall phone_full (concat (concat t)).
  Proof.
    intros H. rewrite concat_concat. apply Forall_concat. apply Forall_map.
    eapply Forall_impl; [|exact H]. intros w. apply word_ok_phones.
  Qed.

  Lemma phone_full_seps (ph : str) : phone_full ph ->
    Forall (fun x : str => infix_b x ph = false) [xw; xs; xp].
  Proof. intros (_ & _ & H1 & H2 & H3). repeat constructor; assumption. Qed.

  Lemma phone_full_strip (ph : str) : phone_full ph -> strip_with [xw; xs; xp] ph = ph.
  Proof.
    intros H. apply strip_with_id; [now apply phone_full_seps|].
    apply ws_free_clean_ends, H.
  Qed.

  Lemma phone_full_remove (ph : str) : phone_full ph -> remove_all sep ph = ph.
  Proof.
    intros H. apply remove_all_id; [now apply phone_full_seps|].
    apply ws_free_no_sp, H.
  Qed.

  (* ---- remove ---- *)

  Theorem remove_render3 : forall t : utree, tree_ok t ->
    remove sep (render sep t) None = Ok (concat (map word_plain t)).
  Proof.
    intros t H. unfold remove. f_equal.
    change (remove_sel sep ?u (fun _ => true)) with (remove_all sep u).
    unfold sep. rewrite remove_all3. rewrite render3_eq. unfold terminated at 1.
    rewrite replace_all_joined; [|exact Hxw|].
    2:{ apply Forall_map. eapply Forall_impl; [|exact H]. now intros w (_ & _ & Hw). }
    (* syllable level *)
    assert (E1 : concat (map (word_body xp xs) t) = terminated xs (map (terminated xp) (concat t))).
    { unfold word_body. rewrite <- (map_map (map (terminated xp)) (terminated xs)).
      now rewrite concat_terminated, <- concat_map. }
    rewrite E1. unfold terminated at 1.
    rewrite replace_all_joined; [|exact Hxs|].
    2:{ apply Forall_map. apply Forall_concat.
        eapply Forall_impl; [|exact H]. intros w (_ & Hs & _).
        eapply Forall_impl; [|exact Hs]. now intros syl (_ & _ & Hy). }
    (* phone level *)
    rewrite concat_terminated. unfold terminated.
    pose proof (tree_ok_phones t H) as Hph.
    rewrite replace_all_joined; [|exact Hxp|].
    2:{ apply Forall_concat. apply Forall_concat.
        eapply Forall_impl; [|exact H]. intros w (_ & Hs & _).
        eapply Forall_impl; [|exact Hs]. intros syl (_ & Hp & _).
        eapply Forall_impl; [|exact Hp]. now intros ph (_ & _ & Ho). }
    rewrite plain_phones. apply collapse_spaces_ws_free, ws_free_concat.
    eapply Forall_impl; [|exact Hph]. now intros ph (_ & Hws & _).
  Qed.

  (* ---- tokenization, one level at a time ---- *)

  Hypothesis Hes : ends_ok xs.

  Lemma syl_body_starts (syl : list str) : syl_ok syl ->
    terminated xp syl <> [] /\ starts_ok (terminated xp syl).
  Proof.
    intros (Hn & Hp & _). split; [now apply terminated_nonnil|].
    destruct Hp as [|ph syl (Hph & Hws & _) _]; [congruence|].
    rewrite terminated_cons. apply starts_ok_app; [exact Hph|now apply ws_free_starts_ok].
  Qed.

  Lemma word_body_ok (w : list (list str)) : word_ok w ->
    word_body xp xs w <> [] /\ clean_ends (word_body xp xs w).
  Proof.
    intros (Hn & Hs & _). unfold word_body. split.
    { apply terminated_nonnil; [|exact Hxs]. destruct w; [congruence|discriminate]. }
    split.
    - destruct Hs as [|syl w Hsy _]; [congruence|]. cbn [map]. rewrite terminated_cons.
      destruct (syl_body_starts syl Hsy) as (Hne & Hst). now apply starts_ok_app.
    - unfold terminated at 1. apply ends_ok_concat.
      + destruct w; [congruence|discriminate].
      + apply Forall_map. apply Forall_map. eapply Forall_impl; [|exact Hs]. intros syl _. split.
        * destruct (terminated xp syl); cbn [app]; [exact Hxs|discriminate].
        * now apply ends_ok_app.
  Qed.

  Lemma tok1_word3 (t : utree) : tree_ok t ->
    tok1 sep (render sep t) Word = map (word_body xp xs) t.
  Proof.
    intros H. unfold sep. rewrite render3_eq. apply tok1_terminated; [reflexivity|exact Hxw|].
    apply Forall_map. eapply Forall_impl; [|exact H]. intros w Hw.
    destruct (word_body_ok w Hw) as [H1 H2]. split; [exact H1|split; [exact H2|apply Hw]].
  Qed.

  Hypothesis Hep : ends_ok xp.

  Lemma syl_body_ok (syl : list str) : syl_ok syl ->
    terminated xp syl <> [] /\ clean_ends (terminated xp syl).
  Proof.
    intros Hsy. destruct (syl_body_starts syl Hsy) as [H0 H1].
    destruct Hsy as (Hn & Hp & _). split; [exact H0|]. split; [exact H1|].
    - unfold terminated. apply ends_ok_concat.
      + destruct syl; [congruence|discriminate].
      + apply Forall_map. eapply Forall_impl; [|exact Hp]. intros ph _. split.
        * destruct ph; cbn [app]; [exact Hxp|discriminate].
        * now apply ends_ok_app.
  Qed.

  Lemma tok1_syll3 (w : list (list str)) : word_ok w ->
    tok1 sep (word_body xp xs w) Syll = map (terminated xp) w.
  Proof.
    intros (_ & Hs & _). unfold word_body. apply tok1_terminated; [reflexivity|exact Hxs|].
    apply Forall_map. eapply Forall_impl; [|exact Hs]. intros syl Hsy.
    destruct (syl_body_ok syl Hsy) as [H1 H2]. split; [exact H1|split; [exact H2|apply Hsy]].
  Qed.

  Lemma tok1_phone3 (syl : list str) : syl_ok syl ->
    tok1 sep (terminated xp syl) Phone = syl.
  Proof.
    intros (_ & Hp & _). apply tok1_terminated; [reflexivity|exact Hxp|].
    eapply Forall_impl; [|exact Hp]. intros ph (H1 & H2 & H3).
    split; [exact H1|split; [now apply ws_free_clean_ends|exact H3]].
  Qed.

  Lemma flat_syll3 (t : utree) : tree_ok t ->
    flat_map (fun w : str => tok1 sep w Syll) (map (word_body xp xs) t)
    = map (terminated xp) (concat t).
  Proof.
    intros H. rewrite flat_map_map.
    rewrite (flat_map_ext_Forall _ (fun w => map (terminated xp) w)).
    2:{ eapply Forall_impl; [|exact H]. intros w. apply tok1_syll3. }
    now rewrite flat_map_concat_map, <- concat_map.
  Qed.

  Lemma tree_ok_sylls (t : utree) : tree_ok t -> Forall syl_ok (concat t).
  Proof.
    intros H. apply Forall_concat. eapply Forall_impl; [|exact H]. now intros w (_ & Hs & _).
  Qed.

  Lemma flat_phone3 (t : utree) : tree_ok t ->
    flat_map (fun s : str => tok1 sep s Phone) (map (terminated xp) (concat t))
    = concat (concat t).
  Proof.
    intros H. rewrite flat_map_map.
    rewrite (flat_map_ext_Forall _ (fun syl => syl)).
    2:{ eapply Forall_impl; [|exact (tree_ok_sylls t H)]. intros syl. apply tok1_phone3. }
    apply flat_map_id_concat.
  Qed.

  Theorem tokenize_phone3 : forall (t : utree) (keep : bool), tree_ok t ->
    tokenize sep (render sep t) Phone keep = Ok (concat (map (@concat str) t)).
  Proof.
    intros t keep H. unfold sep. rewrite tokenize3_phone. cbv zeta. fold sep.
    rewrite tok1_word3, flat_syll3, flat_phone3 by exact H.
    pose proof (tree_ok_phones t H) as Hph.
    rewrite (map_id_Forall (strip_with [xw; xs; xp])).
    2:{ eapply Forall_impl; [|exact Hph]. apply phone_full_strip. }
    rewrite <- concat_concat. f_equal.
    assert (Hne : filter nonempty (concat (concat t)) = concat (concat t)).
    { apply filter_nonempty_id. eapply Forall_impl; [|exact Hph]. now intros ph (Hn & _). }
    destruct keep; [exact Hne|].
    rewrite (map_id_Forall (remove_all sep)); [exact Hne|].
    eapply Forall_impl; [|exact Hph]. apply phone_full_remove.
  Qed.

End Three.
