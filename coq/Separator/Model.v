(* Model of wordseg/separator.py for regex-literal separator strings:
   re.split(sep, s) = split_on sep s, re.sub(sep, '', s) = replace_all sep [] s. *)
From WS Require Import Base.Py Base.Str.

Record separator := { s_phone : option str; s_syll : option str; s_word : option str }.
Inductive level := Phone | Syll | Word.

Definition get_level (sep : separator) (l : level) : option str :=
  match l with Phone => s_phone sep | Syll => s_syll sep | Word => s_word sep end.

Definition nonempty (s : str) : bool := match s with [] => false | _ => true end.

(* the 17 forbidden characters of separator.py (ASCII punctuation) *)
Definition forbidden : list char :=
  [33; 35; 36; 37; 38; 39; 42; 43; 45; 46; 94; 96; 124; 126; 58; 92; 34]%N.
Definition has_forbidden (s : str) : bool :=
  existsb (fun c => existsb (fun f => (c =? f)%N) forbidden) s.

Fixpoint has_dup (l : list str) : bool :=
  match l with
  | [] => false
  | x :: r => existsb (str_eqb x) r || has_dup r
  end.

(* `x if x else None`: None and '' are both "undefined" *)
Definition truthy (o : option str) : option str :=
  match o with Some [] => None | _ => o end.

Definition defined (l : list (option str)) : list str :=
  flat_map (fun o => match o with Some s => [s] | None => [] end) l.

Definition mk_separator (p s w : option str) : result separator :=
  let p := truthy p in let s := truthy s in let w := truthy w in
  if has_dup (defined [p; s; w]) then Raise ValueError
  else if existsb has_forbidden (defined [p; s; w]) then Raise ValueError
  else Ok {| s_phone := p; s_syll := s; s_word := w |}.

(* ---- strip ---- *)

Fixpoint first_prefix (seps : list str) (s : str) : option str :=
  match seps with
  | [] => None
  | x :: r => if nonempty x && prefix_b x s then Some x else first_prefix r s
  end.

(* removal of the leading separator groups (separators, then whitespace, repeated): deterministic greedy run.
   mode: false = a separator is required next (start of a group),
         true  = inside a group: separators, then whitespace *)
Fixpoint strip_prefix_go (fuel : nat) (seps : list str) (s : str) (in_ws : bool) : str :=
  match fuel with
  | O => s
  | S f =>
    if in_ws then
      match s with
      | c :: s' => if is_space c then strip_prefix_go f seps s' true
                   else strip_prefix_go f seps s false
      | [] => s
      end
    else
      match first_prefix seps s with
      | Some x => strip_prefix_seps f seps (skipn (length x) s)
      | None => s
      end
  end
with strip_prefix_seps (fuel : nat) (seps : list str) (s : str) : str :=
  (* at least one separator consumed in this group: more separators, then whitespace *)
  match fuel with
  | O => s
  | S f =>
    match first_prefix seps s with
    | Some x => strip_prefix_seps f seps (skipn (length x) s)
    | None => strip_prefix_go f seps s true
    end
  end.

(* the group loop above restarts a group after whitespace only if a separator
   follows; otherwise the match ends *after* the whitespace *)
Definition strip_prefix (seps : list str) (s : str) : str :=
  strip_prefix_go (2 * length s + 2) seps s false.

(* removal of the trailing separator groups: leftmost p such that s[p:] is a separator followed by separators and whitespace *)
(* tbl[k] = "skipn k s is a sequence of separators and whitespace" (dynamic programming, right to left) *)
Fixpoint tails_tbl (seps : list str) (s : str) : list bool :=
  match s with
  | [] => [true]
  | c :: s' =>
    let t := tails_tbl seps s' in
    ((is_space c && hd false t) ||
     existsb (fun x => nonempty x && prefix_b x s && nth (length x - 1) t false) seps) :: t
  end.

Fixpoint strip_suffix_go (seps : list str) (s : str) (tbl : list bool) : str :=
  match s with
  | [] => []
  | c :: s' =>
    if existsb (fun x => nonempty x && prefix_b x s && nth (length x) tbl false) seps then []
    else c :: strip_suffix_go seps s' (tl tbl)
  end.
Definition strip_suffix (seps : list str) (s : str) : str :=
  strip_suffix_go seps s (tails_tbl seps s).

Definition levels_for (sep : separator) (l : option level) : list str :=
  match l with
  | None => defined [s_word sep; s_syll sep; s_phone sep]
  | Some l => defined [get_level sep l]
  end.

Definition check_level (sep : separator) (l : level) : result unit :=
  match get_level sep l with Some _ => Ok tt | None => Raise ValueError end.

Definition strip_with (seps : list str) (utt : str) : str :=
  match seps with
  | [] => strip utt            (* no separator defined: whitespace only *)
  | _ => strip (strip_suffix seps (strip_prefix seps utt))
  end.

Definition sep_strip (sep : separator) (utt : str) (l : option level) : result str :=
  do _ <- match l with Some l => check_level sep l | None => Ok tt end;
  Ok (strip_with (levels_for sep l) utt).

(* ---- remove ---- *)

Definition remove_sel (sep : separator) (utt : str) (sel : level -> bool) : str :=
  let u1 := match s_word sep with Some x => if sel Word then replace_all x [] utt else utt | None => utt end in
  let u2 := match s_syll sep with Some x => if sel Syll then replace_all x [] u1 else u1 | None => u1 end in
  let u3 := match s_phone sep with Some x => if sel Phone then replace_all x [] u2 else u2 | None => u2 end in
  collapse_spaces u3.

Definition level_eqb (a b : level) : bool :=
  match a, b with Phone, Phone | Syll, Syll | Word, Word => true | _, _ => false end.

Definition remove (sep : separator) (utt : str) (l : option level) : result str :=
  match l with
  | None => Ok (remove_sel sep utt (fun _ => true))
  | Some l => do _ <- check_level sep l; Ok (remove_sel sep utt (level_eqb l))
  end.

Definition remove_all (sep : separator) (utt : str) : str := remove_sel sep utt (fun _ => true).

(* ---- tokenize ---- *)

(* _tokenize(utterance, level) *)
Definition tok1 (sep : separator) (utt : str) (l : level) : list str :=
  match get_level sep l with
  | None => [utt]
  | Some x => map (fun t => strip_with [x] t) (filter nonempty (split_on x utt))
  end.

Definition tokenize (sep : separator) (utt : str) (l : level) (keep : bool) : result (list str) :=
  do _ <- check_level sep l;
  let t0 := match s_word sep with Some _ => tok1 sep utt Word | None => [utt] end in
  let t1 := match l, s_syll sep with
            | Word, _ => t0
            | _, Some _ => flat_map (fun w => tok1 sep w Syll) t0
            | _, None => t0
            end in
  let t2 := match l, s_phone sep with
            | Phone, Some _ => flat_map (fun s => tok1 sep s Phone) t1
            | _, _ => t1
            end in
  let t3 := map (strip_with (levels_for sep None)) t2 in
  let t4 := if keep then t3 else map (remove_all sep) t3 in
  Ok (filter nonempty t4).

(* nested tokenization: words > syllables > phones, undefined levels removed *)
Inductive tree := Leaf (s : str) | Node (l : list tree).

Definition hd_tree (l : list tree) : result tree :=
  match l with x :: _ => Ok x | [] => Raise IndexError end.

Definition tokenize_nested (sep : separator) (utt : str) : result tree :=
  let full := map (fun w => map (fun s => tok1 sep s Phone) (tok1 sep w Syll)) (tok1 sep utt Word) in
  (* words: list (list (list str)) *)
  let t3 : list (list (list str)) := full in
  (* remove undefined levels, as the code does *)
  match s_phone sep, s_syll sep, s_word sep with
  | Some _, Some _, Some _ => Ok (Node (map (fun w => Node (map (fun s => Node (map Leaf s)) w)) t3))
  | None, Some _, Some _ =>
    do t <- mapM (fun w => mapM (fun s => match s with x :: _ => Ok (Leaf x) | [] => Raise IndexError end) w) t3;
    Ok (Node (map Node t))
  | Some _, None, Some _ =>
    do t <- mapM (fun w => match w with s :: _ => Ok (Node (map Leaf s)) | [] => Raise IndexError end) t3;
    Ok (Node t)
  | None, None, Some _ =>
    do t <- mapM (fun w => match w with (x :: _) :: _ => Ok (Leaf x) | _ => Raise IndexError end) t3;
    Ok (Node t)
  | Some _, Some _, None =>
    match t3 with w :: _ => Ok (Node (map (fun s => Node (map Leaf s)) w)) | [] => Raise IndexError end
  | None, Some _, None =>
    match t3 with
    | w :: _ => do t <- mapM (fun s => match s with x :: _ => Ok (Leaf x) | [] => Raise IndexError end) w; Ok (Node t)
    | [] => Raise IndexError end
  | Some _, None, None =>
    match t3 with (s :: _) :: _ => Ok (Node (map Leaf s)) | _ => Raise IndexError end
  | None, None, None =>
    match t3 with ((x :: _) :: _) :: _ => Ok (Leaf x) | _ => Raise IndexError end
  end.

(* ---- split ---- *)

Fixpoint lstrip_sp (s : str) : str :=
  match s with c :: s' => if (c =? sp)%N then lstrip_sp s' else s | [] => [] end.

Definition split (sep : separator) (utt : str) (l : level) (keep : bool) : result (list str) :=
  match get_level sep l with
  | None => Raise ValueError
  | Some x =>
    let toks := split_on x utt in
    let toks := if keep then map collapse_spaces toks else map (remove_all sep) toks in
    Ok (map lstrip_sp toks)
  end.

(* ---------- wire ---------- *)

Definition d_sep (j : J) : option separator :=
  match j with
  | JL [p; s; w] =>
    match d_option d_str p, d_option d_str s, d_option d_str w with
    | Some p, Some s, Some w => Some {| s_phone := truthy p; s_syll := truthy s; s_word := truthy w |}
    | _, _, _ => None end
  | _ => None end.

Definition d_level (j : J) : option level :=
  match j with JI 0 => Some Phone | JI 1 => Some Syll | JI 2 => Some Word | _ => None end%Z.

Fixpoint j_tree (t : tree) : J :=
  match t with
  | Leaf s => JL [JI 0; j_str s]
  | Node l => JL [JI 1; JL (map j_tree l)]
  end.

(* [kind; sep; utt; level option; keep] kind: 0 ctor 1 tokenize 2 nested 3 remove 4 strip 5 split *)
Definition run_separator (j : J) : J :=
  match j with
  | JL [JI k; sepj; utt; lv; keep] =>
    match d_str utt, d_option d_level lv, d_bool keep with
    | Some utt, Some lv, Some keep =>
      if (k =? 0)%Z then
        match sepj with
        | JL [p; s; w] =>
          match d_option d_str p, d_option d_str s, d_option d_str w with
          | Some p, Some s, Some w => j_result (fun _ => JL []) (mk_separator p s w)
          | _, _, _ => j_bad end
        | _ => j_bad end
      else
      match d_sep sepj with
      | None => j_bad
      | Some sep =>
        if (k =? 1)%Z then
          match lv with Some l => j_result (j_list j_str) (tokenize sep utt l keep) | None => j_bad end
        else if (k =? 2)%Z then j_result j_tree (tokenize_nested sep utt)
        else if (k =? 3)%Z then j_result j_str (remove sep utt lv)
        else if (k =? 4)%Z then j_result j_str (sep_strip sep utt lv)
        else if (k =? 5)%Z then
          match lv with Some l => j_result (j_list j_str) (split sep utt l keep) | None => j_bad end
        else j_bad
      end
    | _, _, _ => j_bad end
  | _ => j_bad end.
