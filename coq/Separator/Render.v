(* Compact joining of a token hierarchy: every token is followed by its
   separator (when that level is defined) and nothing else is added. *)
From WS Require Import Base.Py Base.Str Separator.Model.

Definition osep (o : option str) : str := match o with Some x => x | None => [] end.

(* utterance = list of words; word = list of syllables; syllable = list of phones *)
Definition utree := list (list (list str)).

Definition render_syll (sep : separator) (syl : list str) : str :=
  match s_phone sep with
  | Some p => concat (map (fun ph => ph ++ p) syl)
  | None => concat syl
  end ++ osep (s_syll sep).

Definition render_word (sep : separator) (w : list (list str)) : str :=
  concat (map (render_syll sep) w) ++ osep (s_word sep).

Definition render (sep : separator) (t : utree) : str :=
  concat (map (render_word sep) t).

Definition syll_plain (syl : list str) : str := concat syl.
Definition word_plain (w : list (list str)) : str := concat (map syll_plain w).

(* offset of the leftmost occurrence *)
Fixpoint first_occ (x s : str) : option nat :=
  if prefix_b x s then Some 0
  else match s with
       | [] => None
       | _ :: s' => match first_occ x s' with Some n => Some (S n) | None => None end
       end.

(* in [tok ++ x] the separator x occurs first at the end of tok *)
Definition only_at_end (x tok : str) : bool :=
  match first_occ x (tok ++ x) with
  | Some n => Nat.eqb n (length tok)
  | None => false
  end.
