(* C08: boolean versions of the hypotheses of the layer-3 theorems (so that a harness
   can evaluate them on concrete cases) and the round-trip theorems restated with them. *)
From WS Require Import Base.Py Base.Str Separator.Model Separator.Render.
From WS Require Import Separator.StrLemmas Separator.StripLemmas Separator.ProofsTree
  Separator.ProofsTreeStrip Separator.ProofsNested Separator.ProofsWsPhone.

Definition ws_free_b (s : str) : bool := forallb (fun c : char => negb (is_space c)) s.
Definition ws_only_b (s : str) : bool := forallb is_space s.
Definition ends_ok_b (s : str) : bool :=
  match rev s with c :: _ => negb (is_space c) | [] => true end.
Definition head_free_b (seps : list str) (ph : str) : bool :=
  forallb (fun c : char =>
    forallb (fun x : str => match x with d :: _ => negb (d =? c)%N | [] => true end) seps) ph.
Definition no_border_b (x R : str) : bool :=
  forallb (fun k : nat => negb (str_eqb (firstn k x) (skipn (length R - k) R)))
          (seq 1 (length x - 1)).

Lemma ws_free_b_sound (s : str) : ws_free_b s = true -> ws_free s.
Proof.
  unfold ws_free_b, ws_free. rewrite forallb_forall, Forall_forall.
  intros H c Hc. specialize (H c Hc). now destruct (is_space c).
Qed.

Lemma ws_only_b_sound (s : str) : ws_only_b s = true -> ws_only s.
Proof. unfold ws_only_b, ws_only. now rewrite forallb_forall, Forall_forall. Qed.

Lemma ends_ok_b_sound (s : str) : ends_ok_b s = true -> ends_ok s.
Proof.
  unfold ends_ok_b, ends_ok. destruct (rev s) as [|c r]; [reflexivity|].
  intros H. apply starts_ok_hd. now destruct (is_space c).
Qed.

Lemma head_free_b_sound (seps : list str) (ph : str) :
  head_free_b seps ph = true -> head_free seps ph.
Proof.
  unfold head_free_b, head_free. rewrite forallb_forall, Forall_forall.
  intros H c Hc. specialize (H c Hc). rewrite forallb_forall in H.
  apply Forall_forall. intros x Hx. specialize (H x Hx).
  destruct x as [|d x]; cbn [hd_error]; [discriminate|].
  intros E. injection E as ->. now rewrite N.eqb_refl in H.
Qed.

Lemma no_border_b_sound (x R : str) : no_border_b x R = true -> no_border x R.
Proof.
  unfold no_border_b, no_border. rewrite forallb_forall.
  intros H u x2 v -> ->.
  destruct u as [|c u]; [now left|]. destruct x2 as [|d x2]; [now right|]. exfalso.
  specialize (H (length (c :: u))).
  assert (Hin : In (length (c :: u)) (seq 1 (length ((c :: u) ++ d :: x2) - 1))).
  { apply in_seq. rewrite app_length. cbn [length]. lia. }
  specialize (H Hin).
  rewrite firstn_app, Nat.sub_diag, firstn_all, firstn_O, app_nil_r in H.
  rewrite app_length in H.
  replace (length v + length (c :: u) - length (c :: u)) with (length v) in H by lia.
  rewrite skipn_app_exact, str_eqb_refl in H. discriminate.
Qed.

(* ---- the tree ---- *)

Definition phone_ok_b (xp ph : str) : bool :=
  nonempty ph && ws_free_b ph && only_at_end xp ph.
Definition syl_ok_b (xp xs : str) (syl : list str) : bool :=
  match syl with [] => false | _ => true end &&
  forallb (phone_ok_b xp) syl && only_at_end xs (terminated xp syl).
Definition word_ok_b (xp xs xw : str) (w : list (list str)) : bool :=
  match w with [] => false | _ => true end &&
  forallb (syl_ok_b xp xs) w && only_at_end xw (word_body xp xs w).
Definition tree_ok_b (xp xs xw : str) (t : utree) : bool := forallb (word_ok_b xp xs xw) t.
Definition tree_hf_b (xp xs xw : str) (t : utree) : bool :=
  forallb (forallb (forallb (head_free_b [xw; xs; xp]))) t.
Definition nb3_b (xp xs xw : str) : bool :=
  forallb (fun x : str => forallb (no_border_b x) [xp; xp ++ xs]) [xw; xs; xp].

Lemma forallb_Forall {A} (f : A -> bool) (P : A -> Prop) (l : list A) :
  (forall a, f a = true -> P a) -> forallb f l = true -> Forall P l.
Proof.
  intros Hf H. rewrite forallb_forall in H. apply Forall_forall. auto.
Qed.

Lemma phone_ok_b_sound (xp ph : str) : phone_ok_b xp ph = true -> phone_ok xp ph.
Proof.
  unfold phone_ok_b, phone_ok. rewrite !andb_true_iff. intros [[H1 H2] H3].
  split; [now apply nonempty_true|]. split; [now apply ws_free_b_sound|exact H3].
Qed.

Lemma syl_ok_b_sound (xp xs : str) (syl : list str) : syl_ok_b xp xs syl = true -> syl_ok xp xs syl.
Proof.
  unfold syl_ok_b, syl_ok. rewrite !andb_true_iff. intros [[H1 H2] H3].
  split; [destruct syl; [discriminate|discriminate]|].
  split; [|exact H3]. eapply forallb_Forall; [|exact H2]. apply phone_ok_b_sound.
Qed.

Lemma word_ok_b_sound (xp xs xw : str) (w : list (list str)) :
  word_ok_b xp xs xw w = true -> word_ok xp xs xw w.
Proof.
  unfold word_ok_b, word_ok. rewrite !andb_true_iff. intros [[H1 H2] H3].
  split; [destruct w; [discriminate|discriminate]|].
  split; [|exact H3]. eapply forallb_Forall; [|exact H2]. apply syl_ok_b_sound.
Qed.

Lemma tree_ok_b_sound (xp xs xw : str) (t : utree) :
  tree_ok_b xp xs xw t = true -> tree_ok xp xs xw t.
Proof. apply forallb_Forall, word_ok_b_sound. Qed.

Lemma tree_hf_b_sound (xp xs xw : str) (t : utree) :
  tree_hf_b xp xs xw t = true -> tree_hf xp xs xw t.
Proof.
  apply forallb_Forall. intros w. apply forallb_Forall. intros syl.
  apply forallb_Forall. intros ph. apply head_free_b_sound.
Qed.

Lemma nb3_b_sound (xp xs xw : str) : nb3_b xp xs xw = true ->
  forall x R : str, In x [xw; xs; xp] -> In R [xp; xp ++ xs] -> no_border x R.
Proof.
  unfold nb3_b. rewrite forallb_forall. intros H x R Hx HR.
  specialize (H x Hx). rewrite forallb_forall in H. now apply no_border_b_sound, H.
Qed.

(* ---- the round trip, all levels, one boolean hypothesis ---- *)

Definition c08_hyp_b (xp xs xw : str) (t : utree) : bool :=
  nonempty xp && nonempty xs && nonempty xw &&
  ends_ok_b xs && (ends_ok_b xp || ws_only_b xp) &&
  tree_ok_b xp xs xw t && tree_hf_b xp xs xw t && nb3_b xp xs xw.

Theorem c08_round_trip3 : forall (xp xs xw : str) (t : utree),
  c08_hyp_b xp xs xw t = true ->
  let sep := sep3 xp xs xw in
  tokenize sep (render sep t) Word false = Ok (map word_plain t) /\
  tokenize sep (render sep t) Syll false = Ok (concat (map (map syll_plain) t)) /\
  tokenize sep (render sep t) Phone false = Ok (concat (map (@concat str) t)) /\
  tokenize sep (render sep t) Phone true = Ok (concat (map (@concat str) t)) /\
  (exists tr : tree, tokenize_nested sep (render sep t) = Ok tr /\
                     leaves tr = concat (map (@concat str) t)) /\
  remove sep (render sep t) None = Ok (concat (map word_plain t)).
Proof.
  intros xp xs xw t H sep. unfold c08_hyp_b in H. rewrite !andb_true_iff in H.
  destruct H as [[[[[[[Hp Hs] Hw] Hes] Hep] Ht] Hh] Hnb].
  apply nonempty_true in Hp, Hs, Hw. apply ends_ok_b_sound in Hes.
  apply tree_ok_b_sound in Ht. apply tree_hf_b_sound in Hh.
  pose proof (nb3_b_sound _ _ _ Hnb) as NB.
  split; [now apply tokenize_word3|].
  apply orb_true_iff in Hep as [Hep|Hep].
  - apply ends_ok_b_sound in Hep.
    split; [now apply tokenize_syll3|].
    split; [now apply tokenize_phone3|]. split; [now apply tokenize_phone3|].
    split; [|now apply remove_render3].
    exists (tree_of t). split; [now apply tokenize_nested3|apply leaves_tree_of].
  - apply ws_only_b_sound in Hep.
    split; [now apply tokenize_syll3_ws|].
    split; [now apply tokenize_phone3_ws|]. split; [now apply tokenize_phone3_ws|].
    split; [|now apply remove_render3].
    exists (tree_of t). split; [now apply tokenize_nested3_ws|apply leaves_tree_of].
Qed.

(* the hypothesis is satisfiable: wordseg's default separators, with phones that share
   letters with ";esyll" and ";eword" *)
Example c08_default_config :
  let xp := [sp] in
  let xs := ([59; 101; 115; 121; 108; 108]%N : str) in      (* ;esyll *)
  let xw := ([59; 101; 119; 111; 114; 100]%N : str) in      (* ;eword *)
  let t : utree := [ [ [([104; 104]%N : str); ([101]%N : str)]; [([108]%N : str); ([111; 119]%N : str)] ];
                     [ [([115]%N : str); ([121]%N : str); ([100]%N : str)] ] ] in
  c08_hyp_b xp xs xw t = true.
Proof. vm_compute. reflexivity. Qed.
