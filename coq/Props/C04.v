From WS Require Import Base.Py Prepare.Model.
Theorem C04_placeholder : True. Proof. exact I. Qed.
Print Assumptions C04_placeholder.
