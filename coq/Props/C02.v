From WS Require Import Base.Py AG.Model.
Theorem C02_placeholder : True. Proof. exact I. Qed.
Print Assumptions C02_placeholder.
