(* C16 - A failing ag or dpseg process is never mistaken for a result.
   The configuration records ag_cfg_src / dp_cfg_src are regenerated from the
   Python sources on every run (gen/ProcCfg.v); the theorems below check iff the
   sources still set pipefail, test the return code, remove the run directory in
   a finally block and keep their temp files inside with-blocks. *)
From WS Require Import Base.Py AG.Proc gen.ProcCfg.

(* every number of runs, every position of the failing run, every exit mode *)
Theorem C16_ag_failure_raises : forall hs, Exists failing hs ->
  ag_segment_outcome ag_cfg_src hs = Raised RuntimeError.
Proof. intros hs H. apply ag_failure_raises; [reflexivity | reflexivity | exact H]. Qed.
Print Assumptions C16_ag_failure_raises.

Theorem C16_ag_success_returns : forall hs, Forall (fun h => ~ failing h) hs ->
  ag_segment_outcome ag_cfg_src hs = Returned.
Proof. intros hs H. apply ag_success_returns; [reflexivity | reflexivity | exact H]. Qed.
Print Assumptions C16_ag_success_returns.

Theorem C16_ag_no_temp_left : forall hs, ag_left_behind ag_cfg_src hs = [].
Proof. intros hs. apply ag_no_temp_left; reflexivity. Qed.
Print Assumptions C16_ag_no_temp_left.

Theorem C16_dpseg_failure_raises : forall hs, Forall well_formed hs -> Exists failing hs ->
  dp_segment_outcome dp_cfg_src hs = Raised RuntimeError.
Proof. intros hs Hw H. apply dp_failure_raises; [reflexivity | exact Hw | exact H]. Qed.
Print Assumptions C16_dpseg_failure_raises.

Theorem C16_dpseg_success_returns : forall hs, Forall (fun h => h = HOk) hs ->
  dp_segment_outcome dp_cfg_src hs = Returned.
Proof. exact (dp_success_returns dp_cfg_src). Qed.
Print Assumptions C16_dpseg_success_returns.

Theorem C16_dpseg_no_temp_left : forall hs, dp_left_behind dp_cfg_src hs = [].
Proof. intros hs. apply dp_no_temp_left; reflexivity. Qed.
Print Assumptions C16_dpseg_no_temp_left.

(* parallel folds (njobs > 1): whatever the schedule, no fold can leave its output file, because the
   folds run in threads (fix 0bab8df; with the process backend the theorem does not hold:
   Proc.dp_processes_may_leave) *)
Theorem C16_dpseg_no_temp_left_parallel : forall njobs hs, dp_may_leave dp_cfg_src njobs hs = [].
Proof. intros njobs hs. apply dp_parallel_no_temp_left; reflexivity. Qed.
Print Assumptions C16_dpseg_no_temp_left_parallel.

(* parallel runs of ag: at the moment segment() raises, whatever the schedule, no run can have its directory left,
   because the error is kept until every run is done (fix 49fc37e; without it: Proc.ag_unjoined_may_leave, and the
   same for the folds of dpseg: Proc.dp_unjoined_may_leave) *)
Theorem C16_ag_no_temp_left_parallel : forall njobs hs, ag_may_leave ag_cfg_src njobs hs = [].
Proof. intros njobs hs. apply ag_parallel_no_temp_left; reflexivity. Qed.
Print Assumptions C16_ag_no_temp_left_parallel.

(* why pipefail matters: without it every failure of the program is masked *)
Theorem C16_masked_without_pipefail : forall c h, ag_pipefail c = false -> 1 <= ag_after c ->
  ag_run_raises c h = false.
Proof. exact ag_masked_without_pipefail. Qed.
Print Assumptions C16_masked_without_pipefail.

Example C16_nonvacuous : failing (HSignal 9) /\ failing (HExit 3) /\ ~ failing HOk /\ well_formed (HSignal 11).
Proof. unfold failing, well_formed; cbn; repeat split; try lia; try discriminate; intros H; apply H; reflexivity. Qed.
