From WS Require Import Base.Py Prepare.Model.
Theorem C20_placeholder : True. Proof. exact I. Qed.
Print Assumptions C20_placeholder.
