From WS Require Import Base.Py Stats.Model.
Theorem C13_placeholder : True. Proof. exact I. Qed.
Print Assumptions C13_placeholder.
