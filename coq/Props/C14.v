From WS Require Import Base.Py Syll.Model.
Theorem C14_placeholder : True. Proof. exact I. Qed.
Print Assumptions C14_placeholder.
