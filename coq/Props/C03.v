From WS Require Import Base.Py Dpseg.Model.
Theorem C03_placeholder : True. Proof. exact I. Qed.
Print Assumptions C03_placeholder.
