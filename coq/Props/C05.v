From WS Require Import Base.Py Evaluate.Model.
Theorem C05_placeholder : True. Proof. exact I. Qed.
Print Assumptions C05_placeholder.
