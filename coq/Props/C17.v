(* C17 - Each wordseg command does what its Python function does.
   (a) option tables regenerated from ag.py / dpseg.py / main.cc / dpseg.cc on every run. *)
From WS Require Import Base.Py Cli.Options gen.Options gen.Mains.
From WS Require Import Base.Str Separator.Model Evaluate.Model Evaluate.ProofsScores Prepare.Model Prepare.Proofs Stats.Model Stats.Proofs Syll.Model Syll.ProofsLoop AG.Model AG.ModelProofs.

(* every option the Python wrapper puts on the ag command line is declared by getopt
   with the same arity (flag / takes a value) and handled by a case label *)
Theorem C17_ag_option_table_ok : ag_table_ok ag_py_rows ag_getopt ag_cases = true.
Proof. vm_compute. reflexivity. Qed.
Print Assumptions C17_ag_option_table_ok.

Theorem C17_ag_options_declared : forall f v, In (f, v) ag_py_rows ->
  lookup_flag ag_getopt f = Some v /\ In f ag_cases.
Proof. exact (ag_table_ok_spec _ _ _ C17_ag_option_table_ok). Qed.
Print Assumptions C17_ag_options_declared.

(* every long option the dpseg wrapper can pass is declared by the program with a compatible value type *)
Theorem C17_dpseg_option_table_ok : dp_table_ok dp_py_rows dp_cpp_rows = true.
Proof. vm_compute. reflexivity. Qed.
Print Assumptions C17_dpseg_option_table_ok.

Theorem C17_dpseg_options_declared : forall n k, In (n, k) dp_py_rows ->
  exists k', lookup_name dp_cpp_rows n = Some k' /\ kinds_compatible k k' = true.
Proof. exact (dp_table_ok_spec _ _ C17_dpseg_option_table_ok). Qed.
Print Assumptions C17_dpseg_options_declared.

(* which option values the commands leave out of the program's argument string (conditions regenerated
   from ag._command_line_arguments and dpseg.main): wordseg-ag skips exactly the unset options and unset
   flags - in particular no number, 0 included (fix ad98cf9; with "v in (None, False)" this fails:
   Cli.Options.in_none_false_skips_zero) *)
Theorem C17_ag_skips_only_unset : forall v, eval_cond ag_skip_cond v = true <-> v = PNone \/ v = PBool false.
Proof. intros v; split; [skip_cases v | intros [-> | ->]; reflexivity]. Qed.
Print Assumptions C17_ag_skips_only_unset.

(* wordseg-dpseg skips exactly the unset options (a False flag is formatted and removed afterwards) *)
Theorem C17_dpseg_skips_only_none : forall v, eval_cond dp_skip_cond v = true <-> v = PNone.
Proof. intros v; split; [skip_cases v | intros ->; reflexivity]. Qed.
Print Assumptions C17_dpseg_skips_only_none.

Theorem C17_zero_reaches_the_programs : forall q,
  eval_cond ag_skip_cond (PNum q) = false /\ eval_cond dp_skip_cond (PNum q) = false.
Proof.
  intros q. split.
  - destruct (eval_cond ag_skip_cond (PNum q)) eqn:E; [|reflexivity].
    apply C17_ag_skips_only_unset in E. destruct E; discriminate.
  - destruct (eval_cond dp_skip_cond (PNum q)) eqn:E; [|reflexivity].
    apply C17_dpseg_skips_only_none in E. discriminate.
Qed.
Print Assumptions C17_zero_reaches_the_programs.

(* no partial result: the main() of every command (regenerated table gen/Mains.v) writes to the result stream
   exactly once, outside any loop, so whatever the function has yielded before it fails, nothing is written *)
Theorem C17_every_command_writes_once : forall row, In row main_writes -> mode_of row = WriteAll.
Proof.
  assert (H : forallb (fun row => match mode_of row with WriteAll => true | WriteEach => false end) main_writes = true)
    by (vm_compute; reflexivity).
  intros row Hin. rewrite forallb_forall in H. specialize (H row Hin). destruct (mode_of row); [reflexivity | discriminate].
Qed.
Print Assumptions C17_every_command_writes_once.

Theorem C17_no_partial_result : forall row yielded, In row main_writes -> written (mode_of row) yielded true = [].
Proof. intros row yielded Hin. rewrite (C17_every_command_writes_once row Hin). reflexivity. Qed.
Print Assumptions C17_no_partial_result.

Example C17_ten_commands : length main_writes = 10.
Proof. reflexivity. Qed.

(* (b) which errors the function models can report: the commands turn ValueError / RuntimeError
   into a one-line fatal error; the classifications below say when nothing else can be raised *)
Theorem C17_evaluate_errors : forall text gold u e, evaluate text gold u = Raise e -> e = ValueError.
Proof. exact evaluate_only_value_error. Qed.
Print Assumptions C17_evaluate_errors.

Theorem C17_check_utterance_errors : forall utt sep cp w e, s_word sep = Some w ->
  check_utterance utt sep cp = Raise e -> e = ValueError.
Proof. exact check_utterance_only_value_error. Qed.
Print Assumptions C17_check_utterance_errors.

Theorem C17_stats_errors : forall raw sep e, describe_all raw sep = Raise e -> e = ValueError \/ e = ZeroDivisionError.
Proof. exact describe_all_errors. Qed.
Print Assumptions C17_stats_errors.

Theorem C17_syllabify_never_runtime_error : forall ons vow sep filling text strip_ tolerant e,
  syllabify ons vow sep filling text strip_ tolerant = Raise e -> e <> RuntimeError /\ e <> OutOfFuel.
Proof. exact syllabify_never_runtime_error_nor_out_of_fuel. Qed.
Print Assumptions C17_syllabify_never_runtime_error.

(* the option string of wordseg-ag on its way to the program (fix 7c13eaf): the wrapper reads -n / -x / -r argument by
   argument, so an argument that merely contains such letters (a file name given to -G, -F, -A ...) plays no part
   (with the former substring search a path like out-r1/g.lt was taken for the seed and rewritten); every run receives
   the arguments given, unchanged apart from the seed, and the seed of run i is the one given plus i *)
Theorem C17_ag_int_option_skip : forall (flag : char) (a : list str) (t : str) (b : list str),
  is_flag flag t = false -> attached flag t = None -> is_flag flag (last a []) = false ->
  int_option flag (a ++ t :: b) = int_option flag (a ++ b).
Proof. exact int_option_skip. Qed.
Print Assumptions C17_ag_int_option_skip.

Theorem C17_ag_run_arguments : forall (toks : list str) (nruns : nat) (rnd : list Z) (seed : Z) (l : list (list str)),
  int_option ch_r toks = Ok (Some seed) -> setup_seed toks nruns rnd = Ok l ->
  length l = nruns /\
  (forall i : nat, i < nruns ->
     int_option ch_r (nth i l []) = Ok (Some (seed + Z.of_nat i)%Z) /\ unseeded (nth i l []) = unseeded toks) /\
  NoDup l.
Proof. exact setup_seed_given_seeds. Qed.
Print Assumptions C17_ag_run_arguments.
