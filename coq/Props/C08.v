From WS Require Import Base.Py Separator.Model.
Theorem C08_placeholder : True. Proof. exact I. Qed.
Print Assumptions C08_placeholder.
