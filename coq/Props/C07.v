(* C07 — Folding covers every line exactly once and unfolding restores order.
   This file contains only statements closed by [exact]. *)
From WS Require Import Base.Py Folding.Model Folding.Proofs.
From Coq Require Import Sorting.Sorted Permutation.

(* default boundaries: k start indices 0, q, 2q, ... strictly increasing, all < n *)
Theorem C07_boundaries_spec : forall n k,
  (1 <= k)%Z -> (k <= Z.of_nat n)%Z ->
  boundaries n k = Ok (default_bounds n (Z.to_nat k)).
Proof. exact boundaries_ok. Qed.
Print Assumptions C07_boundaries_spec.

Theorem C07_default_bounds_valid : forall n k, 2 <= k -> k <= n ->
  valid_bounds (default_bounds n k).
Proof. exact default_bounds_valid. Qed.
Print Assumptions C07_default_bounds_valid.

Theorem C07_default_bounds_sorted : forall n k, 1 <= k -> k <= n ->
  StronglySorted lt (default_bounds n k).
Proof. exact default_bounds_sorted. Qed.
Print Assumptions C07_default_bounds_sorted.

Theorem C07_default_bounds_lt : forall n k i, 1 <= k -> k <= n -> i < k ->
  nth i (default_bounds n k) 0 < n.
Proof. exact default_bounds_lt. Qed.
Print Assumptions C07_default_bounds_lt.

(* k < 1 or k > len(text) raises ValueError *)
Theorem C07_boundaries_errors : forall n k,
  (k < 1)%Z \/ (Z.of_nat n < k)%Z -> boundaries n k = Raise ValueError.
Proof. exact boundaries_err. Qed.
Print Assumptions C07_boundaries_errors.

(* ... in every case: k = 1 and caller-given boundaries included (fix 3836b17) *)
Theorem C07_fold_errors : forall (A : Type) (text : list A) k (fb : option (list nat)),
  (k < 1)%Z \/ (Z.of_nat (length text) < k)%Z ->
  fold text k fb = Raise ValueError.
Proof. exact @fold_errors. Qed.
Print Assumptions C07_fold_errors.

Theorem C07_fold_empty_raises : forall (A : Type) (k : Z) (fb : option (list nat)),
  fold (@nil A) k fb = Raise ValueError.
Proof. exact @fold_empty_raises. Qed.
Print Assumptions C07_fold_empty_raises.

(* fold never fails on valid boundaries and returns fold_spec *)
Theorem C07_fold_with_ok : forall (A : Type) (text : list A) b,
  valid_bounds b -> fold_with text b = Ok (fold_spec text b).
Proof. exact @fold_with_ok. Qed.
Print Assumptions C07_fold_with_ok.

Theorem C07_fold_default_ok : forall (A : Type) (text : list A) k,
  (2 <= k)%Z -> (k <= Z.of_nat (length text))%Z ->
  fold text k None = Ok (fold_spec text (default_bounds (length text) (Z.to_nat k))).
Proof. exact @fold_default_ok. Qed.
Print Assumptions C07_fold_default_ok.

(* caller-given boundaries are used once the fold count has been accepted *)
Theorem C07_fold_custom_ok : forall (A : Type) (text : list A) k b,
  (2 <= k)%Z -> (k <= Z.of_nat (length text))%Z -> valid_bounds b ->
  fold text k (Some b) = Ok (fold_spec text b).
Proof. exact @fold_custom_ok. Qed.
Print Assumptions C07_fold_custom_ok.

Theorem C07_fold_count : forall (A : Type) (text : list A) b, valid_bounds b ->
  length (fst (fold_spec text b)) = length b /\ length (snd (fold_spec text b)) = length b.
Proof. exact @fold_count. Qed.
Print Assumptions C07_fold_count.

(* every fold is a rotation of the text ... *)
Theorem C07_fold_rotation : forall (A : Type) (text : list A) b i,
  valid_bounds b -> i < length b ->
  nth i (fst (fold_spec text b)) [] = skipn (cut text b i) text ++ firstn (cut text b i) text.
Proof. exact @fold_rotation. Qed.
Print Assumptions C07_fold_rotation.

(* ... hence contains every line exactly once *)
Theorem C07_fold_permutation : forall (A : Type) (text : list A) b i,
  valid_bounds b -> i < length b -> Permutation text (nth i (fst (fold_spec text b)) []).
Proof. exact @fold_permutation. Qed.
Print Assumptions C07_fold_permutation.

(* the final blocks of folds 0..k-1 are blocks k-1..0: each block is the
   final block of exactly one fold *)
Theorem C07_fold_last_blocks : forall (A : Type) (text : list A) b, valid_bounds b ->
  last_blocks (fst (fold_spec text b)) (snd (fold_spec text b)) = Ok (rev (blocks text b)).
Proof. exact @fold_last_blocks. Qed.
Print Assumptions C07_fold_last_blocks.

Theorem C07_unfold_fold : forall (A : Type) (text : list A) b, valid_bounds b ->
  unfold (fst (fold_spec text b)) (snd (fold_spec text b)) = Ok text.
Proof. exact @unfold_fold. Qed.
Print Assumptions C07_unfold_fold.

(* unfolding the folds after any line-wise transformation *)
Theorem C07_unfold_map : forall (A B : Type) (f : A -> B) (text : list A) b, valid_bounds b ->
  unfold (map (map f) (fst (fold_spec text b))) (snd (fold_spec text b)) = Ok (map f text).
Proof. exact @unfold_map. Qed.
Print Assumptions C07_unfold_map.

(* ... and after any per-fold transformation that keeps lines aligned *)
Theorem C07_unfold_transformed : forall (A B : Type) (R : A -> B -> Prop) (text : list A) b folds',
  valid_bounds b -> Forall2 (Forall2 R) (fst (fold_spec text b)) folds' ->
  exists out, unfold folds' (snd (fold_spec text b)) = Ok out /\ Forall2 R text out.
Proof. exact @unfold_transformed. Qed.
Print Assumptions C07_unfold_transformed.

Theorem C07_k1 : forall (A : Type) (text : list A) fb, text <> [] ->
  fold text 1 fb = Ok ([text], [0]) /\ unfold [text] [0] = Ok text.
Proof. intros A text fb H; split; [exact (fold_one_fold text fb H) | exact (unfold_single text)]. Qed.
Print Assumptions C07_k1.

(* non-vacuity: a concrete valid boundary vector, and the docstring example *)
Example C07_valid_example : valid_bounds [0; 2; 4].
Proof. repeat split; simpl; lia. Qed.
Example C07_fold_example :
  fold [1;2;3;4;5;6;7]%Z 3 (Some [0;2;4])
  = Ok ([[1;2;3;4;5;6;7]; [5;6;7;1;2;3;4]; [3;4;5;6;7;1;2]]%Z, [4;5;5]).
Proof. vm_compute. reflexivity. Qed.
(* an invalid fold count is refused also with k = 1 or caller-given boundaries *)
Example C07_fold_k1_empty : fold (@nil Z) 1 None = Raise ValueError.
Proof. vm_compute. reflexivity. Qed.
Example C07_fold_custom_bad_count : fold [1;2;3]%Z 4 (Some [0;2]) = Raise ValueError.
Proof. vm_compute. reflexivity. Qed.
