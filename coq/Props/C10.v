From WS Require Import Base.Py Dibs.Model.
Theorem C10_placeholder : True. Proof. exact I. Qed.
Print Assumptions C10_placeholder.
