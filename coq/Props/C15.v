(* C15 - placeholder until AG/ConcProofs.v is integrated *)
From WS Require Import Base.Py AG.Conc gen.ParseCounterProg.
Theorem C15_update_src_locked : forall cells, update_src cells = update_locked cells.
Proof. intros cells. reflexivity. Qed.
Print Assumptions C15_update_src_locked.
