(* C09 — TP places boundaries exactly at dips / below-average transitions.
   Statements only; proofs are in TP/Proofs.v. *)
From WS Require Import Base.Py Base.Str Base.Counter Base.CounterProofs TP.Model TP.Proofs.
From Coq Require Import QArith.
Local Open Scope nat_scope.

(* The dependency table computed by _train is f(XY)/f(X), f(XY)/f(Y) or (the
   argument of log2) f(XY)/(f(X)f(Y)) counted on the training stream with the
   utterance marker as a pseudo-unit, and 0 (= log2 1) for unseen pairs. *)
Theorem C09_counts_spec : forall d T a b,
  tp_get d (train d T) a b = dep_value d T a b.
Proof. exact tp_counts_spec. Qed.
Print Assumptions C09_counts_spec.

(* Relative mode: the scan over (prelast, last, unit, next) cuts between U[p]
   and U[p+1] exactly when cut_rel holds: 1 <= p, p+2 < |U| and (dip or one of
   the two units is the utterance marker). *)
Theorem C09_relative_scan : forall tp U,
  threshold_relative tp U = Ok (split_by (cut_rel tp U) U).
Proof. exact threshold_relative_spec. Qed.
Print Assumptions C09_relative_scan.

Theorem C09_absolute_scan : forall below U,
  threshold_absolute below U = Ok (split_by (cut_abs below U) U).
Proof. exact threshold_absolute_spec. Qed.
Print Assumptions C09_absolute_scan.

(* what split_by means: the words concatenate to the stream, none is empty and
   the word boundaries are exactly the positions p+1 with [cut p] *)
Theorem C09_split_concat : forall cut U, concat (split_by cut U) = U.
Proof. exact split_by_concat. Qed.
Print Assumptions C09_split_concat.

Theorem C09_split_bounds : forall cut U,
  bounds_from 0 (split_by cut U) = map S (filter cut (seq 0 (length U - 1))).
Proof. exact split_by_bounds. Qed.
Print Assumptions C09_split_bounds.

(* end to end on the word lists produced by segment(): *)
Theorem C09_relative : forall text train_text d,
  let U := units_of text in let T := train_units_of text train_text in
  cwords_of text train_text Relative d = Ok (split_by (cut_rel (dep_value d T) U) U).
Proof. exact cwords_relative_spec. Qed.
Print Assumptions C09_relative.

Theorem C09_absolute : forall text train_text d,
  let U := units_of text in let T := train_units_of text train_text in
  cwords_of text train_text Absolute d
  = Ok (split_by (cut_abs (fun a b => le_mean d (type_values d T) (dep_value d T a b)) U) U).
Proof. exact cwords_absolute_spec. Qed.
Print Assumptions C09_absolute.

Theorem C09_segment_is_render_of_cwords : forall text train_text t d, text <> [] ->
  segment text train_text t d = do cw <- cwords_of text train_text t d; Ok (render cw).
Proof. exact segment_eq_render. Qed.
Print Assumptions C09_segment_is_render_of_cwords.

(* ftp / btp: le_mean is "not greater than the mean over the bigram types" *)
Theorem C09_le_mean_arith : forall d vals v, d <> Mi -> vals <> [] ->
  le_mean d vals v = true <-> (v <= qsum vals / zq (Z.of_nat (length vals)))%Q.
Proof. exact le_mean_arith. Qed.
Print Assumptions C09_le_mean_arith.

(* non-vacuity: a stream with a dip *)
Example C09_example :
  segment [S_ [97;32;98;32;99]%Z; S_ [97;32;98]%Z] None Relative Ftp = Ok [S_ [97;98;32;99]%Z; S_ [97;98]%Z].
Proof. vm_compute. reflexivity. Qed.
