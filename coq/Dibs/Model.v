(* Model of wordseg/algos/dibs.py: CorpusSummary, Gold/Phrasal/Lexical
   segmenters, segment(). Probabilities are exact rationals. *)
From WS Require Import Base.Py Base.Str Base.Counter Separator.Model.
From Coq Require Import QArith Qabs Qminmax.
Local Open Scope Z_scope.

Definition pair_eqb (a b : str * str) : bool :=
  str_eqb (fst a) (fst b) && str_eqb (snd a) (snd b).

Record summary := {
  sm_sep : separator;
  sm_level : level;
  nlines : Z; nwords : Z; nphones : Z;
  lexicon : counter str;
  phrase_initial : counter str;
  phrase_final : counter str;
  internal : counter (str * str);
  spanning : counter (str * str);
  diphones : counter (str * str) }.

Definition hd_r {A} (l : list A) : result A :=
  match l with x :: _ => Ok x | [] => Raise IndexError end.
Definition last_r {A} (l : list A) : result A :=
  match rev l with x :: _ => Ok x | [] => Raise IndexError end.

Fixpoint zip_adj {A} (l : list A) : list (A * A) :=
  match l with
  | x :: ((y :: _) as r) => (x, y) :: zip_adj r
  | _ => []
  end.

Definition cadd_all {K} (eqb : K -> K -> bool) (c : counter K) (ks : list K) : counter K :=
  fold_left (fun c k => cadd eqb c k 1) ks c.

(* spanning diphones of consecutive words: (phones[i][-1], phones[i+1][0]) *)
Fixpoint spans_of (phones : list (list str)) : result (list (str * str)) :=
  match phones with
  | p1 :: ((p2 :: _) as r) =>
    do a <- last_r p1; do b <- hd_r p2; do rest <- spans_of r; Ok ((a, b) :: rest)
  | _ => Ok []
  end.

(* the per-word loop interleaves lexicon, internal and spanning updates; the
   counters are independent, so they are updated here one after the other,
   except that an IndexError on phones[i][-1] aborts everything *)
Definition read_utterance (s : summary) (utt : str) : result summary :=
  match utt with
  | [] => Ok s
  | _ =>
    do words <- tokenize (sm_sep s) utt Word true;
    do phones <- mapM (fun w => tokenize (sm_sep s) w (sm_level s) false) words;
    do p0 <- hd_r phones; do first <- hd_r p0;
    do pl <- last_r phones; do lst <- last_r pl;
    do sp <- spans_of phones;
    Ok {| sm_sep := sm_sep s; sm_level := sm_level s;
          nlines := nlines s + 1;
          nwords := nwords s + Z.of_nat (length words);
          nphones := nphones s + Z.of_nat (length (concat phones));
          lexicon := cadd_all str_eqb (lexicon s) words;
          phrase_initial := cadd str_eqb (phrase_initial s) first 1;
          phrase_final := cadd str_eqb (phrase_final s) lst 1;
          internal := cadd_all pair_eqb (internal s) (flat_map zip_adj phones);
          spanning := cadd_all pair_eqb (spanning s) sp;
          diphones := [] |}
  end.

Definition merge (a b : counter (str * str)) : counter (str * str) :=
  fold_left (fun c kv => cadd pair_eqb c (fst kv) (snd kv)) b a.

Fixpoint train_loop (s : summary) (text : list str) : result summary :=
  match text with
  | [] => Ok s
  | utt :: r =>
    match strip utt with
    | [] => train_loop s r
    | _ =>
      match s_word (sm_sep s) with
      | None => Raise TypeError                      (* `None in utt` *)
      | Some w =>
        if infix_b w utt then (do s' <- read_utterance s utt; train_loop s' r)
        else Raise ValueError
      end
    end
  end.

(* level: only phone or syllable *)
Definition corpus_summary (text : list str) (sep : separator) (lv : level) : result summary :=
  match lv with
  | Word => Raise ValueError
  | _ =>
    do s <- train_loop {| sm_sep := sep; sm_level := lv; nlines := 0; nwords := 0; nphones := 0;
                          lexicon := []; phrase_initial := []; phrase_final := [];
                          internal := []; spanning := []; diphones := [] |} text;
    Ok {| sm_sep := sm_sep s; sm_level := sm_level s; nlines := nlines s; nwords := nwords s;
          nphones := nphones s; lexicon := lexicon s; phrase_initial := phrase_initial s;
          phrase_final := phrase_final s; internal := internal s; spanning := spanning s;
          diphones := merge (internal s) (spanning s) |}
  end.

(* ---------- segmenters ---------- *)

Inductive kind := Gold | Phrasal | Lexical.

Definition zq (z : Z) : Q := inject_Z z.
Definition total {K} (c : counter K) : Z := fold_right (fun kv acc => snd kv + acc) 0 c.

(* _norm2pdf(d)[k] : 0 for absent keys *)
Definition pdf {K} (eqb : K -> K -> bool) (c : counter K) (k : K) : Q :=
  if cmem eqb c k then (zq (cget eqb c k) / zq (total c))%Q else 0%Q.

Definition pwb_estimate (s : summary) : result Q :=
  if (nphones s - nlines s =? 0) then Raise ZeroDivisionError
  else Ok (zq (nwords s - nlines s) / zq (nphones s - nlines s))%Q.

(* `self.pwb if self.pwb is not None else self._pwb()` *)
Definition pwb_value (s : summary) (pwb : option Q) : result Q :=
  match pwb with
  | Some q => Ok q
  | None => pwb_estimate s
  end.

Definition qle_b (x y : Q) : bool := Qle_bool x y.
Definition qlt_b (x y : Q) : bool := negb (Qle_bool y x).

(* first / last unit of each lexicon key, tokenized at the training level *)
Definition first_unit (s : summary) (w : str) : result str :=
  do us <- tokenize (sm_sep s) w (sm_level s) false; hd_r us.
Definition last_unit (s : summary) (w : str) : result str :=
  do us <- tokenize (sm_sep s) w (sm_level s) false; last_r us.

Definition init_diphones (k : kind) (s : summary) (pwb : option Q) : result (list ((str * str) * Q)) :=
  match k with
  | Gold =>
    Ok (map (fun kv => let d := fst kv in
                       (d, (zq (cget pair_eqb (spanning s) d)
                            / zq (cget pair_eqb (internal s) d + cget pair_eqb (spanning s) d))%Q))
            (diphones s))
  | Phrasal =>
    do p <- pwb_value s pwb;
    Ok (map (fun kv => let d := fst kv in
                       let num := (pdf str_eqb (phrase_final s) (fst d) * p * pdf str_eqb (phrase_initial s) (snd d))%Q in
                       let den := pdf pair_eqb (diphones s) d in
                       (d, if qle_b den num then 1%Q else (num / den)%Q))
            (diphones s))
  | Lexical =>
    do wi <- mapM (fun kv => first_unit s (fst kv)) (lexicon s);
    do wf <- mapM (fun kv => last_unit s (fst kv)) (lexicon s);
    let word_initial := cadd_all str_eqb [] wi in
    let word_final := cadd_all str_eqb [] wf in
    do p <- pwb_value s pwb;
    Ok (map (fun kv => let d := fst kv in
                       let num := (pdf str_eqb word_final (fst d) * p * pdf str_eqb word_initial (snd d))%Q in
                       let den := pdf pair_eqb (diphones s) d in
                       (d, if Qeq_bool den 0 || qlt_b den num then 1%Q else (num / den)%Q))
            (diphones s))
  end.

Fixpoint dget (t : list ((str * str) * Q)) (d : str * str) : Q :=
  match t with
  | [] => 1%Q
  | (k, v) :: r => if pair_eqb d k then v else dget r d
  end.

Definition wordsep_of (s : summary) : result str :=
  match s_word (sm_sep s) with Some w => Ok w | None => Raise TypeError end.

Fixpoint seg_loop (t : list ((str * str) * Q)) (thr : Q) (wordsep : str) (prev : str) (rest : list str)
  : list str :=
  match rest with
  | [] => []
  | u :: r =>
    (if qlt_b thr (dget t (prev, u)) then [wordsep; u] else [u]) ++ seg_loop t thr wordsep u r
  end.

(* since fix b848432 of the in-band separator: the words are built as lists of units ([cur] is the current word,
   reversed; [acc] the finished words, reversed) and joined by single spaces; no separator string is involved.
   [seg_loop] above is the former marker list, kept as a specification device (Dibs/Proofs.v). *)
Fixpoint seg_words (t : list ((str * str) * Q)) (thr : Q) (prev : str) (rest : list str)
         (cur : list str) (acc : list (list str)) : list (list str) :=
  match rest with
  | [] => rev (rev cur :: acc)
  | u :: r =>
    if qlt_b thr (dget t (prev, u)) then seg_words t thr u r [u] (rev cur :: acc)
    else seg_words t thr u r (u :: cur) acc
  end.

(* the text to segment is a suite of units separated by spaces (fix 1af026b: the word separator of the train text
   is no longer deleted from it, which lost every unit spelled like that separator) *)
Definition segment_utt (t : list ((str * str) * Q)) (thr : Q) (utt : str) : result str :=
  match split_ws utt with
  | [] => Raise IndexError
  | p0 :: rest => Ok (join [sp] (map (@concat char) (seg_words t thr p0 rest [p0] [])))
  end.

Definition segment (test : list str) (s : summary) (k : kind) (thr : Q) (pwb : option Q)
  : result (list str) :=
  (* AbstractSegmenter.__init__ *)
  do _ <- match pwb with
          | Some q => if qlt_b q 0 || qlt_b 1 q then Raise ValueError else Ok tt
          | None => Ok tt
          end;
  do _ <- (if qlt_b thr 0 || qlt_b 1 thr then Raise ValueError else Ok tt);
  do t <- init_diphones k s pwb;
  mapM (segment_utt t thr) test.

(* near ties: a decision whose exact margin is below 1e-9 is not judged, unless
   the float value is exact (0, 1, or a single correctly rounded division
   compared with an equal dyadic threshold in the gold model) *)
Definition eps : Q := (1 # 1000000000)%Q.
Definition near (k : kind) (p thr : Q) : bool :=
  if Qeq_bool p 0 || Qeq_bool p 1 then false
  else
    let close := qlt_b (Qabs (p - thr)) eps in
    match k with
    | Gold => close && negb (Qeq_bool p thr)
    | _ => close
    end.

Definition near_tie (test : list str) (s : summary) (k : kind) (thr : Q) (pwb : option Q) : bool :=
  match init_diphones k s pwb with
  | Ok t =>
    existsb (fun utt =>
               let ph := split_ws utt in
               existsb (fun d => near k (dget t d) thr) (zip_adj ph)) test
  | _ => false
  end.

(* ---------- wire ---------- *)

Definition j_Q (q : Q) : J := JL [JI (Qnum (Qred q)); JI (Zpos (Qden (Qred q)))].
Definition d_Q (j : J) : option Q :=
  match j with
  | JL [JI n; JI (Zpos d)] => Some (n # d)%Q
  | _ => None end.

Definition j_cnt1 (c : counter str) : J := j_list (j_pair j_str JI) c.
Definition j_cnt2 (c : counter (str * str)) : J := j_list (j_pair (j_pair j_str j_str) JI) c.
Definition j_summary (s : summary) : J :=
  JL [JI (nlines s); JI (nwords s); JI (nphones s); j_cnt1 (lexicon s);
      j_cnt1 (phrase_initial s); j_cnt1 (phrase_final s);
      j_cnt2 (internal s); j_cnt2 (spanning s); j_cnt2 (diphones s)].

Definition d_kind (j : J) : option kind :=
  match j with JI 0 => Some Gold | JI 1 => Some Phrasal | JI 2 => Some Lexical | _ => None end.

(* [train text; sep; level; test text; kind; thr; pwb option] *)
Definition run_dibs (j : J) : J :=
  match j with
  | JL [tr; sepj; lv; te; k; thr; pwb] =>
    match d_list d_str tr, d_sep sepj, d_level lv, d_list d_str te, d_kind k, d_Q thr, d_option d_Q pwb with
    | Some tr, Some sep, Some lv, Some te, Some k, Some thr, Some pwb =>
      match corpus_summary tr sep lv with
      | Raise e => JL [JL [JI 1; JI (exn_code e)]]
      | Ok s =>
        JL [JL [JI 0; j_summary s];
            j_result (j_list j_str) (segment te s k thr pwb);
            j_bool (near_tie te s k thr pwb);
            j_result (j_list (j_pair (j_pair j_str j_str) j_Q)) (init_diphones k s pwb)]
      end
    | _, _, _, _, _, _, _ => j_bad end
  | _ => j_bad end.
