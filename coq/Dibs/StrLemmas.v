(* String lemmas used by the DiBS proofs (split_ws tokens, join, despace,
   replace_go).  Self-contained: depends only on Base/.  Some lemmas are copies
   of TP/StrLemmas.v. *)
From WS Require Import Base.Py Base.Str Base.Seg.
Local Open Scope nat_scope.

Definition ws_free (s : str) : Prop := Forall (fun c : char => is_space c = false) s.

Lemma is_space_sp : is_space sp = true.
Proof. reflexivity. Qed.

Lemma nonspace_neq_sp (c : char) : is_space c = false -> (c =? sp)%N = false.
Proof.
  intros H. destruct (N.eqb_spec c sp) as [E|E]; [|reflexivity].
  subst c. rewrite is_space_sp in H. discriminate.
Qed.

(* ---------- split_ws ---------- *)

Lemma split_ws_go_ok (s : str) : forall acc : str,
  Forall (fun c => is_space c = false) acc -> Forall unit_ok (split_ws_go s acc).
Proof.
  assert (R : forall acc : str, acc <> [] -> Forall (fun c => is_space c = false) acc -> unit_ok (rev acc)).
  { intros acc Hn Hf. split.
    - intros E. apply Hn. apply (f_equal (@rev char)) in E. now rewrite rev_involutive in E.
    - now apply Forall_rev. }
  induction s as [|c s IH]; intros acc Hacc.
  - cbn [split_ws_go]. destruct acc as [|a acc]; [constructor|].
    constructor; [|constructor]. apply R; [discriminate|exact Hacc].
  - cbn [split_ws_go]. destruct (is_space c) eqn:Ec.
    + destruct acc as [|a acc].
      * apply IH. constructor.
      * constructor; [apply R; [discriminate|exact Hacc]|]. apply IH. constructor.
    + apply IH. constructor; assumption.
Qed.

(* split_ws tokens are non-empty and whitespace-free *)
Lemma split_ws_ok (s : str) : Forall unit_ok (split_ws s).
Proof. apply split_ws_go_ok. constructor. Qed.

(* ---------- join ---------- *)

Lemma join_cons2 (sep x y : str) (r : list str) :
  join sep (x :: y :: r) = x ++ sep ++ join sep (y :: r).
Proof. reflexivity. Qed.

Lemma join_cons_app (sep a x : str) (r : list str) :
  join sep ((a ++ x) :: r) = a ++ join sep (x :: r).
Proof. destruct r as [|y r]; [reflexivity|]. rewrite !join_cons2. now rewrite <- app_assoc. Qed.

(* ---------- despace ---------- *)

Lemma despace_app (a b : str) : despace (a ++ b) = despace a ++ despace b.
Proof. apply filter_app. Qed.

Lemma despace_nosp (u : str) : ws_free u -> despace u = u.
Proof.
  induction u as [|c u IH]; intros H; [reflexivity|].
  inversion H as [|? ? Hc Hu]; subst. unfold despace. cbn [filter].
  rewrite (nonspace_neq_sp c Hc). cbn [negb]. f_equal. now apply IH.
Qed.

Lemma despace_sp : despace [sp] = [].
Proof. reflexivity. Qed.

(* joining whitespace-free pieces with single spaces and then deleting the
   spaces gives the plain concatenation *)
Lemma despace_join (l : list str) : Forall ws_free l -> despace (join [sp] l) = concat l.
Proof.
  induction l as [|x l IH]; intros H; [reflexivity|].
  inversion H as [|? ? Hx Hl]; subst. specialize (IH Hl).
  destruct l as [|y l].
  - cbn [join concat]. rewrite app_nil_r. now apply despace_nosp.
  - rewrite join_cons2. rewrite !despace_app, despace_sp, IH.
    rewrite (despace_nosp x Hx). reflexivity.
Qed.

(* s.replace(' ', '') deletes the spaces *)
Lemma replace_sp_nil (s : str) : replace_all [sp] [] s = despace s.
Proof.
  cbn [replace_all]. induction s as [|c s IH]; [reflexivity|].
  cbn [replace_go prefix_b length Nat.sub app]. unfold despace. cbn [filter].
  rewrite N.eqb_sym.
  destruct (c =? sp)%N; cbn [andb negb].
  - destruct s; exact IH.
  - f_equal. exact IH.
Qed.

(* ---------- replace_go on a separator with a distinguished first char ---------- *)

Lemma prefix_b_self_app (p t : str) : prefix_b p (p ++ t) = true.
Proof.
  induction p as [|x p IH]; [reflexivity|]. cbn [app prefix_b]. now rewrite N.eqb_refl, IH.
Qed.

Lemma replace_go_skip (old new a rest : str) :
  replace_go old new (a ++ rest) (length a) = replace_go old new rest 0.
Proof.
  induction a as [|c a IH]; [reflexivity|]. cbn [app length replace_go]. exact IH.
Qed.

(* a stretch that does not contain the first character of the separator is copied *)
Lemma replace_go_copy (c0 : char) (w new u s : str) : ~ In c0 u ->
  replace_go (c0 :: w) new (u ++ s) 0 = u ++ replace_go (c0 :: w) new s 0.
Proof.
  induction u as [|c u IH]; intros H; [reflexivity|].
  cbn [app replace_go prefix_b].
  destruct (N.eqb_spec c0 c) as [E|E].
  - exfalso. apply H. left. now symmetry.
  - cbn [andb]. f_equal. apply IH. intros Hin. apply H. now right.
Qed.

(* a full occurrence of the separator is replaced *)
Lemma replace_go_at (c0 : char) (w new s : str) :
  replace_go (c0 :: w) new ((c0 :: w) ++ s) 0 = new ++ replace_go (c0 :: w) new s 0.
Proof.
  cbn [app replace_go].
  change (prefix_b (c0 :: w) (c0 :: w ++ s)) with (prefix_b (c0 :: w) ((c0 :: w) ++ s)).
  rewrite prefix_b_self_app. f_equal.
  cbn [length]. rewrite Nat.sub_succ, Nat.sub_0_r. apply replace_go_skip.
Qed.

(* ---------- split_ws of a space-joined list of clean tokens ---------- *)

Lemma split_ws_go_free (a r acc : str) : ws_free a ->
  split_ws_go (a ++ r) acc = split_ws_go r (rev a ++ acc).
Proof.
  intros H. revert acc. induction H as [|c a Hc _ IH]; intros acc; [reflexivity|].
  cbn [app split_ws_go rev]. rewrite Hc, IH. now rewrite <- app_assoc.
Qed.

(* str.split() gives back non-empty whitespace-free tokens joined by single spaces *)
Lemma split_ws_join (toks : list str) : Forall unit_ok toks -> split_ws (join [sp] toks) = toks.
Proof.
  unfold split_ws. induction 1 as [|a toks [Ha Hw] Hr IH]; [reflexivity|].
  assert (Hrev : exists (c : char) (q : str), rev a = c :: q).
  { destruct (rev a) as [|c q] eqn:E; [|now exists c, q].
    apply (f_equal (@rev char)) in E. rewrite rev_involutive in E. now cbn in E. }
  destruct Hrev as (c & q & Erev).
  assert (Ea : rev (c :: q) = a) by (rewrite <- Erev; apply rev_involutive).
  destruct toks as [|b toks].
  - cbn [join]. rewrite <- (app_nil_r a) at 1. rewrite split_ws_go_free by exact Hw.
    rewrite app_nil_r, Erev. cbn [split_ws_go]. now rewrite Ea.
  - rewrite join_cons2, split_ws_go_free by exact Hw. rewrite app_nil_r, Erev.
    cbn [app split_ws_go]. rewrite is_space_sp, Ea. f_equal. exact IH.
Qed.

(* a non-empty group of clean tokens concatenates to a clean token *)
Lemma concat_unit_ok (g : list str) : g <> [] -> Forall unit_ok g -> unit_ok (concat g).
Proof.
  intros Hn F. split.
  - destruct g as [|u g]; [congruence|]. inversion F as [|? ? [Hu _] _]; subst.
    cbn [concat]. destruct u; [congruence|discriminate].
  - induction F as [|u g [_ Hu] _ IH]; [constructor|]. cbn [concat]. apply Forall_app. split; [exact Hu|].
    destruct g as [|v g]; [constructor|]. apply IH. discriminate.
Qed.
