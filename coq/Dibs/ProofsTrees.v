(* C10, first clause, on the TREES of the tagged training text.

   Dibs/ProofsTrain.v (corpus_summary_counts) says: a trained CorpusSummary holds the direct
   counts of the token lists that the tokenizer returns on the non-blank utterances.
   Separator/ProofsJoined.v (tokenize_word_keep_corrected) says what the word tokens with their
   boundaries are when the utterance is the compact rendering of a token tree.  Here the two
   are composed:

   T1  tokenize_kept_phone / tokenize_kept_syll : tokenizing a KEPT word (the word token with
       its inner separators, syllables joined by xp ++ xs) at phone / syllable level gives the
       phones of the word / its syllables without phone separators;
   T2  parsed_render : (words, units) of [render sep t] as read by read_utterance are
       (kept words of t, tree_units lv t);
   T3  corpus_summary_trees : the summary trained on [map (render sep) ts] holds the direct
       counts of the trees ts (lines, words, units, within-word and across-word diphones,
       diphones, lexicon keyed by the kept words, utterance-initial and -final units). *)
From WS Require Import Base.Py Base.Str Base.Counter Base.CounterProofs Separator.Model Separator.Render.
From WS Require Import Separator.StrLemmas Separator.StripLemmas Separator.ProofsTree
  Separator.ProofsTreeStrip Separator.ProofsNested Separator.ProofsWsPhone Separator.Checkers
  Separator.ProofsJoined Prepare.ViewsLemmas.
From WS Require Import Dibs.Model Dibs.Proofs Dibs.ProofsProb Dibs.ProofsTrain.
From Coq Require Import ZArith Lia.

(* the units of one word: its phones, or its syllables without phone separators *)
Definition units_of_word (lv : level) (w : list (list str)) : list str :=
  match lv with Phone => concat w | _ => map (@concat char) w end.

(* per word *)
Definition tree_units (lv : level) (t : utree) : list (list str) := map (units_of_word lv) t.

(* the word token with its boundaries (right-hand side of tokenize_word_keep_corrected) *)
Definition kept_word (xp xs : str) (w : list (list str)) : str := render_join_word xp (xp ++ xs) w.

(* ---------- one level of tokenization: tokens terminated by x, then a last token that
   merely does not contain x ---------- *)

Lemma tok1_joined_strip (sep : separator) (l : level) (x : str) (init : list str) (last : str) :
  get_level sep l = Some x -> x <> [] ->
  Forall (fun t : str => t <> [] /\ only_at_end x t = true) init ->
  last <> [] -> infix_b x last = false ->
  tok1 sep (terminated x init ++ last) l = map strip (init ++ [last]).
Proof.
  intros Hl Hx Hi Hn Hla. unfold tok1. rewrite Hl. unfold terminated.
  rewrite split_on_join; [|exact Hx| |exact Hla].
  2:{ eapply Forall_impl; [|exact Hi]. now intros t (_ & Ht). }
  assert (Hall : Forall (fun t : str => t <> [] /\ infix_b x t = false) (init ++ [last])).
  { apply Forall_app. split.
    - eapply Forall_impl; [|exact Hi]. intros t (Ht & Ho).
      split; [exact Ht|now apply only_at_end_no_infix].
    - constructor; [now split|constructor]. }
  rewrite filter_nonempty_id.
  2:{ eapply Forall_impl; [|exact Hall]. now intros t (Ht & _). }
  apply map_ext_Forall. eapply Forall_impl; [|exact Hall].
  intros t (_ & Ho). unfold strip_with.
  rewrite strip_prefix_no_infix, strip_suffix_no_infix; try reflexivity;
    (constructor; [exact Ho|constructor]).
Qed.

(* ---------- non-blank strings ---------- *)

Lemma lstrip_snoc_nonnil (l : str) (c : char) : is_space c = false -> lstrip (l ++ [c]) <> [].
Proof.
  intros Hc. induction l as [|a l IH]; cbn [app lstrip].
  - rewrite Hc. discriminate.
  - destruct (is_space a); [exact IH|discriminate].
Qed.

Lemma strip_starts_nonnil (s : str) : s <> [] -> starts_ok s -> strip s <> [].
Proof.
  intros Hn Hs. unfold strip, rstrip. unfold starts_ok in Hs. rewrite Hs.
  destruct s as [|c s]; [congruence|].
  assert (Hc : is_space c = false) by (apply (starts_ok_hd c s); exact Hs).
  cbn [rev]. pose proof (lstrip_snoc_nonnil (rev s) c Hc) as Hl.
  destruct (lstrip (rev s ++ [c])) as [|d r]; [congruence|].
  cbn [rev]. intros E. apply app_eq_nil in E as [_ E]. discriminate.
Qed.

Lemma kept_all (text : list str) : Forall (fun u : str => blank_b u = false) text -> kept text = text.
Proof.
  induction 1 as [|u text Hu _ IH]; [reflexivity|].
  unfold kept in *. cbn [filter]. rewrite Hu. cbn [negb]. now rewrite IH.
Qed.

(* ---------- parsed is a function ---------- *)

Lemma parsed_fun (sep : separator) (lv : level) (utt : str) (wp1 wp2 : list str * list (list str)) :
  parsed sep lv utt wp1 -> parsed sep lv utt wp2 -> wp1 = wp2.
Proof.
  destruct wp1 as [w1 p1], wp2 as [w2 p2]. unfold parsed. cbn [fst snd].
  intros [A1 B1] [A2 B2]. rewrite A1 in A2. injection A2 as <-.
  rewrite B1 in B2. injection B2 as <-. reflexivity.
Qed.

(* ---------- lists of pairs built from a list ---------- *)

Lemma flat_map_fst_pair {A B C} (g : A -> list B) (h : A -> C) (l : list A) :
  flat_map fst (map (fun a => (g a, h a)) l) = flat_map g l.
Proof. induction l as [|a l IH]; cbn [map flat_map fst]; [reflexivity|]. now rewrite IH. Qed.

Lemma flat_map_snd_pair {A B C} (g : A -> C) (h : A -> list B) (l : list A) :
  flat_map snd (map (fun a => (g a, h a)) l) = flat_map h l.
Proof. induction l as [|a l IH]; cbn [map flat_map snd]; [reflexivity|]. now rewrite IH. Qed.

Lemma flat_map_map_concat {A B} (f : A -> B) (ll : list (list A)) :
  flat_map (fun l => map f l) ll = map f (concat ll).
Proof.
  induction ll as [|l ll IH]; cbn [flat_map concat]; [reflexivity|]. now rewrite map_app, IH.
Qed.

(* ================= tokenizing a kept word again ================= *)

(* Hypotheses: those of tokenize_word_keep_corrected / tokenize_syll_keep (_ws) of
   Separator/ProofsJoined.v; c08_hyp_b implies all of them (c08_hyp_b_sound below). *)
Section Kept.
  Variables xp xs xw : str.
  Hypothesis Hxp : xp <> [].
  Hypothesis Hxs : xs <> [].
  Hypothesis Hxw : xw <> [].
  Hypothesis Hes : ends_ok xs.
  Hypothesis Hep : ends_ok xp \/ ws_only xp.
  Hypothesis NB : forall x R : str, In x [xw; xs; xp] -> In R [xp; xp ++ xs] -> no_border x R.

  Local Notation sep := (sep3 xp xs xw).
  Local Notation K := (kept_word xp xs).

  (* a kept word: its inner syllables keep their last phone separator, the last one does not *)
  Lemma kept_word_snoc (winit : list (list str)) (slast : list str) :
    Forall (fun syl : list str => syl <> []) winit ->
    K (winit ++ [slast]) = terminated xs (map (terminated xp) winit) ++ join xp slast.
  Proof.
    intros H. unfold kept_word, render_join_word, render_join_syll.
    rewrite map_app. cbn [map]. rewrite join_snoc. f_equal.
    unfold terminated at 1 2. rewrite !map_map. f_equal. apply map_ext_Forall.
    eapply Forall_impl; [|exact H]. intros syl Hs. cbv beta.
    rewrite terminated_join by exact Hs. now rewrite <- app_assoc.
  Qed.

  Lemma word_sylls_nonnil (w : list (list str)) :
    word_ok xp xs xw w -> Forall (fun syl : list str => syl <> []) w.
  Proof.
    intros (_ & Hs & _). eapply Forall_impl; [|exact Hs]. now intros syl (Hn & _).
  Qed.

  Lemma kept_no_xw (w : list (list str)) : word_ok xp xs xw w -> infix_b xw (K w) = false.
  Proof.
    intros Hok. pose proof (word_sylls_nonnil w Hok) as Hsn. destruct Hok as (Hn & Hs & Hw).
    apply only_at_end_no_infix in Hw; [|exact Hxw].
    rewrite word_body_join in Hw by assumption. now apply infix_b_false_app_l in Hw.
  Qed.

  (* word level: the kept word is one word *)
  Lemma tok1_kept_word (w : list (list str)) : word_ok xp xs xw w -> tok1 sep (K w) Word = [K w].
  Proof.
    intros Hok. destruct (word_keep_tok xp xs xw w Hok) as [Hn Hc]. fold (K w) in Hn, Hc.
    pose proof (tok1_joined_strip sep Word xw [] (K w) eq_refl Hxw (Forall_nil _) Hn
                  (kept_no_xw w Hok)) as E.
    rewrite terminated_nil in E. cbn [app map] in E. rewrite E. now rewrite strip_clean_ends.
  Qed.

  (* syllable level *)
  Lemma tok1_kept_syll (winit : list (list str)) (slast : list str) :
    word_ok xp xs xw (winit ++ [slast]) ->
    tok1 sep (K (winit ++ [slast])) Syll
    = map (fun syl : list str => strip (terminated xp syl)) winit ++ [join xp slast].
  Proof.
    intros (Hn & Hs & Hw). apply Forall_app in Hs as [Hsi Hsl].
    inversion Hsl as [|? ? (Hln & Hlp & Hlo) _]; subst.
    rewrite kept_word_snoc.
    2:{ eapply Forall_impl; [|exact Hsi]. now intros syl (Hy & _). }
    destruct (phones_join_tok xp slast Hln Hlp) as [Hjn Hjc].
    rewrite (tok1_joined_strip sep Syll xs); [|reflexivity|exact Hxs| |exact Hjn|].
    - rewrite map_app, map_map. cbn [map]. now rewrite (strip_clean_ends _ Hjc).
    - apply Forall_map. eapply Forall_impl; [|exact Hsi]. intros syl (Hyn & _ & Hyo).
      split; [now apply terminated_nonnil|exact Hyo].
    - apply only_at_end_no_infix in Hlo; [|exact Hxs].
      rewrite terminated_join in Hlo by exact Hln. now apply infix_b_false_app_l in Hlo.
  Qed.

  (* the two kinds of syllable tokens, at phone level *)
  Lemma stok_phone (syl : list str) : syl_ok xp xs syl ->
    tok1 sep (strip (terminated xp syl)) Phone = syl.
  Proof.
    intros Hok. destruct Hep as [He|Hwp].
    - destruct (syl_body_ok xp xs Hxp He syl Hok) as [_ Hc].
      rewrite strip_clean_ends by exact Hc. now apply tok1_phone3.
    - now apply tok1_phoneW.
  Qed.

  Lemma jtok_phone (syl : list str) : syl_ok xp xs syl -> tok1 sep (join xp syl) Phone = syl.
  Proof.
    intros (_ & Hp & _). apply tok1_join; [reflexivity|exact Hxp|].
    eapply Forall_impl; [|exact Hp]. intros ph (H1 & H2 & H3).
    split; [exact H1|split; [now apply ws_free_clean_ends|exact H3]].
  Qed.

  (* ... and stripped of all separators *)
  Lemma stok_plain (syl : list str) : syl_facts xp xs xw syl ->
    remove_all sep (strip_with [xw; xs; xp] (strip (terminated xp syl))) = concat syl.
  Proof.
    intros Hf. destruct Hep as [He|Hwp].
    - pose proof Hf as (Hok & _ & _).
      destruct (syl_body_ok xp xs Hxp He syl Hok) as [_ Hc].
      rewrite strip_clean_ends by exact Hc. now apply syl_strip_remove.
    - now apply syl_strip_remove_ws.
  Qed.

  Lemma jtok_plain (syl : list str) : syl_facts xp xs xw syl ->
    remove_all sep (strip_with [xw; xs; xp] (join xp syl)) = concat syl.
  Proof.
    intros ((Hn & Hp & Hy) & Hh & Hw).
    rewrite (syl_join_strip xp xs xw Hxp Hxs Hxw NB syl); [|repeat split; assumption|exact Hh].
    rewrite remove_all3.
    apply only_at_end_no_infix in Hy; [|exact Hxs].
    rewrite terminated_join in Hy, Hw by exact Hn.
    apply infix_b_false_app_l in Hy. apply infix_b_false_app_l in Hw.
    rewrite (replace_all_no_infix xw) by exact Hw.
    rewrite (replace_all_no_infix xs) by exact Hy.
    rewrite replace_all_join; [|exact Hxp|].
    2:{ eapply Forall_impl; [|exact Hp]. now intros ph (_ & _ & Ho). }
    apply collapse_spaces_ws_free, ws_free_concat.
    eapply Forall_impl; [|exact Hp]. now intros ph (_ & Hws & _).
  Qed.

  (* T1, phone level *)
  Theorem tokenize_kept_phone : forall w : list (list str), word_ok xp xs xw w ->
    tokenize sep (K w) Phone false = Ok (concat w).
  Proof.
    intros w Hok. pose proof (word_ok_phones xp xs xw Hxp Hxs Hxw w Hok) as Hph.
    assert (Hn : w <> []) by apply Hok.
    destruct (exists_last Hn) as (winit & slast & ->).
    rewrite tokenize3_phone. cbv zeta.
    rewrite tok1_kept_word by exact Hok. cbn [flat_map]. rewrite app_nil_r.
    rewrite tok1_kept_syll by exact Hok.
    destruct Hok as (_ & Hs & _). apply Forall_app in Hs as [Hsi Hsl].
    inversion Hsl as [|? ? Hlast _]; subst.
    rewrite flat_map_app, flat_map_map. cbn [flat_map]. rewrite app_nil_r.
    rewrite (flat_map_ext_Forall _ (fun syl : list str => syl)).
    2:{ eapply Forall_impl; [|exact Hsi]. intros syl. apply stok_phone. }
    rewrite flat_map_id_concat, jtok_phone by exact Hlast.
    replace (concat winit ++ slast) with (concat (winit ++ [slast]))
      by (rewrite concat_app; cbn [concat]; now rewrite app_nil_r).
    rewrite (map_id_Forall (strip_with [xw; xs; xp])).
    2:{ eapply Forall_impl; [|exact Hph]. apply phone_full_strip. }
    rewrite (map_id_Forall (remove_all sep)).
    2:{ eapply Forall_impl; [|exact Hph]. apply phone_full_remove. }
    f_equal. apply filter_nonempty_id.
    eapply Forall_impl; [|exact Hph]. now intros ph (Hne & _).
  Qed.

  (* T1, syllable level: the units are the syllables WITHOUT phone separators *)
  Theorem tokenize_kept_syll : forall w : list (list str), word_ok xp xs xw w ->
    Forall (Forall (head_free [xw; xs; xp])) w ->
    tokenize sep (K w) Syll false = Ok (map (@concat char) w).
  Proof.
    intros w Hok Hh. pose proof (word_syl_facts xp xs xw Hxw w Hok Hh) as Hf.
    assert (Hn : w <> []) by apply Hok.
    destruct (exists_last Hn) as (winit & slast & ->).
    rewrite tokenize3_syll. cbv zeta.
    rewrite tok1_kept_word by exact Hok. cbn [flat_map]. rewrite app_nil_r.
    rewrite tok1_kept_syll by exact Hok.
    apply Forall_app in Hf as [Hfi Hfl]. inversion Hfl as [|? ? Hflast _]; subst.
    rewrite !map_app, !map_map. cbn [map].
    rewrite (map_ext_Forall _ (@concat char) winit).
    2:{ eapply Forall_impl; [|exact Hfi]. intros syl. apply stok_plain. }
    rewrite jtok_plain by exact Hflast.
    f_equal. apply filter_nonempty_id. apply Forall_app. split.
    - apply Forall_map. eapply Forall_impl; [|exact Hfi]. intros syl (Hy & _).
      now apply (syl_plain_nonnil xp xs).
    - constructor; [|constructor]. destruct Hflast as (Hy & _). now apply (syl_plain_nonnil xp xs).
  Qed.

  Lemma tokenize_kept (lv : level) (w : list (list str)) : lv <> Word ->
    word_ok xp xs xw w -> Forall (Forall (head_free [xw; xs; xp])) w ->
    tokenize sep (K w) lv false = Ok (units_of_word lv w).
  Proof.
    intros Hlv Hok Hh. destruct lv; cbn [units_of_word].
    - now apply tokenize_kept_phone.
    - now apply tokenize_kept_syll.
    - congruence.
  Qed.

  Lemma mapM_kept (lv : level) (t : utree) : lv <> Word ->
    tree_ok xp xs xw t -> tree_hf xp xs xw t ->
    mapM (fun w : str => tokenize sep w lv false) (map K t) = Ok (tree_units lv t).
  Proof.
    intros Hlv H Hh. induction t as [|w t IH]; [reflexivity|].
    inversion H as [|? ? Hw Ht]; subst. inversion Hh as [|? ? Hhw Hht]; subst.
    cbn [map mapM]. rewrite (tokenize_kept lv w Hlv Hw Hhw). cbn [bind].
    rewrite (IH Ht Hht). reflexivity.
  Qed.

  (* T2 *)
  Lemma parsed_render_sec (lv : level) (t : utree) : lv <> Word ->
    tree_ok xp xs xw t -> tree_hf xp xs xw t ->
    parsed sep lv (render sep t) (map K t, tree_units lv t).
  Proof.
    intros Hlv H Hh. unfold parsed. cbn [fst snd]. split.
    - now apply tokenize_word_keep_corrected.
    - now apply mapM_kept.
  Qed.

  (* the rendering of a non-empty tree is not a blank line *)
  Lemma render_not_blank (t : utree) : t <> [] -> tree_ok xp xs xw t ->
    blank_b (render sep t) = false.
  Proof.
    destruct t as [|w t]; [congruence|]. intros _ H. inversion H as [|? ? Hw _]; subst.
    rewrite render3_eq. cbn [map]. rewrite terminated_cons.
    destruct (word_body_ok xp xs xw Hxp Hxs Hes w Hw) as [Hn [Hst _]].
    unfold blank_b.
    assert (Hs : strip (word_body xp xs w ++ xw ++ terminated xw (map (word_body xp xs) t)) <> []).
    { apply strip_starts_nonnil.
      - intros E. apply app_eq_nil in E as [E _]. congruence.
      - now apply starts_ok_app. }
    destruct (strip _); [congruence|reflexivity].
  Qed.
End Kept.

(* ================= under the boolean hypothesis of the compact round trip ================= *)

Lemma c08_hyp_b_sound (xp xs xw : str) (t : utree) : c08_hyp_b xp xs xw t = true ->
  xp <> [] /\ xs <> [] /\ xw <> [] /\ ends_ok xs /\ (ends_ok xp \/ ws_only xp) /\
  tree_ok xp xs xw t /\ tree_hf xp xs xw t /\
  (forall x R : str, In x [xw; xs; xp] -> In R [xp; xp ++ xs] -> no_border x R).
Proof.
  intros H. unfold c08_hyp_b in H. rewrite !andb_true_iff in H.
  destruct H as [[[[[[[Hp Hs] Hw] Hes] Hep] Ht] Hh] Hnb].
  apply nonempty_true in Hp, Hs, Hw. apply ends_ok_b_sound in Hes.
  apply tree_ok_b_sound in Ht. apply tree_hf_b_sound in Hh.
  pose proof (nb3_b_sound _ _ _ Hnb) as NB.
  repeat (split; [assumption|]). split; [|split; [exact Ht|split; [exact Hh|exact NB]]].
  apply orb_true_iff in Hep as [Hep|Hep].
  - left. now apply ends_ok_b_sound.
  - right. now apply ws_only_b_sound.
Qed.

(* T1 *)
Theorem tokenize_kept_b : forall (xp xs xw : str) (t : utree) (w : list (list str)),
  c08_hyp_b xp xs xw t = true -> In w t ->
  tokenize (sep3 xp xs xw) (kept_word xp xs w) Phone false = Ok (concat w) /\
  tokenize (sep3 xp xs xw) (kept_word xp xs w) Syll false = Ok (map (@concat char) w).
Proof.
  intros xp xs xw t w H Hin.
  destruct (c08_hyp_b_sound _ _ _ _ H) as (Hp & Hs & Hw & Hes & Hep & Ht & Hh & NB).
  pose proof (proj1 (Forall_forall _ _) Ht w Hin) as Hok.
  pose proof (proj1 (Forall_forall _ _) Hh w Hin) as Hhw.
  split; [now apply tokenize_kept_phone|now apply tokenize_kept_syll].
Qed.

(* T2: what read_utterance reads on the rendering of a tree *)
Theorem parsed_render : forall (xp xs xw : str) (lv : level) (t : utree),
  lv <> Word -> c08_hyp_b xp xs xw t = true ->
  parsed (sep3 xp xs xw) lv (render (sep3 xp xs xw) t)
         (map (kept_word xp xs) t, tree_units lv t).
Proof.
  intros xp xs xw lv t Hlv H.
  destruct (c08_hyp_b_sound _ _ _ _ H) as (Hp & Hs & Hw & Hes & Hep & Ht & Hh & NB).
  now apply parsed_render_sec.
Qed.

Corollary parsed_render_ex : forall (xp xs xw : str) (lv : level) (t : utree),
  lv <> Word -> t <> [] -> c08_hyp_b xp xs xw t = true ->
  exists ws : list str,
    parsed (sep3 xp xs xw) lv (render (sep3 xp xs xw) t) (ws, tree_units lv t) /\
    length ws = length t.
Proof.
  intros xp xs xw lv t Hlv _ H. exists (map (kept_word xp xs) t).
  split; [now apply parsed_render|apply map_length].
Qed.

Lemma wps_of_trees (xp xs xw : str) (lv : level) : lv <> Word ->
  forall (ts : list utree) (wps : list (list str * list (list str))),
  Forall (fun t : utree => c08_hyp_b xp xs xw t = true) ts ->
  Forall2 (parsed (sep3 xp xs xw) lv) (map (render (sep3 xp xs xw)) ts) wps ->
  wps = map (fun t : utree => (map (kept_word xp xs) t, tree_units lv t)) ts.
Proof.
  intros Hlv. induction ts as [|t ts IH]; intros wps F P; cbn [map] in *.
  - inversion P. reflexivity.
  - inversion P as [|u wp us wps' Hwp Hrest]; subst. inversion F as [|? ? Ht Fts]; subst.
    f_equal.
    + exact (parsed_fun _ _ _ _ _ Hwp (parsed_render xp xs xw lv t Hlv Ht)).
    + now apply IH.
Qed.

(* T3: the first clause of the property, on the trees of the tagged text.
   [lv <> Word] is not a hypothesis: a successful corpus_summary implies it. *)
Theorem corpus_summary_trees : forall (xp xs xw : str) (lv : level) (ts : list utree) (s : summary),
  Forall (fun t : utree => t <> [] /\ c08_hyp_b xp xs xw t = true) ts ->
  corpus_summary (map (render (sep3 xp xs xw)) ts) (sep3 xp xs xw) lv = Ok s ->
  nlines s = Z.of_nat (length ts) /\
  nwords s = Z.of_nat (length (concat ts)) /\
  nphones s = Z.of_nat (length (concat (flat_map (tree_units lv) ts))) /\
  (forall d, cget pair_eqb (internal s) d
             = occ pair_eqb d (flat_map zip_adj (flat_map (tree_units lv) ts))) /\
  (forall d, cget pair_eqb (spanning s) d
             = occ pair_eqb d (flat_map (fun t : utree => spans (tree_units lv t)) ts)) /\
  (forall d, cget pair_eqb (diphones s) d
             = (occ pair_eqb d (flat_map zip_adj (flat_map (tree_units lv) ts))
                + occ pair_eqb d (flat_map (fun t : utree => spans (tree_units lv t)) ts))%Z) /\
  (forall w, cget str_eqb (lexicon s) w
             = occ str_eqb w (map (kept_word xp xs) (concat ts))) /\
  (forall u, cget str_eqb (phrase_initial s) u
             = occ str_eqb u (map (fun t : utree => first_of (tree_units lv t)) ts)) /\
  (forall u, cget str_eqb (phrase_final s) u
             = occ str_eqb u (map (fun t : utree => last_of (tree_units lv t)) ts)).
Proof.
  intros xp xs xw lv ts s F H.
  destruct (corpus_summary_ok _ _ _ _ H) as [Hlv _].
  destruct (corpus_summary_counts _ _ _ _ H)
    as (wps & P & Hl & Hw & Hp & Hi & Hsp & Hd & Hlex & Hpi & Hpf).
  rewrite kept_all in P.
  2:{ apply Forall_map. eapply Forall_impl; [|exact F]. intros t [Hn Hc].
      destruct (c08_hyp_b_sound _ _ _ _ Hc) as (Hxp & Hxs & Hxw & Hes & _ & Ht & _).
      now apply render_not_blank. }
  assert (E : wps = map (fun t : utree => (map (kept_word xp xs) t, tree_units lv t)) ts).
  { apply (wps_of_trees xp xs xw lv Hlv ts wps); [|exact P].
    eapply Forall_impl; [|exact F]. now intros t [_ Hc]. }
  assert (Ew : all_words wps = map (kept_word xp xs) (concat ts)).
  { rewrite E. unfold all_words. rewrite flat_map_fst_pair. apply flat_map_map_concat. }
  assert (Eph : all_phones wps = flat_map (tree_units lv) ts).
  { rewrite E. unfold all_phones. apply flat_map_snd_pair. }
  assert (Esp : flat_map (fun wp : list str * list (list str) => spans (snd wp)) wps
                = flat_map (fun t : utree => spans (tree_units lv t)) ts).
  { rewrite E, flat_map_map. reflexivity. }
  rewrite Ew in Hw, Hlex. rewrite Eph in Hp, Hi, Hd. rewrite Esp in Hsp, Hd.
  rewrite map_length in Hw.
  split; [rewrite Hl, E; now rewrite map_length|].
  split; [exact Hw|]. split; [exact Hp|]. split; [exact Hi|]. split; [exact Hsp|].
  split; [exact Hd|]. split; [exact Hlex|]. split.
  - intros u. rewrite Hpi, E, map_map. reflexivity.
  - intros u. rewrite Hpf, E, map_map. reflexivity.
Qed.

(* the statements are not vacuous: wordseg's default separators (" ", ";esyll", ";eword") and
   "_" "=" "#", two words hh.e-l.ow and s.y.d, both levels *)
Example trees_default_config :
  let xp := [sp] in
  let xs := ([59; 101; 115; 121; 108; 108]%N : str) in      (* ;esyll *)
  let xw := ([59; 101; 119; 111; 114; 100]%N : str) in      (* ;eword *)
  let t : utree := [ [ [([104; 104]%N : str); ([101]%N : str)]; [([108]%N : str); ([111; 119]%N : str)] ];
                     [ [([115]%N : str); ([121]%N : str); ([100]%N : str)] ] ] in
  c08_hyp_b xp xs xw t = true /\
  (exists s, corpus_summary [render (sep3 xp xs xw) t] (sep3 xp xs xw) Phone = Ok s) /\
  (exists s, corpus_summary [render (sep3 xp xs xw) t] (sep3 xp xs xw) Syll = Ok s) /\
  tree_units Syll t = [ [([104; 104; 101]%N : str); ([108; 111; 119]%N : str)]; [([115; 121; 100]%N : str)] ].
Proof. vm_compute. repeat split; eexists; reflexivity. Qed.

Example trees_compact_config :
  let xp : str := [95]%N in let xs : str := [61]%N in let xw : str := [35]%N in
  let t : utree := [ [ [([104; 104]%N : str); ([101]%N : str)]; [([108]%N : str); ([111; 119]%N : str)] ];
                     [ [([115]%N : str); ([121]%N : str); ([100]%N : str)] ] ] in
  c08_hyp_b xp xs xw t = true /\
  map (kept_word xp xs) t = [ ([104; 104; 95; 101; 95; 61; 108; 95; 111; 119]%N : str);   (* hh_e_=l_ow *)
                              ([115; 95; 121; 95; 100]%N : str) ] /\                        (* s_y_d *)
  parsed (sep3 xp xs xw) Syll (render (sep3 xp xs xw) t)
         (map (kept_word xp xs) t,
          [ [([104; 104; 101]%N : str); ([108; 111; 119]%N : str)]; [([115; 121; 100]%N : str)] ]) /\
  parsed (sep3 xp xs xw) Phone (render (sep3 xp xs xw) t)
         (map (kept_word xp xs) t,
          [ [([104; 104]%N : str); ([101]%N : str); ([108]%N : str); ([111; 119]%N : str)];
            [([115]%N : str); ([121]%N : str); ([100]%N : str)] ]).
Proof. vm_compute. repeat split. Qed.

Print Assumptions tokenize_kept_phone.
Print Assumptions tokenize_kept_syll.
Print Assumptions tokenize_kept_b.
Print Assumptions parsed_render.
Print Assumptions parsed_render_ex.
Print Assumptions corpus_summary_trees.
Print Assumptions trees_default_config.
Print Assumptions trees_compact_config.
