(* B. The probability tables of the Gold / Phrasal / Lexical DiBS models. *)
From WS Require Import Base.Py Base.Str Base.Counter Base.CounterProofs Separator.Model Dibs.Model Dibs.Proofs.
From Coq Require Import QArith Qabs Qminmax.
Local Open Scope Z_scope.

(* ================================================================== *)
(* generic helpers                                                     *)
(* ================================================================== *)

Lemma bind_ok {A B} (r : result A) (f : A -> result B) (b : B) :
  bind r f = Ok b -> exists a, r = Ok a /\ f a = Ok b.
Proof. destruct r as [a|e]; cbn [bind]; intros H; [now exists a|discriminate]. Qed.

(* a table built by mapping over the keys of a counter is looked up like the counter *)
Lemma dget_map (g : str * str -> Q) (c : counter (str * str)) (d : str * str) :
  dget (map (fun kv => (fst kv, g (fst kv))) c) d = if cmem pair_eqb c d then g d else 1%Q.
Proof.
  induction c as [|[k v] r IH]; [reflexivity|].
  cbn [map dget cmem fst].
  destruct (pair_eqb_spec d k) as [->|N]; cbn [orb]; [reflexivity|exact IH].
Qed.

Lemma zq_nonneg (z : Z) : (0 <= z)%Z -> (0 <= zq z)%Q.
Proof. intros H. unfold zq. change 0%Q with (inject_Z 0). now rewrite <- Zle_Qle. Qed.

Lemma zq_le (a b : Z) : (a <= b)%Z -> (zq a <= zq b)%Q.
Proof. intros H. unfold zq. now rewrite <- Zle_Qle. Qed.

(* a / b is in [0,1] whenever 0 <= a <= b (also for b = 0, where a / b = 0) *)
Lemma Qdiv_unit (a b : Q) : (0 <= a)%Q -> (a <= b)%Q -> (0 <= a / b <= 1)%Q.
Proof.
  intros Ha Hab.
  destruct (Qlt_le_dec 0 b) as [Hb|Hb].
  - split.
    + apply Qle_shift_div_l; [exact Hb|]. now rewrite Qmult_0_l.
    + apply Qle_shift_div_r; [exact Hb|]. now rewrite Qmult_1_l.
  - assert (E : (a == 0)%Q).
    { apply Qle_antisym; [|exact Ha]. eapply Qle_trans; eassumption. }
    rewrite E. unfold Qdiv. rewrite Qmult_0_l. split; [apply Qle_refl|discriminate].
Qed.

(* ================================================================== *)
(* non-negative counters, pdf in [0,1]                                 *)
(* ================================================================== *)

Section Nonneg.
Context {K : Type} (eqb : K -> K -> bool).

Definition cnonneg (c : counter K) : Prop := Forall (fun kv => (0 <= snd kv)%Z) c.

Lemma cget_nonneg (c : counter K) (k : K) : cnonneg c -> 0 <= cget eqb c k.
Proof.
  induction c as [|[k' v] r IH]; intros H; cbn [cget]; [lia|].
  inversion H as [|? ? Hv Hr]; subst. cbn [snd] in Hv.
  destruct (eqb k k'); [exact Hv|now apply IH].
Qed.

Lemma total_nonneg (c : counter K) : cnonneg c -> 0 <= total c.
Proof.
  induction c as [|[k' v] r IH]; intros H; cbn [total fold_right snd]; [lia|].
  inversion H as [|? ? Hv Hr]; subst. cbn [snd] in Hv. specialize (IH Hr). unfold total in IH. lia.
Qed.

Lemma cget_le_total (c : counter K) (k : K) : cnonneg c -> cget eqb c k <= total c.
Proof.
  induction c as [|[k' v] r IH]; intros H; cbn [cget total fold_right snd]; [lia|].
  inversion H as [|? ? Hv Hr]; subst. cbn [snd] in Hv.
  pose proof (total_nonneg r Hr) as T. specialize (IH Hr). unfold total in IH, T.
  destruct (eqb k k'); lia.
Qed.

Lemma pdf_unit (c : counter K) (k : K) : cnonneg c -> (0 <= pdf eqb c k <= 1)%Q.
Proof.
  intros H. unfold pdf. destruct (cmem eqb c k).
  - apply Qdiv_unit.
    + apply zq_nonneg. now apply cget_nonneg.
    + apply zq_le. now apply cget_le_total.
  - split; [apply Qle_refl|discriminate].
Qed.

Lemma cadd_nonneg (c : counter K) (k : K) (d : Z) : 0 <= d -> cnonneg c -> cnonneg (cadd eqb c k d).
Proof.
  intros Hd. induction c as [|[k' v] r IH]; intros H; cbn [cadd].
  - constructor; [exact Hd|constructor].
  - inversion H as [|? ? Hv Hr]; subst. cbn [snd] in Hv.
    destruct (eqb k k'); constructor; cbn [snd]; try lia; try assumption. now apply IH.
Qed.

Lemma cadd_all_nonneg (ks : list K) (c : counter K) : cnonneg c -> cnonneg (cadd_all eqb c ks).
Proof.
  unfold cadd_all. revert c. induction ks as [|k ks IH]; intros c H; cbn [fold_left]; [exact H|].
  apply IH. apply cadd_nonneg; [lia|exact H].
Qed.

End Nonneg.

(* ================================================================== *)
(* pwb                                                                 *)
(* ================================================================== *)

Theorem pwb_value_given : forall (s : summary) (q : Q), pwb_value s (Some q) = Ok q.
Proof. reflexivity. Qed.

Theorem pwb_value_estimate : forall (s : summary), (nphones s - nlines s <> 0)%Z ->
  pwb_value s None = Ok (zq (nwords s - nlines s) / zq (nphones s - nlines s))%Q.
Proof.
  intros s H. cbn [pwb_value]. unfold pwb_estimate.
  apply Z.eqb_neq in H. rewrite H. reflexivity.
Qed.

Theorem pwb_value_estimate_zero : forall (s : summary), (nphones s - nlines s = 0)%Z ->
  pwb_value s None = Raise ZeroDivisionError.
Proof.
  intros s H. cbn [pwb_value]. unfold pwb_estimate. rewrite H. reflexivity.
Qed.

(* ================================================================== *)
(* the three tables                                                    *)
(* ================================================================== *)

Definition gold_val (s : summary) (d : str * str) : Q :=
  (zq (cget pair_eqb (spanning s) d)
   / zq (cget pair_eqb (internal s) d + cget pair_eqb (spanning s) d))%Q.

Definition bayes_num (cf ci : counter str) (p : Q) (d : str * str) : Q :=
  (pdf str_eqb cf (fst d) * p * pdf str_eqb ci (snd d))%Q.

Definition phrasal_val (s : summary) (p : Q) (d : str * str) : Q :=
  let num := bayes_num (phrase_final s) (phrase_initial s) p d in
  let den := pdf pair_eqb (diphones s) d in
  if qle_b den num then 1%Q else (num / den)%Q.

Definition lexical_val (s : summary) (wf wi : counter str) (p : Q) (d : str * str) : Q :=
  let num := bayes_num wf wi p d in
  let den := pdf pair_eqb (diphones s) d in
  if Qeq_bool den 0 || qlt_b den num then 1%Q else (num / den)%Q.

Lemma init_gold (s : summary) (pwb : option Q) :
  init_diphones Gold s pwb = Ok (map (fun kv => (fst kv, gold_val s (fst kv))) (diphones s)).
Proof. reflexivity. Qed.

Lemma init_phrasal (s : summary) (pwb : option Q) (t : list ((str * str) * Q)) :
  init_diphones Phrasal s pwb = Ok t ->
  exists p, pwb_value s pwb = Ok p /\
            t = map (fun kv => (fst kv, phrasal_val s p (fst kv))) (diphones s).
Proof.
  cbn [init_diphones]. intros H. apply bind_ok in H. destruct H as [p [Hp H]].
  exists p. split; [exact Hp|]. injection H as <-. reflexivity.
Qed.

Lemma init_lexical (s : summary) (pwb : option Q) (t : list ((str * str) * Q)) :
  init_diphones Lexical s pwb = Ok t ->
  exists wi wf p,
    mapM (fun kv => first_unit s (fst kv)) (lexicon s) = Ok wi /\
    mapM (fun kv => last_unit s (fst kv)) (lexicon s) = Ok wf /\
    pwb_value s pwb = Ok p /\
    t = map (fun kv => (fst kv, lexical_val s (cadd_all str_eqb [] wf) (cadd_all str_eqb [] wi) p (fst kv)))
            (diphones s).
Proof.
  cbn [init_diphones]. intros H.
  apply bind_ok in H. destruct H as [wi [Hwi H]].
  apply bind_ok in H. destruct H as [wf [Hwf H]].
  apply bind_ok in H. destruct H as [p [Hp H]].
  exists wi, wf, p. repeat split; try assumption. injection H as <-. reflexivity.
Qed.

Theorem gold_prob_spec : forall (s : summary) (pwb : option Q) (t : list ((str * str) * Q)) (d : str * str),
  init_diphones Gold s pwb = Ok t -> cmem pair_eqb (diphones s) d = true ->
  dget t d = (zq (cget pair_eqb (spanning s) d)
              / zq (cget pair_eqb (internal s) d + cget pair_eqb (spanning s) d))%Q.
Proof.
  intros s pwb t d H M. rewrite init_gold in H. injection H as <-.
  rewrite (dget_map (gold_val s)), M. reflexivity.
Qed.

(* unseen diphones get probability 1 in all three models *)
Theorem unseen_prob_one : forall (k : kind) (s : summary) (pwb : option Q) (t : list ((str * str) * Q)) (d : str * str),
  init_diphones k s pwb = Ok t -> cmem pair_eqb (diphones s) d = false -> dget t d = 1%Q.
Proof.
  intros k s pwb t d H M. destruct k.
  - rewrite init_gold in H. injection H as <-. now rewrite (dget_map (gold_val s)), M.
  - apply init_phrasal in H. destruct H as [p [_ ->]]. now rewrite (dget_map (phrasal_val s p)), M.
  - apply init_lexical in H. destruct H as [wi [wf [p [_ [_ [_ ->]]]]]].
    now rewrite (dget_map (lexical_val s _ _ p)), M.
Qed.

Lemma min1_ge (den num : Q) : (0 < den)%Q -> (den <= num)%Q -> (1 == Qmin 1 (num / den))%Q.
Proof.
  intros Hd H. symmetry. apply Q.min_l.
  apply Qle_shift_div_l; [exact Hd|]. now rewrite Qmult_1_l.
Qed.

Lemma min1_le (den num : Q) : (0 < den)%Q -> (num <= den)%Q -> (num / den == Qmin 1 (num / den))%Q.
Proof.
  intros Hd H. symmetry. apply Q.min_r.
  apply Qle_shift_div_r; [exact Hd|]. now rewrite Qmult_1_l.
Qed.

Theorem phrasal_prob_spec : forall (s : summary) (pwb : option Q) (t : list ((str * str) * Q)) (d : str * str) (p : Q),
  init_diphones Phrasal s pwb = Ok t -> pwb_value s pwb = Ok p ->
  cmem pair_eqb (diphones s) d = true ->
  let num := (pdf str_eqb (phrase_final s) (fst d) * p * pdf str_eqb (phrase_initial s) (snd d))%Q in
  let den := pdf pair_eqb (diphones s) d in
  (0 < den)%Q ->
  (dget t d == Qmin 1 (num / den))%Q.
Proof.
  intros s pwb t d p H Hp M num den Hden.
  apply init_phrasal in H. destruct H as [p' [Hp' ->]].
  rewrite Hp in Hp'. injection Hp' as <-.
  rewrite (dget_map (phrasal_val s p)), M.
  unfold phrasal_val, bayes_num. fold num. fold den.
  destruct (qle_b den num) eqn:E.
  - apply qle_b_iff in E. now apply min1_ge.
  - apply qle_b_false_iff in E. apply min1_le; [exact Hden|]. now apply Qlt_le_weak.
Qed.

Theorem lexical_prob_spec : forall (s : summary) (pwb : option Q) (t : list ((str * str) * Q)) (d : str * str)
                                   (p : Q) (wi wf : list str),
  init_diphones Lexical s pwb = Ok t -> pwb_value s pwb = Ok p ->
  mapM (fun kv => first_unit s (fst kv)) (lexicon s) = Ok wi ->
  mapM (fun kv => last_unit s (fst kv)) (lexicon s) = Ok wf ->
  cmem pair_eqb (diphones s) d = true ->
  let word_initial := cadd_all str_eqb [] wi in
  let word_final := cadd_all str_eqb [] wf in
  let num := (pdf str_eqb word_final (fst d) * p * pdf str_eqb word_initial (snd d))%Q in
  let den := pdf pair_eqb (diphones s) d in
  (0 < den)%Q ->
  (dget t d == Qmin 1 (num / den))%Q.
Proof.
  intros s pwb t d p wi wf H Hp Hwi Hwf M word_initial word_final num den Hden.
  apply init_lexical in H. destruct H as [wi' [wf' [p' [Hwi' [Hwf' [Hp' ->]]]]]].
  rewrite Hp in Hp'. injection Hp' as <-.
  rewrite Hwi in Hwi'. injection Hwi' as <-.
  rewrite Hwf in Hwf'. injection Hwf' as <-.
  rewrite (dget_map (lexical_val s _ _ p)), M.
  unfold lexical_val, bayes_num. fold word_initial. fold word_final. fold num. fold den.
  destruct (Qeq_bool den 0) eqn:Z0.
  - apply Qeq_bool_iff in Z0. rewrite Z0 in Hden. exfalso. exact (Qlt_irrefl 0 Hden).
  - cbn [orb]. destruct (qlt_b den num) eqn:E.
    + apply qlt_b_iff in E. apply min1_ge; [exact Hden|]. now apply Qlt_le_weak.
    + apply qlt_b_false_iff in E. now apply min1_le.
Qed.

(* the Lexical model's explicit guard: a zero denominator gives probability 1 *)
Theorem lexical_prob_den_zero : forall (s : summary) (pwb : option Q) (t : list ((str * str) * Q)) (d : str * str),
  init_diphones Lexical s pwb = Ok t ->
  (pdf pair_eqb (diphones s) d == 0)%Q -> dget t d = 1%Q.
Proof.
  intros s pwb t d H Z0.
  apply init_lexical in H. destruct H as [wi [wf [p [_ [_ [_ ->]]]]]].
  rewrite (dget_map (lexical_val s _ _ p)).
  destruct (cmem pair_eqb (diphones s) d); [|reflexivity].
  unfold lexical_val. apply Qeq_bool_iff in Z0. rewrite Z0. reflexivity.
Qed.

(* ================================================================== *)
(* all table values are probabilities                                  *)
(* ================================================================== *)

Lemma bayes_num_nonneg (cf ci : counter str) (p : Q) (d : str * str) :
  cnonneg cf -> cnonneg ci -> (0 <= p)%Q -> (0 <= bayes_num cf ci p d)%Q.
Proof.
  intros Hf Hi Hp. unfold bayes_num.
  apply Qmult_le_0_compat; [apply Qmult_le_0_compat|].
  - apply (pdf_unit str_eqb cf (fst d) Hf).
  - exact Hp.
  - apply (pdf_unit str_eqb ci (snd d) Hi).
Qed.

Lemma unit_one : (0 <= 1 <= 1)%Q.
Proof. split; discriminate. Qed.

Lemma gold_val_unit (s : summary) (d : str * str) :
  cnonneg (internal s) -> cnonneg (spanning s) -> (0 <= gold_val s d <= 1)%Q.
Proof.
  intros Hi Hs. unfold gold_val.
  pose proof (cget_nonneg pair_eqb (internal s) d Hi).
  pose proof (cget_nonneg pair_eqb (spanning s) d Hs).
  apply Qdiv_unit; [apply zq_nonneg; lia|apply zq_le; lia].
Qed.

Lemma phrasal_val_unit (s : summary) (p : Q) (d : str * str) :
  cnonneg (phrase_final s) -> cnonneg (phrase_initial s) -> (0 <= p)%Q ->
  (0 <= phrasal_val s p d <= 1)%Q.
Proof.
  intros Hf Hi Hp. unfold phrasal_val.
  pose proof (bayes_num_nonneg _ _ p d Hf Hi Hp) as Hn.
  destruct (qle_b _ _) eqn:E; [apply unit_one|].
  apply qle_b_false_iff in E. apply Qdiv_unit; [exact Hn|now apply Qlt_le_weak].
Qed.

Lemma lexical_val_unit (s : summary) (wf wi : counter str) (p : Q) (d : str * str) :
  cnonneg wf -> cnonneg wi -> (0 <= p)%Q -> (0 <= lexical_val s wf wi p d <= 1)%Q.
Proof.
  intros Hf Hi Hp. unfold lexical_val.
  pose proof (bayes_num_nonneg _ _ p d Hf Hi Hp) as Hn.
  destruct (Qeq_bool _ _); cbn [orb]; [apply unit_one|].
  destruct (qlt_b _ _) eqn:E; [apply unit_one|].
  apply qlt_b_false_iff in E. now apply Qdiv_unit.
Qed.

(* the hypotheses each model needs on the summary and on pwb *)
Definition probs_hyp (k : kind) (s : summary) (pwb : option Q) : Prop :=
  match k with
  | Gold => cnonneg (internal s) /\ cnonneg (spanning s)
  | Phrasal => cnonneg (phrase_final s) /\ cnonneg (phrase_initial s) /\
               (forall p, pwb_value s pwb = Ok p -> (0 <= p)%Q)
  | Lexical => forall p, pwb_value s pwb = Ok p -> (0 <= p)%Q
  end.

Theorem probs_unit_interval : forall (k : kind) (s : summary) (pwb : option Q)
                                     (t : list ((str * str) * Q)) (d : str * str) (v : Q),
  probs_hyp k s pwb -> init_diphones k s pwb = Ok t -> In (d, v) t -> (0 <= v <= 1)%Q.
Proof.
  intros k s pwb t d v Hyp H Hin. destruct k; cbn [probs_hyp] in Hyp.
  - rewrite init_gold in H. injection H as <-.
    apply in_map_iff in Hin. destruct Hin as [kv [E _]]. injection E as _ <-.
    destruct Hyp. now apply gold_val_unit.
  - apply init_phrasal in H. destruct H as [p [Hp ->]].
    apply in_map_iff in Hin. destruct Hin as [kv [E _]]. injection E as _ <-.
    destruct Hyp as [Hf [Hi Hpp]]. apply phrasal_val_unit; auto.
  - apply init_lexical in H. destruct H as [wi [wf [p [_ [_ [Hp ->]]]]]].
    apply in_map_iff in Hin. destruct Hin as [kv [E _]]. injection E as _ <-.
    apply lexical_val_unit; auto; apply cadd_all_nonneg; constructor.
Qed.

(* consequently every looked-up probability (1 for unseen diphones) is in [0,1] *)
Corollary dget_unit_interval : forall (k : kind) (s : summary) (pwb : option Q)
                                      (t : list ((str * str) * Q)) (d : str * str),
  probs_hyp k s pwb -> init_diphones k s pwb = Ok t -> (0 <= dget t d <= 1)%Q.
Proof.
  intros k s pwb t d Hyp H.
  assert (G : forall (t0 : list ((str * str) * Q)),
             (forall d0 v, In (d0, v) t0 -> (0 <= v <= 1)%Q) -> (0 <= dget t0 d <= 1)%Q).
  { induction t0 as [|[k0 v0] r IH]; intros F; cbn [dget]; [apply unit_one|].
    destruct (pair_eqb d k0).
    - apply (F k0 v0). now left.
    - apply IH. intros d0 v Hin. apply (F d0 v). now right. }
  apply G. intros d0 v Hin. exact (probs_unit_interval k s pwb t d0 v Hyp H Hin).
Qed.

(* segment() validates pwb: a given pwb that passes the check is in [0,1] *)
Lemma pwb_checked_nonneg (s : summary) (q p : Q) :
  qlt_b q 0 || qlt_b 1 q = false -> pwb_value s (Some q) = Ok p -> (0 <= p <= 1)%Q.
Proof.
  intros H E. cbn [pwb_value] in E. injection E as <-.
  apply orb_false_iff in H. destruct H as [H0 H1].
  apply qlt_b_false_iff in H0. apply qlt_b_false_iff in H1. now split.
Qed.
