(* C. The training statistics (CorpusSummary) equal direct counts over the
   tokenized corpus. *)
From WS Require Import Base.Py Base.Str Base.Counter Base.CounterProofs Separator.Model
  Dibs.Model Dibs.Proofs Dibs.ProofsProb.
From Coq Require Import QArith Qminmax.
Local Open Scope Z_scope.

(* ================================================================== *)
(* hd_r / last_r / spans_of in pure terms                              *)
(* ================================================================== *)

Lemma hd_r_ok {A} (l : list A) (x : A) : hd_r l = Ok x -> exists r, l = x :: r.
Proof. destruct l as [|y r]; cbn [hd_r]; intros H; [discriminate|]. injection H as ->. now exists r. Qed.

Lemma last_r_ok {A} (l : list A) (x : A) : last_r l = Ok x -> exists r, l = r ++ [x].
Proof.
  unfold last_r. destruct (rev l) as [|y r] eqn:E; intros H; [discriminate|]. injection H as ->.
  exists (rev r). apply (f_equal (@rev A)) in E. rewrite rev_involutive in E. exact E.
Qed.

Lemma hd_r_some {A} (l : list A) (d : A) : l <> [] -> hd_r l = Ok (hd d l).
Proof. destruct l; [congruence|reflexivity]. Qed.

Lemma last_r_some {A} (l : list A) (d : A) : l <> [] -> last_r l = Ok (last l d).
Proof.
  intros H. destruct (exists_last H) as [r [x ->]]. unfold last_r.
  rewrite rev_app_distr. cbn [rev app]. now rewrite last_last.
Qed.

(* first unit of the utterance, last unit of the utterance *)
Definition first_of (phones : list (list str)) : str := hd [] (hd [] phones).
Definition last_of (phones : list (list str)) : str := last (last phones []) [].

(* (last unit of word i, first unit of word i+1) *)
Definition spans (phones : list (list str)) : list (str * str) :=
  map (fun ab => (last (fst ab) [], hd [] (snd ab))) (zip_adj phones).

Definition nonnil {A} (l : list A) : Prop := l <> [].

Lemma spans_of_ok (phones : list (list str)) : forall (sp : list (str * str)),
  spans_of phones = Ok sp ->
  sp = spans phones /\ (2 <= length phones -> Forall nonnil phones)%nat.
Proof.
  induction phones as [|p1 r IH]; intros sp H.
  - injection H as <-. split; [reflexivity|]. cbn [length]. lia.
  - destruct r as [|p2 r'].
    + injection H as <-. split; [reflexivity|]. cbn [length]. lia.
    + cbn [spans_of] in H.
      apply bind_ok in H. destruct H as [a [Ha H]].
      apply bind_ok in H. destruct H as [b [Hb H]].
      apply bind_ok in H. destruct H as [rest [Hr H]]. injection H as <-.
      destruct (IH rest Hr) as [-> F].
      apply last_r_ok in Ha. destruct Ha as [q1 ->].
      apply hd_r_ok in Hb. destruct Hb as [q2 ->].
      split.
      * unfold spans. cbn [zip_adj map fst snd hd]. now rewrite last_last.
      * intros _. constructor; [intros E; now destruct q1|].
        destruct r' as [|p3 r''].
        -- constructor; [discriminate|constructor].
        -- apply F. cbn [length]. lia.
Qed.

Lemma spans_of_some (phones : list (list str)) :
  Forall nonnil phones -> spans_of phones = Ok (spans phones).
Proof.
  induction phones as [|p1 r IH]; intros F; [reflexivity|].
  destruct r as [|p2 r']; [reflexivity|].
  inversion F as [|? ? H1 F']; subst. inversion F' as [|? ? H2 F'']; subst.
  change (spans_of (p1 :: p2 :: r')) with
    (do a <- last_r p1; do b <- hd_r p2; do rest <- spans_of (p2 :: r'); Ok ((a, b) :: rest)).
  rewrite (last_r_some p1 [] H1), (hd_r_some p2 [] H2). cbn [bind].
  rewrite (IH F'). reflexivity.
Qed.

Lemma mapM_length {A B} (f : A -> result B) (l : list A) : forall (m : list B),
  mapM f l = Ok m -> length m = length l.
Proof.
  induction l as [|x l IH]; intros m H.
  - injection H as <-. reflexivity.
  - cbn [mapM] in H. apply bind_ok in H. destruct H as [y [_ H]].
    apply bind_ok in H. destruct H as [ys [Hys H]]. injection H as <-.
    cbn [length]. now rewrite (IH ys Hys).
Qed.

(* ================================================================== *)
(* read_utterance                                                      *)
(* ================================================================== *)

Lemma cget_cadd_all_str (c : counter str) (l : list str) (k : str) :
  cget str_eqb (cadd_all str_eqb c l) k = cget str_eqb c k + occ str_eqb k l.
Proof. unfold cadd_all. apply (cget_fold str_eqb str_eqb_spec). Qed.

Lemma cget_cadd_all_pair (c : counter (str * str)) (l : list (str * str)) (k : str * str) :
  cget pair_eqb (cadd_all pair_eqb c l) k = cget pair_eqb c k + occ pair_eqb k l.
Proof. unfold cadd_all. apply (cget_fold pair_eqb pair_eqb_spec). Qed.

(* the shape of a successful read_utterance *)
Lemma read_utterance_ok (s : summary) (utt : str) (s' : summary) (words : list str) (phones : list (list str)) :
  utt <> [] ->
  tokenize (sm_sep s) utt Word true = Ok words ->
  mapM (fun w => tokenize (sm_sep s) w (sm_level s) false) words = Ok phones ->
  read_utterance s utt = Ok s' ->
  phones <> [] /\ Forall nonnil phones /\
  s' = {| sm_sep := sm_sep s; sm_level := sm_level s;
          nlines := nlines s + 1;
          nwords := nwords s + Z.of_nat (length words);
          nphones := nphones s + Z.of_nat (length (concat phones));
          lexicon := cadd_all str_eqb (lexicon s) words;
          phrase_initial := cadd str_eqb (phrase_initial s) (first_of phones) 1;
          phrase_final := cadd str_eqb (phrase_final s) (last_of phones) 1;
          internal := cadd_all pair_eqb (internal s) (flat_map zip_adj phones);
          spanning := cadd_all pair_eqb (spanning s) (spans phones);
          diphones := [] |}.
Proof.
  intros Hne Hw Hp H. unfold read_utterance in H.
  destruct utt as [|c0 utt']; [congruence|].
  rewrite Hw in H. cbn [bind] in H. rewrite Hp in H. cbn [bind] in H.
  apply bind_ok in H. destruct H as [p0 [Hp0 H]].
  apply bind_ok in H. destruct H as [first [Hfirst H]].
  apply bind_ok in H. destruct H as [pl [Hpl H]].
  apply bind_ok in H. destruct H as [lst [Hlst H]].
  apply bind_ok in H. destruct H as [sp [Hsp H]].
  injection H as <-.
  destruct (spans_of_ok phones sp Hsp) as [-> F].
  apply hd_r_ok in Hp0. destruct Hp0 as [r0 E0].
  apply hd_r_ok in Hfirst. destruct Hfirst as [r1 E1].
  apply last_r_ok in Hpl. destruct Hpl as [r2 E2].
  apply last_r_ok in Hlst. destruct Hlst as [r3 E3].
  assert (Ef : first_of phones = first).
  { unfold first_of. rewrite E0. cbn [hd]. rewrite E1. reflexivity. }
  assert (El : last_of phones = lst).
  { unfold last_of. rewrite E2, last_last, E3, last_last. reflexivity. }
  assert (Hn : phones <> []) by (rewrite E0; discriminate).
  split; [exact Hn|]. split.
  - destruct phones as [|q0 [|q1 qs]].
    + congruence.
    + injection E0 as -> _. constructor; [rewrite E1; discriminate|constructor].
    + apply F. cbn [length]. lia.
  - rewrite Ef, El. reflexivity.
Qed.

Theorem read_utterance_counts : forall (s : summary) (utt : str) (s' : summary)
                                       (words : list str) (phones : list (list str)),
  utt <> [] ->
  tokenize (sm_sep s) utt Word true = Ok words ->
  mapM (fun w => tokenize (sm_sep s) w (sm_level s) false) words = Ok phones ->
  read_utterance s utt = Ok s' ->
  (* every word has at least one unit, and there is at least one word *)
  (phones <> [] /\ Forall nonnil phones /\ length phones = length words) /\
  sm_sep s' = sm_sep s /\ sm_level s' = sm_level s /\
  nlines s' = (nlines s + 1)%Z /\
  nwords s' = (nwords s + Z.of_nat (length words))%Z /\
  nphones s' = (nphones s + Z.of_nat (length (concat phones)))%Z /\
  (forall d, cget pair_eqb (internal s') d
             = (cget pair_eqb (internal s) d + occ pair_eqb d (flat_map zip_adj phones))%Z) /\
  (forall d, cget pair_eqb (spanning s') d
             = (cget pair_eqb (spanning s) d + occ pair_eqb d (spans phones))%Z) /\
  (forall w, cget str_eqb (lexicon s') w
             = (cget str_eqb (lexicon s) w + occ str_eqb w words)%Z) /\
  (forall u, cget str_eqb (phrase_initial s') u
             = (cget str_eqb (phrase_initial s) u + if str_eqb u (first_of phones) then 1 else 0)%Z) /\
  (forall u, cget str_eqb (phrase_final s') u
             = (cget str_eqb (phrase_final s) u + if str_eqb u (last_of phones) then 1 else 0)%Z) /\
  diphones s' = [].
Proof.
  intros s utt s' words phones Hne Hw Hp H.
  destruct (read_utterance_ok s utt s' words phones Hne Hw Hp H) as [Hn [F ->]].
  cbn [sm_sep sm_level nlines nwords nphones lexicon phrase_initial phrase_final internal spanning diphones].
  split; [split; [exact Hn|split; [exact F|exact (mapM_length _ _ _ Hp)]]|].
  repeat split.
  - intros d. apply cget_cadd_all_pair.
  - intros d. apply cget_cadd_all_pair.
  - intros w. apply cget_cadd_all_str.
  - intros u. apply (cget_cadd str_eqb str_eqb_spec).
  - intros u. apply (cget_cadd str_eqb str_eqb_spec).
Qed.

(* the empty utterance leaves the summary unchanged *)
Lemma read_utterance_nil (s : summary) : read_utterance s [] = Ok s.
Proof. reflexivity. Qed.

(* a successful read_utterance always went through tokenize *)
Lemma read_utterance_inv (s : summary) (utt : str) (s' : summary) :
  utt <> [] -> read_utterance s utt = Ok s' ->
  exists (words : list str) (phones : list (list str)),
    tokenize (sm_sep s) utt Word true = Ok words /\
    mapM (fun w => tokenize (sm_sep s) w (sm_level s) false) words = Ok phones.
Proof.
  intros Hne H. unfold read_utterance in H. destruct utt as [|c0 utt']; [congruence|].
  apply bind_ok in H. destruct H as [words [Hw H]].
  apply bind_ok in H. destruct H as [phones [Hp H]].
  now exists words, phones.
Qed.

(* ================================================================== *)
(* train_loop                                                          *)
(* ================================================================== *)

Theorem blank_lines_skipped : forall (s : summary) (utt : str) (r : list str),
  strip utt = [] -> train_loop s (utt :: r) = train_loop s r.
Proof. intros s utt r H. cbn [train_loop]. rewrite H. reflexivity. Qed.

Theorem missing_word_separator_rejected : forall (s : summary) (utt w : str) (r : list str),
  strip utt <> [] -> s_word (sm_sep s) = Some w -> infix_b w utt = false ->
  train_loop s (utt :: r) = Raise ValueError.
Proof.
  intros s utt w r Hs Hw Hi. cbn [train_loop].
  destruct (strip utt) as [|c u]; [congruence|]. rewrite Hw, Hi. reflexivity.
Qed.

Lemma train_loop_step (s : summary) (utt w : str) (r : list str) :
  strip utt <> [] -> s_word (sm_sep s) = Some w -> infix_b w utt = true ->
  train_loop s (utt :: r) = (do s' <- read_utterance s utt; train_loop s' r).
Proof.
  intros Hs Hw Hi. cbn [train_loop].
  destruct (strip utt) as [|c u]; [congruence|]. rewrite Hw, Hi. reflexivity.
Qed.

Lemma train_loop_no_word_sep (s : summary) (utt : str) (r : list str) :
  strip utt <> [] -> s_word (sm_sep s) = None -> train_loop s (utt :: r) = Raise TypeError.
Proof.
  intros Hs Hw. cbn [train_loop].
  destruct (strip utt) as [|c u]; [congruence|]. rewrite Hw. reflexivity.
Qed.

(* invariants of read_utterance are invariants of the training loop *)
Lemma train_loop_inv (P : summary -> Prop) :
  (forall (s : summary) (utt : str) (s' : summary), P s -> read_utterance s utt = Ok s' -> P s') ->
  forall (text : list str) (s s' : summary), P s -> train_loop s text = Ok s' -> P s'.
Proof.
  intros Step. induction text as [|utt r IH]; intros s s' HP H.
  - injection H as <-. exact HP.
  - cbn [train_loop] in H. destruct (strip utt) as [|c u].
    + now apply (IH s s').
    + destruct (s_word (sm_sep s)) as [w|]; [|discriminate].
      destruct (infix_b w utt); [|discriminate].
      apply bind_ok in H. destruct H as [s1 [H1 H]].
      apply (IH s1 s'); [|exact H]. now apply (Step s utt s1).
Qed.

(* ================================================================== *)
(* counters built by cadd have unique keys: first-match lookup = sum   *)
(* ================================================================== *)

Section Uniq.
Context {K : Type} (eqb : K -> K -> bool).
Hypothesis eqb_spec : forall a b, reflect (a = b) (eqb a b).

(* sum of all entries whose key equals k *)
Fixpoint csum (c : counter K) (k : K) : Z :=
  match c with
  | [] => 0
  | (k', v) :: r => (if eqb k k' then v else 0) + csum r k
  end.

Definition cuniq (c : counter K) : Prop := forall k, csum c k = cget eqb c k.

Lemma csum_cadd (c : counter K) (k k' : K) (d : Z) :
  csum (cadd eqb c k' d) k = csum c k + if eqb k k' then d else 0.
Proof.
  induction c as [|[k0 v] r IH]; cbn [cadd csum].
  - destruct (eqb k k'); lia.
  - destruct (eqb_spec k' k0) as [->|Hne]; cbn [csum].
    + destruct (eqb k k0); lia.
    + rewrite IH. lia.
Qed.

Lemma cuniq_nil : cuniq [].
Proof. intros k. reflexivity. Qed.

Lemma cuniq_cadd (c : counter K) (k' : K) (d : Z) : cuniq c -> cuniq (cadd eqb c k' d).
Proof. intros H k. rewrite csum_cadd, (cget_cadd eqb eqb_spec), H. reflexivity. Qed.

Lemma cuniq_cadd_all (ks : list K) (c : counter K) : cuniq c -> cuniq (cadd_all eqb c ks).
Proof.
  unfold cadd_all. revert c. induction ks as [|k ks IH]; intros c H; cbn [fold_left]; [exact H|].
  apply IH. now apply cuniq_cadd.
Qed.

End Uniq.

Lemma cget_merge (b a : counter (str * str)) (d : str * str) :
  cget pair_eqb (merge a b) d = cget pair_eqb a d + csum pair_eqb b d.
Proof.
  unfold merge. revert a. induction b as [|[k v] b IH]; intros a; cbn [fold_left csum fst snd]; [lia|].
  rewrite IH, (cget_cadd pair_eqb pair_eqb_spec). lia.
Qed.

(* ================================================================== *)
(* invariants of a trained summary                                     *)
(* ================================================================== *)

Definition summary0 (sep : separator) (lv : level) : summary :=
  {| sm_sep := sep; sm_level := lv; nlines := 0; nwords := 0; nphones := 0;
     lexicon := []; phrase_initial := []; phrase_final := [];
     internal := []; spanning := []; diphones := [] |}.

Lemma corpus_summary_ok (text : list str) (sep : separator) (lv : level) (s : summary) :
  corpus_summary text sep lv = Ok s ->
  lv <> Word /\
  exists s0, train_loop (summary0 sep lv) text = Ok s0 /\
    s = {| sm_sep := sm_sep s0; sm_level := sm_level s0; nlines := nlines s0; nwords := nwords s0;
           nphones := nphones s0; lexicon := lexicon s0; phrase_initial := phrase_initial s0;
           phrase_final := phrase_final s0; internal := internal s0; spanning := spanning s0;
           diphones := merge (internal s0) (spanning s0) |}.
Proof.
  intros H. destruct lv; cbn [corpus_summary] in H; try discriminate;
    (split; [discriminate|]);
    apply bind_ok in H; destruct H as [s0 [H0 H]]; exists s0; (split; [exact H0|]);
    injection H as <-; reflexivity.
Qed.

(* the statistics that read_utterance maintains *)
Record sm_inv (s : summary) : Prop := {
  inv_lex : cnonneg (lexicon s);
  inv_pi : cnonneg (phrase_initial s);
  inv_pf : cnonneg (phrase_final s);
  inv_int : cnonneg (internal s);
  inv_spn : cnonneg (spanning s);
  inv_uniq : cuniq pair_eqb (spanning s);
  inv_lines : 0 <= nlines s <= nwords s;
  inv_words : nwords s <= nphones s }.

Lemma length_concat_nonnil {A} (l : list (list A)) :
  Forall nonnil l -> (length l <= length (concat l))%nat.
Proof.
  induction l as [|x l IH]; intros F; [cbn; lia|].
  inversion F as [|? ? Hx Hl]; subst. cbn [concat length]. rewrite app_length.
  specialize (IH Hl). destruct x; [congruence|]. cbn [length]. lia.
Qed.

Lemma sm_inv_read (s : summary) (utt : str) (s' : summary) :
  sm_inv s -> read_utterance s utt = Ok s' -> sm_inv s'.
Proof.
  intros I H. destruct utt as [|c0 u0] eqn:Eu.
  - injection H as <-. exact I.
  - rewrite <- Eu in H. assert (Hne : utt <> []) by (rewrite Eu; discriminate).
    destruct (read_utterance_inv s utt s' Hne H) as [words [phones [Hw Hp]]].
    destruct (read_utterance_ok s utt s' words phones Hne Hw Hp H) as [Hn [F ->]].
    pose proof (mapM_length _ _ _ Hp) as L.
    pose proof (length_concat_nonnil phones F) as LC.
    assert (1 <= length phones)%nat by (destruct phones; [congruence|cbn [length]; lia]).
    destruct I.
    constructor; cbn [sm_sep sm_level nlines nwords nphones lexicon phrase_initial phrase_final
                      internal spanning diphones].
    + now apply cadd_all_nonneg.
    + apply cadd_nonneg; [lia|assumption].
    + apply cadd_nonneg; [lia|assumption].
    + now apply cadd_all_nonneg.
    + now apply cadd_all_nonneg.
    + apply (cuniq_cadd_all pair_eqb pair_eqb_spec). assumption.
    + lia.
    + lia.
Qed.

Lemma sm_inv_0 (sep : separator) (lv : level) : sm_inv (summary0 sep lv).
Proof.
  constructor; unfold summary0;
    cbn [sm_sep sm_level nlines nwords nphones lexicon phrase_initial phrase_final
         internal spanning diphones];
    try (apply Forall_nil); try lia.
  intros k. reflexivity.
Qed.

Lemma sm_inv_train (text : list str) (s s' : summary) :
  sm_inv s -> train_loop s text = Ok s' -> sm_inv s'.
Proof. apply (train_loop_inv sm_inv sm_inv_read). Qed.

Theorem corpus_summary_inv (text : list str) (sep : separator) (lv : level) (s : summary) :
  corpus_summary text sep lv = Ok s -> sm_inv s.
Proof.
  intros H. apply corpus_summary_ok in H. destruct H as [_ [s0 [H0 ->]]].
  pose proof (sm_inv_train text _ s0 (sm_inv_0 sep lv) H0) as I. destruct I.
  constructor; cbn [sm_sep sm_level nlines nwords nphones lexicon phrase_initial phrase_final
                    internal spanning diphones]; assumption.
Qed.

Theorem diphones_is_sum : forall (text : list str) (sep : separator) (lv : level) (s : summary),
  corpus_summary text sep lv = Ok s ->
  forall d, cget pair_eqb (diphones s) d
            = (cget pair_eqb (internal s) d + cget pair_eqb (spanning s) d)%Z.
Proof.
  intros text sep lv s H d.
  pose proof (corpus_summary_inv text sep lv s H) as I.
  apply corpus_summary_ok in H. destruct H as [_ [s0 [H0 ->]]].
  cbn [diphones internal spanning] in *.
  rewrite cget_merge. f_equal. apply (inv_uniq _ I).
Qed.

(* the sep / level of the summary are those given *)
Lemma train_loop_sep (text : list str) (s s' : summary) :
  train_loop s text = Ok s' -> sm_sep s' = sm_sep s /\ sm_level s' = sm_level s.
Proof.
  intros H.
  apply (train_loop_inv (fun x => sm_sep x = sm_sep s /\ sm_level x = sm_level s)) with (text := text) (s := s);
    [|split; reflexivity|exact H].
  intros s1 utt s2 [E1 E2] R. destruct utt as [|c0 u0] eqn:Eu.
  - injection R as <-. now split.
  - rewrite <- Eu in R. assert (Hne : utt <> []) by (rewrite Eu; discriminate).
    destruct (read_utterance_inv s1 utt s2 Hne R) as [words [phones [Hw Hp]]].
    destruct (read_utterance_ok s1 utt s2 words phones Hne Hw Hp R) as [_ [_ ->]].
    cbn [sm_sep sm_level]. now split.
Qed.

(* ================================================================== *)
(* a trained summary satisfies the hypotheses of probs_unit_interval   *)
(* ================================================================== *)

Theorem trained_probs_hyp : forall (text : list str) (sep : separator) (lv : level) (s : summary)
                                   (k : kind) (pwb : option Q),
  corpus_summary text sep lv = Ok s ->
  (forall q, pwb = Some q -> (0 <= q)%Q) ->
  probs_hyp k s pwb.
Proof.
  intros text sep lv s k pwb H Hq.
  pose proof (corpus_summary_inv text sep lv s H) as I. destruct I.
  assert (P : forall p, pwb_value s pwb = Ok p -> (0 <= p)%Q).
  { intros p Hp. destruct pwb as [q|].
    - cbn [pwb_value] in Hp. injection Hp as <-. now apply Hq.
    - cbn [pwb_value] in Hp. unfold pwb_estimate in Hp.
      destruct (nphones s - nlines s =? 0); [discriminate|]. injection Hp as <-.
      apply Qdiv_unit; [apply zq_nonneg; lia|apply zq_le; lia]. }
  destruct k; cbn [probs_hyp]; auto.
Qed.

(* ================================================================== *)
(* corpus level: the statistics are direct counts over the tokenized,  *)
(* non-blank utterances                                                *)
(* ================================================================== *)

(* (words, phones) of one utterance *)
Definition parsed (sep : separator) (lv : level) (utt : str) (wp : list str * list (list str)) : Prop :=
  tokenize sep utt Word true = Ok (fst wp) /\
  mapM (fun w => tokenize sep w lv false) (fst wp) = Ok (snd wp).

Definition blank_b (utt : str) : bool := match strip utt with [] => true | _ => false end.
Definition kept (text : list str) : list str := filter (fun utt => negb (blank_b utt)) text.

Definition all_words (wps : list (list str * list (list str))) : list str := flat_map fst wps.
Definition all_phones (wps : list (list str * list (list str))) : list (list str) := flat_map snd wps.

Record counts_rel (s s' : summary) (wps : list (list str * list (list str))) : Prop := {
  cr_lines : nlines s' = nlines s + Z.of_nat (length wps);
  cr_words : nwords s' = nwords s + Z.of_nat (length (all_words wps));
  cr_phones : nphones s' = nphones s + Z.of_nat (length (concat (all_phones wps)));
  cr_int : forall d, cget pair_eqb (internal s') d
                     = cget pair_eqb (internal s) d + occ pair_eqb d (flat_map zip_adj (all_phones wps));
  cr_spn : forall d, cget pair_eqb (spanning s') d
                     = cget pair_eqb (spanning s) d + occ pair_eqb d (flat_map (fun wp => spans (snd wp)) wps);
  cr_lex : forall w, cget str_eqb (lexicon s') w
                     = cget str_eqb (lexicon s) w + occ str_eqb w (all_words wps);
  cr_pi : forall u, cget str_eqb (phrase_initial s') u
                    = cget str_eqb (phrase_initial s) u + occ str_eqb u (map (fun wp => first_of (snd wp)) wps);
  cr_pf : forall u, cget str_eqb (phrase_final s') u
                    = cget str_eqb (phrase_final s) u + occ str_eqb u (map (fun wp => last_of (snd wp)) wps) }.

Lemma strip_nil : strip [] = [].
Proof. reflexivity. Qed.

Theorem train_loop_counts : forall (text : list str) (s s' : summary),
  train_loop s text = Ok s' ->
  exists wps : list (list str * list (list str)),
    Forall2 (parsed (sm_sep s) (sm_level s)) (kept text) wps /\
    Forall (fun wp => snd wp <> [] /\ Forall nonnil (snd wp) /\ length (snd wp) = length (fst wp)) wps /\
    counts_rel s s' wps.
Proof.
  induction text as [|utt r IH]; intros s s' H.
  - injection H as <-. exists []. split; [constructor|]. split; [constructor|].
    constructor; intros; cbn; lia.
  - cbn [train_loop] in H. unfold kept. cbn [filter]. unfold blank_b at 1.
    destruct (strip utt) as [|c u] eqn:Es.
    + cbn [negb]. apply (IH s s' H).
    + cbn [negb].
      destruct (s_word (sm_sep s)) as [w|]; [|discriminate].
      destruct (infix_b w utt); [|discriminate].
      apply bind_ok in H. destruct H as [s1 [H1 H]].
      assert (Hne : utt <> []) by (intros ->; rewrite strip_nil in Es; discriminate).
      destruct (read_utterance_inv s utt s1 Hne H1) as [words [phones [Hw Hp]]].
      destruct (read_utterance_counts s utt s1 words phones Hne Hw Hp H1)
        as [Hshape [Esep [Elv [Hl [Hwd [Hph [Hint [Hspn [Hlex [Hpi [Hpf _]]]]]]]]]]].
      destruct (IH s1 s' H) as [wps [P [Sh C]]]. rewrite Esep, Elv in P.
      exists ((words, phones) :: wps). split; [|split].
      * constructor; [split; assumption|exact P].
      * constructor; [exact Hshape|exact Sh].
      * destruct C.
        constructor; unfold all_words, all_phones in *; cbn [flat_map map fst snd length].
        -- lia.
        -- rewrite app_length. lia.
        -- rewrite concat_app, app_length. lia.
        -- intros d. rewrite flat_map_app, occ_app, cr_int0, Hint. lia.
        -- intros d. rewrite occ_app, cr_spn0, Hspn. lia.
        -- intros x. rewrite occ_app, cr_lex0, Hlex. lia.
        -- intros x. cbn [occ]. rewrite cr_pi0, Hpi. lia.
        -- intros x. cbn [occ]. rewrite cr_pf0, Hpf. lia.
Qed.

(* a trained CorpusSummary holds exactly the direct counts *)
Theorem corpus_summary_counts : forall (text : list str) (sep : separator) (lv : level) (s : summary),
  corpus_summary text sep lv = Ok s ->
  exists wps : list (list str * list (list str)),
    Forall2 (parsed sep lv) (kept text) wps /\
    nlines s = Z.of_nat (length wps) /\
    nwords s = Z.of_nat (length (all_words wps)) /\
    nphones s = Z.of_nat (length (concat (all_phones wps))) /\
    (forall d, cget pair_eqb (internal s) d = occ pair_eqb d (flat_map zip_adj (all_phones wps))) /\
    (forall d, cget pair_eqb (spanning s) d = occ pair_eqb d (flat_map (fun wp => spans (snd wp)) wps)) /\
    (forall d, cget pair_eqb (diphones s) d
               = occ pair_eqb d (flat_map zip_adj (all_phones wps))
                 + occ pair_eqb d (flat_map (fun wp => spans (snd wp)) wps)) /\
    (forall w, cget str_eqb (lexicon s) w = occ str_eqb w (all_words wps)) /\
    (forall u, cget str_eqb (phrase_initial s) u = occ str_eqb u (map (fun wp => first_of (snd wp)) wps)) /\
    (forall u, cget str_eqb (phrase_final s) u = occ str_eqb u (map (fun wp => last_of (snd wp)) wps)).
Proof.
  intros text sep lv s H.
  pose proof (diphones_is_sum text sep lv s H) as D.
  apply corpus_summary_ok in H. destruct H as [_ [s0 [H0 E]]].
  destruct (train_loop_counts text _ s0 H0) as [wps [P [_ C]]]. destruct C.
  unfold summary0 in *.
  cbn [sm_sep sm_level nlines nwords nphones lexicon phrase_initial phrase_final internal spanning cget] in *.
  exists wps. split; [exact P|].
  assert (Ei : internal s = internal s0) by (rewrite E; reflexivity).
  assert (Es : spanning s = spanning s0) by (rewrite E; reflexivity).
  repeat split.
  - rewrite E; cbn [nlines]; lia.
  - rewrite E; cbn [nwords]; lia.
  - rewrite E; cbn [nphones]; lia.
  - intros d. rewrite Ei, cr_int0. lia.
  - intros d. rewrite Es, cr_spn0. lia.
  - intros d. rewrite D, Ei, Es, cr_int0, cr_spn0. lia.
  - intros w. rewrite E; cbn [lexicon]. rewrite cr_lex0. lia.
  - intros u. rewrite E; cbn [phrase_initial]. rewrite cr_pi0. lia.
  - intros u. rewrite E; cbn [phrase_final]. rewrite cr_pf0. lia.
Qed.

(* ================================================================== *)
(* positive counts: the denominator pdf(diphones)[d] of a seen diphone *)
(* of a trained summary is positive                                    *)
(* ================================================================== *)

Section Pos.
Context {K : Type} (eqb : K -> K -> bool).

Definition cpos (c : counter K) : Prop := Forall (fun kv => 0 < snd kv) c.

Lemma cpos_nonneg (c : counter K) : cpos c -> cnonneg c.
Proof. apply Forall_impl. intros kv H. lia. Qed.

Lemma cadd_pos (c : counter K) (k : K) (d : Z) : 0 < d -> cpos c -> cpos (cadd eqb c k d).
Proof.
  intros Hd. induction c as [|[k' v] r IH]; intros H; cbn [cadd].
  - constructor; [exact Hd|constructor].
  - inversion H as [|? ? Hv Hr]; subst. cbn [snd] in Hv.
    destruct (eqb k k'); constructor; cbn [snd]; try lia; try assumption. now apply IH.
Qed.

Lemma cadd_all_pos (ks : list K) (c : counter K) : cpos c -> cpos (cadd_all eqb c ks).
Proof.
  unfold cadd_all. revert c. induction ks as [|k ks IH]; intros c H; cbn [fold_left]; [exact H|].
  apply IH. apply cadd_pos; [lia|exact H].
Qed.

Lemma cmem_cget_pos (c : counter K) (k : K) : cpos c -> cmem eqb c k = true -> 0 < cget eqb c k.
Proof.
  induction c as [|[k' v] r IH]; intros H M; cbn [cmem cget] in *; [discriminate|].
  inversion H as [|? ? Hv Hr]; subst. cbn [snd] in Hv.
  destruct (eqb k k'); [exact Hv|]. cbn [orb] in M. now apply IH.
Qed.

Lemma pdf_pos (c : counter K) (k : K) : cpos c -> cmem eqb c k = true -> (0 < pdf eqb c k)%Q.
Proof.
  intros H M. unfold pdf. rewrite M.
  pose proof (cmem_cget_pos c k H M) as G.
  pose proof (cget_le_total eqb c k (cpos_nonneg c H)) as T.
  assert (Z0 : forall z : Z, 0 < z -> (0 < zq z)%Q).
  { intros z Hz. unfold zq. change 0%Q with (inject_Z 0). now rewrite <- Zlt_Qlt. }
  apply Qlt_shift_div_l; [apply Z0; lia|]. rewrite Qmult_0_l. now apply Z0.
Qed.

End Pos.

Lemma merge_pos (b a : counter (str * str)) : cpos a -> cpos b -> cpos (merge a b).
Proof.
  unfold merge. revert a. induction b as [|[k v] b IH]; intros a Ha Hb; cbn [fold_left]; [exact Ha|].
  inversion Hb as [|? ? Hv Hb']; subst. cbn [snd fst] in *.
  apply IH; [|exact Hb']. now apply cadd_pos.
Qed.

Lemma pos_inv_train (text : list str) (s s' : summary) :
  cpos (internal s) /\ cpos (spanning s) -> train_loop s text = Ok s' ->
  cpos (internal s') /\ cpos (spanning s').
Proof.
  apply (train_loop_inv (fun x => cpos (internal x) /\ cpos (spanning x))).
  intros s1 utt s2 [Pi Ps] R. destruct utt as [|c0 u0] eqn:Eu.
  - injection R as <-. now split.
  - rewrite <- Eu in R. assert (Hne : utt <> []) by (rewrite Eu; discriminate).
    destruct (read_utterance_inv s1 utt s2 Hne R) as [words [phones [Hw Hp]]].
    destruct (read_utterance_ok s1 utt s2 words phones Hne Hw Hp R) as [_ [_ ->]].
    cbn [internal spanning]. split; now apply cadd_all_pos.
Qed.

Theorem trained_den_pos : forall (text : list str) (sep : separator) (lv : level) (s : summary) (d : str * str),
  corpus_summary text sep lv = Ok s -> cmem pair_eqb (diphones s) d = true ->
  (0 < pdf pair_eqb (diphones s) d)%Q.
Proof.
  intros text sep lv s d H M.
  apply corpus_summary_ok in H. destruct H as [_ [s0 [H0 E]]].
  assert (P0 : cpos (internal (summary0 sep lv)) /\ cpos (spanning (summary0 sep lv)))
    by (split; constructor).
  destruct (pos_inv_train text _ s0 P0 H0) as [Pi Ps].
  apply pdf_pos; [|exact M]. rewrite E. cbn [diphones]. now apply merge_pos.
Qed.

(* the Phrasal / Lexical formulas on a trained summary, without side condition *)
Corollary phrasal_prob_trained : forall (text : list str) (sep : separator) (lv : level) (s : summary)
    (pwb : option Q) (t : list ((str * str) * Q)) (d : str * str) (p : Q),
  corpus_summary text sep lv = Ok s ->
  init_diphones Phrasal s pwb = Ok t -> pwb_value s pwb = Ok p ->
  cmem pair_eqb (diphones s) d = true ->
  (dget t d == Qmin 1 ((pdf str_eqb (phrase_final s) (fst d) * p * pdf str_eqb (phrase_initial s) (snd d))
                       / pdf pair_eqb (diphones s) d))%Q.
Proof.
  intros text sep lv s pwb t d p Hc Ht Hp M.
  apply (phrasal_prob_spec s pwb t d p Ht Hp M). exact (trained_den_pos text sep lv s d Hc M).
Qed.

Corollary lexical_prob_trained : forall (text : list str) (sep : separator) (lv : level) (s : summary)
    (pwb : option Q) (t : list ((str * str) * Q)) (d : str * str) (p : Q) (wi wf : list str),
  corpus_summary text sep lv = Ok s ->
  init_diphones Lexical s pwb = Ok t -> pwb_value s pwb = Ok p ->
  mapM (fun kv => first_unit s (fst kv)) (lexicon s) = Ok wi ->
  mapM (fun kv => last_unit s (fst kv)) (lexicon s) = Ok wf ->
  cmem pair_eqb (diphones s) d = true ->
  (dget t d == Qmin 1 ((pdf str_eqb (cadd_all str_eqb [] wf) (fst d) * p
                        * pdf str_eqb (cadd_all str_eqb [] wi) (snd d))
                       / pdf pair_eqb (diphones s) d))%Q.
Proof.
  intros text sep lv s pwb t d p wi wf Hc Ht Hp Hwi Hwf M.
  apply (lexical_prob_spec s pwb t d p wi wf Ht Hp Hwi Hwf M).
  exact (trained_den_pos text sep lv s d Hc M).
Qed.
