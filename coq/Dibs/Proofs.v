(* Theorems about the DiBS model (Dibs/Model.v):
   A. decision rule (C10), B. probability tables, C. training statistics. *)
From WS Require Import Base.Py Base.Str Base.Counter Base.CounterProofs Separator.Model Dibs.Model.
From Coq Require Import QArith Qabs Qminmax Qfield.
Local Open Scope Z_scope.

(* ================================================================== *)
(* generic: pair_eqb, Q comparisons                                    *)
(* ================================================================== *)

Lemma pair_eqb_spec (a b : str * str) : reflect (a = b) (pair_eqb a b).
Proof.
  destruct a as [a1 a2], b as [b1 b2]. unfold pair_eqb. cbn [fst snd].
  destruct (str_eqb_spec a1 b1) as [->|N1]; cbn [andb].
  - destruct (str_eqb_spec a2 b2) as [->|N2]; constructor; congruence.
  - constructor; congruence.
Qed.

Lemma pair_eqb_refl (a : str * str) : pair_eqb a a = true.
Proof. destruct (pair_eqb_spec a a); congruence. Qed.

Lemma qlt_b_iff (x y : Q) : qlt_b x y = true <-> (x < y)%Q.
Proof.
  unfold qlt_b. rewrite negb_true_iff. split.
  - intros H. apply Qnot_le_lt. intros L. apply Qle_bool_iff in L. congruence.
  - intros H. destruct (Qle_bool y x) eqn:E; [|reflexivity].
    apply Qle_bool_iff in E. exfalso. exact (Qlt_not_le _ _ H E).
Qed.

Lemma qlt_b_false_iff (x y : Q) : qlt_b x y = false <-> (y <= x)%Q.
Proof.
  unfold qlt_b. rewrite negb_false_iff. apply Qle_bool_iff.
Qed.

Lemma qle_b_iff (x y : Q) : qle_b x y = true <-> (x <= y)%Q.
Proof. apply Qle_bool_iff. Qed.

Lemma qle_b_false_iff (x y : Q) : qle_b x y = false <-> (y < x)%Q.
Proof.
  unfold qle_b. split.
  - intros H. apply Qnot_le_lt. intros L. apply Qle_bool_iff in L. congruence.
  - intros H. destruct (Qle_bool x y) eqn:E; [|reflexivity].
    apply Qle_bool_iff in E. exfalso. exact (Qlt_not_le _ _ H E).
Qed.

(* ================================================================== *)
(* A. decision rule                                                    *)
(* ================================================================== *)

(* what the loop emits for the diphone xy: an optional separator, then y *)
Definition chunk (t : list ((str * str) * Q)) (thr : Q) (wordsep : str) (xy : str * str) : list str :=
  (if qlt_b thr (dget t xy) then [wordsep] else []) ++ [snd xy].

Theorem seg_loop_spec : forall (t : list ((str * str) * Q)) (thr : Q) (wordsep prev : str) (rest : list str),
  seg_loop t thr wordsep prev rest =
  concat (map (fun xy => (if qlt_b thr (dget t xy) then [wordsep] else []) ++ [snd xy])
              (combine (prev :: rest) rest)).
Proof.
  intros t thr wordsep prev rest. revert prev.
  induction rest as [|u r IH]; intros prev; [reflexivity|].
  cbn [seg_loop]. rewrite IH.
  change (combine (prev :: u :: r) (u :: r)) with ((prev, u) :: combine (u :: r) r).
  cbn [map concat snd]. f_equal.
  destruct (qlt_b thr (dget t (prev, u))); reflexivity.
Qed.

Corollary seg_loop_chunks (t : list ((str * str) * Q)) (thr : Q) (wordsep prev : str) (rest : list str) :
  seg_loop t thr wordsep prev rest = concat (map (chunk t thr wordsep) (combine (prev :: rest) rest)).
Proof. apply seg_loop_spec. Qed.

Theorem dget_unseen : forall (t : list ((str * str) * Q)) (d : str * str),
  (forall kv, In kv t -> pair_eqb d (fst kv) = false) -> dget t d = 1%Q.
Proof.
  induction t as [|[k v] r IH]; intros d H; [reflexivity|].
  cbn [dget]. pose proof (H (k, v) (or_introl eq_refl)) as E. cbn [fst] in E. rewrite E.
  apply IH. intros kv Hin. apply H. now right.
Qed.

(* an unseen diphone is a boundary for every threshold below 1 *)
Corollary unseen_is_boundary (t : list ((str * str) * Q)) (thr : Q) (d : str * str) :
  (forall kv, In kv t -> pair_eqb d (fst kv) = false) -> (thr < 1)%Q -> qlt_b thr (dget t d) = true.
Proof. intros H L. rewrite (dget_unseen t d H). now apply qlt_b_iff. Qed.

(* The separator is emitted for the diphone (x, y) exactly when thr < P(x, y). *)
Theorem boundary_iff : forall (t : list ((str * str) * Q)) (thr : Q) (wordsep x y : str),
  (chunk t thr wordsep (x, y) = [wordsep; y] <-> (thr < dget t (x, y))%Q) /\
  (chunk t thr wordsep (x, y) = [y] <-> ~ (thr < dget t (x, y))%Q).
Proof.
  intros t thr wordsep x y. unfold chunk. cbn [snd].
  destruct (qlt_b thr (dget t (x, y))) eqn:E; cbn [app].
  - apply qlt_b_iff in E. split; split; intros H; try reflexivity; try exact E.
    + discriminate H.
    + contradiction.
  - assert (N : ~ (thr < dget t (x, y))%Q).
    { intros L. apply qlt_b_iff in L. congruence. }
    split; split; intros H; try reflexivity; try exact N.
    + discriminate H.
    + contradiction.
Qed.

(* Positional form: the i-th diphone (x, y) of the utterance [prev :: rest]
   splits the output into what was emitted before it, its own chunk, and what
   is emitted after it; the chunk contains the separator iff thr < P(x, y). *)
Theorem boundary_at : forall (t : list ((str * str) * Q)) (thr : Q) (wordsep prev : str)
                             (rest : list str) (i : nat) (x y : str),
  nth_error (combine (prev :: rest) rest) i = Some (x, y) ->
  seg_loop t thr wordsep prev rest =
    seg_loop t thr wordsep prev (firstn i rest)
    ++ (if qlt_b thr (dget t (x, y)) then [wordsep] else []) ++ [y]
    ++ seg_loop t thr wordsep y (skipn (S i) rest).
Proof.
  intros t thr wordsep prev rest. revert prev.
  induction rest as [|u r IH]; intros prev i x y H.
  - destruct i; discriminate H.
  - change (combine (prev :: u :: r) (u :: r)) with ((prev, u) :: combine (u :: r) r) in H.
    destruct i as [|i].
    + cbn [nth_error] in H. injection H as <- <-.
      cbn [firstn skipn seg_loop app].
      destruct (qlt_b thr (dget t (prev, u))); reflexivity.
    + cbn [nth_error] in H. cbn [firstn skipn seg_loop].
      rewrite (IH u i x y H) at 1. rewrite <- app_assoc. reflexivity.
Qed.

Theorem threshold_monotone : forall (t : list ((str * str) * Q)) (thr1 thr2 : Q) (xy : str * str),
  (thr1 <= thr2)%Q -> qlt_b thr2 (dget t xy) = true -> qlt_b thr1 (dget t xy) = true.
Proof.
  intros t thr1 thr2 xy L H. apply qlt_b_iff. apply qlt_b_iff in H.
  eapply Qle_lt_trans; eassumption.
Qed.

(* raising the threshold never adds a boundary: chunk by chunk, the separator
   is present at thr2 only if it is present at thr1 *)
Corollary threshold_monotone_chunk (t : list ((str * str) * Q)) (thr1 thr2 : Q) (wordsep : str) (xy : str * str) :
  (thr1 <= thr2)%Q -> chunk t thr2 wordsep xy = [wordsep; snd xy] -> chunk t thr1 wordsep xy = [wordsep; snd xy].
Proof.
  intros L H. unfold chunk in *.
  destruct (qlt_b thr2 (dget t xy)) eqn:E; [|discriminate H].
  now rewrite (threshold_monotone t thr1 thr2 xy L E).
Qed.
