(* Theorems about the DiBS model (Dibs/Model.v):
   A. decision rule (C10), B. probability tables, C. training statistics. *)
From WS Require Import Base.Py Base.Str Base.Seg Base.Counter Base.CounterProofs Separator.Model Dibs.Model Dibs.StrLemmas.
From Coq Require Import QArith Qabs Qminmax Qfield Lia.
Local Open Scope Z_scope.

(* ================================================================== *)
(* generic: pair_eqb, Q comparisons                                    *)
(* ================================================================== *)

Lemma pair_eqb_spec (a b : str * str) : reflect (a = b) (pair_eqb a b).
Proof.
  destruct a as [a1 a2], b as [b1 b2]. unfold pair_eqb. cbn [fst snd].
  destruct (str_eqb_spec a1 b1) as [->|N1]; cbn [andb].
  - destruct (str_eqb_spec a2 b2) as [->|N2]; constructor; congruence.
  - constructor; congruence.
Qed.

Lemma pair_eqb_refl (a : str * str) : pair_eqb a a = true.
Proof. destruct (pair_eqb_spec a a); congruence. Qed.

Lemma qlt_b_iff (x y : Q) : qlt_b x y = true <-> (x < y)%Q.
Proof.
  unfold qlt_b. rewrite negb_true_iff. split.
  - intros H. apply Qnot_le_lt. intros L. apply Qle_bool_iff in L. congruence.
  - intros H. destruct (Qle_bool y x) eqn:E; [|reflexivity].
    apply Qle_bool_iff in E. exfalso. exact (Qlt_not_le _ _ H E).
Qed.

Lemma qlt_b_false_iff (x y : Q) : qlt_b x y = false <-> (y <= x)%Q.
Proof.
  unfold qlt_b. rewrite negb_false_iff. apply Qle_bool_iff.
Qed.

Lemma qle_b_iff (x y : Q) : qle_b x y = true <-> (x <= y)%Q.
Proof. apply Qle_bool_iff. Qed.

Lemma qle_b_false_iff (x y : Q) : qle_b x y = false <-> (y < x)%Q.
Proof.
  unfold qle_b. split.
  - intros H. apply Qnot_le_lt. intros L. apply Qle_bool_iff in L. congruence.
  - intros H. destruct (Qle_bool x y) eqn:E; [|reflexivity].
    apply Qle_bool_iff in E. exfalso. exact (Qlt_not_le _ _ H E).
Qed.

(* ================================================================== *)
(* A. decision rule                                                    *)
(* ================================================================== *)

(* what the loop emits for the diphone xy: an optional separator, then y *)
Definition chunk (t : list ((str * str) * Q)) (thr : Q) (wordsep : str) (xy : str * str) : list str :=
  (if qlt_b thr (dget t xy) then [wordsep] else []) ++ [snd xy].

Theorem seg_loop_spec : forall (t : list ((str * str) * Q)) (thr : Q) (wordsep prev : str) (rest : list str),
  seg_loop t thr wordsep prev rest =
  concat (map (fun xy => (if qlt_b thr (dget t xy) then [wordsep] else []) ++ [snd xy])
              (combine (prev :: rest) rest)).
Proof.
  intros t thr wordsep prev rest. revert prev.
  induction rest as [|u r IH]; intros prev; [reflexivity|].
  cbn [seg_loop]. rewrite IH.
  change (combine (prev :: u :: r) (u :: r)) with ((prev, u) :: combine (u :: r) r).
  cbn [map concat snd]. f_equal.
  destruct (qlt_b thr (dget t (prev, u))); reflexivity.
Qed.

Corollary seg_loop_chunks (t : list ((str * str) * Q)) (thr : Q) (wordsep prev : str) (rest : list str) :
  seg_loop t thr wordsep prev rest = concat (map (chunk t thr wordsep) (combine (prev :: rest) rest)).
Proof. apply seg_loop_spec. Qed.

Theorem dget_unseen : forall (t : list ((str * str) * Q)) (d : str * str),
  (forall kv, In kv t -> pair_eqb d (fst kv) = false) -> dget t d = 1%Q.
Proof.
  induction t as [|[k v] r IH]; intros d H; [reflexivity|].
  cbn [dget]. pose proof (H (k, v) (or_introl eq_refl)) as E. cbn [fst] in E. rewrite E.
  apply IH. intros kv Hin. apply H. now right.
Qed.

(* an unseen diphone is a boundary for every threshold below 1 *)
Corollary unseen_is_boundary (t : list ((str * str) * Q)) (thr : Q) (d : str * str) :
  (forall kv, In kv t -> pair_eqb d (fst kv) = false) -> (thr < 1)%Q -> qlt_b thr (dget t d) = true.
Proof. intros H L. rewrite (dget_unseen t d H). now apply qlt_b_iff. Qed.

(* The separator is emitted for the diphone (x, y) exactly when thr < P(x, y). *)
Theorem boundary_iff : forall (t : list ((str * str) * Q)) (thr : Q) (wordsep x y : str),
  (chunk t thr wordsep (x, y) = [wordsep; y] <-> (thr < dget t (x, y))%Q) /\
  (chunk t thr wordsep (x, y) = [y] <-> ~ (thr < dget t (x, y))%Q).
Proof.
  intros t thr wordsep x y. unfold chunk. cbn [snd].
  destruct (qlt_b thr (dget t (x, y))) eqn:E; cbn [app].
  - apply qlt_b_iff in E. split; split; intros H; try reflexivity; try exact E.
    + discriminate H.
    + contradiction.
  - assert (N : ~ (thr < dget t (x, y))%Q).
    { intros L. apply qlt_b_iff in L. congruence. }
    split; split; intros H; try reflexivity; try exact N.
    + discriminate H.
    + contradiction.
Qed.

(* Positional form: the i-th diphone (x, y) of the utterance [prev :: rest]
   splits the output into what was emitted before it, its own chunk, and what
   is emitted after it; the chunk contains the separator iff thr < P(x, y). *)
Theorem boundary_at : forall (t : list ((str * str) * Q)) (thr : Q) (wordsep prev : str)
                             (rest : list str) (i : nat) (x y : str),
  nth_error (combine (prev :: rest) rest) i = Some (x, y) ->
  seg_loop t thr wordsep prev rest =
    seg_loop t thr wordsep prev (firstn i rest)
    ++ (if qlt_b thr (dget t (x, y)) then [wordsep] else []) ++ [y]
    ++ seg_loop t thr wordsep y (skipn (S i) rest).
Proof.
  intros t thr wordsep prev rest. revert prev.
  induction rest as [|u r IH]; intros prev i x y H.
  - destruct i; discriminate H.
  - change (combine (prev :: u :: r) (u :: r)) with ((prev, u) :: combine (u :: r) r) in H.
    destruct i as [|i].
    + cbn [nth_error] in H. injection H as <- <-.
      cbn [firstn skipn seg_loop app].
      destruct (qlt_b thr (dget t (prev, u))); reflexivity.
    + cbn [nth_error] in H. cbn [firstn skipn seg_loop].
      rewrite (IH u i x y H) at 1. rewrite <- app_assoc. reflexivity.
Qed.

Theorem threshold_monotone : forall (t : list ((str * str) * Q)) (thr1 thr2 : Q) (xy : str * str),
  (thr1 <= thr2)%Q -> qlt_b thr2 (dget t xy) = true -> qlt_b thr1 (dget t xy) = true.
Proof.
  intros t thr1 thr2 xy L H. apply qlt_b_iff. apply qlt_b_iff in H.
  eapply Qle_lt_trans; eassumption.
Qed.

(* raising the threshold never adds a boundary: chunk by chunk, the separator
   is present at thr2 only if it is present at thr1 *)
Corollary threshold_monotone_chunk (t : list ((str * str) * Q)) (thr1 thr2 : Q) (wordsep : str) (xy : str * str) :
  (thr1 <= thr2)%Q -> chunk t thr2 wordsep xy = [wordsep; snd xy] -> chunk t thr1 wordsep xy = [wordsep; snd xy].
Proof.
  intros L H. unfold chunk in *.
  destruct (qlt_b thr2 (dget t xy)) eqn:E; [|discriminate H].
  now rewrite (threshold_monotone t thr1 thr2 xy L E).
Qed.

(* ================================================================== *)
(* A'. the word list built by the loop (seg_words), since fix b848432  *)
(* ================================================================== *)
(* segment_utt no longer goes through the marker list [seg_loop]: it builds the
   words as lists of units (seg_words) and joins them.  This part states the
   decision rule for what segment_utt computes, and links it to seg_loop so that
   the theorems above keep speaking about the code path. *)

(* the units after [prev], cut before every unit u whose diphone (previous unit, u)
   is above the threshold: (continuation of the current word, following words) *)
Fixpoint dibs_cut (t : list ((str * str) * Q)) (thr : Q) (prev : str) (rest : list str)
  : list str * list (list str) :=
  match rest with
  | [] => ([], [])
  | u :: r =>
    if qlt_b thr (dget t (prev, u))
    then ([], (u :: fst (dibs_cut t thr u r)) :: snd (dibs_cut t thr u r))
    else (u :: fst (dibs_cut t thr u r), snd (dibs_cut t thr u r))
  end.

(* the words of the utterance p0 :: rest *)
Definition dibs_words (t : list ((str * str) * Q)) (thr : Q) (p0 : str) (rest : list str) : list (list str) :=
  (p0 :: fst (dibs_cut t thr p0 rest)) :: snd (dibs_cut t thr p0 rest).

(* index (in the concatenation, counted from off) of the first unit of every word *)
Fixpoint word_starts (off : nat) (ws : list (list str)) : list nat :=
  match ws with
  | [] => []
  | g :: r => off :: word_starts (off + length g)%nat r
  end.

(* a marker list split at the markers *)
Fixpoint split_marker (m : str) (l : list str) : list (list str) :=
  match l with
  | [] => [[]]
  | x :: r =>
    if str_eqb x m then [] :: split_marker m r
    else (x :: hd [] (split_marker m r)) :: tl (split_marker m r)
  end.

Theorem word_starts_spec : forall (ws : list (list str)) (off k : nat),
  In k (word_starts off ws) <->
  exists n : nat, (n < length ws)%nat /\ k = (off + length (concat (firstn n ws)))%nat.
Proof.
  induction ws as [|g r IH]; intros off k; cbn [word_starts In length].
  - split; [intros []|]. intros [n [Hn _]]. inversion Hn.
  - split.
    + intros [E|Hin].
      * exists 0%nat. split; [apply Nat.lt_0_succ|]. cbn [firstn concat length]. now rewrite Nat.add_0_r.
      * apply IH in Hin. destruct Hin as [n [Hn E]]. exists (S n). split; [now apply -> Nat.succ_lt_mono|].
        cbn [firstn concat]. rewrite app_length, Nat.add_assoc. exact E.
    + intros [n [Hn E]]. destruct n as [|n].
      * left. cbn [firstn concat length] in E. now rewrite Nat.add_0_r in E.
      * right. apply IH. exists n. split; [now apply Nat.succ_lt_mono|].
        cbn [firstn concat] in E. rewrite app_length, Nat.add_assoc in E. exact E.
Qed.

(* the loop, from any state: the finished words, then the current word continued up to the next
   boundary, then the following words *)
Theorem seg_words_spec : forall (t : list ((str * str) * Q)) (thr : Q) (prev : str) (rest cur : list str)
                                (acc : list (list str)),
  seg_words t thr prev rest cur acc =
  rev acc ++ (rev cur ++ fst (dibs_cut t thr prev rest)) :: snd (dibs_cut t thr prev rest).
Proof.
  intros t thr prev rest. revert prev.
  induction rest as [|u r IH]; intros prev cur acc.
  - cbn [seg_words dibs_cut fst snd rev]. now rewrite app_nil_r.
  - cbn [seg_words dibs_cut]. destruct (qlt_b thr (dget t (prev, u))); cbn [fst snd]; rewrite IH.
    + cbn [rev app]. rewrite app_nil_r, <- app_assoc. reflexivity.
    + cbn [rev]. rewrite <- app_assoc. reflexivity.
Qed.

Corollary seg_words_words (t : list ((str * str) * Q)) (thr : Q) (p0 : str) (rest : list str) :
  seg_words t thr p0 rest [p0] [] = dibs_words t thr p0 rest.
Proof. rewrite seg_words_spec. reflexivity. Qed.

Lemma dibs_cut_concat (t : list ((str * str) * Q)) (thr : Q) (rest : list str) : forall prev : str,
  fst (dibs_cut t thr prev rest) ++ concat (snd (dibs_cut t thr prev rest)) = rest.
Proof.
  induction rest as [|u r IH]; intros prev; [reflexivity|].
  cbn [dibs_cut]. destruct (qlt_b thr (dget t (prev, u))); cbn [fst snd concat app]; now rewrite IH.
Qed.

(* no unit lost, duplicated or reordered *)
Theorem seg_words_concat : forall (t : list ((str * str) * Q)) (thr : Q) (p0 : str) (rest : list str),
  concat (seg_words t thr p0 rest [p0] []) = p0 :: rest.
Proof.
  intros t thr p0 rest. rewrite seg_words_words. unfold dibs_words. cbn [concat app].
  now rewrite dibs_cut_concat.
Qed.

Lemma dibs_cut_nonnil (t : list ((str * str) * Q)) (thr : Q) (rest : list str) : forall prev : str,
  Forall (fun g : list str => g <> []) (snd (dibs_cut t thr prev rest)).
Proof.
  induction rest as [|u r IH]; intros prev; [constructor|].
  cbn [dibs_cut]. destruct (qlt_b thr (dget t (prev, u))); cbn [snd].
  - constructor; [discriminate|apply IH].
  - apply IH.
Qed.

(* no empty word *)
Theorem seg_words_nonnil : forall (t : list ((str * str) * Q)) (thr : Q) (p0 : str) (rest : list str),
  Forall (fun g : list str => g <> []) (seg_words t thr p0 rest [p0] []).
Proof.
  intros t thr p0 rest. rewrite seg_words_words. constructor; [discriminate|apply dibs_cut_nonnil].
Qed.

Lemma dibs_cut_starts (t : list ((str * str) * Q)) (thr : Q) (rest : list str) :
  forall (prev : str) (cur : list str) (off k : nat),
  In k (word_starts off ((cur ++ fst (dibs_cut t thr prev rest)) :: snd (dibs_cut t thr prev rest))) <->
  k = off \/
  exists (i : nat) (x y : str),
    k = (off + length cur + i)%nat /\ nth_error (combine (prev :: rest) rest) i = Some (x, y) /\
    qlt_b thr (dget t (x, y)) = true.
Proof.
  induction rest as [|u r IH]; intros prev cur off k.
  - cbn [dibs_cut fst snd word_starts In combine]. split.
    + intros [E|[]]. now left.
    + intros [E|[i [x [y [_ [H _]]]]]]; [now left|]. destruct i; discriminate H.
  - change (combine (prev :: u :: r) (u :: r)) with ((prev, u) :: combine (u :: r) r).
    cbn [dibs_cut]. destruct (qlt_b thr (dget t (prev, u))) eqn:Eb; cbn [fst snd].
    + cbn [word_starts In]. rewrite app_nil_r.
      change (u :: fst (dibs_cut t thr u r)) with ([u] ++ fst (dibs_cut t thr u r)).
      rewrite (IH u [u] (off + length cur)%nat k). cbn [length]. split.
      * intros [E|[E|[i [x [y [E [Hn Hb]]]]]]].
        -- now left.
        -- right. exists 0%nat, prev, u. split; [lia|]. split; [reflexivity|exact Eb].
        -- right. exists (S i), x, y. split; [|split; [exact Hn|exact Hb]].
           cbn [length] in *. lia.
      * intros [E|[i [x [y [E [Hn Hb]]]]]]; [now left|]. right. destruct i as [|i].
        -- left. lia.
        -- right. exists i, x, y. split; [|split; [exact Hn|exact Hb]].
           cbn [length] in *. lia.
    + change (cur ++ u :: fst (dibs_cut t thr u r)) with (cur ++ [u] ++ fst (dibs_cut t thr u r)).
      rewrite app_assoc. rewrite (IH u (cur ++ [u]) off k). rewrite app_length. cbn [length]. split.
      * intros [E|[i [x [y [E [Hn Hb]]]]]]; [now left|]. right.
        exists (S i), x, y. split; [|split; [exact Hn|exact Hb]].
        cbn [length] in *. lia.
      * intros [E|[i [x [y [E [Hn Hb]]]]]]; [now left|]. right. destruct i as [|i].
        -- cbn [nth_error] in Hn. injection Hn as <- <-. congruence.
        -- exists i, x, y. split; [|split; [exact Hn|exact Hb]].
           cbn [length] in *. lia.
Qed.

(* the words start at unit 0 and exactly at the units y = (p0 :: rest)[i+1] whose diphone
   (x, y) = ((p0 :: rest)[i], (p0 :: rest)[i+1]) has a probability above the threshold *)
Theorem seg_words_starts : forall (t : list ((str * str) * Q)) (thr : Q) (p0 : str) (rest : list str) (k : nat),
  In k (word_starts 0 (seg_words t thr p0 rest [p0] [])) <->
  k = 0%nat \/
  exists (i : nat) (x y : str),
    k = S i /\ nth_error (combine (p0 :: rest) rest) i = Some (x, y) /\ (thr < dget t (x, y))%Q.
Proof.
  intros t thr p0 rest k. rewrite seg_words_words. unfold dibs_words.
  change (p0 :: fst (dibs_cut t thr p0 rest)) with ([p0] ++ fst (dibs_cut t thr p0 rest)).
  rewrite dibs_cut_starts. cbn [length Nat.add]. split.
  - intros [E|[i [x [y [E [Hn Hb]]]]]]; [now left|]. right. exists i, x, y.
    split; [exact E|]. split; [exact Hn|]. now apply qlt_b_iff.
  - intros [E|[i [x [y [E [Hn Hb]]]]]]; [now left|]. right. exists i, x, y.
    split; [exact E|]. split; [exact Hn|]. now apply qlt_b_iff.
Qed.

(* for every adjacent pair (x, y) of units, at its position: a word boundary is placed between
   them iff thr < P(x, y) *)
Theorem seg_words_boundary_iff : forall (t : list ((str * str) * Q)) (thr : Q) (p0 : str) (rest : list str)
                                        (i : nat) (x y : str),
  nth_error (combine (p0 :: rest) rest) i = Some (x, y) ->
  (In (S i) (word_starts 0 (seg_words t thr p0 rest [p0] [])) <-> (thr < dget t (x, y))%Q).
Proof.
  intros t thr p0 rest i x y Hn. rewrite seg_words_starts. split.
  - intros [E|[j [x' [y' [E [Hn' L]]]]]]; [discriminate E|].
    injection E as <-. rewrite Hn in Hn'. injection Hn' as <- <-. exact L.
  - intros L. right. exists i, x, y. repeat split; assumption.
Qed.

(* raising the threshold never adds a boundary *)
Theorem seg_words_threshold_monotone : forall (t : list ((str * str) * Q)) (thr1 thr2 : Q) (p0 : str)
                                              (rest : list str),
  (thr1 <= thr2)%Q ->
  incl (word_starts 0 (seg_words t thr2 p0 rest [p0] [])) (word_starts 0 (seg_words t thr1 p0 rest [p0] [])).
Proof.
  intros t thr1 thr2 p0 rest L k Hk. apply seg_words_starts. apply seg_words_starts in Hk.
  destruct Hk as [E|[i [x [y [E [Hn L2]]]]]]; [now left|]. right. exists i, x, y.
  split; [exact E|]. split; [exact Hn|]. eapply Qle_lt_trans; eassumption.
Qed.

(* link with the marker list: for a marker that is not a unit, the words are the marker list
   split at the markers; hence seg_loop_spec, boundary_iff, boundary_at and threshold_monotone,
   read with such a marker, describe the words computed by segment_utt *)
Lemma split_marker_seg_loop (t : list ((str * str) * Q)) (thr : Q) (m : str) (rest : list str) :
  forall prev : str, ~ In m rest ->
  split_marker m (seg_loop t thr m prev rest) = fst (dibs_cut t thr prev rest) :: snd (dibs_cut t thr prev rest).
Proof.
  induction rest as [|u r IH]; intros prev Hm; [reflexivity|].
  assert (Hu : str_eqb u m = false).
  { destruct (str_eqb_spec u m) as [E|_]; [|reflexivity]. exfalso. apply Hm. left. exact E. }
  assert (Hr : ~ In m r) by (intros H; apply Hm; now right).
  cbn [seg_loop dibs_cut]. destruct (qlt_b thr (dget t (prev, u))); cbn [app fst snd].
  - cbn [split_marker]. rewrite str_eqb_refl, Hu, (IH u Hr). reflexivity.
  - cbn [split_marker]. rewrite Hu, (IH u Hr). reflexivity.
Qed.

Theorem seg_words_vs_seg_loop : forall (t : list ((str * str) * Q)) (thr : Q) (wordsep p0 : str)
                                       (rest : list str),
  ~ In wordsep (p0 :: rest) ->
  split_marker wordsep (p0 :: seg_loop t thr wordsep p0 rest) = seg_words t thr p0 rest [p0] [].
Proof.
  intros t thr wordsep p0 rest Hm. rewrite seg_words_words. unfold dibs_words.
  assert (Hp : str_eqb p0 wordsep = false).
  { destruct (str_eqb_spec p0 wordsep) as [E|_]; [|reflexivity]. exfalso. apply Hm. left. exact E. }
  cbn [split_marker]. rewrite Hp, split_marker_seg_loop by (intros H; apply Hm; now right).
  reflexivity.
Qed.

(* ---------- the output string of segment_utt ---------- *)

Lemma dibs_cut_join (t : list ((str * str) * Q)) (thr : Q) (rest : list str) : forall (prev : str) (cur : list str),
  join [sp] (map (@concat char) ((cur ++ fst (dibs_cut t thr prev rest)) :: snd (dibs_cut t thr prev rest))) =
  concat cur ++ concat (seg_loop t thr [sp] prev rest).
Proof.
  induction rest as [|u r IH]; intros prev cur.
  - cbn [dibs_cut fst snd map join seg_loop concat]. now rewrite !app_nil_r.
  - cbn [dibs_cut seg_loop]. destruct (qlt_b thr (dget t (prev, u))); cbn [fst snd].
    + cbn [map]. rewrite join_cons2. rewrite app_nil_r.
      change (u :: fst (dibs_cut t thr u r)) with ([u] ++ fst (dibs_cut t thr u r)).
      change (concat ([u] ++ fst (dibs_cut t thr u r)) :: map (@concat char) (snd (dibs_cut t thr u r)))
        with (map (@concat char) (([u] ++ fst (dibs_cut t thr u r)) :: snd (dibs_cut t thr u r))).
      rewrite (IH u [u]). cbn [concat app]. rewrite app_nil_r. reflexivity.
    + change (cur ++ u :: fst (dibs_cut t thr u r)) with (cur ++ [u] ++ fst (dibs_cut t thr u r)).
      rewrite app_assoc, (IH u (cur ++ [u])). rewrite concat_app. cbn [concat app].
      rewrite app_nil_r, <- app_assoc. reflexivity.
Qed.

(* The output string is the concatenation of the marker list whose marker is a single space (which is
   not a unit: units are non-empty and whitespace-free); since fix 1af026b the word separator of the train
   text plays no part (the units are those of str.split on the utterance): seg_loop_spec, boundary_iff,
   boundary_at and threshold_monotone with wordsep := [sp] describe the spaces of the output. *)
Theorem segment_utt_seg_loop : forall (t : list ((str * str) * Q)) (thr : Q) (utt p0 : str)
                                      (rest : list str),
  split_ws utt = p0 :: rest ->
  segment_utt t thr utt = Ok (concat (p0 :: seg_loop t thr [sp] p0 rest)).
Proof.
  intros t thr utt p0 rest E. unfold segment_utt. rewrite E. f_equal.
  rewrite seg_words_words. unfold dibs_words.
  change (p0 :: fst (dibs_cut t thr p0 rest)) with ([p0] ++ fst (dibs_cut t thr p0 rest)).
  rewrite dibs_cut_join. cbn [concat]. now rewrite app_nil_r.
Qed.

(* the words read back from the output (str.split) are the words built by the loop *)
Theorem segment_utt_words : forall (t : list ((str * str) * Q)) (thr : Q) (utt out p0 : str)
                                   (rest : list str),
  split_ws utt = p0 :: rest ->
  segment_utt t thr utt = Ok out ->
  split_ws out = map (@concat char) (seg_words t thr p0 rest [p0] []).
Proof.
  intros t thr utt out p0 rest E H. unfold segment_utt in H. rewrite E in H.
  injection H as <-. apply split_ws_join.
  pose proof (split_ws_ok utt) as Hok. rewrite E in Hok.
  rewrite <- (seg_words_concat t thr p0 rest) in Hok.
  pose proof (seg_words_nonnil t thr p0 rest) as Hnn.
  induction (seg_words t thr p0 rest [p0] []) as [|g gs IH]; [constructor|].
  cbn [concat] in Hok. apply Forall_app in Hok. destruct Hok as [Hg Hgs].
  inversion Hnn as [|? ? Hgn Hgsn]; subst. cbn [map]. constructor.
  - now apply concat_unit_ok.
  - now apply IH.
Qed.

(* positional form on the output string: at the i-th adjacent pair (x, y) of units, the output is what is
   rendered for the units up to x, then one space iff thr < P(x, y) (nothing otherwise), then y, then what
   is rendered after y *)
Theorem segment_utt_boundary_at : forall (t : list ((str * str) * Q)) (thr : Q) (utt p0 : str)
                                         (rest : list str) (i : nat) (x y : str),
  split_ws utt = p0 :: rest ->
  nth_error (combine (p0 :: rest) rest) i = Some (x, y) ->
  segment_utt t thr utt =
  Ok (concat (p0 :: seg_loop t thr [sp] p0 (firstn i rest))
      ++ (if qlt_b thr (dget t (x, y)) then [sp] else []) ++ y
      ++ concat (seg_loop t thr [sp] y (skipn (S i) rest))).
Proof.
  intros t thr utt p0 rest i x y E Hn.
  rewrite (segment_utt_seg_loop t thr utt p0 rest E). f_equal.
  rewrite (boundary_at t thr [sp] p0 rest i x y Hn) at 1.
  cbn [concat]. rewrite !concat_app, <- !app_assoc. f_equal. f_equal.
  destruct (qlt_b thr (dget t (x, y))); cbn [concat app]; now rewrite ?app_nil_r.
Qed.

(* the rendered pieces contain the units and spaces only *)
Lemma despace_seg_loop (t : list ((str * str) * Q)) (thr : Q) (rest : list str) : forall prev : str,
  Forall unit_ok rest -> despace (concat (seg_loop t thr [sp] prev rest)) = concat rest.
Proof.
  induction rest as [|u r IH]; intros prev F; [reflexivity|].
  inversion F as [|? ? [_ Hu] Hr]; subst. cbn [seg_loop]. rewrite concat_app, despace_app, (IH u Hr).
  cbn [concat]. f_equal.
  destruct (qlt_b thr (dget t (prev, u))); cbn [concat app]; rewrite ?app_nil_r.
  - change (sp :: u) with ([sp] ++ u). rewrite despace_app, despace_sp. now apply despace_nosp.
  - now apply despace_nosp.
Qed.

Lemma seg_loop_upto (t : list ((str * str) * Q)) (thr : Q) (i : nat) : forall (prev : str) (l : list str) (x : str),
  Forall unit_ok (prev :: l) -> nth_error (prev :: l) i = Some x ->
  exists a : str,
    concat (prev :: seg_loop t thr [sp] prev (firstn i l)) = a ++ x /\
    despace a = concat (firstn i (prev :: l)).
Proof.
  induction i as [|j IH]; intros prev l x F Hn.
  - cbn [nth_error] in Hn. injection Hn as <-. exists []. split; [|reflexivity].
    cbn [firstn seg_loop concat app]. now rewrite app_nil_r.
  - destruct l as [|u l']; [destruct j; discriminate Hn|].
    cbn [nth_error] in Hn. inversion F as [|? ? [_ Hp] F']; subst.
    destruct (IH u l' x F' Hn) as [a' [Ea Da]].
    exists (prev ++ (if qlt_b thr (dget t (prev, u)) then [sp] else []) ++ a'). split.
    + cbn [firstn seg_loop]. cbn [concat] in *. rewrite concat_app, <- !app_assoc. f_equal.
      rewrite <- Ea. destruct (qlt_b thr (dget t (prev, u))); cbn [concat app]; now rewrite ?app_nil_r.
    + rewrite !despace_app, Da, (despace_nosp prev Hp).
      change (firstn (S j) (prev :: u :: l')) with (prev :: firstn j (u :: l')). cbn [concat]. f_equal.
      destruct (qlt_b thr (dget t (prev, u))); reflexivity.
Qed.

(* The same, reading the output string around the pair: for the i-th adjacent pair (x, y) of units,
   the output is a ++ x ++ [one space iff thr < P(x, y)] ++ y ++ b, where a and b are, up to spaces,
   the units before x and the units after y *)
Theorem segment_utt_boundary_between : forall (t : list ((str * str) * Q)) (thr : Q) (utt out p0 : str)
                                              (rest : list str) (i : nat) (x y : str),
  split_ws utt = p0 :: rest ->
  nth_error (combine (p0 :: rest) rest) i = Some (x, y) ->
  segment_utt t thr utt = Ok out ->
  exists a b : str,
    out = a ++ x ++ (if qlt_b thr (dget t (x, y)) then [sp] else []) ++ y ++ b /\
    despace a = concat (firstn i (p0 :: rest)) /\
    despace b = concat (skipn (S i) rest).
Proof.
  intros t thr utt out p0 rest i x y E Hn H.
  rewrite (segment_utt_boundary_at t thr utt p0 rest i x y E Hn) in H. injection H as <-.
  pose proof (split_ws_ok utt) as Hok. rewrite E in Hok.
  assert (Hx : nth_error (p0 :: rest) i = Some x).
  { clear - Hn. revert p0 i Hn. induction rest as [|u r IH]; intros p0 i Hn; [destruct i; discriminate Hn|].
    change (combine (p0 :: u :: r) (u :: r)) with ((p0, u) :: combine (u :: r) r) in Hn.
    destruct i as [|i]; cbn [nth_error] in *; [now injection Hn as <- _|]. now apply IH. }
  destruct (seg_loop_upto t thr i p0 rest x Hok Hx) as [a [Ea Da]].
  exists a, (concat (seg_loop t thr [sp] y (skipn (S i) rest))). split; [|split].
  - cbn [concat] in Ea. rewrite Ea, <- app_assoc. reflexivity.
  - exact Da.
  - apply despace_seg_loop. inversion Hok as [|? ? _ Hrest]; subst.
    clear - Hrest. revert i. induction Hrest as [|u r Hu Hr IH]; intros i; [destruct i; constructor|].
    destruct i as [|i]; [exact Hr|]. exact (IH i).
Qed.
