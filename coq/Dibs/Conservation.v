(* D. Conservation (C01 for DiBS): the output of segment_utt is the input
   units with single spaces inserted at unit boundaries only.

   Since fix b848432 the words are built as lists of units and joined (Dibs/Model.v,
   seg_words); before it the theorems needed a hypothesis on the word separator
   (sep_ok: the first character of the separator occurs in no unit and nowhere else
   in the separator, and the separator is whitespace-free).  Since fix 1af026b the
   word separator of the train text plays no part at all in the segmentation: the
   units of an utterance are those of str.split (before it the separator was first
   deleted from the utterance, which lost every unit spelled like it), and the
   theorems below no longer mention it. *)
From WS Require Import Base.Py Base.Str Base.Seg Separator.Model Dibs.Model Dibs.StrLemmas Dibs.Proofs.
From Coq Require Import QArith.
Local Open Scope nat_scope.

Theorem segment_utt_is_seg : forall (t : list ((str * str) * Q)) (thr : Q) (utt out : str),
  segment_utt t thr utt = Ok out ->
  is_seg (split_ws utt) out.
Proof.
  intros t thr utt out H. unfold segment_utt in H.
  destruct (split_ws utt) as [|p0 rest]; [discriminate H|].
  injection H as <-.
  exists (seg_words t thr p0 rest [p0] []).
  split; [apply seg_words_concat|]. split; [apply seg_words_nonnil|reflexivity].
Qed.

(* the units are non-empty and whitespace-free, so the segmentation can be read back:
   the words of the output are non-empty groups of the units, and deleting the spaces
   of the output gives the units concatenated *)
Theorem segment_utt_words_groups : forall (t : list ((str * str) * Q)) (thr : Q) (utt out : str),
  segment_utt t thr utt = Ok out ->
  exists groups : list (list str),
    concat groups = split_ws utt /\
    Forall (fun g : list str => g <> []) groups /\
    split_ws out = map (@concat char) groups.
Proof.
  intros t thr utt out H.
  destruct (split_ws utt) as [|p0 rest] eqn:Eu.
  { unfold segment_utt in H. rewrite Eu in H. discriminate H. }
  exists (seg_words t thr p0 rest [p0] []).
  split; [apply seg_words_concat|]. split; [apply seg_words_nonnil|].
  exact (segment_utt_words t thr utt out p0 rest Eu H).
Qed.

Theorem segment_utt_despace : forall (t : list ((str * str) * Q)) (thr : Q) (utt out : str),
  segment_utt t thr utt = Ok out ->
  despace out = concat (split_ws utt).
Proof.
  intros t thr utt out H.
  pose proof (split_ws_ok utt) as Hok.
  destruct (split_ws utt) as [|p0 rest] eqn:Eu.
  { unfold segment_utt in H. rewrite Eu in H. discriminate H. }
  rewrite (segment_utt_seg_loop t thr utt p0 rest Eu) in H. injection H as <-.
  inversion Hok as [|? ? [_ Hp0] Hrest]; subst.
  cbn [concat]. rewrite despace_app, despace_seg_loop by exact Hrest.
  now rewrite despace_nosp by exact Hp0.
Qed.

(* segment_utt fails exactly on utterances without units *)
Theorem segment_utt_fails_iff : forall (t : list ((str * str) * Q)) (thr : Q) (utt : str),
  split_ws utt = [] <-> segment_utt t thr utt = Raise IndexError.
Proof.
  intros t thr utt. unfold segment_utt.
  destruct (split_ws utt); split; intros H; try reflexivity; discriminate.
Qed.

(* whole test text: one output line per input line, each a segmentation of its own units *)
Theorem segment_aligned : forall (test : list str) (s : summary) (k : kind) (thr : Q) (pwb : option Q) (outs : list str),
  segment test s k thr pwb = Ok outs -> aligned (map split_ws test) outs.
Proof.
  intros test s k thr pwb outs H.
  unfold segment in H.
  destruct (match pwb with
            | Some q => if qlt_b q 0 || qlt_b 1 q then Raise ValueError else Ok tt
            | None => Ok tt end) as [[]|e]; [|discriminate].
  cbn [bind] in H.
  destruct (qlt_b thr 0 || qlt_b 1 thr); [discriminate|]. cbn [bind] in H.
  destruct (init_diphones k s pwb) as [t|e]; [|discriminate]. cbn [bind] in H.
  revert outs H. induction test as [|utt r IH]; intros outs H.
  - injection H as <-. constructor.
  - cbn [mapM] in H.
    destruct (segment_utt t thr utt) as [o|e] eqn:Eo; [|discriminate]. cbn [bind] in H.
    destruct (mapM (segment_utt t thr) r) as [os|e]; [|discriminate]. cbn [bind] in H.
    injection H as <-. cbn [map]. constructor.
    + now apply (segment_utt_is_seg t thr utt o).
    + now apply IH.
Qed.

(* ---------- the repaired behaviour ---------- *)
(* empty table: every diphone is unseen (probability 1), so every boundary is placed when thr < 1
   and none when thr = 1.  a=97 b=98 c=99 d=100 w=119 ';'=59 ' '=32 *)

(* a train text whose word separator is a space (fix b848432): "ab cd" -> "ab cd" (in band: every space was
   deleted, "abcd"); the separator is no longer an argument (fix 1af026b) *)
Example dibs_sep_is_space :
  segment_utt [] (1 # 2)%Q [97; 98; 32; 99; 100]%N = Ok [97; 98; 32; 99; 100]%N.
Proof. vm_compute. reflexivity. Qed.

(* the text "a b; c; " (the train text's word separator was "; "): the units are those of str.split,
   a, "b;", "c;" and the token ";" stays part of them (before fix 1af026b "; " was deleted first: "a b c"
   and "abc") *)
Example dibs_sep_contains_space :
  segment_utt [] (1 # 2)%Q [97; 32; 98; 59; 32; 99; 59; 32]%N = Ok [97; 32; 98; 59; 32; 99; 59]%N /\
  segment_utt [] 1%Q [97; 32; 98; 59; 32; 99; 59; 32]%N = Ok [97; 98; 59; 99; 59]%N.
Proof. vm_compute. split; reflexivity. Qed.

(* a unit spelled like the train text's word separator "w" is kept (fix 1af026b): "a w b" -> "a w b" when
   every boundary is placed, "awb" when none is (before the fix "w" was deleted first: "a b" and "ab") *)
Example dibs_unit_spelled_like_sep_kept :
  segment_utt [] (1 # 2)%Q [97; 32; 119; 32; 98]%N = Ok [97; 32; 119; 32; 98]%N /\
  segment_utt [] 1%Q [97; 32; 119; 32; 98]%N = Ok [97; 119; 98]%N.
Proof. vm_compute. split; reflexivity. Qed.

(* two units spell the train text's word separator "ab" and no boundary is placed between them:
   "a b" -> "ab" (in band: the joined units were taken for a marker, " ") *)
Example dibs_units_spell_sep :
  segment_utt [] 1%Q [97; 32; 98]%N = Ok [97; 98]%N.
Proof. vm_compute. reflexivity. Qed.

(* a table with one seen diphone (a, b) of probability 0: "a b c" -> "ab c" *)
Example dibs_sep_is_space_mixed :
  segment_utt [(([97]%N, [98]%N), 0%Q)] (1 # 2)%Q [97; 32; 98; 32; 99]%N = Ok [97; 98; 32; 99]%N.
Proof. vm_compute. reflexivity. Qed.

(* whole text, through segment: a summary without word separator no longer raises TypeError at segmentation
   (wordsep_of is not called any more), and the unit "w" is kept *)
Example segment_no_wordsep_no_typeerror :
  segment [[97; 32; 119; 32; 98]%N]
          {| sm_sep := {| s_phone := None; s_syll := None; s_word := None |}; sm_level := Phone;
             nlines := 0; nwords := 0; nphones := 0; lexicon := []; phrase_initial := []; phrase_final := [];
             internal := []; spanning := []; diphones := [] |} Gold (1 # 2)%Q None
  = Ok [[97; 32; 119; 32; 98]%N].
Proof. vm_compute. reflexivity. Qed.
