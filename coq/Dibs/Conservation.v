(* D. Conservation (C01 for DiBS): the output of segment_utt is the input
   units with single spaces inserted at unit boundaries only.

   Since fix b848432 the words are built as lists of units and joined (Dibs/Model.v,
   seg_words); the word separator is only used to tokenize the input.  The theorems
   below therefore hold for EVERY word separator; before the fix they needed a
   hypothesis (sep_ok: the first character of the separator occurs in no unit and
   nowhere else in the separator, and the separator is whitespace-free). *)
From WS Require Import Base.Py Base.Str Base.Seg Separator.Model Dibs.Model Dibs.StrLemmas Dibs.Proofs.
From Coq Require Import QArith.
Local Open Scope nat_scope.

Theorem segment_utt_is_seg : forall (t : list ((str * str) * Q)) (thr : Q) (wordsep utt out : str),
  segment_utt t thr wordsep utt = Ok out ->
  is_seg (split_ws (replace_all wordsep [sp] utt)) out.
Proof.
  intros t thr wordsep utt out H. unfold segment_utt in H.
  destruct (split_ws (replace_all wordsep [sp] utt)) as [|p0 rest]; [discriminate H|].
  injection H as <-.
  exists (seg_words t thr p0 rest [p0] []).
  split; [apply seg_words_concat|]. split; [apply seg_words_nonnil|reflexivity].
Qed.

(* the units are non-empty and whitespace-free, so the segmentation can be read back:
   the words of the output are non-empty groups of the units, and deleting the spaces
   of the output gives the units concatenated *)
Theorem segment_utt_words_groups : forall (t : list ((str * str) * Q)) (thr : Q) (wordsep utt out : str),
  segment_utt t thr wordsep utt = Ok out ->
  exists groups : list (list str),
    concat groups = split_ws (replace_all wordsep [sp] utt) /\
    Forall (fun g : list str => g <> []) groups /\
    split_ws out = map (@concat char) groups.
Proof.
  intros t thr wordsep utt out H.
  destruct (split_ws (replace_all wordsep [sp] utt)) as [|p0 rest] eqn:Eu.
  { unfold segment_utt in H. rewrite Eu in H. discriminate H. }
  exists (seg_words t thr p0 rest [p0] []).
  split; [apply seg_words_concat|]. split; [apply seg_words_nonnil|].
  exact (segment_utt_words t thr wordsep utt out p0 rest Eu H).
Qed.

Theorem segment_utt_despace : forall (t : list ((str * str) * Q)) (thr : Q) (wordsep utt out : str),
  segment_utt t thr wordsep utt = Ok out ->
  despace out = concat (split_ws (replace_all wordsep [sp] utt)).
Proof.
  intros t thr wordsep utt out H.
  pose proof (split_ws_ok (replace_all wordsep [sp] utt)) as Hok.
  destruct (split_ws (replace_all wordsep [sp] utt)) as [|p0 rest] eqn:Eu.
  { unfold segment_utt in H. rewrite Eu in H. discriminate H. }
  rewrite (segment_utt_seg_loop t thr wordsep utt p0 rest Eu) in H. injection H as <-.
  inversion Hok as [|? ? [_ Hp0] Hrest]; subst.
  cbn [concat]. rewrite despace_app, despace_seg_loop by exact Hrest.
  now rewrite despace_nosp by exact Hp0.
Qed.

(* segment_utt fails exactly on utterances without units *)
Theorem segment_utt_fails_iff : forall (t : list ((str * str) * Q)) (thr : Q) (wordsep utt : str),
  split_ws (replace_all wordsep [sp] utt) = [] <-> segment_utt t thr wordsep utt = Raise IndexError.
Proof.
  intros t thr wordsep utt. unfold segment_utt.
  destruct (split_ws (replace_all wordsep [sp] utt)); split; intros H; try reflexivity; discriminate.
Qed.

(* whole test text: one output line per input line, each a segmentation of its own units *)
Theorem segment_aligned : forall (test : list str) (s : summary) (k : kind) (thr : Q) (pwb : option Q)
                                 (wordsep : str) (outs : list str),
  s_word (sm_sep s) = Some wordsep ->
  segment test s k thr pwb = Ok outs ->
  aligned (map (fun utt : str => split_ws (replace_all wordsep [sp] utt)) test) outs.
Proof.
  intros test s k thr pwb wordsep outs Hw H.
  unfold segment, wordsep_of in H. rewrite Hw in H. cbn [bind] in H.
  destruct (match pwb with
            | Some q => if qlt_b q 0 || qlt_b 1 q then Raise ValueError else Ok tt
            | None => Ok tt end) as [[]|e]; [|discriminate].
  cbn [bind] in H.
  destruct (qlt_b thr 0 || qlt_b 1 thr); [discriminate|]. cbn [bind] in H.
  destruct (init_diphones k s pwb) as [t|e]; [|discriminate]. cbn [bind] in H.
  revert outs H. induction test as [|utt r IH]; intros outs H.
  - injection H as <-. constructor.
  - cbn [mapM] in H.
    destruct (segment_utt t thr wordsep utt) as [o|e] eqn:Eo; [|discriminate]. cbn [bind] in H.
    destruct (mapM (segment_utt t thr wordsep) r) as [os|e]; [|discriminate]. cbn [bind] in H.
    injection H as <-. cbn [map]. constructor.
    + now apply (segment_utt_is_seg t thr wordsep utt o).
    + now apply IH.
Qed.

(* ---------- the repaired behaviour on separators that broke the in-band version ---------- *)
(* empty table: every diphone is unseen (probability 1), so every boundary is placed when thr < 1
   and none when thr = 1.  a=97 b=98 c=99 d=100 ';'=59 ' '=32 *)

(* the word separator is a space: "ab cd" -> "ab cd" (in band: every space was deleted, "abcd") *)
Example dibs_sep_is_space :
  segment_utt [] (1 # 2)%Q [32]%N [97; 98; 32; 99; 100]%N = Ok [97; 98; 32; 99; 100]%N.
Proof. vm_compute. reflexivity. Qed.

(* the word separator "; " contains a space: "a b; c; " -> "a b c" (in band: the marker lost its space
   and was never replaced, "a;b;c") *)
Example dibs_sep_contains_space :
  segment_utt [] (1 # 2)%Q [59; 32]%N [97; 32; 98; 59; 32; 99; 59; 32]%N = Ok [97; 32; 98; 32; 99]%N /\
  segment_utt [] 1%Q [59; 32]%N [97; 32; 98; 59; 32; 99; 59; 32]%N = Ok [97; 98; 99]%N.
Proof. vm_compute. split; reflexivity. Qed.

(* two units spell the word separator "ab" and no boundary is placed between them: "a b" -> "ab"
   (in band: the joined units were taken for a marker, " ") *)
Example dibs_units_spell_sep :
  segment_utt [] 1%Q [97; 98]%N [97; 32; 98]%N = Ok [97; 98]%N.
Proof. vm_compute. reflexivity. Qed.

(* a table with one seen diphone (a, b) of probability 0, separator = space: "a b c" -> "ab c" *)
Example dibs_sep_is_space_mixed :
  segment_utt [(([97]%N, [98]%N), 0%Q)] (1 # 2)%Q [32]%N [97; 32; 98; 32; 99]%N = Ok [97; 98; 32; 99]%N.
Proof. vm_compute. reflexivity. Qed.
