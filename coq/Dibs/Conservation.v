(* D. Conservation (C01 for DiBS): the output of segment_utt is the input
   units with single spaces inserted at unit boundaries only. *)
From WS Require Import Base.Py Base.Str Base.Seg Separator.Model Dibs.Model Dibs.StrLemmas.
From Coq Require Import QArith.
Local Open Scope nat_scope.

(* Sufficient condition on the word separator w.r.t. the units of an utterance:
   it is non-empty and whitespace-free, its first character c0 does not occur
   again inside it, and c0 occurs in no unit.  (True of ";eword" on text whose
   units do not contain ';'.) *)
Definition sep_ok (wordsep : str) (units : list str) : Prop :=
  exists (c0 : char) (w : str),
    wordsep = c0 :: w /\
    ws_free wordsep /\
    ~ In c0 w /\
    Forall (fun u : str => ~ In c0 u) units.

Section Seg.
Variables (t : list ((str * str) * Q)) (thr : Q).

Definition bnd (x y : str) : bool := qlt_b thr (dget t (x, y)).

(* the rendered tail: each unit preceded by a space iff a boundary was placed *)
Fixpoint rend (prev : str) (rest : list str) : str :=
  match rest with
  | [] => []
  | u :: r => (if bnd prev u then [sp] else []) ++ u ++ rend u r
  end.

(* the grouping of prev :: rest into words: (first group, remaining groups) *)
Fixpoint grp (prev : str) (rest : list str) : list str * list (list str) :=
  match rest with
  | [] => ([prev], [])
  | u :: r =>
    let (g, gs) := grp u r in
    if bnd prev u then ([prev], g :: gs) else (prev :: g, gs)
  end.

Lemma grp_concat (rest : list str) : forall (prev : str),
  concat (fst (grp prev rest) :: snd (grp prev rest)) = prev :: rest.
Proof.
  induction rest as [|u r IH]; intros prev; [reflexivity|].
  cbn [grp]. specialize (IH u). destruct (grp u r) as [g gs]. cbn [fst snd] in IH.
  destruct (bnd prev u); cbn [fst snd].
  - cbn [concat app] in *. now rewrite IH.
  - cbn [concat app] in *. now rewrite IH.
Qed.

Lemma grp_nonnil (rest : list str) : forall (prev : str),
  Forall (fun g : list str => g <> []) (fst (grp prev rest) :: snd (grp prev rest)).
Proof.
  induction rest as [|u r IH]; intros prev.
  - cbn [grp fst snd]. constructor; [discriminate|constructor].
  - cbn [grp]. specialize (IH u). destruct (grp u r) as [g gs]. cbn [fst snd] in IH.
    destruct (bnd prev u); cbn [fst snd].
    + constructor; [discriminate|exact IH].
    + inversion IH as [|? ? _ Hgs]; subst. constructor; [discriminate|exact Hgs].
Qed.

Lemma grp_join (rest : list str) : forall (prev : str),
  join [sp] (map (@concat char) (fst (grp prev rest) :: snd (grp prev rest))) = prev ++ rend prev rest.
Proof.
  induction rest as [|u r IH]; intros prev.
  - cbn [grp fst snd map concat join rend]. reflexivity.
  - cbn [grp rend]. specialize (IH u). destruct (grp u r) as [g gs]. cbn [fst snd] in IH.
    destruct (bnd prev u); cbn [fst snd].
    + cbn [map] in *. rewrite join_cons2. cbn [concat]. rewrite app_nil_r.
      f_equal. f_equal. exact IH.
    + cbn [map] in *. cbn [concat]. rewrite join_cons_app. f_equal. exact IH.
Qed.

(* replacing the separator in the concatenated loop output renders it *)
Lemma replace_seg_loop (c0 : char) (w : str) (rest : list str) : forall (prev : str),
  Forall (fun u : str => ~ In c0 u) rest ->
  replace_go (c0 :: w) [sp] (concat (seg_loop t thr (c0 :: w) prev rest)) 0 = rend prev rest.
Proof.
  induction rest as [|u r IH]; intros prev F; [reflexivity|].
  inversion F as [|? ? Hu Hr]; subst.
  cbn [seg_loop rend]. fold (bnd prev u). rewrite concat_app.
  destruct (bnd prev u).
  - cbn [concat]. rewrite app_nil_r, <- !app_assoc.
    rewrite replace_go_at. rewrite replace_go_copy by exact Hu.
    rewrite (IH u Hr). reflexivity.
  - cbn [concat]. rewrite app_nil_r.
    rewrite replace_go_copy by exact Hu.
    rewrite (IH u Hr). reflexivity.
Qed.

Lemma seg_loop_ws_free (wordsep : str) (rest : list str) : forall (prev : str),
  ws_free wordsep -> Forall ws_free rest -> Forall ws_free (seg_loop t thr wordsep prev rest).
Proof.
  induction rest as [|u r IH]; intros prev Hw F; [constructor|].
  inversion F as [|? ? Hu Hr]; subst. cbn [seg_loop].
  apply Forall_app. split.
  - destruct (qlt_b thr (dget t (prev, u))); repeat constructor; assumption.
  - now apply IH.
Qed.

End Seg.

Lemma unit_ok_ws_free (l : list str) : Forall unit_ok l -> Forall ws_free l.
Proof. apply Forall_impl. intros u [_ H]. exact H. Qed.

Lemma segment_utt_eq (t : list ((str * str) * Q)) (thr : Q) (wordsep utt p0 : str) (rest : list str) :
  split_ws (replace_all wordsep [sp] utt) = p0 :: rest ->
  segment_utt t thr wordsep utt =
  Ok (replace_all wordsep [sp] (replace_all [sp] [] (join [sp] (p0 :: seg_loop t thr wordsep p0 rest)))).
Proof. intros E. unfold segment_utt. rewrite E. reflexivity. Qed.

Theorem segment_utt_is_seg : forall (t : list ((str * str) * Q)) (thr : Q) (wordsep utt out : str),
  sep_ok wordsep (split_ws (replace_all wordsep [sp] utt)) ->
  segment_utt t thr wordsep utt = Ok out ->
  is_seg (split_ws (replace_all wordsep [sp] utt)) out.
Proof.
  intros t thr wordsep utt out [c0 [w [E [Hws [Hc0 Hun]]]]] H.
  pose proof (split_ws_ok (replace_all wordsep [sp] utt)) as Hok.
  destruct (split_ws (replace_all wordsep [sp] utt)) as [|p0 rest] eqn:Eu.
  { unfold segment_utt in H. rewrite Eu in H. discriminate. }
  rewrite (segment_utt_eq t thr wordsep utt p0 rest Eu) in H.
  assert (Eo : out = replace_all wordsep [sp]
                       (replace_all [sp] [] (join [sp] (p0 :: seg_loop t thr wordsep p0 rest))))
    by (injection H; intros X; symmetry; exact X).
  clear H Eu. subst out.
  inversion Hun as [|? ? Hp0 Hrest]; subst.
  apply unit_ok_ws_free in Hok. inversion Hok as [|? ? Wp0 Wrest]; subst.
  rewrite replace_sp_nil.
  rewrite despace_join
    by (constructor; [exact Wp0|now apply seg_loop_ws_free]).
  cbn [replace_all concat].
  rewrite replace_go_copy by exact Hp0.
  rewrite replace_seg_loop by exact Hrest.
  exists (fst (grp t thr p0 rest) :: snd (grp t thr p0 rest)).
  split; [apply grp_concat|]. split; [apply grp_nonnil|].
  symmetry. apply grp_join.
Qed.

(* segment_utt fails exactly on utterances without units *)
Theorem segment_utt_fails_iff : forall (t : list ((str * str) * Q)) (thr : Q) (wordsep utt : str),
  split_ws (replace_all wordsep [sp] utt) = [] <-> segment_utt t thr wordsep utt = Raise IndexError.
Proof.
  intros t thr wordsep utt. unfold segment_utt.
  destruct (split_ws (replace_all wordsep [sp] utt)); split; intros H; try reflexivity; discriminate.
Qed.

(* whole test text: one output line per input line, each a segmentation of its own units *)
Theorem segment_aligned : forall (test : list str) (s : summary) (k : kind) (thr : Q) (pwb : option Q)
                                 (wordsep : str) (outs : list str),
  s_word (sm_sep s) = Some wordsep ->
  Forall (fun utt : str => sep_ok wordsep (split_ws (replace_all wordsep [sp] utt))) test ->
  segment test s k thr pwb = Ok outs ->
  aligned (map (fun utt : str => split_ws (replace_all wordsep [sp] utt)) test) outs.
Proof.
  intros test s k thr pwb wordsep outs Hw F H.
  unfold segment, wordsep_of in H. rewrite Hw in H. cbn [bind] in H.
  destruct (match pwb with
            | Some q => if qlt_b q 0 || qlt_b 1 q then Raise ValueError else Ok tt
            | None => Ok tt end) as [[]|e]; [|discriminate].
  cbn [bind] in H.
  destruct (qlt_b thr 0 || qlt_b 1 thr); [discriminate|]. cbn [bind] in H.
  destruct (init_diphones k s pwb) as [t|e]; [|discriminate]. cbn [bind] in H.
  revert outs H. induction F as [|utt r Hutt Hr IH]; intros outs H.
  - injection H as <-. constructor.
  - cbn [mapM] in H.
    destruct (segment_utt t thr wordsep utt) as [o|e] eqn:Eo; [|discriminate]. cbn [bind] in H.
    destruct (mapM (segment_utt t thr wordsep) r) as [os|e]; [|discriminate]. cbn [bind] in H.
    injection H as <-. cbn [map]. constructor.
    + now apply (segment_utt_is_seg t thr wordsep utt o).
    + now apply IH.
Qed.
