(* Pipeline, end to end: prepare -> segmenter -> evaluate.

   On a tagged corpus accepted by [prepare] and [gold], whatever TP, PUDDLE or DiBS
   return on the prepared text is scored by [evaluate] (with or without the prepared
   text as units text) and filed by [summary] against the gold text: never refused.
   The same acceptance for the baseline (output with its optional trailing spaces),
   the Adaptor Grammar wrapper and the dpseg wrapper under the contracts of their
   programs.  Stdlib only. *)
From Coq Require Import List NArith Bool Lia QArith.
Import ListNotations.
From WS Require Import Base.Py Base.ListX Base.Str Base.Seg Separator.Model Separator.Render.
From WS Require Import Separator.StrLemmas Separator.StripLemmas Separator.ProofsTree
  Separator.ProofsTwo Separator.ProofsWsPhone Separator.Checkers.
From WS Require Import Prepare.Model Prepare.Proofs Prepare.ViewsLemmas Prepare.Views.
From WS Require Import Evaluate.Model Evaluate.ProofsScores Evaluate.ProofsSummary
  Evaluate.ProofsLabels Evaluate.ProofsHits.
From WS Require Pipeline.Proofs Pipeline.PrepareGold.
From WS Require TP.Model TP.StrLemmas TP.Conservation Puddle.Model Puddle.Proofs
  Dibs.Model Dibs.Conservation Baseline.Model Baseline.Proofs
  AG.Model AG.WrapperProofs Dpseg.Model Dpseg.Proofs.
Import WS.Pipeline.Proofs.
Local Open Scope nat_scope.

(* ====================================================================== *)
(* 0. two aligned texts pass the three entry points                        *)
(* ====================================================================== *)

Lemma aligned_accepted (text : list (list str)) (a b : list str) :
  units_ok text -> aligned text a -> aligned text b ->
  (exists s, evaluate a b None = Ok s) /\
  (exists s, evaluate a b (Some (map (join [sp]) text)) = Ok s) /\
  (exists r, summary a b = Ok r).
Proof.
  intros Hok Ha Hb. split; [|split].
  - exact (aligned_evaluate_ok text a b Hok Ha Hb).
  - exact (aligned_evaluate_units_ok text a b Hok Ha Hb).
  - exact (aligned_summary_ok text a b Hok Ha Hb).
Qed.

(* a line that is its units joined by single spaces is given back by split + join *)
Lemma join_split_units (trees : list utree) (u : unit_level) :
  Forall (fun t => Forall unit_ok (units u t)) trees ->
  map (join [sp]) (map split_ws (map (fun t : utree => join [sp] (units u t)) trees))
  = map (fun t : utree => join [sp] (units u t)) trees.
Proof.
  intros H. rewrite !map_map. induction H as [|t trees Ht _ IH]; [reflexivity|].
  cbn [map]. rewrite IH, (TP.StrLemmas.split_ws_join _ Ht). reflexivity.
Qed.

(* the facts about the two commands that the end-to-end theorems use *)
Lemma prepare_gold_facts (xp xs xw : str) :
  xp <> [] -> xs <> [] -> xw <> [] ->
  free xs xp -> free xs xw -> free xw xp -> free xw xs -> free xp xs -> free xp xw ->
  ~ In sp xs -> xp = [sp] \/ ~ In sp xp -> ends_ok xw ->
  forall (cp : bool) (text : list str) (trees : list utree),
  text_acc xp xs xw cp text trees ->
  forall (u : unit_level) (tol : bool),
  exists (prepared g : list str),
    prepare text (sep3 xp xs xw) u cp tol = (prepared, PDone) /\
    gold text (sep3 xp xs xw) = Ok g /\
    units_ok (map split_ws prepared) /\
    aligned (map split_ws prepared) g /\
    map (join [sp]) (map split_ws prepared) = prepared.
Proof.
  intros Hxp Hxs Hxw Fsp Fsw Fwp Fws Fps Fpw Hs Hp Hew cp text trees Hacc u tol.
  destruct (PrepareGold.prepare_gold_pipeline xp xs xw Hxp Hxs Hxw Fsp Fsw Fwp Fws Fps Fpw Hs Hp Hew
              cp text trees Hacc u tol) as (prepared & g & HP & HG & _ & _).
  exists prepared, g.
  destruct (PrepareGold.prepare_gold_pipeline_units xp xs xw Hxp Hxs Hxw Fsp Fsw Fwp Fws Fps Fpw
              Hs Hp Hew cp text trees Hacc u tol prepared g HP HG) as (_ & Hu & Hal & _ & _).
  split; [exact HP|]. split; [exact HG|]. split; [exact Hu|]. split; [exact Hal|].
  pose proof (Prepare.Views.prepare_text_spec xp xs xw Hxp Hxs Hxw Fsp Fsw Fwp Fws Fps Hs Hp Hew
                cp text trees Hacc u tol) as HP'.
  rewrite HP in HP'. injection HP' as ->.
  apply join_split_units.
  pose proof (PrepareGold.text_acc_trees_ok _ _ _ _ _ _ Hacc) as Hok.
  eapply Forall_impl; [|exact Hok]. intros t Ht. exact (PrepareGold.units_unit_ok xp xs xw t u Ht).
Qed.

(* ====================================================================== *)
(* 1. TP                                                                   *)
(* ====================================================================== *)

Lemma tp_units_split_ws (text : list str) :
  map TP.Conservation.utt_units text = map split_ws text.
Proof. apply map_ext. intros l. apply TP.Conservation.tp_split_ws_strip. Qed.

Theorem full_pipeline_tp (xp xs xw : str) :
  xp <> [] -> xs <> [] -> xw <> [] ->
  free xs xp -> free xs xw -> free xw xp -> free xw xs -> free xp xs -> free xp xw ->
  ~ In sp xs -> xp = [sp] \/ ~ In sp xp -> ends_ok xw ->
  forall (cp : bool) (text : list str) (trees : list utree),
  text_acc xp xs xw cp text trees ->
  forall (u : unit_level) (tol : bool) (train : option (list str))
         (t : TP.Model.thr) (d : TP.Model.dep),
  exists (prepared g : list str),
    prepare text (sep3 xp xs xw) u cp tol = (prepared, PDone) /\
    gold text (sep3 xp xs xw) = Ok g /\
    forall out, TP.Model.segment prepared train t d = Ok out ->
      (exists s, evaluate out g None = Ok s) /\
      (exists s, evaluate out g (Some prepared) = Ok s) /\
      (exists r, summary out g = Ok r).
Proof.
  intros Hxp Hxs Hxw Fsp Fsw Fwp Fws Fps Fpw Hs Hp Hew cp text trees Hacc u tol train t d.
  destruct (prepare_gold_facts xp xs xw Hxp Hxs Hxw Fsp Fsw Fwp Fws Fps Fpw Hs Hp Hew
              cp text trees Hacc u tol) as (prepared & g & HP & HG & Hu & Hal & Hj).
  exists prepared, g. split; [exact HP|]. split; [exact HG|].
  intros out Hseg.
  pose proof (TP.Conservation.tp_segment_aligned prepared train t d out Hseg) as Hout.
  rewrite tp_units_split_ws in Hout.
  pose proof (aligned_accepted _ out g Hu Hout Hal) as H. rewrite Hj in H. exact H.
Qed.
Print Assumptions full_pipeline_tp.

(* ====================================================================== *)
(* 2. PUDDLE and DiBS                                                      *)
(* ====================================================================== *)

Lemma puddle_units_split_ws (text : list str) :
  map (fun l => split_ws (strip l)) text = map split_ws text.
Proof. apply map_ext. intros l. apply TP.Conservation.tp_split_ws_strip. Qed.

Theorem full_pipeline_puddle (xp xs xw : str) :
  xp <> [] -> xs <> [] -> xw <> [] ->
  free xs xp -> free xs xw -> free xw xp -> free xw xs -> free xp xs -> free xp xw ->
  ~ In sp xs -> xp = [sp] \/ ~ In sp xp -> ends_ok xw ->
  forall (cp : bool) (text : list str) (trees : list utree),
  text_acc xp xs xw cp text trees ->
  forall (u : unit_level) (tol : bool) (w : Z) (by_frequency : bool)
         (train : option (list str)) (nfolds : Z),
  (1 <= w)%Z ->
  exists (prepared g : list str),
    prepare text (sep3 xp xs xw) u cp tol = (prepared, PDone) /\
    gold text (sep3 xp xs xw) = Ok g /\
    forall out, Puddle.Model.segment w by_frequency prepared train nfolds = Ok out ->
      (exists s, evaluate out g None = Ok s) /\
      (exists s, evaluate out g (Some prepared) = Ok s) /\
      (exists r, summary out g = Ok r).
Proof.
  intros Hxp Hxs Hxw Fsp Fsw Fwp Fws Fps Fpw Hs Hp Hew cp text trees Hacc u tol w f train nfolds Hw.
  destruct (prepare_gold_facts xp xs xw Hxp Hxs Hxw Fsp Fsw Fwp Fws Fps Fpw Hs Hp Hew
              cp text trees Hacc u tol) as (prepared & g & HP & HG & Hu & Hal & Hj).
  exists prepared, g. split; [exact HP|]. split; [exact HG|].
  intros out Hseg.
  pose proof (Puddle.Proofs.puddle_segment_aligned w f prepared train nfolds out Hw Hseg) as Hout.
  rewrite puddle_units_split_ws in Hout.
  pose proof (aligned_accepted _ out g Hu Hout Hal) as H. rewrite Hj in H. exact H.
Qed.
Print Assumptions full_pipeline_puddle.

Theorem full_pipeline_dibs (xp xs xw : str) :
  xp <> [] -> xs <> [] -> xw <> [] ->
  free xs xp -> free xs xw -> free xw xp -> free xw xs -> free xp xs -> free xp xw ->
  ~ In sp xs -> xp = [sp] \/ ~ In sp xp -> ends_ok xw ->
  forall (cp : bool) (text : list str) (trees : list utree),
  text_acc xp xs xw cp text trees ->
  forall (u : unit_level) (tol : bool) (s : Dibs.Model.summary) (k : Dibs.Model.kind)
         (thr : Q) (pwb : option Q),
  exists (prepared g : list str),
    prepare text (sep3 xp xs xw) u cp tol = (prepared, PDone) /\
    gold text (sep3 xp xs xw) = Ok g /\
    forall out, Dibs.Model.segment prepared s k thr pwb = Ok out ->
      (exists sc, evaluate out g None = Ok sc) /\
      (exists sc, evaluate out g (Some prepared) = Ok sc) /\
      (exists r, summary out g = Ok r).
Proof.
  intros Hxp Hxs Hxw Fsp Fsw Fwp Fws Fps Fpw Hs Hp Hew cp text trees Hacc u tol s k thr pwb.
  destruct (prepare_gold_facts xp xs xw Hxp Hxs Hxw Fsp Fsw Fwp Fws Fps Fpw Hs Hp Hew
              cp text trees Hacc u tol) as (prepared & g & HP & HG & Hu & Hal & Hj).
  exists prepared, g. split; [exact HP|]. split; [exact HG|].
  intros out Hseg.
  pose proof (Dibs.Conservation.segment_aligned prepared s k thr pwb out Hseg) as Hout.
  pose proof (aligned_accepted _ out g Hu Hout Hal) as H. rewrite Hj in H. exact H.
Qed.
Print Assumptions full_pipeline_dibs.

(* ====================================================================== *)
(* 3. the end-to-end statement is not vacuous                              *)
(* ====================================================================== *)

(* wordseg's default separators and the three-line text of Pipeline/PrepareGold.v *)
Example full_pipeline_example (u : unit_level) (cp tol : bool) (train : option (list str))
    (t : TP.Model.thr) (d : TP.Model.dep) :
  exists (prepared g : list str),
    prepare PrepareGold.ex_text (sep3 ex_p ex_s ex_w) u cp tol = (prepared, PDone) /\
    gold PrepareGold.ex_text (sep3 ex_p ex_s ex_w) = Ok g /\
    forall out, TP.Model.segment prepared train t d = Ok out ->
      (exists s, evaluate out g None = Ok s) /\
      (exists s, evaluate out g (Some prepared) = Ok s) /\
      (exists r, summary out g = Ok r).
Proof.
  apply (full_pipeline_tp ex_p ex_s ex_w) with (trees := [ex_t; PrepareGold.ex_t2]);
    try discriminate;
    try (apply free_b_sound; vm_compute; reflexivity).
  - apply no_sp_b_sound. vm_compute. reflexivity.
  - left. reflexivity.
  - apply ends_ok_b_sound. vm_compute. reflexivity.
  - apply PrepareGold.ex_text_acc.
Qed.
Print Assumptions full_pipeline_example.

(* the same by computation: phones, absolute threshold on forward transitional
   probabilities, no training text; the prepared text, what TP returns on it, the gold
   text and the scores (with the prepared text as units text, hence the Rand index) *)
Definition ex_prepared : list str :=
  [[104; 32; 101; 32; 108; 32; 111; 32; 119; 32; 111; 32; 114; 32; 108; 32; 100; 101];
   [97; 32; 98]]%N.
Definition ex_gold : list str :=
  [[104; 101; 108; 111; 32; 119; 111; 114; 108; 100; 101]; [97; 98]]%N.
Definition ex_tp_out : list str :=
  [[104; 101; 108; 32; 111; 32; 119; 111; 32; 114; 108; 32; 100; 101]; [97; 98]]%N.

Example full_pipeline_values :
  prepare PrepareGold.ex_text (sep3 ex_p ex_s ex_w) UPhone false false = (ex_prepared, PDone) /\
  gold PrepareGold.ex_text (sep3 ex_p ex_s ex_w) = Ok ex_gold /\
  TP.Model.segment ex_prepared None TP.Model.Absolute TP.Model.Ftp = Ok ex_tp_out /\
  evaluate ex_tp_out ex_gold (Some ex_prepared)
  = Ok {| s_token := {| c_test := 6; c_gold := 3; c_correct := 1 |};
          s_type := {| c_test := 6; c_gold := 3; c_correct := 1 |};
          s_ball := {| c_test := 8; c_gold := 5; c_correct := 5 |};
          s_bnoedge := {| c_test := 4; c_gold := 1; c_correct := 1 |};
          s_ari := Some (1824 # 4244)%Q |} /\
  evaluate ex_tp_out ex_gold None
  = Ok {| s_token := {| c_test := 6; c_gold := 3; c_correct := 1 |};
          s_type := {| c_test := 6; c_gold := 3; c_correct := 1 |};
          s_ball := {| c_test := 8; c_gold := 5; c_correct := 5 |};
          s_bnoedge := {| c_test := 4; c_gold := 1; c_correct := 1 |};
          s_ari := None |}.
Proof. vm_compute. repeat split; reflexivity. Qed.
Print Assumptions full_pipeline_values.

Example full_pipeline_summary :
  summary ex_tp_out ex_gold
  = Ok [[([104; 101; 108; 111]%N, 1%Z); ([119; 111; 114; 108; 100; 101]%N, 1%Z)]; []; [];
        [([97; 98]%N, 1%Z)]].
Proof. vm_compute. reflexivity. Qed.

(* ====================================================================== *)
(* 5. the two wrappers of external programs, under the program's contract  *)
(* ====================================================================== *)

(* Adaptor Grammar.  [units] is any text of units here (the wrapper does not split a
   prepared line itself in the model), so [units_ok] cannot be derived from the contract
   ([parse_ok] is [Forall2 is_seg], which says nothing on the characters of the units):
   it stays a hypothesis.  It holds for the units of any prepared text
   ([split_ws_units_ok]). *)
Theorem ag_output_evaluates : forall (units : list (list str)) (toks : list str) (ignore : Z)
    (runs : list (list str)) (out gold : list str),
  units_ok units ->
  (forall ig : Z, AG.Model.effective_ignore toks ignore = Ok ig ->
   forall lines tree : list str, In lines runs -> In tree (AG.Model.yield_parses lines ig) ->
     length tree = length units -> AG.WrapperProofs.parse_ok units tree) ->
  AG.Model.segment_from_outputs (length units) toks ignore runs = Ok out ->
  aligned units gold ->
  (exists s, evaluate out gold None = Ok s) /\
  (exists s, evaluate out gold (Some (map (join [sp]) units)) = Ok s) /\
  (exists r, summary out gold = Ok r).
Proof.
  intros units toks ignore runs out gold Hok Hc Hseg Hgold.
  pose proof (AG.WrapperProofs.ag_wrapper_preserves_units units toks ignore runs out Hc Hseg) as Hout.
  exact (aligned_accepted units out gold Hok Hout Hgold).
Qed.
Print Assumptions ag_output_evaluates.

(* the same on the lines of a text: no hypothesis on the units is left *)
Corollary ag_output_evaluates_text : forall (text toks : list str) (ignore : Z)
    (runs : list (list str)) (out gold : list str),
  (forall ig : Z, AG.Model.effective_ignore toks ignore = Ok ig ->
   forall lines tree : list str, In lines runs -> In tree (AG.Model.yield_parses lines ig) ->
     length tree = length text -> AG.WrapperProofs.parse_ok (map split_ws text) tree) ->
  AG.Model.segment_from_outputs (length text) toks ignore runs = Ok out ->
  aligned (map split_ws text) gold ->
  (exists s, evaluate out gold None = Ok s) /\
  (exists s, evaluate out gold (Some (map (join [sp]) (map split_ws text))) = Ok s) /\
  (exists r, summary out gold = Ok r).
Proof.
  intros text toks ignore runs out gold Hc Hseg Hgold.
  apply (ag_output_evaluates (map split_ws text) toks ignore runs out gold).
  - exact (dibs_units_ok text).
  - rewrite map_length. exact Hc.
  - rewrite map_length. exact Hseg.
  - exact Hgold.
Qed.
Print Assumptions ag_output_evaluates_text.

(* dpseg: the units are those of the lines split on white space, hence [units_ok] for free *)
Theorem dpseg_output_evaluates : forall (text order : list str) (nfolds : Z)
    (outputs : list (list str)) (out gold : list str)
    (folds : list (list str)) (index : list nat) (m : list (str * N)),
  Forall (fun u : str => split_ws u <> []) text ->
  Dpseg.Model.folds_of text order nfolds = Ok (folds, index, m) ->
  Forall2 Dpseg.Proofs.contract folds outputs ->
  Dpseg.Model.segment_from_outputs text order nfolds outputs = Ok out ->
  aligned (map split_ws text) gold ->
  (exists s, evaluate out gold None = Ok s) /\
  (exists s, evaluate out gold (Some (map (join [sp]) (map split_ws text))) = Ok s) /\
  (exists r, summary out gold = Ok r).
Proof.
  intros text order nfolds outputs out gold folds index m Hnb Hf Hc Hseg Hgold.
  pose proof (Dpseg.Proofs.dpseg_pipeline_aligned text order nfolds outputs out folds index m
                Hnb Hf Hc Hseg) as Hout.
  exact (aligned_accepted _ out gold (dibs_units_ok text) Hout Hgold).
Qed.
Print Assumptions dpseg_output_evaluates.

(* ====================================================================== *)
(* 4. the baseline: output with optional trailing spaces                   *)
(* ====================================================================== *)

(* [x] is read like [x']: same characters apart from U+0020, same words, and no other
   white space than U+0020 if [x'] has none *)
Definition same_words (x x' : str) : Prop :=
  despace x = despace x' /\ split_ws x = split_ws x' /\ (only_spaces x' -> only_spaces x).

Lemma same_words_refl (x : str) : same_words x x.
Proof. repeat split; auto. Qed.

Lemma same_words_snoc (x : str) : same_words (x ++ [sp]) x.
Proof.
  split; [|split].
  - rewrite Baseline.Proofs.despace_app. cbn. apply app_nil_r.
  - rewrite (TP.StrLemmas.split_ws_app x [] sp TP.StrLemmas.is_space_sp).
    cbn. apply app_nil_r.
  - intros H. apply only_spaces_app; [exact H|reflexivity].
Qed.

Lemma same_words_rstrip_sp (s : str) : same_words s (Baseline.Proofs.rstrip_sp s).
Proof.
  unfold Baseline.Proofs.rstrip_sp. destruct (rev s) as [|c r] eqn:E.
  - apply (f_equal (@rev char)) in E. rewrite rev_involutive in E. subst s. apply same_words_refl.
  - destruct (N.eqb_spec c sp) as [->|Hc]; [|apply same_words_refl].
    apply (f_equal (@rev char)) in E. rewrite rev_involutive in E. cbn [rev] in E. subst s.
    apply same_words_snoc.
Qed.

Lemma same_words_nonblank (x x' : str) : same_words x x' -> nonblank x = nonblank x'.
Proof. intros (H & _ & _). apply nonblank_despace. symmetry. exact H. Qed.

Lemma same_words_filter (a a' : list str) :
  Forall2 same_words a a' -> Forall2 same_words (filter nonblank a) (filter nonblank a').
Proof.
  induction 1 as [|x x' a a' Hx _ IH]; [constructor|].
  cbn [filter]. rewrite (same_words_nonblank x x' Hx).
  destruct (nonblank x'); [constructor; assumption|exact IH].
Qed.

Lemma Forall2_compose {A B C} (R : A -> B -> Prop) (S : B -> C -> Prop) (T : A -> C -> Prop)
    (a : list A) (b : list B) (c : list C) :
  (forall x y z, R x y -> S y z -> T x z) -> Forall2 R a b -> Forall2 S b c -> Forall2 T a c.
Proof.
  intros H Hab. revert c. induction Hab as [|x y a b Hxy _ IH]; intros c Hbc;
    inversion Hbc as [|? z ? c' Hyz Hbc']; subst; constructor.
  - exact (H x y z Hxy Hyz).
  - exact (IH c' Hbc').
Qed.

Lemma same_words_consistent (a a' b : list str) :
  Forall2 same_words a a' -> consistent a' b -> consistent a b.
Proof.
  intros Hs [Hl HF]. cbv zeta in Hl, HF. apply same_words_filter in Hs.
  unfold consistent. cbv zeta. split.
  - rewrite <- Hl. exact (Forall2_same_length _ _ _ Hs).
  - refine (Forall2_compose _ _ _ _ _ _ _ Hs HF).
    intros x y z (Hxy & _) Hyz. now rewrite Hxy.
Qed.

Lemma same_words_labels (w w' : list str) : Forall2 same_words w w' ->
  forall U, compute_class_labels w U = compute_class_labels w' U.
Proof.
  intros H U. unfold compute_class_labels.
  rewrite (Forall2_same_length _ _ _ H).
  assert (E1 : forall V, forallb (fun p : str * str => str_eqb (despace (fst p)) (despace (snd p)))
                           (combine w V)
                       = forallb (fun p : str * str => str_eqb (despace (fst p)) (despace (snd p)))
                           (combine w' V)).
  { induction H as [|x x' w w' (Hx & _) _ IH]; intros V; [reflexivity|].
    destruct V as [|v V]; [reflexivity|]. cbn [combine forallb fst snd]. now rewrite Hx, IH. }
  assert (E2 : flat_map split_ws w = flat_map split_ws w').
  { clear E1. induction H as [|x x' w w' (_ & Hx & _) _ IH]; [reflexivity|].
    cbn [flat_map]. now rewrite Hx, IH. }
  rewrite E1, E2. reflexivity.
Qed.

(* a text read like an aligned one is accepted like an aligned one *)
Theorem same_words_accepted (text : list (list str)) (a a' b : list str) :
  units_ok text -> Forall2 same_words a a' -> aligned text a' -> aligned text b ->
  (exists s, evaluate a b None = Ok s) /\
  (exists s, evaluate a b (Some (map (join [sp]) text)) = Ok s) /\
  (exists r, summary a b = Ok r).
Proof.
  intros Hok Hs Ha Hb.
  pose proof (same_words_consistent a a' b Hs (aligned_consistent text a' b Hok Ha Hb)) as Hc.
  split; [|split].
  - exact (proj1 (evaluate_rejects_iff a b) Hc).
  - pose proof (proj2 (words_check_consistent a b) Hc) as Hw.
    unfold words_check in Hw. apply andb_true_iff in Hw as [H1 H2].
    unfold evaluate. cbv zeta. rewrite H1, H2. cbn [negb].
    destruct (aligned_class_labels_ok text a' Hok Ha) as [la Ea].
    destruct (aligned_class_labels_ok text b Hok Hb) as [lb Eb].
    rewrite (same_words_labels _ _ (same_words_filter a a' Hs)), Ea, Eb.
    cbn [bind]. eexists; reflexivity.
  - apply summary_accepts.
    refine (Forall2_compose _ _ _ _ _ _ _ Hs (aligned_summary_pairs text a' b Hok Ha Hb)).
    intros x y z (Hd & _ & Ho) (Hd' & Hy & Hz). repeat split.
    + now rewrite Hd, Hd'.
    + exact (Ho Hy).
    + exact Hz.
Qed.
Print Assumptions same_words_accepted.

(* the units the baseline works on: utt.strip().split(' ') *)
Local Notation baseline_units := (fun u : str => split_on [sp] (strip u)).

Lemma unit_ok_baseline (t : str) : unit_ok t -> t <> [] /\ Forall (fun c : char => c <> sp) t.
Proof.
  intros [Hn Hf]. split; [exact Hn|]. eapply Forall_impl; [|exact Hf].
  intros c Hc ->. rewrite TP.StrLemmas.is_space_sp in Hc. discriminate.
Qed.

Lemma baseline_output_modulo : forall (text : list str) (p : Q) (draws : list Q)
    (outs : list str) (rest : list Q),
  units_ok (map baseline_units text) ->
  Baseline.Model.seg_text text p draws = Some (outs, rest) ->
  Forall2 same_words outs (map Baseline.Proofs.rstrip_sp outs) /\
  aligned (map baseline_units text) (map Baseline.Proofs.rstrip_sp outs).
Proof.
  induction text as [|u text IH]; intros p draws outs rest Hok H.
  - cbn in H. injection H as <- _. split; constructor.
  - rewrite Baseline.Proofs.seg_text_cons in H.
    destruct (Baseline.Model.seg_tokens (split_on [sp] (strip u)) p draws) as [[o r1]|] eqn:E1; [|discriminate].
    destruct (Baseline.Model.seg_text text p r1) as [[os r2]|] eqn:E2; [|discriminate].
    injection H as <- _. cbn [map] in Hok |- *.
    inversion Hok as [|? ? Hu Hok']; subst.
    destruct (IH p r1 os r2 Hok' E2) as [IH1 IH2]. split.
    + constructor; [apply same_words_rstrip_sp|exact IH1].
    + constructor; [|exact IH2].
      apply (Baseline.Proofs.seg_tokens_is_seg _ p draws o r1); [|exact E1].
      eapply Forall_impl; [|exact Hu]. exact unit_ok_baseline.
Qed.

(* for every probability and every stream of draws: the baseline's answer, trailing
   spaces included, is accepted against any gold text aligned with the same units *)
Theorem baseline_output_evaluates : forall (text : list str) (p : Q) (draws : list Q)
    (outs : list str) (rest : list Q) (gold : list str),
  units_ok (map baseline_units text) ->
  Baseline.Model.seg_text text p draws = Some (outs, rest) ->
  aligned (map baseline_units text) gold ->
  (exists s, evaluate outs gold None = Ok s) /\
  (exists s, evaluate outs gold (Some (map (join [sp]) (map baseline_units text))) = Ok s) /\
  (exists r, summary outs gold = Ok r).
Proof.
  intros text p draws outs rest gold Hok Hseg Hgold.
  destruct (baseline_output_modulo text p draws outs rest Hok Hseg) as [Hs Ha].
  exact (same_words_accepted _ outs _ gold Hok Hs Ha Hgold).
Qed.
Print Assumptions baseline_output_evaluates.

(* ---------- the baseline at the end of the chain ---------- *)

Lemma join_snoc_terminated (init : list str) (last : str) :
  join [sp] (init ++ [last]) = terminated [sp] init ++ last.
Proof.
  induction init as [|a init IH]; [reflexivity|].
  destruct init as [|b init'].
  - cbn. rewrite app_nil_r, <- app_assoc. reflexivity.
  - change ((a :: b :: init') ++ [last]) with (a :: b :: (init' ++ [last])).
    rewrite TP.StrLemmas.join_cons2.
    change (b :: init' ++ [last]) with ((b :: init') ++ [last]). rewrite IH.
    unfold terminated. cbn [map concat]. rewrite <- !app_assoc. reflexivity.
Qed.

Lemma unit_ok_tok_ok (a : str) : unit_ok a -> tok_ok a.
Proof. intros [H1 H2]. split; [exact H1|exact H2]. Qed.

(* on a line made of units joined by single spaces, utt.strip().split(' ') gives the units *)
Lemma baseline_units_join (us : list str) :
  us <> [] -> Forall unit_ok us -> baseline_units (join [sp] us) = us.
Proof.
  intros Hne Hok.
  assert (Htok : Forall tok_ok us) by (eapply Forall_impl; [|exact Hok]; exact unit_ok_tok_ok).
  cbv beta.
  rewrite (strip_clean_ends _ (join_clean_ends us Hne Htok)).
  destruct (exists_last Hne) as (init & last & ->).
  rewrite join_snoc_terminated. unfold terminated.
  assert (Hend : Forall (fun t : str => only_at_end [sp] t = true) (init ++ [last])).
  { eapply Forall_impl; [|exact Htok]. intros t [_ Ht].
    apply free_only_at_end, free_sp, ws_free_not_sp. exact Ht. }
  apply Forall_app in Hend as [Hi Hl]. inversion Hl as [|? ? Hlast _]; subst.
  apply split_on_join; [discriminate|exact Hi|].
  apply only_at_end_no_infix; [discriminate|exact Hlast].
Qed.

Lemma text_acc_lines_ok (xp xs xw : str) (cp : bool) (text : list str) (trees : list utree) :
  text_acc xp xs xw cp text trees -> Forall (line_ok xp xs xw) trees.
Proof.
  intros H. induction H as [|raw text trees Hb _ IH|t ws text trees Hl Hws _ _ IH].
  - constructor.
  - exact IH.
  - now constructor.
Qed.

Lemma line_ok_units_nonnil (xp xs xw : str) (t : utree) (u : unit_level) :
  line_ok xp xs xw t -> units u t <> [].
Proof.
  intros (Hn & Ht & _) E.
  rewrite <- PrepareGold.word_groups_concat in E.
  apply concat_nonempty_nil in E.
  - destruct u; cbn [PrepareGold.word_groups] in E; apply map_eq_nil in E; contradiction.
  - apply PrepareGold.word_groups_nonnil. exact (PrepareGold.tree_ok_nonnil xp xs xw t Ht).
Qed.

Lemma baseline_units_prepared (xp xs xw : str) (trees : list utree) (u : unit_level) :
  Forall (line_ok xp xs xw) trees ->
  map baseline_units (map (fun t : utree => join [sp] (units u t)) trees)
  = map split_ws (map (fun t : utree => join [sp] (units u t)) trees).
Proof.
  intros Hl. rewrite !map_map.
  induction Hl as [|t trees Ht _ IH]; [reflexivity|]. cbn [map]. f_equal; [|exact IH].
  pose proof (line_ok_units_nonnil xp xs xw t u Ht) as Hne.
  destruct Ht as (_ & Ht & _).
  pose proof (PrepareGold.units_unit_ok xp xs xw t u Ht) as Hok.
  rewrite (TP.StrLemmas.split_ws_join _ Hok).
  exact (baseline_units_join _ Hne Hok).
Qed.

Theorem full_pipeline_baseline (xp xs xw : str) :
  xp <> [] -> xs <> [] -> xw <> [] ->
  free xs xp -> free xs xw -> free xw xp -> free xw xs -> free xp xs -> free xp xw ->
  ~ In sp xs -> xp = [sp] \/ ~ In sp xp -> ends_ok xw ->
  forall (cp : bool) (text : list str) (trees : list utree),
  text_acc xp xs xw cp text trees ->
  forall (u : unit_level) (tol : bool) (p : Q) (draws : list Q),
  exists (prepared g : list str),
    prepare text (sep3 xp xs xw) u cp tol = (prepared, PDone) /\
    gold text (sep3 xp xs xw) = Ok g /\
    forall outs rest, Baseline.Model.seg_text prepared p draws = Some (outs, rest) ->
      (exists s, evaluate outs g None = Ok s) /\
      (exists s, evaluate outs g (Some prepared) = Ok s) /\
      (exists r, summary outs g = Ok r).
Proof.
  intros Hxp Hxs Hxw Fsp Fsw Fwp Fws Fps Fpw Hs Hp Hew cp text trees Hacc u tol p draws.
  destruct (prepare_gold_facts xp xs xw Hxp Hxs Hxw Fsp Fsw Fwp Fws Fps Fpw Hs Hp Hew
              cp text trees Hacc u tol) as (prepared & g & HP & HG & Hu & Hal & Hj).
  exists prepared, g. split; [exact HP|]. split; [exact HG|].
  intros outs rest Hseg.
  assert (E : map baseline_units prepared = map split_ws prepared).
  { pose proof (Prepare.Views.prepare_text_spec xp xs xw Hxp Hxs Hxw Fsp Fsw Fwp Fws Fps Hs Hp Hew
                  cp text trees Hacc u tol) as HP'.
    rewrite HP in HP'. injection HP' as ->.
    exact (baseline_units_prepared xp xs xw trees u (text_acc_lines_ok _ _ _ _ _ _ Hacc)). }
  rewrite <- E in Hu, Hal, Hj.
  pose proof (baseline_output_evaluates prepared p draws outs rest g Hu Hseg Hal) as H.
  rewrite Hj in H. exact H.
Qed.
Print Assumptions full_pipeline_baseline.

(* non-vacuity: probability 1/2, draws 0 and 3/4 in turn, on the prepared phones of the
   example; both lines of the answer end with a space (the last draw of each line is 0):
   the answer is not itself a segmentation of the units, and it is scored and filed *)
Definition ex_draws : list Q := [0; 3#4; 0; 3#4; 0; 3#4; 0; 3#4; 0; 3#4; 0]%Q.
Definition ex_base_out : list str :=
  [[104; 32; 101; 108; 32; 111; 119; 32; 111; 114; 32; 108; 100; 101; 32]; [97; 98; 32]]%N.

Example baseline_values :
  Baseline.Model.seg_text ex_prepared (1#2) ex_draws = Some (ex_base_out, []) /\
  evaluate ex_base_out ex_gold (Some ex_prepared)
  = Ok {| s_token := {| c_test := 6; c_gold := 3; c_correct := 1 |};
          s_type := {| c_test := 6; c_gold := 3; c_correct := 1 |};
          s_ball := {| c_test := 8; c_gold := 5; c_correct := 4 |};
          s_bnoedge := {| c_test := 4; c_gold := 1; c_correct := 0 |};
          s_ari := Some (1080 # 4160)%Q |} /\
  summary ex_base_out ex_gold
  = Ok [[]; [];
        [([104; 101; 108; 111]%N, 1%Z); ([119; 111; 114; 108; 100; 101]%N, 1%Z)];
        [([97; 98]%N, 1%Z)]].
Proof. vm_compute. repeat split; reflexivity. Qed.
Print Assumptions baseline_values.

(* ====================================================================== *)
(* 5'. the two wrappers at the end of the chain                            *)
(* ====================================================================== *)

Theorem full_pipeline_ag (xp xs xw : str) :
  xp <> [] -> xs <> [] -> xw <> [] ->
  free xs xp -> free xs xw -> free xw xp -> free xw xs -> free xp xs -> free xp xw ->
  ~ In sp xs -> xp = [sp] \/ ~ In sp xp -> ends_ok xw ->
  forall (cp : bool) (text : list str) (trees : list utree),
  text_acc xp xs xw cp text trees ->
  forall (u : unit_level) (tol : bool),
  exists (prepared g : list str),
    prepare text (sep3 xp xs xw) u cp tol = (prepared, PDone) /\
    gold text (sep3 xp xs xw) = Ok g /\
    forall (toks : list str) (ignore : Z) (runs : list (list str)) (out : list str),
      (forall ig : Z, AG.Model.effective_ignore toks ignore = Ok ig ->
       forall lines tree : list str, In lines runs -> In tree (AG.Model.yield_parses lines ig) ->
         length tree = length prepared ->
         AG.WrapperProofs.parse_ok (map split_ws prepared) tree) ->
      AG.Model.segment_from_outputs (length prepared) toks ignore runs = Ok out ->
      (exists s, evaluate out g None = Ok s) /\
      (exists s, evaluate out g (Some prepared) = Ok s) /\
      (exists r, summary out g = Ok r).
Proof.
  intros Hxp Hxs Hxw Fsp Fsw Fwp Fws Fps Fpw Hs Hp Hew cp text trees Hacc u tol.
  destruct (prepare_gold_facts xp xs xw Hxp Hxs Hxw Fsp Fsw Fwp Fws Fps Fpw Hs Hp Hew
              cp text trees Hacc u tol) as (prepared & g & HP & HG & Hu & Hal & Hj).
  exists prepared, g. split; [exact HP|]. split; [exact HG|].
  intros toks ignore runs out Hc Hseg.
  pose proof (ag_output_evaluates_text prepared toks ignore runs out g Hc Hseg Hal) as H.
  rewrite Hj in H. exact H.
Qed.
Print Assumptions full_pipeline_ag.

Theorem full_pipeline_dpseg (xp xs xw : str) :
  xp <> [] -> xs <> [] -> xw <> [] ->
  free xs xp -> free xs xw -> free xw xp -> free xw xs -> free xp xs -> free xp xw ->
  ~ In sp xs -> xp = [sp] \/ ~ In sp xp -> ends_ok xw ->
  forall (cp : bool) (text : list str) (trees : list utree),
  text_acc xp xs xw cp text trees ->
  forall (u : unit_level) (tol : bool),
  exists (prepared g : list str),
    prepare text (sep3 xp xs xw) u cp tol = (prepared, PDone) /\
    gold text (sep3 xp xs xw) = Ok g /\
    forall (order : list str) (nfolds : Z) (outputs folds : list (list str))
           (index : list nat) (m : list (str * N)) (out : list str),
      Dpseg.Model.folds_of prepared order nfolds = Ok (folds, index, m) ->
      Forall2 Dpseg.Proofs.contract folds outputs ->
      Dpseg.Model.segment_from_outputs prepared order nfolds outputs = Ok out ->
      (exists s, evaluate out g None = Ok s) /\
      (exists s, evaluate out g (Some prepared) = Ok s) /\
      (exists r, summary out g = Ok r).
Proof.
  intros Hxp Hxs Hxw Fsp Fsw Fwp Fws Fps Fpw Hs Hp Hew cp text trees Hacc u tol.
  destruct (prepare_gold_facts xp xs xw Hxp Hxs Hxw Fsp Fsw Fwp Fws Fps Fpw Hs Hp Hew
              cp text trees Hacc u tol) as (prepared & g & HP & HG & Hu & Hal & Hj).
  exists prepared, g. split; [exact HP|]. split; [exact HG|].
  intros order nfolds outputs folds index m out Hf Hc Hseg.
  assert (Hnb : Forall (fun l : str => split_ws l <> []) prepared).
  { destruct (PrepareGold.prepare_gold_pipeline_units xp xs xw Hxp Hxs Hxw Fsp Fsw Fwp Fws Fps Fpw
                Hs Hp Hew cp text trees Hacc u tol prepared g HP HG) as (E & _).
    apply (proj1 (Forall_map split_ws (fun us : list str => us <> []) prepared)).
    rewrite E. apply Forall_map.
    pose proof (text_acc_lines_ok _ _ _ _ _ _ Hacc) as Hl.
    eapply Forall_impl; [|exact Hl]. intros t Ht. exact (line_ok_units_nonnil xp xs xw t u Ht). }
  pose proof (dpseg_output_evaluates prepared order nfolds outputs out g folds index m
                Hnb Hf Hc Hseg Hal) as H.
  rewrite Hj in H. exact H.
Qed.
Print Assumptions full_pipeline_dpseg.
