(* wordseg-syll (strip=False) followed by wordseg-prep -u syllable:
   what the syllabifier writes is prepared (syllable level) into the decided
   syllables joined by spaces, and its gold is the words joined by spaces. *)
From WS Require Import Base.Py Base.Str Separator.Model Separator.Render
  Separator.StrLemmas Separator.StripLemmas.
From WS Require Import Syll.Model Syll.Proofs Syll.ProofsRemove Syll.ProofsLoop.
From WS Require Import Prepare.Model Prepare.Proofs Prepare.ViewsLemmas Pipeline.SyllSep.

(* ---------- generic ---------- *)

Lemma replace_go_nil0 (x new : str) : replace_go x new [] 0 = [].
Proof. reflexivity. Qed.

Lemma replace_all_free_del (y s : str) : y = [] \/ free y s -> replace_all y [] s = s.
Proof.
  intros H. destruct y as [|c y]; [apply replace_all_nil_nil|].
  destruct H as [H|H]; [discriminate|].
  rewrite replace_all_go by discriminate.
  rewrite <- (app_nil_r s) at 1. rewrite replace_go_free by exact H.
  rewrite replace_go_nil0. apply app_nil_r.
Qed.

Lemma remove_terminator (ws : str) (outs : list str) : ws <> [] -> Forall (free ws) outs ->
  replace_all ws [] (concat (map (fun o : str => o ++ ws) outs)) = concat outs.
Proof.
  intros Hne H. rewrite replace_all_go by exact Hne.
  induction H as [|o outs Ho _ IH]; [reflexivity|].
  cbn [map concat]. rewrite <- app_assoc, replace_go_free by exact Ho.
  rewrite replace_go_at_sep by exact Hne. rewrite IH. reflexivity.
Qed.

Lemma join_snoc_nil (x : str) (l : list str) : join x (l ++ [[]]) = terminated x l.
Proof.
  induction l as [|a l IH]; [reflexivity|].
  unfold terminated in *. cbn [map concat]. rewrite <- IH.
  destruct l as [|b l]; cbn [app join]; rewrite <- ?app_assoc; reflexivity.
Qed.

Lemma In_levels_phone (sep : separator) (p : str) : s_phone sep = Some p -> In p (levels_for sep None).
Proof.
  destruct sep as [[p0|] [s|] [w|]]; cbn; intros H; try discriminate; injection H as ->; auto.
Qed.

Lemma In_levels_word (sep : separator) (w : str) : s_word sep = Some w -> In w (levels_for sep None).
Proof.
  destruct sep as [[p0|] [s|] [w0|]]; cbn; intros H; try discriminate; injection H as ->; auto.
Qed.

(* ---------- 1. prepare and gold on the syllabifier's output ---------- *)

Section SyllPrep.
Variable S0 : syllabifier.

Lemma concat_render_false (sylss : list (list syl)) :
  concat (map (render S0 false) sylss) = render S0 false (concat sylss).
Proof.
  induction sylss as [|syls r IH]; [reflexivity|].
  cbn [map concat]. rewrite IH, !render_false, map_app, concat_app. reflexivity.
Qed.

Lemma syls_ok_free (syls : list syl) (y : str) :
  syls_ok S0 syls -> In y (levels_for (sy_sep S0) None) ->
  y <> [] /\ Forall (fun s : syl => free y (syl_str s)) syls.
Proof. intros (_ & _ & H) Hy. exact (H y Hy). Qed.

Lemma syls_ok_word_free (syls : list syl) (y : str) :
  syls_ok S0 syls -> In y (levels_for (sy_sep S0) None) ->
  free y (concat (map syl_str syls)).
Proof.
  intros Hok Hy. destruct (syls_ok_free syls y Hok Hy) as [_ H].
  apply free_concat. apply Forall_map. exact H.
Qed.

Lemma syls_ok_word_tok (syls : list syl) :
  syls_ok S0 syls -> ViewsLemmas.tok_ok (concat (map syl_str syls)).
Proof.
  intros (Hnn & Hws & _). split.
  - destruct syls as [|s r]; [congruence|]. cbn [map concat]. intros H.
    apply app_eq_nil in H. destruct H as [H _]. revert H. apply syl_str_not_nil.
  - unfold ws_free. apply Forall_concat. apply Forall_map. exact Hws.
Qed.

Lemma syls_ok_syl_tok (sylss : list (list syl)) :
  Forall (syls_ok S0) sylss ->
  Forall ViewsLemmas.tok_ok (map syl_str (concat sylss)).
Proof.
  intros H. apply Forall_map. apply Forall_concat.
  eapply Forall_impl; [|exact H]. cbv beta. intros syls (_ & Hws & _).
  eapply Forall_impl; [|exact Hws]. cbv beta. intros s Hs. split; [apply syl_str_not_nil | exact Hs].
Qed.

(* the syllable-level preparation of the syllabified utterance *)
Theorem prepare_syll_rendered (x ws : str) (sylss : list (list syl)) :
  s_syll (sy_sep S0) = Some x -> s_word (sy_sep S0) = Some ws ->
  x <> [] -> ws <> [] -> free ws x ->
  Forall (syls_ok S0) sylss ->
  prepare_line (sy_sep S0) USyll
    (concat (map (fun syls : list syl => render S0 false syls ++ ws) sylss))
  = Ok (join [sp] (concat (map (map syl_str) sylss))).
Proof.
  intros Hx Hw Hxn Hwn Hwx Hok.
  assert (Ho : osyll S0 = x) by (unfold osyll; rewrite Hx; reflexivity).
  unfold prepare_line. rewrite Hw, Hx. f_equal.
  assert (E1 : replace_all ws []
                 (concat (map (fun syls : list syl => render S0 false syls ++ ws) sylss))
               = render S0 false (concat sylss)).
  { rewrite <- concat_render_false.
    rewrite <- (map_map (render S0 false) (fun o : str => o ++ ws)).
    apply remove_terminator; [exact Hwn|]. apply Forall_map.
    eapply Forall_impl; [|exact Hok]. cbv beta. intros syls Hs.
    destruct (syls_ok_free syls ws Hs (In_levels_word _ ws Hw)) as [_ Hf].
    apply free_render; [exact Hf | rewrite Ho; exact Hwx]. }
  rewrite E1.
  assert (Hall : Forall (fun s : syl => free x (syl_str s) /\ ~ In sp (syl_str s) /\
                   (Prepare.Model.osep (s_phone (sy_sep S0)) = [] \/
                    free (Prepare.Model.osep (s_phone (sy_sep S0))) (syl_str s))) (concat sylss)).
  { apply Forall_concat. eapply Forall_impl; [|exact Hok]. cbv beta. intros syls Hs.
    destruct (syls_ok_free syls x Hs (In_levels_syll _ x Hx)) as [_ Hfx].
    pose proof Hs as (_ & Hws & _).
    apply Forall_forall. intros s Hin. split; [exact (proj1 (Forall_forall _ _) Hfx s Hin)|].
    split; [apply ws_free_not_sp; exact (proj1 (Forall_forall _ _) Hws s Hin)|].
    destruct (s_phone (sy_sep S0)) as [p|] eqn:Hp; [|left; reflexivity].
    right. cbn [Prepare.Model.osep].
    destruct (syls_ok_free syls p Hs (In_levels_phone _ p Hp)) as [_ Hfp].
    exact (proj1 (Forall_forall _ _) Hfp s Hin). }
  rewrite (render_split_on S0 x false (concat sylss) Ho Hxn).
  2:{ eapply Forall_impl; [|exact Hall]. cbv beta. intros s (Hf & _).
      apply SyllSep.free_only_at_end. exact Hf. }
  rewrite (map_id_Forall _ (map syl_str (concat sylss) ++ [[]])).
  2:{ apply Forall_app. split.
      - apply Forall_map. eapply Forall_impl; [|exact Hall]. cbv beta. intros s (_ & Hsp & Hph).
        rewrite (replace_all_free_del _ _ Hph).
        apply replace_all_free_del. right. apply free_sp. exact Hsp.
      - constructor; [|constructor].
        rewrite (replace_all_free_del _ []) by (right; apply free_nil).
        apply replace_all_free_del. right. apply free_nil. }
  rewrite join_snoc_nil.
  rewrite <- (app_nil_r (terminated [sp] _)).
  rewrite norm_ws_terminated; [|apply syls_ok_syl_tok; exact Hok | constructor].
  rewrite concat_map. reflexivity.
Qed.

(* the gold of the syllabified utterance: the words *)
Theorem gold_rendered (x ws : str) (sylss : list (list syl)) :
  s_syll (sy_sep S0) = Some x -> s_word (sy_sep S0) = Some ws ->
  x <> [] -> ws <> [] -> free x ws ->
  (forall p : str, s_phone (sy_sep S0) = Some p -> free p ws) ->
  Forall (syls_ok S0) sylss ->
  gold_line (sy_sep S0)
    (concat (map (fun syls : list syl => render S0 false syls ++ ws) sylss))
  = Ok (join [sp] (map (fun syls : list syl => concat (map syl_str syls)) sylss)).
Proof.
  intros Hx Hw Hxn Hwn Hxw Hpw Hok.
  assert (Ho : osyll S0 = x) by (unfold osyll; rewrite Hx; reflexivity).
  unfold gold_line. rewrite Hw, Hx. cbn [Prepare.Model.osep]. f_equal.
  set (words := map (fun syls : list syl => concat (map syl_str syls)) sylss).
  assert (E1 : replace_all x []
                 (concat (map (fun syls : list syl => render S0 false syls ++ ws) sylss))
               = concat (map (fun w : str => w ++ ws) words)).
  { rewrite replace_all_go by exact Hxn. unfold words. clear words.
    induction Hok as [|syls r Hs _ IH]; [reflexivity|].
    cbn [map concat]. rewrite <- !app_assoc.
    rewrite render_false_terminated, Ho.
    rewrite (replace_terminated x [] Hxn x (or_introl eq_refl)).
    2:{ apply Forall_map. exact (proj2 (syls_ok_free syls x Hs (In_levels_syll _ x Hx))). }
    rewrite sub_same, terminated_nil_sep. f_equal.
    rewrite replace_go_free by exact Hxw. f_equal. exact IH. }
  rewrite E1.
  assert (Hwords : Forall (fun w : str => ViewsLemmas.tok_ok w /\ free ws w /\
                     (Prepare.Model.osep (s_phone (sy_sep S0)) = [] \/
                      free (Prepare.Model.osep (s_phone (sy_sep S0))) (w ++ ws))) words).
  { unfold words. apply Forall_map. eapply Forall_impl; [|exact Hok]. cbv beta. intros syls Hs.
    split; [apply syls_ok_word_tok; exact Hs|].
    split; [apply syls_ok_word_free; [exact Hs | apply In_levels_word; exact Hw]|].
    destruct (s_phone (sy_sep S0)) as [p|] eqn:Hp; [|left; reflexivity].
    right. cbn [Prepare.Model.osep]. apply free_app; [|apply Hpw; reflexivity].
    apply syls_ok_word_free; [exact Hs | apply In_levels_phone; exact Hp]. }
  rewrite replace_all_free_del.
  2:{ assert (Hd : Prepare.Model.osep (s_phone (sy_sep S0)) = [] \/
                   Prepare.Model.osep (s_phone (sy_sep S0)) <> []).
      { destruct (Prepare.Model.osep (s_phone (sy_sep S0))); [left; reflexivity | right; discriminate]. }
      destruct Hd as [Hd|Hd]; [left; exact Hd|]. right.
      apply free_concat. apply Forall_map. eapply Forall_impl; [|exact Hwords]. cbv beta.
      intros w (_ & _ & [H|H]); [contradiction | exact H]. }
  rewrite split_on_joined; [|exact Hwn|].
  2:{ eapply Forall_impl; [|exact Hwords]. cbv beta. intros w (_ & Hf & _).
      apply SyllSep.free_only_at_end. exact Hf. }
  rewrite (map_id_Forall _ (words ++ [[]])).
  2:{ apply Forall_app. split.
      - eapply Forall_impl; [|exact Hwords]. cbv beta. intros w ((_ & Hws) & _).
        apply replace_all_free_del. right. apply free_sp. apply ws_free_not_sp. exact Hws.
      - constructor; [|constructor]. apply replace_all_free_del. right. apply free_nil. }
  rewrite join_snoc_nil.
  rewrite <- (app_nil_r (terminated [sp] _)).
  apply norm_ws_terminated; [|constructor].
  eapply Forall_impl; [|exact Hwords]. cbv beta. intros w (Ht & _). exact Ht.
Qed.

End SyllPrep.

Print Assumptions prepare_syll_rendered.
Print Assumptions gold_rendered.

(* the separators of the chain, decidable form: neither x nor ws is empty, none of
   them can start inside the other, the phone separator (if any) cannot start inside ws,
   and x does not end with whitespace *)
Definition seps_ok_b (sep : separator) : bool :=
  match s_syll sep, s_word sep with
  | Some x, Some ws =>
    nonempty x && nonempty ws && free_b ws x && free_b x ws &&
    match s_phone sep with Some p => free_b p ws | None => true end &&
    str_eqb (lstrip (rev x)) (rev x)
  | _, _ => false
  end.

Lemma Forall2_words_syls (S0 : syllabifier) (P : str -> list syl -> Prop) (words : list str) (sylss : list (list syl)) :
  Forall (word_ok S0) words ->
  Forall2 (fun (w : str) (syls : list syl) => w = concat (map syl_str syls) /\ P w syls) words sylss ->
  Forall (syls_ok S0) sylss /\
  words = map (fun syls : list syl => concat (map syl_str syls)) sylss.
Proof.
  intros Hw H2. induction H2 as [|w syls words' sylss' (Hweq & _) _ IH]; [split; [constructor | reflexivity]|].
  inversion Hw as [|? ? Hwok Hw']; subst words' w. destruct (IH Hw') as [IH1 IH2].
  split.
  - constructor; [|exact IH1]. exact (word_ok_syls_ok S0 _ syls Hwok eq_refl).
  - cbn [map]. f_equal. exact IH2.
Qed.

Theorem syllabified_prepare_syllable (S0 : syllabifier) (u out x : str) :
  s_syll (sy_sep S0) = Some x -> silent S0 = None -> x <> [] -> ends_ok x ->
  (forall ws : str, s_word (sy_sep S0) = Some ws ->
     ws <> [] /\ free ws x /\ free x ws /\
     (forall p : str, s_phone (sy_sep S0) = Some p -> free p ws)) ->
  (forall words : list str, tokenize (sy_sep S0) u Word false = Ok words -> Forall (word_ok S0) words) ->
  syllabify_utterance S0 u false = Ok out ->
  exists (ws : str) (words : list str) (sylss : list (list syl)),
    s_word (sy_sep S0) = Some ws /\
    tokenize (sy_sep S0) u Word false = Ok words /\
    Forall2 (fun (w : str) (syls : list syl) =>
               w = concat (map syl_str syls) /\
               syllabify_word S0 w false = Ok (render S0 false syls) /\
               Forall (syl_ok S0) syls /\ max_onsets S0 [] syls) words sylss /\
    out = concat (map (fun syls : list syl => render S0 false syls ++ ws) sylss) /\
    tokenize (sy_sep S0) out Syll false = Ok (concat (map (map syl_str) sylss)) /\
    prepare_line (sy_sep S0) USyll out = Ok (join [sp] (concat (map (map syl_str) sylss))) /\
    gold_line (sy_sep S0) out = Ok (join [sp] words).
Proof.
  intros Hx Hsil Hxn Hends Hseps Hwords H.
  destruct (syllabify_utterance_tokenize S0 u out x Hx Hsil
              (fun ws Hw => proj1 (proj2 (Hseps ws Hw))) Hends Hwords H)
    as (ws & words & sylss & Hw & Htok & HF & Hout & Ht).
  destruct (Hseps ws Hw) as (Hwn & Hwx & Hxw & Hpw).
  destruct (Forall2_words_syls S0 _ words sylss (Hwords words Htok) HF) as [Hok Hweq].
  exists ws, words, sylss. repeat (split; [assumption|]).
  split.
  - rewrite Hout. exact (prepare_syll_rendered S0 x ws sylss Hx Hw Hxn Hwn Hwx Hok).
  - rewrite Hout, Hweq. exact (gold_rendered S0 x ws sylss Hx Hw Hxn Hwn Hxw Hpw Hok).
Qed.

Print Assumptions syllabified_prepare_syllable.

(* with the conditions on the separators as one boolean *)
Corollary syllabified_prepare_syllable_dec (S0 : syllabifier) (u out : str) :
  seps_ok_b (sy_sep S0) = true -> silent S0 = None ->
  (forall words : list str, tokenize (sy_sep S0) u Word false = Ok words -> Forall (word_ok S0) words) ->
  syllabify_utterance S0 u false = Ok out ->
  exists (words : list str) (sylss : list (list syl)),
    tokenize (sy_sep S0) u Word false = Ok words /\
    Forall2 (fun (w : str) (syls : list syl) =>
               w = concat (map syl_str syls) /\
               syllabify_word S0 w false = Ok (render S0 false syls) /\
               Forall (syl_ok S0) syls /\ max_onsets S0 [] syls) words sylss /\
    tokenize (sy_sep S0) out Syll false = Ok (concat (map (map syl_str) sylss)) /\
    prepare_line (sy_sep S0) USyll out = Ok (join [sp] (concat (map (map syl_str) sylss))) /\
    gold_line (sy_sep S0) out = Ok (join [sp] words).
Proof.
  intros Hb Hsil Hwords H. unfold seps_ok_b in Hb.
  destruct (s_syll (sy_sep S0)) as [x|] eqn:Hx; [|discriminate].
  destruct (s_word (sy_sep S0)) as [ws|] eqn:Hw; [|discriminate].
  apply andb_true_iff in Hb. destruct Hb as [Hb He].
  apply andb_true_iff in Hb. destruct Hb as [Hb Hph].
  apply andb_true_iff in Hb. destruct Hb as [Hb Hfxw].
  apply andb_true_iff in Hb. destruct Hb as [Hb Hfwx].
  apply andb_true_iff in Hb. destruct Hb as [Hnx Hnw].
  destruct (syllabified_prepare_syllable S0 u out x Hx Hsil) as (ws' & words & sylss & _ & Htok & HF & _ & Ht & Hp & Hg).
  - apply nonempty_true. exact Hnx.
  - apply str_eqb_eq. exact He.
  - intros ws' Hw'. rewrite Hw in Hw'. injection Hw' as <-.
    split; [apply nonempty_true; exact Hnw|]. split; [apply free_b_sound; exact Hfwx|].
    split; [apply free_b_sound; exact Hfxw|]. intros p Hp. rewrite Hp in Hph. apply free_b_sound. exact Hph.
  - exact Hwords.
  - exact H.
  - exists words, sylss. auto.
Qed.

Print Assumptions syllabified_prepare_syllable_dec.

(* ---------- 2. check_utterance accepts the syllabified utterance ---------- *)

Lemma strip_cons_nonempty (c : char) (r : str) : is_space c = false -> nonempty (strip (c :: r)) = true.
Proof.
  intros H. apply nonempty_true. intros E. apply strip_nil_iff in E.
  cbn [forallb] in E. rewrite H in E. discriminate.
Qed.

Lemma begins_with_false (o : option str) (s : str) :
  (forall y : str, o = Some y -> prefix_b y s = false) -> begins_with o s = false.
Proof.
  intros H. destruct o as [y|]; [|reflexivity]. cbn [begins_with].
  rewrite (H y eq_refl). apply andb_false_r.
Qed.

Section Check.
Variable S0 : syllabifier.

(* what check_utterance asks: not empty, something left after stripping the separators,
   no punctuation when asked, no leading separator, the word separator at the end, and
   (the adjacent-pieces test on the split by the phone separator) — here the text has
   no phone separator in it, so there is a single piece *)
Theorem check_rendered (x ws out : str) (sylss : list (list syl)) (cp : bool) :
  s_syll (sy_sep S0) = Some x -> s_word (sy_sep S0) = Some ws -> free ws x ->
  sylss <> [] -> Forall (syls_ok S0) sylss ->
  match s_phone (sy_sep S0) with
  | None => ws_free x /\ ws_free ws
  | Some p => free p x /\ free p ws
  end ->
  out = concat (map (fun syls : list syl => render S0 false syls ++ ws) sylss) ->
  (cp = false \/ existsb is_punct (remove_all (sy_sep S0) out) = false) ->
  check_utterance out (sy_sep S0) cp = Ok tt.
Proof.
  intros Hx Hw Hwx Hnn Hok Hph Hout Hcp.
  assert (Ho : osyll S0 = x) by (unfold osyll; rewrite Hx; reflexivity).
  apply (accepted_iff out (sy_sep S0) cp ws Hw). unfold accepts.
  (* the end *)
  assert (HE : suffix_b ws out = true).
  { destruct (exists_last Hnn) as (init & last & E). rewrite Hout, E, map_app, concat_app.
    cbn [map concat]. rewrite app_nil_r, !app_assoc. unfold suffix_b. rewrite rev_app_distr.
    apply prefix_b_app. }
  (* the single piece *)
  assert (HF : split_py (s_phone (sy_sep S0)) out = [out]).
  { destruct (s_phone (sy_sep S0)) as [p|] eqn:Hp; cbn [split_py].
    - destruct Hph as [Hpx Hpw].
      assert (Hpn : p <> []).
      { destruct sylss as [|syls0 rest]; [congruence|].
        exact (proj1 (syls_ok_free S0 syls0 p (Forall_inv Hok) (In_levels_phone _ p Hp))). }
      apply split_on_no_infix. apply free_no_infix; [exact Hpn|].
      rewrite Hout. apply free_concat. apply Forall_map.
      eapply Forall_impl; [|exact Hok]. cbv beta. intros syls Hs.
      apply free_app; [|exact Hpw]. apply free_render; [|rewrite Ho; exact Hpx].
      exact (proj2 (syls_ok_free S0 syls p Hs (In_levels_phone _ p Hp))).
    - destruct Hph as [Hxs Hwss].
      assert (Htok : ViewsLemmas.tok_ok out).
      { split.
        - rewrite Hout. destruct sylss as [|syls0 rest]; [congruence|]. cbn [map concat].
          intros E. apply app_eq_nil in E. destruct E as [E _]. apply app_eq_nil in E. destruct E as [E _].
          revert E. apply render_nonnil. exact (proj1 (Forall_inv Hok)).
        - rewrite Hout. unfold ws_free. apply Forall_concat. apply Forall_map.
          eapply Forall_impl; [|exact Hok]. cbv beta. intros syls (_ & Hs & _).
          apply Forall_app. split; [|exact Hwss]. rewrite render_false. apply Forall_concat.
          apply Forall_map. eapply Forall_impl; [|exact Hs]. cbv beta. intros s Hsw.
          apply Forall_app. split; [exact Hsw | rewrite Ho; exact Hxs]. }
      exact (split_ws_join [out] (Forall_cons _ Htok (Forall_nil _))). }
  (* the beginning *)
  destruct sylss as [|syls0 rest]; [congruence|].
  pose proof (Forall_inv Hok) as Hok0. destruct Hok0 as (Hn0 & Hws0 & Hfr0).
  destruct syls0 as [|s0 r0]; [congruence|].
  pose proof (Forall_inv Hws0) as Hs0ws.
  destruct (syl_str s0) as [|c b] eqn:Es0; [exfalso; exact (syl_str_not_nil s0 Es0)|].
  cbv beta in Hs0ws. rewrite Es0 in Hs0ws. unfold ws_free in Hs0ws.
  pose proof (Forall_inv Hs0ws) as Hc. cbv beta in Hc.
  assert (Hshape : exists tail : str, out = c :: b ++ tail).
  { eexists. rewrite Hout. cbn [map concat]. rewrite render_false. cbn [map concat].
    rewrite Es0. rewrite <- !app_assoc. cbn [app]. reflexivity. }
  destruct Hshape as [tail Hshape].
  assert (Hpre : Forall (fun y : str => prefix_b y out = false) (levels_for (sy_sep S0) None)).
  { apply Forall_forall. intros y Hy. destruct (Hfr0 y Hy) as [_ Hf].
    pose proof (Forall_inv Hf) as Hf0. cbv beta in Hf0. rewrite Es0 in Hf0.
    rewrite Hshape. apply free_head. exact Hf0. }
  assert (HA : nonempty out = true) by (rewrite Hshape; reflexivity).
  assert (HB : nonempty (strip_with (levels_for (sy_sep S0) None) out) = true).
  { unfold strip_with. destruct (levels_for (sy_sep S0) None) as [|y0 l] eqn:El.
    - exfalso. pose proof (In_levels_word _ ws Hw) as Hin. rewrite El in Hin. exact Hin.
    - rewrite (strip_prefix_none _ _ (first_prefix_none _ _ Hpre)).
      rewrite Hshape, strip_suffix_cons. rewrite <- Hshape.
      rewrite (cut_here_no_prefix _ _ Hpre). apply strip_cons_nonempty. exact Hc. }
  assert (HC : cp && existsb is_punct (remove_all (sy_sep S0) out) = false).
  { destruct Hcp as [Hcp|Hcp]; rewrite Hcp; [reflexivity | apply andb_false_r]. }
  assert (HD : begins_with (s_phone (sy_sep S0)) out || begins_with (s_syll (sy_sep S0)) out
               || begins_with (s_word (sy_sep S0)) out = false).
  { rewrite !begins_with_false; [reflexivity| | |]; intros y Hy;
      apply (proj1 (Forall_forall _ _) Hpre y).
    - apply In_levels_word. exact Hy.
    - apply In_levels_syll. exact Hy.
    - apply In_levels_phone. exact Hy. }
  rewrite HA, HB, HC, HD, HE, Hx, HF. cbn [zip_adj forallb negb andb]. rewrite andb_false_r. reflexivity.
Qed.

End Check.

Print Assumptions check_rendered.

(* from the syllabifier: a non-empty output is accepted by check_utterance *)
Theorem syllabified_accepted (S0 : syllabifier) (u out x : str) (cp : bool) :
  s_syll (sy_sep S0) = Some x -> silent S0 = None -> ends_ok x ->
  (forall ws : str, s_word (sy_sep S0) = Some ws ->
     free ws x /\
     match s_phone (sy_sep S0) with
     | None => ws_free x /\ ws_free ws
     | Some p => free p x /\ free p ws
     end) ->
  (forall words : list str, tokenize (sy_sep S0) u Word false = Ok words -> Forall (word_ok S0) words) ->
  syllabify_utterance S0 u false = Ok out -> out <> [] ->
  (cp = false \/ existsb is_punct (remove_all (sy_sep S0) out) = false) ->
  check_utterance out (sy_sep S0) cp = Ok tt.
Proof.
  intros Hx Hsil Hends Hseps Hwords H Hne Hcp.
  destruct (syllabify_utterance_tokenize S0 u out x Hx Hsil
              (fun ws Hw => proj1 (Hseps ws Hw)) Hends Hwords H)
    as (ws & words & sylss & Hw & Htok & HF & Hout & _).
  destruct (Hseps ws Hw) as (Hwx & Hph).
  destruct (Forall2_words_syls S0 _ words sylss (Hwords words Htok) HF) as [Hok _].
  apply (check_rendered S0 x ws out sylss cp Hx Hw Hwx); try assumption.
  intros ->. apply Hne. rewrite Hout. reflexivity.
Qed.

Print Assumptions syllabified_accepted.

(* ---------- 4. the example inventory ---------- *)

Module ExamplePrep.
  Import Example.

  Definition out1 : str :=
    ([b; a; c] ++ esyll ++ [b; e] ++ esyll) ++ eword ++ ([b; a] ++ esyll ++ [b; c; e] ++ esyll) ++ eword.

  (* "bacbe;ewordbabce;eword" -> "bac;esyllbe;esyll;ewordba;esyllbce;esyll;eword" *)
  Example ex_syllabify : syllabify_utterance S1 utt false = Ok out1.
  Proof. vm_compute. reflexivity. Qed.

  (* prepared at syllable level: "bac be ba bce" *)
  Example ex_prepare :
    prepare_line sep0 USyll out1 = Ok ([b; a; c] ++ [sp] ++ [b; e] ++ [sp] ++ [b; a] ++ [sp] ++ [b; c; e]).
  Proof. vm_compute. reflexivity. Qed.

  (* gold: "bacbe babce" *)
  Example ex_gold : gold_line sep0 out1 = Ok ([b; a; c; b; e] ++ [sp] ++ [b; a; b; c; e]).
  Proof. vm_compute. reflexivity. Qed.

  Example ex_check (cp : bool) : check_utterance out1 sep0 cp = Ok tt.
  Proof. destruct cp; vm_compute; reflexivity. Qed.

  Example ex_seps_ok : seps_ok_b (sy_sep S1) = true.
  Proof. vm_compute. reflexivity. Qed.

  Lemma ex_word_ok (w : str) :
    w <> [] -> mem_char 59%N w = false -> mem_char sp w = false -> ws_free_b w = true -> word_ok S1 w.
  Proof.
    intros Hn H1 H2 H3. split; [exact Hn|]. split; [apply ExampleHyps.ex_sep_free; assumption|].
    split; [apply ws_free_b_sound; exact H3|].
    split; intros y Hy; injection Hy as <-; apply head_notin_b_sound.
    - unfold eword. cbn [head_notin_b]. rewrite H1. reflexivity.
    - cbn [head_notin_b]. change 32%N with sp. rewrite H2. reflexivity.
  Qed.

  (* the theorem applies: its hypotheses hold on the example *)
  Example ex_theorem :
    exists sylss : list (list syl),
      Forall2 (fun (w : str) (syls : list syl) => w = concat (map syl_str syls))
              [[b; a; c; b; e]; [b; a; b; c; e]] sylss /\
      prepare_line sep0 USyll out1 = Ok (join [sp] (concat (map (map syl_str) sylss))) /\
      gold_line sep0 out1 = Ok (join [sp] [[b; a; c; b; e]; [b; a; b; c; e]]).
  Proof.
    destruct (syllabified_prepare_syllable_dec S1 utt out1) as (words & sylss & Htok & HF & _ & Hp & Hg).
    - exact ex_seps_ok.
    - reflexivity.
    - intros words Htok. vm_compute in Htok. injection Htok as <-.
      constructor; [|constructor; [|constructor]]; apply ex_word_ok; try discriminate; vm_compute; reflexivity.
    - exact ex_syllabify.
    - exists sylss.
      assert (HF' : Forall2 (fun (w : str) (syls : list syl) => w = concat (map syl_str syls)) words sylss).
      { clear -HF. induction HF as [|w syls l l' (Hw & _) _ IH]; constructor; assumption. }
      vm_compute in Htok. injection Htok as <-.
      split; [exact HF' | split; [exact Hp | exact Hg]].
  Qed.
  (* the hypotheses of syllabified_accepted hold on the example (cp = false) *)
  Example ex_accepted_theorem : check_utterance out1 sep0 false = Ok tt.
  Proof.
    apply (syllabified_accepted S1 utt out1 esyll false).
    - reflexivity.
    - reflexivity.
    - vm_compute. reflexivity.
    - intros ws Hws. injection Hws as <-. split; [apply free_b_sound; vm_compute; reflexivity|].
      cbn. split; apply free_b_sound; vm_compute; reflexivity.
    - intros words Htok. vm_compute in Htok. injection Htok as <-.
      constructor; [|constructor; [|constructor]]; apply ex_word_ok; try discriminate; vm_compute; reflexivity.
    - exact ex_syllabify.
    - discriminate.
    - left. reflexivity.
  Qed.
End ExamplePrep.

Print Assumptions ExamplePrep.ex_syllabify.
Print Assumptions ExamplePrep.ex_prepare.
Print Assumptions ExamplePrep.ex_gold.
Print Assumptions ExamplePrep.ex_check.
Print Assumptions ExamplePrep.ex_theorem.
Print Assumptions ExamplePrep.ex_accepted_theorem.
