(* Pipeline: the gold text is a segmentation of the prepared text.

   Bridge between C04 (Prepare/Views.v: what [prepare] and [gold] return on the compact
   rendering of utterance trees) and C01/C06 (Base/Seg.v: [is_seg], [aligned], [unit_ok]):
   for a tagged corpus, each gold line is the unit sequence of the corresponding prepared
   line (phones or syllables) with single spaces inserted only at unit boundaries, no word
   being empty; the two texts have the same number of lines, in the same order. *)
From Coq Require Import List NArith Bool Lia.
Import ListNotations.
From WS Require Import Base.Py Base.Str Base.Seg Separator.Model Separator.Render.
From WS Require Import Separator.StrLemmas Separator.StripLemmas Separator.ProofsTree
  Separator.ProofsTwo Separator.ProofsWsPhone Separator.Checkers.
From WS Require Import Prepare.Model Prepare.Proofs Prepare.ViewsLemmas Prepare.Views.

(* ================= 1. the words group the units ================= *)

(* the grouping of the units of a tree by word *)
Definition word_groups (u : unit_level) (t : utree) : list (list str) :=
  match u with
  | UPhone => map (@concat str) t
  | USyll => map (map (@concat char)) t
  end.

Lemma word_groups_concat (u : unit_level) (t : utree) : concat (word_groups u t) = units u t.
Proof. destruct u; reflexivity. Qed.

Lemma word_groups_words (u : unit_level) (t : utree) :
  words_of t = map (@concat char) (word_groups u t).
Proof.
  unfold words_of. destruct u; cbn [word_groups]; rewrite map_map; apply map_ext; intros w.
  - apply word_plain_concat.
  - reflexivity.
Qed.

(* only the shape is needed: no word is empty and no syllable is empty (for the syllable
   level the first half alone is used) *)
Lemma word_groups_nonnil (u : unit_level) (t : utree) :
  Forall (fun w : list (list str) => w <> [] /\ Forall (fun syl : list str => syl <> []) w) t ->
  Forall (fun g : list str => g <> []) (word_groups u t).
Proof.
  intros H. destruct u; cbn [word_groups]; apply Forall_map;
    (eapply Forall_impl; [|exact H]); intros w [Hw Hs];
    (destruct w as [|syl w]; [exfalso; apply Hw; reflexivity|]); cbn [concat map]; try discriminate.
  inversion Hs as [|syl' w' Hsyl Hrest]; subst.
  destruct syl as [|ph syl]; [exfalso; apply Hsyl; reflexivity|discriminate].
Qed.

Lemma tree_ok_nonnil (xp xs xw : str) (t : utree) : tree_ok xp xs xw t ->
  Forall (fun w : list (list str) => w <> [] /\ Forall (fun syl : list str => syl <> []) w) t.
Proof.
  intros H. eapply Forall_impl; [|exact H]. intros w (Hw & Hs & _). split; [exact Hw|].
  eapply Forall_impl; [|exact Hs]. now intros syl (Hsyl & _).
Qed.

Lemma tree_shape_nonnil (t : utree) : tree_shape t ->
  Forall (fun w : list (list str) => w <> [] /\ Forall (fun syl : list str => syl <> []) w) t.
Proof.
  intros H. eapply Forall_impl; [|exact H]. intros w (Hw & Hs). split; [exact Hw|].
  eapply Forall_impl; [|exact Hs]. now intros syl (Hsyl & _).
Qed.

(* the general form: the shape alone *)
Theorem words_group_units_shape (t : utree) (u : unit_level) :
  Forall (fun w : list (list str) => w <> [] /\ Forall (fun syl : list str => syl <> []) w) t ->
  exists groups : list (list str),
    concat groups = units u t /\ Forall (fun g : list str => g <> []) groups /\
    words_of t = map (@concat char) groups.
Proof.
  intros H. exists (word_groups u t). split; [apply word_groups_concat|]. split.
  - now apply word_groups_nonnil.
  - apply word_groups_words.
Qed.
Print Assumptions words_group_units_shape.

Theorem words_group_units (xp xs xw : str) (t : utree) (u : unit_level) :
  tree_ok xp xs xw t ->
  exists groups : list (list str),
    concat groups = units u t /\ Forall (fun g : list str => g <> []) groups /\
    words_of t = map (@concat char) groups.
Proof. intros H. apply words_group_units_shape. exact (tree_ok_nonnil _ _ _ _ H). Qed.
Print Assumptions words_group_units.

(* the shape cannot be dropped: an utterance made of one empty word has one (empty) gold word
   and no unit at all *)
Example words_group_units_needs_shape (u : unit_level) :
  ~ exists groups : list (list str),
      concat groups = units u [[]] /\ Forall (fun g : list str => g <> []) groups /\
      words_of [[]] = map (@concat char) groups.
Proof.
  intros (groups & Hc & Hn & Hw). destruct groups as [|g groups]; [discriminate Hw|].
  inversion Hn as [|g' groups' Hg Hrest]; subst.
  destruct g as [|a g]; [apply Hg; reflexivity|]. destruct u; discriminate Hc.
Qed.
Print Assumptions words_group_units_needs_shape.

(* ================= 2. one gold line ================= *)

Theorem gold_line_is_seg_shape (t : utree) (u : unit_level) :
  Forall (fun w : list (list str) => w <> [] /\ Forall (fun syl : list str => syl <> []) w) t ->
  is_seg (units u t) (join [sp] (words_of t)).
Proof.
  intros H. destruct (words_group_units_shape t u H) as (groups & Hc & Hn & Hw).
  exists groups. split; [exact Hc|]. split; [exact Hn|]. now rewrite Hw.
Qed.
Print Assumptions gold_line_is_seg_shape.

Theorem gold_line_is_seg (xp xs xw : str) (t : utree) (u : unit_level) :
  tree_ok xp xs xw t -> is_seg (units u t) (join [sp] (words_of t)).
Proof. intros H. apply gold_line_is_seg_shape. exact (tree_ok_nonnil _ _ _ _ H). Qed.
Print Assumptions gold_line_is_seg.

(* ================= 4. all the lines ================= *)

Theorem prepared_gold_aligned (xp xs xw : str) (trees : list utree) (u : unit_level) :
  Forall (tree_ok xp xs xw) trees ->
  aligned (map (units u) trees) (map (fun t : utree => join [sp] (words_of t)) trees).
Proof.
  intros H. unfold aligned. induction H as [|t trees Ht _ IH]; cbn [map].
  - constructor.
  - constructor; [exact (gold_line_is_seg xp xs xw t u Ht)|exact IH].
Qed.
Print Assumptions prepared_gold_aligned.

(* ================= 3. the units are units ================= *)

(* [tree_ok] alone says that every phone is non-empty and free of white space
   ([phone_ok] = non-empty, [ws_free], separator only at the end), so neither the
   non-emptiness of the separators nor [phone_free] is needed here *)
Lemma tok_ok_unit_ok (a : str) : tok_ok a -> unit_ok a.
Proof. intros [H1 H2]. split; [exact H1|exact H2]. Qed.

Theorem units_unit_ok (xp xs xw : str) (t : utree) (u : unit_level) :
  tree_ok xp xs xw t -> Forall unit_ok (units u t).
Proof.
  intros H. destruct u; cbn [units].
  - eapply Forall_impl; [|exact (tree_ok_phones_tok _ _ _ _ H)]. exact tok_ok_unit_ok.
  - eapply Forall_impl; [|exact (tree_ok_sylls_tok _ _ _ _ H)]. exact tok_ok_unit_ok.
Qed.
Print Assumptions units_unit_ok.

(* the statement under the hypotheses of [views_sep_free], for reference: they are not used *)
Corollary units_unit_ok_sep_free (xp xs xw : str) (t : utree) (u : unit_level) :
  xp <> [] -> xs <> [] -> xw <> [] -> tree_ok xp xs xw t ->
  Forall (phone_free xp xs xw) (phones_of t) -> Forall unit_ok (units u t).
Proof. intros _ _ _ H _. now apply (units_unit_ok xp xs xw). Qed.
Print Assumptions units_unit_ok_sep_free.

(* the units are exactly what a reader of the prepared line gets back *)
Lemma split_ws_units (xp xs xw : str) (t : utree) (u : unit_level) :
  tree_ok xp xs xw t -> split_ws (join [sp] (units u t)) = units u t.
Proof.
  intros H. apply split_ws_join. destruct u; cbn [units].
  - exact (tree_ok_phones_tok _ _ _ _ H).
  - exact (tree_ok_sylls_tok _ _ _ _ H).
Qed.

(* ================= 5. the two commands on the same tagged text ================= *)

(* [text_acc] is [text_of] plus the acceptance of every line by [check_utterance] *)
Lemma text_acc_text_of (xp xs xw : str) (cp : bool) (text : list str) (trees : list utree) :
  text_acc xp xs xw cp text trees -> text_of xp xs xw text trees.
Proof.
  intros H. induction H as [|raw text trees Hb _ IH|t ws text trees Hl Hws _ _ IH].
  - constructor.
  - now constructor.
  - now constructor.
Qed.

Lemma text_acc_trees_ok (xp xs xw : str) (cp : bool) (text : list str) (trees : list utree) :
  text_acc xp xs xw cp text trees -> Forall (tree_ok xp xs xw) trees.
Proof.
  intros H. induction H as [|raw text trees Hb _ IH|t ws text trees (_ & Ht & _) Hws _ _ IH].
  - constructor.
  - exact IH.
  - now constructor.
Qed.

(* hypotheses: those of [prepare_text_spec] (which contain [text_acc], stronger than the
   [text_of] of [gold_text_spec]) together with [free xp xw], the only hypothesis of
   [gold_text_spec] that [prepare_text_spec] does not have *)
Theorem prepare_gold_pipeline (xp xs xw : str) :
  xp <> [] -> xs <> [] -> xw <> [] ->
  free xs xp -> free xs xw -> free xw xp -> free xw xs -> free xp xs -> free xp xw ->
  ~ In sp xs -> xp = [sp] \/ ~ In sp xp -> ends_ok xw ->
  forall (cp : bool) (text : list str) (trees : list utree),
  text_acc xp xs xw cp text trees ->
  forall (u : unit_level) (tol : bool),
  exists (prepared g : list str),
    prepare text (sep3 xp xs xw) u cp tol = (prepared, PDone) /\
    gold text (sep3 xp xs xw) = Ok g /\
    aligned (map split_ws prepared) g /\
    length prepared = length g.
Proof.
  intros Hxp Hxs Hxw Fsp Fsw Fwp Fws Fps Fpw Hs Hp Hew cp text trees Hacc u tol.
  exists (map (fun t : utree => join [sp] (units u t)) trees),
         (map (fun t : utree => join [sp] (words_of t)) trees).
  pose proof (text_acc_trees_ok _ _ _ _ _ _ Hacc) as Hok.
  split; [|split; [|split]].
  - now apply prepare_text_spec.
  - apply gold_text_spec; try assumption. exact (text_acc_text_of _ _ _ _ _ _ Hacc).
  - rewrite map_map.
    assert (E : map (fun t : utree => split_ws (join [sp] (units u t))) trees
                = map (units u) trees).
    { clear Hacc. induction Hok as [|t trees Ht _ IH]; [reflexivity|].
      cbn [map]. now rewrite IH, (split_ws_units xp xs xw t u Ht). }
    rewrite E. now apply (prepared_gold_aligned xp xs xw).
  - now rewrite !map_length.
Qed.
Print Assumptions prepare_gold_pipeline.

(* with the outputs named: what the two texts are, and that the prepared units are units *)
Theorem prepare_gold_pipeline_units (xp xs xw : str) :
  xp <> [] -> xs <> [] -> xw <> [] ->
  free xs xp -> free xs xw -> free xw xp -> free xw xs -> free xp xs -> free xp xw ->
  ~ In sp xs -> xp = [sp] \/ ~ In sp xp -> ends_ok xw ->
  forall (cp : bool) (text : list str) (trees : list utree),
  text_acc xp xs xw cp text trees ->
  forall (u : unit_level) (tol : bool) (prepared g : list str),
  prepare text (sep3 xp xs xw) u cp tol = (prepared, PDone) ->
  gold text (sep3 xp xs xw) = Ok g ->
  map split_ws prepared = map (units u) trees /\
  Forall (Forall unit_ok) (map split_ws prepared) /\
  aligned (map split_ws prepared) g /\
  length prepared = length trees /\ length g = length trees.
Proof.
  intros Hxp Hxs Hxw Fsp Fsw Fwp Fws Fps Fpw Hs Hp Hew cp text trees Hacc u tol prepared g HP HG.
  pose proof (text_acc_trees_ok _ _ _ _ _ _ Hacc) as Hok.
  rewrite (prepare_text_spec xp xs xw Hxp Hxs Hxw Fsp Fsw Fwp Fws Fps Hs Hp Hew
             cp text trees Hacc u tol) in HP.
  rewrite (gold_text_spec xp xs xw text trees Hxp Hxs Hxw Fsp Fsw Fpw
             (text_acc_text_of _ _ _ _ _ _ Hacc)) in HG.
  injection HP as HP. injection HG as HG. subst prepared g.
  assert (E : map split_ws (map (fun t : utree => join [sp] (units u t)) trees)
              = map (units u) trees).
  { rewrite map_map. clear Hacc. induction Hok as [|t trees Ht _ IH]; [reflexivity|].
    cbn [map]. now rewrite IH, (split_ws_units xp xs xw t u Ht). }
  rewrite E. split; [reflexivity|]. split; [|split; [|split]].
  - apply Forall_map. eapply Forall_impl; [|exact Hok]. intros t Ht.
    exact (units_unit_ok xp xs xw t u Ht).
  - now apply (prepared_gold_aligned xp xs xw).
  - now rewrite map_length.
  - now rewrite map_length.
Qed.
Print Assumptions prepare_gold_pipeline_units.

(* ================= 6. the statement is not vacuous ================= *)

(* wordseg's default separators; a blank line, the two-word utterance [ex_t] of
   Prepare/Views.v ("hello world": (h e)(l l o) (w o r)(l de)) ended by a line feed, and a
   one-word utterance *)
Definition ex_t2 : utree := [[[[97]; [98]]]]%N.                      (* (a b) *)
Definition ex_text : list str :=
  [ [sp; 10%N];
    render (sep3 ex_p ex_s ex_w) ex_t ++ [10%N];
    render (sep3 ex_p ex_s ex_w) ex_t2 ].

Lemma ex_line_ok (t : utree) :
  t <> [] -> c04_hyp_b ex_p ex_s ex_w t = true -> line_ok ex_p ex_s ex_w t.
Proof.
  intros Hn. unfold c04_hyp_b. rewrite !andb_true_iff.
  intros [[[[[[[_ _] _] _] Ht] Hf] _] _]. split; [exact Hn|]. split.
  - now apply tree_ok_b_sound.
  - eapply forallb_Forall; [|exact Hf]. intros ph. unfold phone_free_b.
    rewrite !andb_true_iff. intros [[A B] C]. repeat split; now apply free_b_sound.
Qed.

Example ex_text_acc (cp : bool) : text_acc ex_p ex_s ex_w cp ex_text [ex_t; ex_t2].
Proof.
  unfold ex_text. apply TA_blank; [vm_compute; reflexivity|].
  apply TA_line.
  - apply ex_line_ok; [discriminate|vm_compute; reflexivity].
  - repeat constructor.
  - destruct cp; vm_compute; reflexivity.
  - rewrite <- (app_nil_r (render (sep3 ex_p ex_s ex_w) ex_t2)). apply TA_line.
    + apply ex_line_ok; [discriminate|vm_compute; reflexivity].
    + constructor.
    + destruct cp; vm_compute; reflexivity.
    + apply TA_nil.
Qed.

Example prepare_gold_pipeline_example (u : unit_level) (cp tol : bool) :
  exists (prepared g : list str),
    prepare ex_text (sep3 ex_p ex_s ex_w) u cp tol = (prepared, PDone) /\
    gold ex_text (sep3 ex_p ex_s ex_w) = Ok g /\
    aligned (map split_ws prepared) g /\
    length prepared = length g.
Proof.
  apply (prepare_gold_pipeline ex_p ex_s ex_w) with (trees := [ex_t; ex_t2]);
    try discriminate;
    try (apply free_b_sound; vm_compute; reflexivity).
  - apply no_sp_b_sound. vm_compute. reflexivity.
  - left. reflexivity.
  - apply ends_ok_b_sound. vm_compute. reflexivity.
  - apply ex_text_acc.
Qed.
Print Assumptions prepare_gold_pipeline_example.

(* the same by computation: the three texts of the example, and the groups *)
Example prepare_gold_pipeline_values :
  prepare ex_text (sep3 ex_p ex_s ex_w) UPhone false false
    = ([[104; 32; 101; 32; 108; 32; 111; 32; 119; 32; 111; 32; 114; 32; 108; 32; 100; 101];
        [97; 32; 98]]%N, PDone) /\
  prepare ex_text (sep3 ex_p ex_s ex_w) USyll false false
    = ([[104; 101; 32; 108; 111; 32; 119; 111; 114; 32; 108; 100; 101]; [97; 98]]%N, PDone) /\
  gold ex_text (sep3 ex_p ex_s ex_w)
    = Ok [[104; 101; 108; 111; 32; 119; 111; 114; 108; 100; 101]; [97; 98]]%N.
Proof. vm_compute. repeat split; reflexivity. Qed.
Print Assumptions prepare_gold_pipeline_values.
