(* C14 x C08: what the syllabifier writes is read back by the separator's
   tokenization as exactly the syllables it decided (wordseg-syll followed by
   wordseg-prep -u syllable).

   1. render_split_on / render_split : splitting a rendered word on the syllable
      separator gives the syllables back;
   2. syllabify_word_tokenize : [tokenize] at syllable level of an accepted
      word's output gives the syllables of syllabify_word_shape_full;
   3. syllabify_utterance_tokenize : the same for a whole utterance (no strip);
   4. Example : a concrete inventory, by vm_compute. *)
From WS Require Import Base.Py Base.Str Separator.Model Separator.Render
  Separator.StrLemmas Separator.StripLemmas.
From WS Require Import Syll.Model Syll.Proofs Syll.ProofsRemove Syll.ProofsLoop.
From WS Require Import Prepare.ViewsLemmas.

(* ---------- generic: free / only_at_end ---------- *)

(* a separator whose first character is absent from b cannot start inside b *)
Lemma notin_free (y0 : char) (yr b : str) : ~ In y0 b -> free (y0 :: yr) b.
Proof.
  intros Hn v u r E Hu. destruct u as [|c u]; [congruence|].
  cbn [app prefix_b]. destruct (N.eqb_spec y0 c) as [->|Hne]; [|reflexivity].
  exfalso. apply Hn. rewrite E. apply in_or_app. right. left. reflexivity.
Qed.

Lemma free_only_at_end (x t : str) : free x t -> only_at_end x t = true.
Proof.
  induction t as [|c t IH]; intros H; [apply only_at_end_nil|].
  apply only_at_end_cons. split.
  - apply free_head. exact H.
  - apply IH. eapply free_cons_inv. exact H.
Qed.

Definition head_notin (y w : str) : Prop :=
  match y with [] => False | y0 :: _ => ~ In y0 w end.

Definition head_notin_b (y w : str) : bool :=
  match y with [] => false | y0 :: _ => negb (mem_char y0 w) end.

Lemma head_notin_b_sound (y w : str) : head_notin_b y w = true -> head_notin y w.
Proof.
  destruct y as [|y0 yr]; cbn [head_notin_b head_notin]; [discriminate|].
  intros H Hin. apply negb_true_iff in H.
  assert (Ht : mem_char y0 w = true).
  { unfold mem_char. apply existsb_exists. exists y0. split; [exact Hin | apply N.eqb_refl]. }
  congruence.
Qed.

Lemma head_notin_incl (y w s : str) : head_notin y w -> incl s w -> head_notin y s.
Proof.
  destruct y as [|y0 yr]; cbn [head_notin]; [auto|]. intros H Hi Hin. apply H, Hi, Hin.
Qed.

Lemma head_notin_free (y b : str) : head_notin y b -> free y b.
Proof. destruct y as [|y0 yr]; cbn [head_notin]; [contradiction | apply notin_free]. Qed.

Lemma head_notin_nonnil (y b : str) : head_notin y b -> y <> [].
Proof. destruct y; cbn [head_notin]; [contradiction | discriminate]. Qed.

Lemma lstrip_sp_no_sp (s : str) :
  Forall (fun c : char => (c =? sp)%N = false) s -> lstrip_sp s = s.
Proof.
  intros H. destruct H as [|c s Hc _]; [reflexivity|]. cbn [lstrip_sp]. rewrite Hc. reflexivity.
Qed.

Lemma notin_sp_Forall (s : str) : ~ In sp s -> Forall (fun c : char => (c =? sp)%N = false) s.
Proof.
  intros H. apply Forall_forall. intros c Hc. apply N.eqb_neq. intros ->. contradiction.
Qed.

Lemma syl_str_incl (syls : list syl) (s : syl) :
  In s syls -> incl (syl_str s) (concat (map syl_str syls)).
Proof.
  intros Hin c Hc. apply in_concat. exists (syl_str s). split; [|exact Hc].
  apply in_map. exact Hin.
Qed.

Section SyllSep.
Variable S0 : syllabifier.

Lemma render_false_terminated (syls : list syl) :
  render S0 false syls = terminated (osyll S0) (map syl_str syls).
Proof. rewrite render_false. unfold terminated. rewrite map_map. reflexivity. Qed.

Lemma render_false_snoc (syls : list syl) (s : syl) :
  render S0 false (syls ++ [s]) = render S0 false syls ++ syl_str s ++ osyll S0.
Proof.
  rewrite !render_false, map_app, concat_app. cbn [map concat]. rewrite app_nil_r. reflexivity.
Qed.

(* ---------- 1. splitting a rendering on the syllable separator ---------- *)

(* at the level of str.split: every syllable followed by the separator leaves
   a last empty piece; with strip the separator is only between the syllables *)
Theorem render_split_on (x : str) (strip_ : bool) (syls : list syl) :
  osyll S0 = x -> x <> [] ->
  Forall (fun s : syl => only_at_end x (syl_str s) = true) syls ->
  split_on x (render S0 strip_ syls) =
  if strip_ then match syls with [] => [[]] | _ :: _ => map syl_str syls end
  else map syl_str syls ++ [[]].
Proof.
  intros Hx Hne Hoe. destruct strip_.
  - destruct syls as [|s0 r0] eqn:Hsy; [reflexivity|]. rewrite <- Hsy.
    assert (Hnn : syls <> []) by (rewrite Hsy; discriminate).
    rewrite <- Hsy in Hoe. clear Hsy s0 r0.
    destruct (exists_last Hnn) as (init & s & ->).
    apply Forall_app in Hoe. destruct Hoe as [Hi Hs].
    rewrite render_true_snoc, render_false_terminated, Hx. unfold terminated.
    rewrite split_on_join.
    + rewrite map_app. reflexivity.
    + exact Hne.
    + apply Forall_map. exact Hi.
    + apply only_at_end_no_infix; [exact Hne|]. inversion Hs; assumption.
  - rewrite render_false_terminated, Hx. unfold terminated.
    apply split_on_joined; [exact Hne|]. apply Forall_map. exact Hoe.
Qed.

(* the same through the Separator model's [split] (keep_boundaries = True):
   sep is any separator with the syllabifier's syllable entry *)
Theorem render_split (sep : separator) (x : str) (strip_ : bool) (syls : list syl) :
  s_syll (sy_sep S0) = Some x -> s_syll sep = Some x -> x <> [] ->
  Forall (fun s : syl => only_at_end x (syl_str s) = true) syls ->
  Forall (fun s : syl => ~ In sp (syl_str s)) syls ->
  split sep (render S0 strip_ syls) Syll true =
  Ok (if strip_ then match syls with [] => [[]] | _ :: _ => map syl_str syls end
      else map syl_str syls ++ [[]]).
Proof.
  intros HxS Hxs Hne Hoe Hsp.
  assert (Ho : osyll S0 = x) by (unfold osyll; rewrite HxS; reflexivity).
  unfold split. cbn [get_level]. rewrite Hxs.
  rewrite (render_split_on x strip_ syls Ho Hne Hoe). f_equal.
  assert (Hid : forall l : list str, Forall (fun t : str => ~ In sp t) l ->
                  map lstrip_sp (map collapse_spaces l) = l).
  { intros l Hl. rewrite map_map. apply map_id_Forall.
    eapply Forall_impl; [|exact Hl]. cbv beta. intros t Ht.
    rewrite (collapse_spaces_no_sp t (notin_sp_Forall t Ht)).
    apply lstrip_sp_no_sp, notin_sp_Forall, Ht. }
  assert (Hm : Forall (fun t : str => ~ In sp t) (map syl_str syls)) by (apply Forall_map; exact Hsp).
  destruct strip_.
  - destruct syls as [|s0 r0]; [reflexivity|]. apply Hid. exact Hm.
  - apply Hid. apply Forall_app. split; [exact Hm|]. constructor; [|constructor]. intros [].
Qed.

(* the hypothesis of render_split follows from the one of syllabify_word_shape_full *)
Lemma sep_free_only_at_end (w : str) (syls : list syl) :
  sep_free S0 w -> w = concat (map syl_str syls) ->
  exists x : str, s_syll (sy_sep S0) = Some x /\ x <> [] /\
    Forall (fun s : syl => only_at_end x (syl_str s) = true) syls /\
    Forall (fun s : syl => ~ In sp (syl_str s)) syls.
Proof.
  intros (x0 & xr & Hx & Hn & Hsp) Hw. exists (x0 :: xr).
  split; [exact Hx|]. split; [discriminate|].
  split; apply Forall_forall; intros s Hs; pose proof (syl_str_incl syls s Hs) as Hi; rewrite <- Hw in Hi.
  - apply free_only_at_end, notin_free. intros Hin. apply Hn, Hi, Hin.
  - intros Hin. apply Hsp, Hi, Hin.
Qed.

(* the split-level version of 2 *)
Theorem syllabify_word_split (w : str) (strip_ : bool) (out : str) :
  sep_free S0 w -> silent S0 = None -> syllabify_word S0 w strip_ = Ok out ->
  exists syls : list syl,
    w = concat (map syl_str syls) /\ out = render S0 strip_ syls /\
    Forall (syl_ok S0) syls /\ max_onsets S0 [] syls /\
    split (sy_sep S0) out Syll true =
    Ok (if strip_ then match syls with [] => [[]] | _ :: _ => map syl_str syls end
        else map syl_str syls ++ [[]]).
Proof.
  intros Hfree Hsil H.
  destruct (syllabify_word_shape_full S0 w strip_ out Hfree Hsil H) as (syls & Hw & Hout & Hok & Hmo).
  exists syls. repeat (split; [assumption|]).
  destruct (sep_free_only_at_end w syls Hfree Hw) as (x & Hx & Hne & Hoe & Hsp).
  rewrite Hout. exact (render_split (sy_sep S0) x strip_ syls Hx Hx Hne Hoe Hsp).
Qed.

End SyllSep.

Print Assumptions render_split_on.
Print Assumptions render_split.
Print Assumptions syllabify_word_split.

(* ---------- 4. a concrete inventory ---------- *)

Module Example.
  Definition a := 97%N. Definition b := 98%N. Definition c := 99%N. Definition e := 101%N.
  (* the default separators of wordseg: phone ' ', syllable ';esyll', word ';eword' *)
  Definition esyll : str := [59; 101; 115; 121; 108; 108]%N.
  Definition eword : str := [59; 101; 119; 111; 114; 100]%N.
  Definition sep0 : separator := {| s_phone := Some [32%N]; s_syll := Some esyll; s_word := Some eword |}.
  (* onsets b, c, bc; vowels a, e *)
  Definition S1 : syllabifier :=
    {| onsets := [[b]; [c]; [b; c]]; vowels := [[a]; [e]]; symbols := [a; e; b; c; b; c];
       silent := None; sy_sep := sep0 |}.

  Example ex_mk : mk_syllabifier [[b]; [c]; [b; c]] [[a]; [e]] sep0 false = Ok S1.
  Proof. vm_compute. reflexivity. Qed.

  (* "bacbe" -> bac / be ("cb" is not an onset);  "babce" -> ba / bce (maximal onset "bc") *)
  Example ex_bacbe : syllabify_word S1 [b; a; c; b; e] false = Ok ([b; a; c] ++ esyll ++ [b; e] ++ esyll).
  Proof. vm_compute. reflexivity. Qed.
  Example ex_bacbe_strip : syllabify_word S1 [b; a; c; b; e] true = Ok ([b; a; c] ++ esyll ++ [b; e]).
  Proof. vm_compute. reflexivity. Qed.
  Example ex_babce : syllabify_word S1 [b; a; b; c; e] false = Ok ([b; a] ++ esyll ++ [b; c; e] ++ esyll).
  Proof. vm_compute. reflexivity. Qed.

  Example ex_tok_bacbe :
    tokenize sep0 ([b; a; c] ++ esyll ++ [b; e] ++ esyll) Syll false = Ok [[b; a; c]; [b; e]].
  Proof. vm_compute. reflexivity. Qed.
  Example ex_tok_bacbe_strip :
    tokenize sep0 ([b; a; c] ++ esyll ++ [b; e]) Syll false = Ok [[b; a; c]; [b; e]].
  Proof. vm_compute. reflexivity. Qed.
  Example ex_tok_babce :
    tokenize sep0 ([b; a] ++ esyll ++ [b; c; e] ++ esyll) Syll false = Ok [[b; a]; [b; c; e]].
  Proof. vm_compute. reflexivity. Qed.
  Example ex_split_bacbe :
    split sep0 ([b; a; c] ++ esyll ++ [b; e] ++ esyll) Syll true = Ok [[b; a; c]; [b; e]; []].
  Proof. vm_compute. reflexivity. Qed.
  Example ex_split_bacbe_strip :
    split sep0 ([b; a; c] ++ esyll ++ [b; e]) Syll true = Ok [[b; a; c]; [b; e]].
  Proof. vm_compute. reflexivity. Qed.

  (* utterance "bacbe babce" written with the word separator *)
  Definition utt : str := [b; a; c; b; e] ++ eword ++ [b; a; b; c; e] ++ eword.
  Example ex_utt :
    syllabify_utterance S1 utt false
    = Ok (([b; a; c] ++ esyll ++ [b; e] ++ esyll) ++ eword ++ ([b; a] ++ esyll ++ [b; c; e] ++ esyll) ++ eword).
  Proof. vm_compute. reflexivity. Qed.
  Example ex_utt_tok :
    tokenize sep0 (([b; a; c] ++ esyll ++ [b; e] ++ esyll) ++ eword ++ ([b; a] ++ esyll ++ [b; c; e] ++ esyll) ++ eword)
             Syll false
    = Ok [[b; a; c]; [b; e]; [b; a]; [b; c; e]].
  Proof. vm_compute. reflexivity. Qed.
End Example.

(* ---------- 2. tokenize at syllable level ---------- *)

(* a token that the tokenizer leaves alone: not empty, no whitespace, no separator inside *)
Definition tok_ok (sep : separator) (s : str) : Prop :=
  s <> [] /\ ws_free s /\ Forall (fun y : str => infix_b y s = false) (levels_for sep None).

Lemma Forall_levels (sep : separator) (P : str -> Prop) :
  (forall y : str, s_word sep = Some y -> P y) ->
  (forall y : str, s_syll sep = Some y -> P y) ->
  (forall y : str, s_phone sep = Some y -> P y) ->
  Forall P (levels_for sep None).
Proof.
  destruct sep as [[p|] [s|] [w|]]; cbn; intros Hw Hs Hp; repeat constructor; auto.
Qed.

Lemma In_levels_syll (sep : separator) (x : str) : s_syll sep = Some x -> In x (levels_for sep None).
Proof.
  destruct sep as [[p|] [s|] [w|]]; cbn; intros H; try discriminate; injection H as ->; auto.
Qed.

(* the stages of [tokenize] at syllable level, once the word stage [t0] is known
   and every word splits into clean syllable tokens *)
Lemma tokenize_syll_stages (sep : separator) (x utt : str) (t0 : list str) (strss : list (list str)) :
  s_syll sep = Some x ->
  match s_word sep with Some _ => tok1 sep utt Word | None => [utt] end = t0 ->
  Forall2 (fun (o : str) (strs : list str) => filter nonempty (split_on x o) = strs) t0 strss ->
  Forall (Forall (tok_ok sep)) strss ->
  tokenize sep utt Syll false = Ok (concat strss).
Proof.
  intros Hx Ht0 H2 Hok. unfold tokenize, check_level. cbn [get_level]. rewrite Hx. cbn [bind].
  cbv zeta. rewrite Ht0.
  assert (Hall : Forall (tok_ok sep) (concat strss)) by (apply Forall_concat; exact Hok).
  assert (H1 : flat_map (fun w : str => tok1 sep w Syll) t0 = concat strss).
  { clear Ht0 Hall. induction H2 as [|o strs t0' strss' Ho _ IH]; [reflexivity|].
    inversion Hok as [|? ? Hs Hok']; subst. cbn [flat_map concat]. rewrite (IH Hok'). f_equal.
    unfold tok1. cbn [get_level]. rewrite Hx. apply map_id_Forall.
    eapply Forall_impl; [|exact Hs]. cbv beta. intros s (Hn & Hws & Hinf).
    apply strip_with_id; [|apply ws_free_clean_ends; exact Hws].
    constructor; [|constructor].
    exact (proj1 (Forall_forall _ _) Hinf x (In_levels_syll sep x Hx)). }
  rewrite H1.
  rewrite (map_id_Forall (strip_with (levels_for sep None))).
  2:{ eapply Forall_impl; [|exact Hall]. cbv beta. intros s (Hn & Hws & Hinf).
      apply strip_with_id; [exact Hinf | apply ws_free_clean_ends; exact Hws]. }
  rewrite (map_id_Forall (remove_all sep)).
  2:{ eapply Forall_impl; [|exact Hall]. cbv beta. intros s (Hn & Hws & Hinf).
      apply remove_all_id; [exact Hinf | apply ws_free_no_sp; exact Hws]. }
  rewrite filter_nonempty_id; [reflexivity|].
  eapply Forall_impl; [|exact Hall]. cbv beta. intros s (Hn & _). exact Hn.
Qed.

Section SyllTok.
Variable S0 : syllabifier.

Lemma free_render (y : str) (strip_ : bool) (syls : list syl) :
  Forall (fun s : syl => free y (syl_str s)) syls -> free y (osyll S0) ->
  free y (render S0 strip_ syls).
Proof.
  intros Hs Hx.
  assert (Hf : forall l : list syl, Forall (fun s : syl => free y (syl_str s)) l -> free y (render S0 false l)).
  { intros l Hl. rewrite render_false. apply free_concat. apply Forall_map.
    eapply Forall_impl; [|exact Hl]. cbv beta. intros s Hfs. apply free_app; assumption. }
  destruct strip_; [|apply Hf; exact Hs].
  destruct syls as [|s0 r0] eqn:Hsy; [apply free_nil|]. rewrite <- Hsy in *.
  assert (Hnn : syls <> []) by (rewrite Hsy; discriminate). clear Hsy s0 r0.
  destruct (exists_last Hnn) as (init & s & ->).
  apply Forall_app in Hs. destruct Hs as [Hi Hl]. inversion Hl as [|? ? Hls _]; subst.
  rewrite render_true_snoc. apply free_app; [apply Hf; exact Hi | exact Hls].
Qed.

Lemma render_nonnil (strip_ : bool) (syls : list syl) : syls <> [] -> render S0 strip_ syls <> [].
Proof.
  intros Hnn. destruct syls as [|s r]; [congruence|]. destruct strip_.
  - rewrite render_true. cbn [map]. apply join_not_nil, syl_str_not_nil.
  - rewrite render_false. cbn [map concat]. intros H. apply app_eq_nil in H. destruct H as [H _].
    apply app_eq_nil in H. destruct H as [H _]. revert H. apply syl_str_not_nil.
Qed.

Lemma render_starts_ok (strip_ : bool) (syls : list syl) :
  syls <> [] -> Forall (fun s : syl => ws_free (syl_str s)) syls -> starts_ok (render S0 strip_ syls).
Proof.
  intros Hnn Hws. destruct syls as [|s r]; [congruence|]. inversion Hws as [|? ? Hs _]; subst.
  assert (Hso : starts_ok (syl_str s)) by (apply ws_free_starts_ok; exact Hs).
  destruct strip_.
  - rewrite render_true. cbn [map join]. destruct (map syl_str r); [exact Hso|].
    apply starts_ok_app; [apply syl_str_not_nil | exact Hso].
  - rewrite render_false. cbn [map concat]. rewrite <- app_assoc.
    apply starts_ok_app; [apply syl_str_not_nil | exact Hso].
Qed.

Lemma render_ends_ok (strip_ : bool) (syls : list syl) :
  syls <> [] -> Forall (fun s : syl => ws_free (syl_str s)) syls ->
  (strip_ = false -> osyll S0 <> [] /\ ends_ok (osyll S0)) ->
  ends_ok (render S0 strip_ syls).
Proof.
  intros Hnn Hws Hx. destruct (exists_last Hnn) as (init & s & ->).
  apply Forall_app in Hws. destruct Hws as [_ Hl]. inversion Hl as [|? ? Hs _]; subst.
  destruct strip_.
  - rewrite render_true_snoc. apply ends_ok_app; [apply syl_str_not_nil | apply ws_free_ends_ok; exact Hs].
  - destruct (Hx eq_refl) as [Hne He].
    rewrite render_false_snoc, app_assoc. apply ends_ok_app; assumption.
Qed.

(* tokenizing a rendered word: sep is any separator with the syllabifier's
   syllable entry x; the syllables contain no whitespace and none of the
   separators of sep can start inside them; when sep has a word separator it
   cannot start inside x either, and x must not end with whitespace if it ends
   the rendering *)
Theorem render_tokenize (sep : separator) (x : str) (strip_ : bool) (syls : list syl) :
  s_syll (sy_sep S0) = Some x -> s_syll sep = Some x ->
  Forall (fun s : syl => ws_free (syl_str s)) syls ->
  (forall y : str, In y (levels_for sep None) ->
     y <> [] /\ Forall (fun s : syl => free y (syl_str s)) syls) ->
  (forall y : str, s_word sep = Some y -> free y x /\ (strip_ = false -> ends_ok x)) ->
  tokenize sep (render S0 strip_ syls) Syll false = Ok (map syl_str syls).
Proof.
  intros HxS Hxs Hws Hfree Hword.
  assert (Ho : osyll S0 = x) by (unfold osyll; rewrite HxS; reflexivity).
  destruct (Hfree x (In_levels_syll sep x Hxs)) as [Hne Hfx].
  assert (Hoe : Forall (fun s : syl => only_at_end x (syl_str s) = true) syls).
  { eapply Forall_impl; [|exact Hfx]. cbv beta. intros s. apply free_only_at_end. }
  assert (Hok : Forall (tok_ok sep) (map syl_str syls)).
  { apply Forall_map. apply Forall_forall. intros s Hs. split; [apply syl_str_not_nil|].
    split; [exact (proj1 (Forall_forall _ _) Hws s Hs)|].
    apply Forall_forall. intros y Hy. destruct (Hfree y Hy) as [Hyn Hys].
    apply free_no_infix; [exact Hyn|]. exact (proj1 (Forall_forall _ _) Hys s Hs). }
  destruct syls as [|s0 r0] eqn:Hsy.
  { (* no syllable: the rendering is empty *)
    assert (Hr : render S0 strip_ [] = []) by (destruct strip_; reflexivity). rewrite Hr.
    unfold tokenize, check_level, tok1. cbn [get_level]. rewrite Hxs. cbn [bind]. cbv zeta.
    destruct (s_word sep) as [ws|]; cbn [get_level split_on split_go rev filter nonempty map flat_map app];
      unfold tok1; cbn [get_level]; rewrite ?Hxs;
      cbn [split_on split_go rev filter nonempty map flat_map app]; reflexivity. }
  rewrite <- Hsy in *. assert (Hnn : syls <> []) by (rewrite Hsy; discriminate). clear Hsy s0 r0.
  rewrite <- (app_nil_r (map syl_str syls)).
  change (map syl_str syls ++ []) with (concat [map syl_str syls]).
  apply (tokenize_syll_stages sep x (render S0 strip_ syls) [render S0 strip_ syls]); [exact Hxs| | |].
  - destruct (s_word sep) as [ws|] eqn:Hw; [|reflexivity].
    destruct (Hword ws eq_refl) as [Hwx Hends].
    assert (Hin : In ws (levels_for sep None)).
    { clear -Hw. destruct sep as [[p|] [s|] [w|]]; cbn in *; try discriminate; injection Hw as ->; auto. }
    destruct (Hfree ws Hin) as [Hwn Hwf].
    assert (Hni : infix_b ws (render S0 strip_ syls) = false).
    { apply free_no_infix; [exact Hwn|]. apply free_render; [exact Hwf | rewrite Ho; exact Hwx]. }
    unfold tok1. cbn [get_level]. rewrite Hw. rewrite (split_on_no_infix _ _ Hni).
    cbn [filter]. pose proof (render_nonnil strip_ syls Hnn) as Hrn.
    apply nonempty_true in Hrn. rewrite Hrn. cbn [map]. f_equal.
    apply strip_with_id; [constructor; [exact Hni | constructor]|].
    apply clean_ends_iff. split; [apply render_starts_ok; assumption|].
    apply render_ends_ok; [exact Hnn | exact Hws|]. intros Hst. rewrite Ho. split; [exact Hne | exact (Hends Hst)].
  - constructor; [|constructor].
    rewrite (render_split_on S0 x strip_ syls Ho Hne Hoe).
    assert (Hf : filter nonempty (map syl_str syls) = map syl_str syls).
    { apply filter_nonempty_id. eapply Forall_impl; [|exact Hok]. cbv beta. intros s (Hn & _). exact Hn. }
    destruct strip_.
    + destruct syls as [|s1 r1]; [congruence|]. exact Hf.
    + rewrite filter_app, Hf. cbn [filter nonempty]. apply app_nil_r.
  - constructor; [exact Hok | constructor].
Qed.

(* 2. the syllables decided for an accepted word are the syllable tokens of its output *)
Theorem syllabify_word_tokenize (sep : separator) (w : str) (strip_ : bool) (out : str) :
  sep_free S0 w -> silent S0 = None -> ws_free w ->
  s_syll sep = s_syll (sy_sep S0) ->
  (forall y : str, s_word sep = Some y ->
     head_notin y w /\ free y (osyll S0) /\ (strip_ = false -> ends_ok (osyll S0))) ->
  (forall y : str, s_phone sep = Some y -> head_notin y w) ->
  syllabify_word S0 w strip_ = Ok out ->
  exists syls : list syl,
    w = concat (map syl_str syls) /\ out = render S0 strip_ syls /\
    Forall (syl_ok S0) syls /\ max_onsets S0 [] syls /\
    tokenize sep out Syll false = Ok (map syl_str syls).
Proof.
  intros Hfree Hsil Hws Hsep Hword Hphone H.
  destruct (syllabify_word_shape_full S0 w strip_ out Hfree Hsil H) as (syls & Hw & Hout & Hok & Hmo).
  exists syls. repeat (split; [assumption|]).
  destruct Hfree as (x0 & xr & Hx & Hn & _).
  assert (Ho : osyll S0 = x0 :: xr) by (unfold osyll; rewrite Hx; reflexivity).
  assert (Hincl : forall s : syl, In s syls -> incl (syl_str s) w).
  { intros s Hs. rewrite Hw. apply syl_str_incl. exact Hs. }
  assert (Hhd : forall y : str, head_notin y w -> y <> [] /\ Forall (fun s : syl => free y (syl_str s)) syls).
  { intros y Hy. split; [exact (head_notin_nonnil y w Hy)|]. apply Forall_forall. intros s Hs.
    apply head_notin_free. exact (head_notin_incl y w _ Hy (Hincl s Hs)). }
  rewrite Hout. apply (render_tokenize sep (x0 :: xr) strip_ syls Hx).
  - rewrite Hsep. exact Hx.
  - apply Forall_forall. intros s Hs. exact (incl_Forall (Hincl s Hs) Hws).
  - intros y Hy. apply Hhd. revert y Hy. apply Forall_forall. apply Forall_levels.
    + intros y Hyw. exact (proj1 (Hword y Hyw)).
    + intros y Hys. rewrite Hsep, Hx in Hys. injection Hys as <-. exact Hn.
    + exact Hphone.
  - intros y Hyw. destruct (Hword y Hyw) as (_ & Hf & He). rewrite Ho in Hf, He. split; assumption.
Qed.

(* with the syllabifier's own separator *)
Corollary syllabify_word_tokenize_own (w : str) (strip_ : bool) (out : str) :
  sep_free S0 w -> silent S0 = None -> ws_free w ->
  (forall y : str, s_word (sy_sep S0) = Some y ->
     head_notin y w /\ free y (osyll S0) /\ (strip_ = false -> ends_ok (osyll S0))) ->
  (forall y : str, s_phone (sy_sep S0) = Some y -> head_notin y w) ->
  syllabify_word S0 w strip_ = Ok out ->
  exists syls : list syl,
    w = concat (map syl_str syls) /\ out = render S0 strip_ syls /\
    Forall (syl_ok S0) syls /\ max_onsets S0 [] syls /\
    tokenize (sy_sep S0) out Syll false = Ok (map syl_str syls).
Proof. intros Hfree Hsil Hws. apply syllabify_word_tokenize; auto. Qed.

(* as many syllable tokens as vowels, and their concatenation is the word *)
Corollary syllabify_word_tokenize_count (sep : separator) (w : str) (strip_ : bool) (out : str) :
  sep_free S0 w -> silent S0 = None -> ws_free w ->
  s_syll sep = s_syll (sy_sep S0) ->
  (forall y : str, s_word sep = Some y ->
     head_notin y w /\ free y (osyll S0) /\ (strip_ = false -> ends_ok (osyll S0))) ->
  (forall y : str, s_phone sep = Some y -> head_notin y w) ->
  onsets_novowel S0 ->
  syllabify_word S0 w strip_ = Ok out ->
  exists toks : list str,
    tokenize sep out Syll false = Ok toks /\ concat toks = w /\
    length toks = length (filter (is_vowel_char S0) w).
Proof.
  intros Hfree Hsil Hws Hsep Hword Hphone Hon H.
  destruct (syllabify_word_tokenize sep w strip_ out Hfree Hsil Hws Hsep Hword Hphone H)
    as (syls & Hw & _ & Hok & _ & Htok).
  exists (map syl_str syls). split; [exact Htok|]. split; [symmetry; exact Hw|].
  rewrite map_length, Hw. clear -Hok Hon.
  induction Hok as [|s r Hs _ IH]; [reflexivity|].
  cbn [map concat length]. rewrite filter_app, app_length, (syl_one_vowel S0 s Hon Hs), IH. reflexivity.
Qed.

End SyllTok.

Print Assumptions render_tokenize.
Print Assumptions syllabify_word_tokenize.
Print Assumptions syllabify_word_tokenize_own.
Print Assumptions syllabify_word_tokenize_count.

(* ---------- the hypotheses of 2 are needed ---------- *)

Module Refuted.
  Definition a := 97%N. Definition b := 98%N. Definition c := 99%N. Definition tab := 9%N.
  Definition semi := 59%N. Definition und := 95%N.

  (* without [ws_free w]: a whitespace symbol (tab, here a coda) is stripped from the token.
     sep_free holds (no ';', no ' ' in the word), no word nor phone separator. *)
  Definition sepA : separator := {| s_phone := None; s_syll := Some [semi]; s_word := None |}.
  Definition SA : syllabifier :=
    {| onsets := [[tab]; [b]]; vowels := [[a]]; symbols := [a; tab; b]; silent := None; sy_sep := sepA |}.
  Example syllabify_word_tokenize_refuted :
    syllabify_word SA [a; tab; b; a] false = Ok (render SA false [ {| s_onset := []; s_vowel := a; s_coda := [tab] |};
                                                                   {| s_onset := [b]; s_vowel := a; s_coda := [] |} ])
    /\ tokenize sepA [a; tab; semi; b; a; semi] Syll false = Ok [[a]; [b; a]]
    /\ ~ In semi [a; tab; b; a] /\ ~ In sp [a; tab; b; a].
  Proof.
    split; [vm_compute; reflexivity|]. split; [vm_compute; reflexivity|].
    split; intros H; cbn in H; repeat (destruct H as [H|H]; [discriminate H|]); exact H.
  Qed.

  (* a word separator whose first character occurs in the word ("ab", x = "b;"):
     it is born across a syllable and the syllable separator *)
  Definition sepB : separator := {| s_phone := None; s_syll := Some [b; semi]; s_word := Some [a; b] |}.
  Definition SB : syllabifier :=
    {| onsets := [[c]]; vowels := [[a]]; symbols := [a; c]; silent := None; sy_sep := sepB |}.
  Example word_head_needed :
    syllabify_word SB [c; a; c; a] false = Ok [c; a; b; semi; c; a; b; semi]
    /\ tokenize sepB [c; a; b; semi; c; a; b; semi] Syll false = Ok [[c]; [semi; c]; [semi]].
  Proof. split; vm_compute; reflexivity. Qed.

  (* a word separator that starts inside the syllable separator (x = ";_", word "_"),
     absent from the word *)
  Definition sepD : separator := {| s_phone := None; s_syll := Some [semi; und]; s_word := Some [und] |}.
  Definition SD : syllabifier :=
    {| onsets := [[b]]; vowels := [[a]]; symbols := [a; b]; silent := None; sy_sep := sepD |}.
  Example word_free_in_syll_needed :
    syllabify_word SD [a; b; a] true = Ok [a; semi; und; b; a]
    /\ tokenize sepD [a; semi; und; b; a] Syll false = Ok [[a; semi]; [b; a]].
  Proof. split; vm_compute; reflexivity. Qed.

  (* a syllable separator that ends with whitespace, strip = false, word separator defined *)
  Definition sepC : separator := {| s_phone := None; s_syll := Some [semi; sp]; s_word := Some [und] |}.
  Definition SC : syllabifier :=
    {| onsets := [[b]]; vowels := [[a]]; symbols := [a; b]; silent := None; sy_sep := sepC |}.
  Example syll_ends_ok_needed :
    syllabify_word SC [a; b; a] false = Ok [a; semi; sp; b; a; semi; sp]
    /\ tokenize sepC [a; semi; sp; b; a; semi; sp] Syll false = Ok [[a]; [b; a; semi]]
    /\ tokenize sepC [a; semi; sp; b; a] Syll false = Ok [[a]; [b; a]].
  Proof. split; [|split]; vm_compute; reflexivity. Qed.

  (* a phone separator whose first character occurs in the word is removed from the tokens *)
  Definition sepE : separator := {| s_phone := Some [b]; s_syll := Some [semi]; s_word := None |}.
  Definition SE : syllabifier :=
    {| onsets := [[b]]; vowels := [[a]]; symbols := [a; b]; silent := None; sy_sep := sepE |}.
  Example phone_head_needed :
    syllabify_word SE [a; b; a] false = Ok [a; semi; b; a; semi]
    /\ tokenize sepE [a; semi; b; a; semi] Syll false = Ok [[a]; [a]].
  Proof. split; vm_compute; reflexivity. Qed.
End Refuted.

(* ---------- 3. utterance level (no strip) ---------- *)

Section SyllUtt.
Variable S0 : syllabifier.

(* what is asked of a word of the utterance *)
Definition word_ok (w : str) : Prop :=
  w <> [] /\ sep_free S0 w /\ ws_free w /\
  (forall y : str, s_word (sy_sep S0) = Some y -> head_notin y w) /\
  (forall y : str, s_phone (sy_sep S0) = Some y -> head_notin y w).

Definition syls_ok (syls : list syl) : Prop :=
  syls <> [] /\ Forall (fun s : syl => ws_free (syl_str s)) syls /\
  (forall y : str, In y (levels_for (sy_sep S0) None) ->
     y <> [] /\ Forall (fun s : syl => free y (syl_str s)) syls).

Lemma word_ok_syls_ok (w : str) (syls : list syl) :
  word_ok w -> w = concat (map syl_str syls) -> syls_ok syls.
Proof.
  intros (Hwn & (x0 & xr & Hx & Hn & _) & Hws & Hword & Hphone) Hw.
  assert (Hincl : forall s : syl, In s syls -> incl (syl_str s) w).
  { intros s Hs. rewrite Hw. apply syl_str_incl. exact Hs. }
  split; [intros ->; apply Hwn; exact Hw|].
  split; [apply Forall_forall; intros s Hs; exact (incl_Forall (Hincl s Hs) Hws)|].
  assert (Hall : Forall (fun y : str => head_notin y w) (levels_for (sy_sep S0) None)).
  { apply Forall_levels; [exact Hword | | exact Hphone].
    intros y Hys. rewrite Hx in Hys. injection Hys as <-. exact Hn. }
  intros y Hy. pose proof (proj1 (Forall_forall _ _) Hall y Hy) as Hh.
  split; [exact (head_notin_nonnil y w Hh)|]. apply Forall_forall. intros s Hs.
  apply head_notin_free. exact (head_notin_incl y w _ Hh (Hincl s Hs)).
Qed.

Lemma syls_ok_tok_ok (syls : list syl) :
  syls_ok syls -> Forall (tok_ok (sy_sep S0)) (map syl_str syls).
Proof.
  intros (_ & Hws & Hfree). apply Forall_map. apply Forall_forall. intros s Hs.
  split; [apply syl_str_not_nil|]. split; [exact (proj1 (Forall_forall _ _) Hws s Hs)|].
  apply Forall_forall. intros y Hy. destruct (Hfree y Hy) as [Hyn Hys].
  apply free_no_infix; [exact Hyn|]. exact (proj1 (Forall_forall _ _) Hys s Hs).
Qed.

Lemma syls_ok_syll_stage (x : str) (syls : list syl) :
  s_syll (sy_sep S0) = Some x -> syls_ok syls ->
  filter nonempty (split_on x (render S0 false syls)) = map syl_str syls.
Proof.
  intros Hx Hok. pose proof (syls_ok_tok_ok syls Hok) as Htok. destruct Hok as (_ & _ & Hfree).
  assert (Ho : osyll S0 = x) by (unfold osyll; rewrite Hx; reflexivity).
  destruct (Hfree x (In_levels_syll _ x Hx)) as [Hne Hfx].
  rewrite (render_split_on S0 x false syls Ho Hne).
  2:{ eapply Forall_impl; [|exact Hfx]. cbv beta. intros s. apply free_only_at_end. }
  rewrite filter_app. cbn [filter nonempty]. rewrite app_nil_r.
  apply filter_nonempty_id. eapply Forall_impl; [|exact Htok]. cbv beta. intros s (Hn & _). exact Hn.
Qed.

Lemma syls_ok_word_stage (x ws : str) (syls : list syl) :
  s_syll (sy_sep S0) = Some x -> s_word (sy_sep S0) = Some ws ->
  free ws x -> ends_ok x -> syls_ok syls ->
  render S0 false syls <> [] /\
  only_at_end ws (render S0 false syls) = true /\
  strip_with [ws] (render S0 false syls) = render S0 false syls.
Proof.
  intros Hx Hw Hwx Hends (Hnn & Hws & Hfree).
  assert (Ho : osyll S0 = x) by (unfold osyll; rewrite Hx; reflexivity).
  destruct (Hfree x (In_levels_syll _ x Hx)) as [Hne _].
  assert (Hin : In ws (levels_for (sy_sep S0) None)).
  { clear -Hw. destruct (sy_sep S0) as [[p|] [s|] [w|]]; cbn in *; try discriminate; injection Hw as ->; auto. }
  destruct (Hfree ws Hin) as [Hwn Hwf].
  assert (Hfr : free ws (render S0 false syls)).
  { apply free_render; [exact Hwf | rewrite Ho; exact Hwx]. }
  split; [apply render_nonnil; exact Hnn|]. split; [apply free_only_at_end; exact Hfr|].
  apply strip_with_id.
  - constructor; [|constructor]. apply free_no_infix; assumption.
  - apply clean_ends_iff. split; [apply render_starts_ok; assumption|].
    apply render_ends_ok; [exact Hnn | exact Hws|]. intros _. rewrite Ho. split; assumption.
Qed.

(* the words of an utterance, each followed by the word separator: the syllable
   tokens of the output are, word by word, the decided syllables *)
Theorem utt_loop_tokenize (words : list str) (out x ws : str) :
  s_syll (sy_sep S0) = Some x -> s_word (sy_sep S0) = Some ws -> silent S0 = None ->
  free ws x -> ends_ok x ->
  Forall word_ok words ->
  utt_loop S0 (rev words) false [] = Ok out ->
  exists sylss : list (list syl),
    Forall2 (fun (w : str) (syls : list syl) =>
               w = concat (map syl_str syls) /\
               syllabify_word S0 w false = Ok (render S0 false syls) /\
               Forall (syl_ok S0) syls /\ max_onsets S0 [] syls) words sylss /\
    out = concat (map (fun syls : list syl => render S0 false syls ++ ws) sylss) /\
    tokenize (sy_sep S0) out Syll false = Ok (concat (map (map syl_str) sylss)).
Proof.
  intros Hx Hw Hsil Hwx Hends Hwords H.
  destruct (utt_loop_words S0 words out ws Hw H) as (outs & H2 & Hout).
  assert (Hs : exists sylss : list (list syl),
             Forall2 (fun (w : str) (syls : list syl) =>
               w = concat (map syl_str syls) /\
               syllabify_word S0 w false = Ok (render S0 false syls) /\
               Forall (syl_ok S0) syls /\ max_onsets S0 [] syls) words sylss /\
             outs = map (render S0 false) sylss /\ Forall syls_ok sylss).
  { clear Hout H. induction H2 as [|w ow words' outs' Hwo _ IH].
    - exists []. split; [constructor|]. split; [reflexivity | constructor].
    - inversion Hwords as [|? ? Hwok Hwords']; subst.
      destruct (IH Hwords') as (sylss & HF & Ho & Hok).
      pose proof Hwok as (_ & Hfree & _).
      destruct (syllabify_word_shape_full S0 w false ow Hfree Hsil Hwo) as (syls & Hweq & Hout & Hsok & Hmo).
      exists (syls :: sylss). split.
      + constructor; [|exact HF]. rewrite <- Hout. auto.
      + split; [cbn [map]; rewrite Hout, Ho; reflexivity|].
        constructor; [|exact Hok]. exact (word_ok_syls_ok w syls Hwok Hweq). }
  destruct Hs as (sylss & HF & Houts & Hok). exists sylss. split; [exact HF|].
  assert (Hout' : out = concat (map (fun syls : list syl => render S0 false syls ++ ws) sylss)).
  { rewrite Hout, Houts, map_map. reflexivity. }
  split; [exact Hout'|].
  assert (Hst : Forall (fun o : str => o <> [] /\ only_at_end ws o = true /\ strip_with [ws] o = o) outs).
  { rewrite Houts. apply Forall_map. eapply Forall_impl; [|exact Hok]. cbv beta.
    intros syls Hsy. exact (syls_ok_word_stage x ws syls Hx Hw Hwx Hends Hsy). }
  apply (tokenize_syll_stages (sy_sep S0) x out outs (map (map syl_str) sylss) Hx).
  - rewrite Hw. unfold tok1. cbn [get_level]. rewrite Hw, Hout.
    destruct outs as [|o1 outs'] eqn:Houts'; [reflexivity|]. rewrite <- Houts' in *.
    assert (Hwn : ws <> []).
    { intros ->. rewrite Houts' in Hst. inversion Hst as [|? ? (Hn1 & Ho1 & _) _]; subst.
      destruct o1 as [|ch o1']; [congruence|]. cbn in Ho1. discriminate. }
    clear Houts'.
    rewrite split_on_joined; [|exact Hwn|].
    2:{ eapply Forall_impl; [|exact Hst]. cbv beta. intros o (_ & Ho & _). exact Ho. }
    rewrite filter_app. cbn [filter nonempty]. rewrite app_nil_r.
    rewrite filter_nonempty_id.
    2:{ eapply Forall_impl; [|exact Hst]. cbv beta. intros o (Ho & _). exact Ho. }
    apply map_id_Forall. eapply Forall_impl; [|exact Hst]. cbv beta. intros o (_ & _ & Ho). exact Ho.
  - rewrite Houts. clear -Hok Hx. induction Hok as [|syls r Hsy _ IH]; [constructor|].
    cbn [map]. constructor; [|exact IH]. exact (syls_ok_syll_stage x syls Hx Hsy).
  - apply Forall_map. eapply Forall_impl; [|exact Hok]. cbv beta. intros syls. apply syls_ok_tok_ok.
Qed.

End SyllUtt.

Print Assumptions utt_loop_tokenize.

(* the same from [syllabify_utterance]: the words are those of the word-level tokenization *)
Corollary syllabify_utterance_tokenize (S0 : syllabifier) (u out x : str) :
  s_syll (sy_sep S0) = Some x -> silent S0 = None ->
  (forall ws : str, s_word (sy_sep S0) = Some ws -> free ws x) -> ends_ok x ->
  (forall words : list str, tokenize (sy_sep S0) u Word false = Ok words -> Forall (word_ok S0) words) ->
  syllabify_utterance S0 u false = Ok out ->
  exists (ws : str) (words : list str) (sylss : list (list syl)),
    s_word (sy_sep S0) = Some ws /\
    tokenize (sy_sep S0) u Word false = Ok words /\
    Forall2 (fun (w : str) (syls : list syl) =>
               w = concat (map syl_str syls) /\
               syllabify_word S0 w false = Ok (render S0 false syls) /\
               Forall (syl_ok S0) syls /\ max_onsets S0 [] syls) words sylss /\
    out = concat (map (fun syls : list syl => render S0 false syls ++ ws) sylss) /\
    tokenize (sy_sep S0) out Syll false = Ok (concat (map (map syl_str) sylss)).
Proof.
  intros Hx Hsil Hwx Hends Hwords H.
  destruct (syllabify_utterance_nostrip S0 u out H) as (ws & words & _ & Hw & Htok & _ & _).
  unfold syllabify_utterance in H. rewrite Htok in H. cbn [bind] in H.
  destruct (utt_loop_tokenize S0 words out x ws Hx Hw Hsil (Hwx ws Hw) Hends (Hwords words Htok) H)
    as (sylss & HF & Hout & Ht).
  exists ws, words, sylss. auto.
Qed.

Print Assumptions syllabify_utterance_tokenize.

(* ---------- decidable form of the hypotheses of 2 ---------- *)

Definition ws_free_b (s : str) : bool := forallb (fun c : char => negb (is_space c)) s.

Lemma ws_free_b_sound (s : str) : ws_free_b s = true -> ws_free s.
Proof.
  unfold ws_free_b, ws_free. rewrite forallb_forall, Forall_forall. intros H c Hc.
  specialize (H c Hc). apply negb_true_iff in H. exact H.
Qed.

(* the conditions on the reading separator [sep], as one boolean *)
Definition reader_ok_b (S0 : syllabifier) (sep : separator) (w : str) (strip_ : bool) : bool :=
  ws_free_b w &&
  match s_word sep with
  | None => true
  | Some y => head_notin_b y w && free_b y (osyll S0) &&
              (strip_ || str_eqb (lstrip (rev (osyll S0))) (rev (osyll S0)))
  end &&
  match s_phone sep with None => true | Some y => head_notin_b y w end.

Corollary syllabify_word_tokenize_dec (S0 : syllabifier) (sep : separator) (w : str) (strip_ : bool) (out : str) :
  sep_free S0 w -> silent S0 = None ->
  s_syll sep = s_syll (sy_sep S0) ->
  reader_ok_b S0 sep w strip_ = true ->
  syllabify_word S0 w strip_ = Ok out ->
  exists syls : list syl,
    w = concat (map syl_str syls) /\ out = render S0 strip_ syls /\
    Forall (syl_ok S0) syls /\ max_onsets S0 [] syls /\
    tokenize sep out Syll false = Ok (map syl_str syls).
Proof.
  intros Hfree Hsil Hsep Hb H. unfold reader_ok_b in Hb.
  apply andb_true_iff in Hb. destruct Hb as [Hb Hp]. apply andb_true_iff in Hb. destruct Hb as [Hws Hw].
  apply (syllabify_word_tokenize S0 sep w strip_ out Hfree Hsil (ws_free_b_sound w Hws) Hsep); [| |exact H].
  - intros y Hy. rewrite Hy in Hw.
    apply andb_true_iff in Hw. destruct Hw as [Hw He]. apply andb_true_iff in Hw. destruct Hw as [Hh Hf].
    split; [apply head_notin_b_sound; exact Hh|]. split; [apply free_b_sound; exact Hf|].
    intros ->. cbn [orb] in He. apply str_eqb_eq in He. exact He.
  - intros y Hy. rewrite Hy in Hp. apply head_notin_b_sound. exact Hp.
Qed.

Print Assumptions syllabify_word_tokenize_dec.

(* ---------- the hypotheses hold on the example (non-vacuity) ---------- *)

Module ExampleHyps.
  Import Example.

  Lemma ex_sep_free (w : str) : mem_char 59%N w = false -> mem_char sp w = false -> sep_free S1 w.
  Proof.
    intros H1 H2. exists 59%N, [101; 115; 121; 108; 108]%N. split; [reflexivity|].
    assert (Hm : forall (ch : char) (l : str), mem_char ch l = false -> ~ In ch l).
    { intros ch l Hf Hin. assert (Ht : mem_char ch l = true).
      { unfold mem_char. apply existsb_exists. exists ch. split; [exact Hin | apply N.eqb_refl]. }
      congruence. }
    split; apply Hm; assumption.
  Qed.

  Example ex_bacbe_theorem (strip_ : bool) :
    exists (out : str) (syls : list syl),
      syllabify_word S1 [b; a; c; b; e] strip_ = Ok out /\
      [b; a; c; b; e] = concat (map syl_str syls) /\ out = render S1 strip_ syls /\
      tokenize sep0 out Syll false = Ok (map syl_str syls) /\
      map syl_str syls = [[b; a; c]; [b; e]].
  Proof.
    destruct (syllabify_word S1 [b; a; c; b; e] strip_) as [out|err] eqn:H.
    2:{ destruct strip_; vm_compute in H; discriminate. }
    destruct (syllabify_word_tokenize_dec S1 sep0 [b; a; c; b; e] strip_ out) as (syls & Hw & Hout & _ & _ & Ht).
    - apply ex_sep_free; vm_compute; reflexivity.
    - reflexivity.
    - reflexivity.
    - destruct strip_; vm_compute; reflexivity.
    - exact H.
    - exists out, syls. repeat (split; [auto; fail|]).
      (* the tokens are determined by the computation on the concrete output *)
      assert (Ht' : tokenize sep0 out Syll false = Ok [[b; a; c]; [b; e]]).
      { destruct strip_; vm_compute in H; injection H as <-; vm_compute; reflexivity. }
      rewrite Ht in Ht'. injection Ht' as Heq. exact Heq.
  Qed.

  (* the utterance theorem applies to "bacbe babce" *)
  Example ex_utt_theorem :
    exists sylss : list (list syl),
      tokenize sep0 (([b; a; c] ++ esyll ++ [b; e] ++ esyll) ++ eword ++ ([b; a] ++ esyll ++ [b; c; e] ++ esyll) ++ eword)
               Syll false = Ok (concat (map (map syl_str) sylss)) /\
      Forall2 (fun (w : str) (syls : list syl) => w = concat (map syl_str syls))
              [[b; a; c; b; e]; [b; a; b; c; e]] sylss.
  Proof.
    assert (Hwok : forall w : str, w <> [] -> mem_char 59%N w = false -> mem_char sp w = false ->
                     ws_free_b w = true -> word_ok S1 w).
    { intros w Hn H1 H2 H3. split; [exact Hn|]. split; [apply ex_sep_free; assumption|].
      split; [apply ws_free_b_sound; exact H3|].
      split; intros y Hy; injection Hy as <-; apply head_notin_b_sound.
      - unfold eword. cbn [head_notin_b]. rewrite H1. reflexivity.
      - cbn [head_notin_b]. change 32%N with sp. rewrite H2. reflexivity. }
    destruct (syllabify_utterance_tokenize S1 utt
                (([b; a; c] ++ esyll ++ [b; e] ++ esyll) ++ eword ++ ([b; a] ++ esyll ++ [b; c; e] ++ esyll) ++ eword)
                esyll) as (ws & words & sylss & _ & Htok & HF & _ & Ht).
    - reflexivity.
    - reflexivity.
    - intros ws Hws. injection Hws as <-. apply free_b_sound. vm_compute. reflexivity.
    - vm_compute. reflexivity.
    - intros words Htok. vm_compute in Htok. injection Htok as <-.
      constructor; [|constructor; [|constructor]]; apply Hwok; try discriminate; vm_compute; reflexivity.
    - exact ex_utt.
    - exists sylss. split; [exact Ht|].
      assert (HF' : Forall2 (fun (w : str) (syls : list syl) => w = concat (map syl_str syls)) words sylss).
      { clear -HF. induction HF as [|w syls l l' (Hw & _) _ IH]; constructor; assumption. }
      vm_compute in Htok. injection Htok as <-. exact HF'.
  Qed.
End ExampleHyps.

Print Assumptions ExampleHyps.ex_bacbe_theorem.
Print Assumptions ExampleHyps.ex_utt_theorem.
Print Assumptions Example.ex_bacbe.
Print Assumptions Example.ex_tok_bacbe.
Print Assumptions Example.ex_utt_tok.
Print Assumptions Refuted.syllabify_word_tokenize_refuted.
Print Assumptions Refuted.word_head_needed.
Print Assumptions Refuted.word_free_in_syll_needed.
Print Assumptions Refuted.syll_ends_ok_needed.
Print Assumptions Refuted.phone_head_needed.
