(* The toolkit accepts its own output.

   Any two segmentations of the same prepared text (Base/Seg.v: [aligned]) form
   a pair that the evaluation never refuses: [evaluate] (with or without the
   units text) and [summary] return a value.  Composed with the conservation
   theorems of the segmenters (C01) this gives: the output of TP, PUDDLE and
   DiBS can always be scored against a gold segmentation of the same units.

   Composition of C01 (Base/Seg.v, */Conservation.v), C06
   (Evaluate/ProofsScores.v, Evaluate/ProofsSummary.v) and C12
   (Evaluate/ProofsSummary.v, Evaluate/ProofsHits.v).  Stdlib only. *)
From WS Require Import Base.Py Base.ListX Base.Str Base.Seg Evaluate.Model
  Evaluate.ProofsScores Evaluate.ProofsSummary Evaluate.ProofsLabels Evaluate.ProofsHits.
From WS Require TP.Model TP.StrLemmas TP.Conservation Puddle.Model Puddle.Proofs
  Dibs.Model Dibs.StrLemmas Dibs.Conservation.
From Coq Require Import QArith Lia Permutation.
Local Open Scope nat_scope.

Definition units_ok (text : list (list str)) : Prop := Forall (Forall unit_ok) text.

(* ====================================================================== *)
(* 0. helpers                                                              *)
(* ====================================================================== *)

(* the words of a segmentation are clean tokens themselves *)
Lemma groups_words_ok (groups : list (list str)) :
  Forall unit_ok (concat groups) -> Forall (fun g : list str => g <> []) groups ->
  Forall unit_ok (map (@concat char) groups).
Proof.
  intros Hok Hne. apply Forall_concat in Hok.
  induction groups as [|g gs IH]; [constructor|].
  inversion Hok as [|? ? Hg Hgs]; subst. inversion Hne as [|? ? Hn Hns]; subst.
  cbn [map]. constructor; [|exact (IH Hgs Hns)].
  apply Dibs.StrLemmas.concat_unit_ok; assumption.
Qed.

Lemma only_spaces_app (a b : str) : only_spaces a -> only_spaces b -> only_spaces (a ++ b).
Proof.
  unfold only_spaces. intros Ha Hb. rewrite forallb_app, Ha, Hb. reflexivity.
Qed.

Lemma only_spaces_unit (u : str) : unit_ok u -> only_spaces u.
Proof.
  intros [_ Hf]. unfold only_spaces. apply forallb_forall. intros c Hc.
  rewrite Forall_forall in Hf. rewrite (Hf c Hc). reflexivity.
Qed.

Lemma only_spaces_join (ws : list str) : Forall unit_ok ws -> only_spaces (join [sp] ws).
Proof.
  induction ws as [|w ws IH]; intros H; [reflexivity|].
  inversion H as [|? ? Hw Hws]; subst. specialize (IH Hws).
  destruct ws as [|w2 ws']; [exact (only_spaces_unit w Hw)|].
  rewrite TP.StrLemmas.join_cons2.
  apply only_spaces_app; [exact (only_spaces_unit w Hw)|].
  apply (only_spaces_app [sp]); [reflexivity|exact IH].
Qed.

Lemma join_hd (sep : str) (c : char) (w : str) (r : list str) :
  exists s, join sep ((c :: w) :: r) = c :: s.
Proof. destruct r as [|y r]; cbn [join app]; eexists; reflexivity. Qed.

Lemma Forall2_same_length {A B} (R : A -> B -> Prop) (l : list A) (m : list B) :
  Forall2 R l m -> length l = length m.
Proof. induction 1 as [|x y l m _ _ IH]; cbn [length]; [reflexivity|now rewrite IH]. Qed.

Lemma nonempty_true_iff (s : str) : nonempty s = true <-> s <> [].
Proof. destruct s; cbn [nonempty]; split; congruence. Qed.

Lemma nonblank_hd (c : char) (s : str) : is_space c = false -> nonblank (c :: s) = true.
Proof.
  intros Hc. unfold nonblank. apply nonempty_true_iff. unfold strip.
  cbn [lstrip]. rewrite Hc.
  apply (TP.StrLemmas.rstrip_nonnil (c :: s) c); [left; reflexivity|exact Hc].
Qed.

(* ====================================================================== *)
(* 1-3. one utterance                                                      *)
(* ====================================================================== *)

Theorem is_seg_despace : forall units out,
  Forall unit_ok units -> is_seg units out -> despace out = concat units.
Proof. exact TP.Conservation.is_seg_despace. Qed.
Print Assumptions is_seg_despace.

Theorem is_seg_only_spaces : forall units out,
  Forall unit_ok units -> is_seg units out -> only_spaces out.
Proof.
  intros units out Hok (groups & Hcat & Hne & ->). subst units.
  apply only_spaces_join. apply groups_words_ok; assumption.
Qed.
Print Assumptions is_seg_only_spaces.

Theorem is_seg_blank_iff : forall units out,
  Forall unit_ok units -> is_seg units out -> (nonblank out = false <-> units = []).
Proof.
  intros units out Hok (groups & Hcat & Hne & ->). split.
  - intros Hb. destruct units as [|u us]; [reflexivity|exfalso].
    destruct groups as [|g gs]; [discriminate|].
    assert (Hw : Forall unit_ok (map (@concat char) (g :: gs))).
    { apply groups_words_ok; [rewrite Hcat; exact Hok|exact Hne]. }
    cbn [map] in Hw, Hb. inversion Hw as [|? ? Hg _]; subst.
    destruct (TP.StrLemmas.unit_ok_hd _ Hg) as (c & w & Ew & Hc).
    rewrite Ew in Hb. destruct (join_hd [sp] c w (map (@concat char) gs)) as [s Es].
    rewrite Es, (nonblank_hd c s Hc) in Hb. discriminate.
  - intros ->. apply concat_nonempty_nil in Hcat; [|exact Hne]. subst groups. reflexivity.
Qed.
Print Assumptions is_seg_blank_iff.

(* the plain joining of the units is one of the segmentations *)
Lemma is_seg_join (units : list str) : Forall unit_ok units -> is_seg units (join [sp] units).
Proof.
  intros Hok. exists (map (fun u => [u]) units). repeat split.
  - clear Hok. induction units as [|u us IH]; [reflexivity|]. cbn [map concat app]. now rewrite IH.
  - apply Forall_forall. intros g Hg. apply in_map_iff in Hg as (u & <- & _). discriminate.
  - f_equal. clear Hok. induction units as [|u us IH]; [reflexivity|].
    cbn [map concat]. rewrite app_nil_r. now rewrite <- IH.
Qed.

Lemma aligned_join (text : list (list str)) : units_ok text -> aligned text (map (join [sp]) text).
Proof.
  intros H. induction H as [|units text Hu _ IH]; [constructor|].
  cbn [map]. constructor; [exact (is_seg_join units Hu)|exact IH].
Qed.

(* ====================================================================== *)
(* 4-5. a whole text: consistency and evaluate                             *)
(* ====================================================================== *)

Lemma aligned_filter_Forall2 : forall text a b,
  units_ok text -> aligned text a -> aligned text b ->
  Forall2 (fun x y => despace x = despace y) (filter nonblank a) (filter nonblank b).
Proof.
  induction text as [|units text IH]; intros a b Hok Ha Hb;
    inversion Ha as [|? x ? a' Hx Ha']; inversion Hb as [|? y ? b' Hy Hb']; subst.
  - constructor.
  - inversion Hok as [|? ? Hu Hok']; subst. specialize (IH a' b' Hok' Ha' Hb').
    pose proof (is_seg_blank_iff units x Hu Hx) as Bx.
    pose proof (is_seg_blank_iff units y Hu Hy) as By.
    cbn [filter].
    destruct (nonblank x) eqn:Ex; destruct (nonblank y) eqn:Ey.
    + constructor; [|exact IH].
      rewrite (is_seg_despace units x Hu Hx), (is_seg_despace units y Hu Hy). reflexivity.
    + exfalso. pose proof (proj1 By eq_refl) as E. apply Bx in E. discriminate.
    + exfalso. pose proof (proj1 Bx eq_refl) as E. apply By in E. discriminate.
    + exact IH.
Qed.

Theorem aligned_consistent : forall text a b,
  units_ok text -> aligned text a -> aligned text b -> consistent a b.
Proof.
  intros text a b Hok Ha Hb. unfold consistent.
  pose proof (aligned_filter_Forall2 text a b Hok Ha Hb) as H.
  split; [exact (Forall2_same_length _ _ _ H)|exact H].
Qed.
Print Assumptions aligned_consistent.

Theorem aligned_evaluate_ok : forall text a b,
  units_ok text -> aligned text a -> aligned text b -> exists s, evaluate a b None = Ok s.
Proof.
  intros text a b Hok Ha Hb.
  apply (proj1 (evaluate_rejects_iff a b)). exact (aligned_consistent text a b Hok Ha Hb).
Qed.
Print Assumptions aligned_evaluate_ok.

(* ====================================================================== *)
(* 7-8. summary                                                            *)
(* ====================================================================== *)

Lemma aligned_summary_pairs : forall text a b,
  units_ok text -> aligned text a -> aligned text b ->
  Forall2 (fun t g => despace g = despace t /\ only_spaces t /\ only_spaces g) a b.
Proof.
  induction text as [|units text IH]; intros a b Hok Ha Hb;
    inversion Ha as [|? x ? a' Hx Ha']; inversion Hb as [|? y ? b' Hy Hb']; subst.
  - constructor.
  - inversion Hok as [|? ? Hu Hok']; subst. constructor; [|exact (IH a' b' Hok' Ha' Hb')].
    repeat split.
    + rewrite (is_seg_despace units x Hu Hx), (is_seg_despace units y Hu Hy). reflexivity.
    + exact (is_seg_only_spaces units x Hu Hx).
    + exact (is_seg_only_spaces units y Hu Hy).
Qed.

Theorem aligned_summary_ok : forall text a b,
  units_ok text -> aligned text a -> aligned text b -> exists r, summary a b = Ok r.
Proof.
  intros text a b Hok Ha Hb. apply summary_accepts.
  exact (aligned_summary_pairs text a b Hok Ha Hb).
Qed.
Print Assumptions aligned_summary_ok.

(* the summary exists, has its four categories in the export order, and the
   four totals add up to the number of gold tokens *)
Theorem aligned_summary_total : forall text a b,
  units_ok text -> aligned text a -> aligned text b ->
  exists over under mis correct,
    summary a b = Ok [over; under; mis; correct] /\
    (total correct + total under + total over + total mis
     = Z.of_nat (length (flat_map tokens b)))%Z.
Proof.
  intros text a b Hok Ha Hb.
  destruct (aligned_summary_ok text a b Hok Ha Hb) as [r Hr].
  unfold summary in Hr |- *.
  destruct (Nat.eqb_spec (length b) (length a)) as [Hl|Hl]; cbn [negb] in Hr |- *; [|discriminate].
  destruct (summarize_all {| sm_correct := []; sm_under := []; sm_over := []; sm_mis := [] |} a b)
    as [s|e] eqn:Es; cbn [bind] in Hr |- *; [|discriminate].
  exists (sort_items (sm_over s)), (sort_items (sm_under s)), (sort_items (sm_mis s)),
         (sort_items (sm_correct s)).
  split; [reflexivity|].
  pose proof (summary_total a b _ s (eq_sym Hl) Es) as Ht.
  unfold summ_total in Ht. cbn [sm_correct sm_under sm_over sm_mis total fold_right] in Ht.
  rewrite <- (total_perm _ _ (sort_items_perm (sm_over s))).
  rewrite <- (total_perm _ _ (sort_items_perm (sm_under s))).
  rewrite <- (total_perm _ _ (sort_items_perm (sm_mis s))).
  rewrite <- (total_perm _ _ (sort_items_perm (sm_correct s))).
  lia.
Qed.
Print Assumptions aligned_summary_total.

(* ====================================================================== *)
(* 9. the Python segmenters                                                *)
(* ====================================================================== *)

(* a unit produced by splitting on white space is non-empty and space-free *)
Lemma split_ws_units_ok (f : str -> str) (text : list str) :
  units_ok (map (fun l => split_ws (f l)) text).
Proof.
  unfold units_ok. induction text as [|l text IH]; cbn [map]; constructor; [|exact IH].
  apply TP.StrLemmas.split_ws_ok.
Qed.

Lemma tp_units_ok (text : list str) : units_ok (map TP.Conservation.utt_units text).
Proof. exact (split_ws_units_ok strip text). Qed.

Lemma puddle_units_ok (text : list str) : units_ok (map (fun l => split_ws (strip l)) text).
Proof. exact (split_ws_units_ok strip text). Qed.

Lemma dibs_units_ok (test : list str) : units_ok (map split_ws test).
Proof. exact (split_ws_units_ok (fun l => l) test). Qed.

Theorem tp_output_evaluates : forall text train t d out gold,
  TP.Model.segment text train t d = Ok out ->
  aligned (map TP.Conservation.utt_units text) gold ->
  (exists s, evaluate out gold None = Ok s) /\ (exists r, summary out gold = Ok r).
Proof.
  intros text train t d out gold Hseg Hgold.
  pose proof (TP.Conservation.tp_segment_aligned text train t d out Hseg) as Hout.
  split.
  - exact (aligned_evaluate_ok _ out gold (tp_units_ok text) Hout Hgold).
  - exact (aligned_summary_ok _ out gold (tp_units_ok text) Hout Hgold).
Qed.
Print Assumptions tp_output_evaluates.

Theorem puddle_output_evaluates : forall (w : Z) (f : bool) text train nfolds out gold,
  (1 <= w)%Z ->
  Puddle.Model.segment w f text train nfolds = Ok out ->
  aligned (map (fun l => split_ws (strip l)) text) gold ->
  (exists s, evaluate out gold None = Ok s) /\ (exists r, summary out gold = Ok r).
Proof.
  intros w f text train nfolds out gold Hw Hseg Hgold.
  pose proof (Puddle.Proofs.puddle_segment_aligned w f text train nfolds out Hw Hseg) as Hout.
  split.
  - exact (aligned_evaluate_ok _ out gold (puddle_units_ok text) Hout Hgold).
  - exact (aligned_summary_ok _ out gold (puddle_units_ok text) Hout Hgold).
Qed.
Print Assumptions puddle_output_evaluates.

Theorem dibs_output_evaluates : forall test s k thr pwb out gold,
  Dibs.Model.segment test s k thr pwb = Ok out ->
  aligned (map split_ws test) gold ->
  (exists sc, evaluate out gold None = Ok sc) /\ (exists r, summary out gold = Ok r).
Proof.
  intros test s k thr pwb out gold Hseg Hgold.
  pose proof (Dibs.Conservation.segment_aligned test s k thr pwb out Hseg) as Hout.
  split.
  - exact (aligned_evaluate_ok _ out gold (dibs_units_ok test) Hout Hgold).
  - exact (aligned_summary_ok _ out gold (dibs_units_ok test) Hout Hgold).
Qed.
Print Assumptions dibs_output_evaluates.

(* ====================================================================== *)
(* 6. evaluate with the prepared text itself as the units text             *)
(* ====================================================================== *)

Lemma firstn_length_app {A} (g r : list A) : firstn (length g) (g ++ r) = g.
Proof. induction g as [|x g IH]; cbn [length firstn app]; [reflexivity|now rewrite IH]. Qed.

(* cutting the concatenation of the groups at the group lengths gives the groups back *)
Lemma chunks_lengths {A} (GG : list (list A)) : chunks (map (@length A) GG) (concat GG) = GG.
Proof.
  induction GG as [|g GG IH]; [reflexivity|].
  cbn [map concat chunks]. rewrite firstn_length_app, skipn_length_app, IH. reflexivity.
Qed.

Lemma list_sum_lengths {A} (GG : list (list A)) : list_sum (map (@length A) GG) = length (concat GG).
Proof.
  induction GG as [|g GG IH]; [reflexivity|].
  cbn [map concat]. rewrite list_sum_cons, app_length, IH. reflexivity.
Qed.

(* a word of a segmentation is a concatenation of whole units: the loop of
   compute_class_labels finds every word *)
Lemma labels_loop_groups (GG : list (list str)) (c : nat) :
  Forall (fun g : list str => g <> []) GG -> Forall (fun u : str => u <> []) (concat GG) ->
  labels_loop (map (@concat char) GG) (concat GG) c = Ok (blocks c (map (@length str) GG)).
Proof.
  intros Hne HU.
  pose proof (labels_loop_complete (map (@length str) GG) (concat GG) c) as H.
  rewrite chunks_lengths in H. apply H.
  - clear H HU. induction Hne as [|g GG Hg _ IH]; cbn [map]; constructor; [|exact IH].
    destruct g; [congruence|cbn [length]; lia].
  - exact HU.
  - rewrite list_sum_lengths. lia.
Qed.

Lemma words_groups : forall text a, units_ok text -> aligned text a ->
  exists GG : list (list str),
    Forall (fun g : list str => g <> []) GG /\ concat GG = concat text /\
    flat_map split_ws (filter nonblank a) = map (@concat char) GG.
Proof.
  induction text as [|units text IH]; intros a Hok Ha; inversion Ha as [|? x ? a' Hx Ha']; subst.
  - exists []. repeat split. constructor.
  - inversion Hok as [|? ? Hu Hok']; subst.
    destruct (IH a' Hok' Ha') as (GG & Hne & Hcat & Hflat).
    pose proof (is_seg_blank_iff units x Hu Hx) as Bx.
    destruct Hx as (groups & Hg & Hgne & ->).
    exists (groups ++ GG). split; [|split].
    + apply Forall_app. split; assumption.
    + rewrite concat_app, Hg, Hcat. reflexivity.
    + cbn [filter]. destruct (nonblank _) eqn:Ex.
      * cbn [flat_map]. rewrite Hflat, map_app. f_equal.
        apply TP.StrLemmas.split_ws_join. apply groups_words_ok; [rewrite Hg; exact Hu|exact Hgne].
      * pose proof (proj1 Bx eq_refl) as E. rewrite E in Hg.
        apply concat_nonempty_nil in Hg; [|exact Hgne]. subst groups. exact Hflat.
Qed.

Lemma units_flat : forall text, units_ok text ->
  flat_map split_ws (filter nonblank (map (join [sp]) text)) = concat text.
Proof.
  induction text as [|units text IH]; intros Hok; [reflexivity|].
  inversion Hok as [|? ? Hu Hok']; subst. specialize (IH Hok').
  cbn [map filter concat]. destruct (nonblank (join [sp] units)) eqn:Ex.
  - cbn [flat_map]. rewrite IH, (TP.StrLemmas.split_ws_join units Hu). reflexivity.
  - apply (is_seg_blank_iff units _ Hu (is_seg_join units Hu)) in Ex. subst units. exact IH.
Qed.

Lemma Forall2_forallb_despace (ws us : list str) :
  Forall2 (fun x y => despace x = despace y) ws us ->
  forallb (fun p => str_eqb (despace (fst p)) (despace (snd p))) (combine ws us) = true.
Proof.
  induction 1 as [|x y ws us Hxy _ IH]; [reflexivity|].
  cbn [combine forallb fst snd]. rewrite Hxy, str_eqb_refl, IH. reflexivity.
Qed.

Lemma aligned_class_labels_ok : forall text a, units_ok text -> aligned text a ->
  exists l, compute_class_labels (filter nonblank a) (filter nonblank (map (join [sp]) text)) = Ok l.
Proof.
  intros text a Hok Ha.
  destruct (aligned_consistent text a _ Hok Ha (aligned_join text Hok)) as [Hlen HF].
  cbv zeta in Hlen, HF.
  unfold compute_class_labels. rewrite Hlen, Nat.eqb_refl. cbn [negb].
  rewrite (Forall2_forallb_despace _ _ HF). cbn [negb].
  rewrite (units_flat text Hok).
  destruct (words_groups text a Hok Ha) as (GG & Hne & Hcat & ->).
  rewrite <- Hcat. rewrite labels_loop_groups.
  - cbn [bind]. eexists; reflexivity.
  - exact Hne.
  - rewrite Hcat. apply Forall_concat in Hok.
    eapply Forall_impl; [|exact Hok]. intros u Hu. exact (TP.StrLemmas.unit_ok_nonnil u Hu).
Qed.

Theorem aligned_evaluate_units_ok : forall text a b,
  units_ok text -> aligned text a -> aligned text b ->
  exists s, evaluate a b (Some (map (join [sp]) text)) = Ok s.
Proof.
  intros text a b Hok Ha Hb.
  pose proof (proj2 (words_check_consistent a b) (aligned_consistent text a b Hok Ha Hb)) as Hc.
  unfold words_check in Hc. apply andb_true_iff in Hc as [H1 H2].
  unfold evaluate. cbv zeta. rewrite H1, H2. cbn [negb].
  destruct (aligned_class_labels_ok text a Hok Ha) as [la Ea].
  destruct (aligned_class_labels_ok text b Hok Hb) as [lb Eb].
  rewrite Ea, Eb. cbn [bind]. eexists; reflexivity.
Qed.
Print Assumptions aligned_evaluate_units_ok.

(* the same with the units text, per segmenter: the adjusted Rand index is computed too *)
Theorem tp_output_evaluates_units : forall text train t d out gold,
  TP.Model.segment text train t d = Ok out ->
  aligned (map TP.Conservation.utt_units text) gold ->
  exists s, evaluate out gold (Some (map (join [sp]) (map TP.Conservation.utt_units text))) = Ok s.
Proof.
  intros text train t d out gold Hseg Hgold.
  pose proof (TP.Conservation.tp_segment_aligned text train t d out Hseg) as Hout.
  exact (aligned_evaluate_units_ok _ out gold (tp_units_ok text) Hout Hgold).
Qed.
Print Assumptions tp_output_evaluates_units.

Theorem puddle_output_evaluates_units : forall (w : Z) (f : bool) text train nfolds out gold,
  (1 <= w)%Z ->
  Puddle.Model.segment w f text train nfolds = Ok out ->
  aligned (map (fun l => split_ws (strip l)) text) gold ->
  exists s, evaluate out gold (Some (map (join [sp]) (map (fun l => split_ws (strip l)) text))) = Ok s.
Proof.
  intros w f text train nfolds out gold Hw Hseg Hgold.
  pose proof (Puddle.Proofs.puddle_segment_aligned w f text train nfolds out Hw Hseg) as Hout.
  exact (aligned_evaluate_units_ok _ out gold (puddle_units_ok text) Hout Hgold).
Qed.
Print Assumptions puddle_output_evaluates_units.

Theorem dibs_output_evaluates_units : forall test s k thr pwb out gold,
  Dibs.Model.segment test s k thr pwb = Ok out ->
  aligned (map split_ws test) gold ->
  exists sc, evaluate out gold (Some (map (join [sp]) (map split_ws test))) = Ok sc.
Proof.
  intros test s k thr pwb out gold Hseg Hgold.
  pose proof (Dibs.Conservation.segment_aligned test s k thr pwb out Hseg) as Hout.
  exact (aligned_evaluate_units_ok _ out gold (dibs_units_ok test) Hout Hgold).
Qed.
Print Assumptions dibs_output_evaluates_units.

(* both entry points succeed together and agree on the number of correct tokens (C12) *)
Theorem aligned_summary_evaluate_agree : forall text a b,
  units_ok text -> aligned text a -> aligned text b ->
  exists sc over under mis correct,
    evaluate a b None = Ok sc /\ summary a b = Ok [over; under; mis; correct] /\
    total correct = Z.of_nat (c_correct (s_token sc)).
Proof.
  intros text a b Hok Ha Hb.
  destruct (aligned_evaluate_ok text a b Hok Ha Hb) as [sc Hsc].
  destruct (aligned_summary_ok text a b Hok Ha Hb) as [r Hr].
  destruct (summary_evaluate_correct_agree a b r sc Hr Hsc) as (over & under & mis & correct & -> & Ht).
  exists sc, over, under, mis, correct. repeat split; assumption.
Qed.
Print Assumptions aligned_summary_evaluate_agree.

(* ====================================================================== *)
(* 10. non-vacuity                                                         *)
(* ====================================================================== *)

(* units  a b c / d e ;  one segmentation "ab c" / "de", the other "a bc" / "d e" *)
Definition ex_text : list (list str) := [[[97]; [98]; [99]]; [[100]; [101]]]%N.
Definition ex_a : list str := [[97; 98; 32; 99]; [100; 101]]%N.
Definition ex_b : list str := [[97; 32; 98; 99]; [100; 32; 101]]%N.

Example ex_units_ok : units_ok ex_text.
Proof. unfold units_ok, ex_text. repeat constructor; discriminate. Qed.

Example ex_aligned_a : aligned ex_text ex_a.
Proof.
  constructor; [|constructor; [|constructor]].
  - exists [[[97]; [98]]; [[99]]]%N. repeat split. repeat constructor; discriminate.
  - exists [[[100]; [101]]]%N. repeat split. repeat constructor; discriminate.
Qed.

Example ex_aligned_b : aligned ex_text ex_b.
Proof.
  constructor; [|constructor; [|constructor]].
  - exists [[[97]]; [[98]; [99]]]%N. repeat split. repeat constructor; discriminate.
  - exists [[[100]]; [[101]]]%N. repeat split. repeat constructor; discriminate.
Qed.

Example ex_differ : ex_a <> ex_b.
Proof. discriminate. Qed.

Example ex_consistent : consistent ex_a ex_b.
Proof. exact (aligned_consistent ex_text ex_a ex_b ex_units_ok ex_aligned_a ex_aligned_b). Qed.

Eval vm_compute in (evaluate ex_a ex_b None).
Eval vm_compute in (evaluate ex_a ex_b (Some (map (join [sp]) ex_text))).
Eval vm_compute in (summary ex_a ex_b).

Example ex_evaluate :
  exists s, evaluate ex_a ex_b (Some (map (join [sp]) ex_text)) = Ok s /\
            c_test (s_token s) = 3 /\ c_gold (s_token s) = 4 /\ c_correct (s_token s) = 0.
Proof. eexists. vm_compute. repeat split. Qed.

Example ex_summary :
  summary ex_a ex_b
  = Ok [[]; [([100]%N, 1%Z); ([101]%N, 1%Z)]; [([97]%N, 1%Z); ([98; 99]%N, 1%Z)]; []].
Proof. vm_compute. reflexivity. Qed.
