(* C14, _restore_phone_separators: what the restoration computes.
   A syllable is given as a list of phones (strings), a word as a list of syllables; the
   character-level syllable is [concat syl]; the index of the word is the list of the phone lengths.
   T1 phones_loop_spec, T2 sylls_loop_spec, T3 sylls_loop_phones_unchanged (+ filter form),
   T4 sylls_loop_cut_phone: a syllable boundary inside a phone always ends in IndexError. *)
From WS Require Import Base.Py Base.Str Separator.Model Syll.Model Syll.Proofs Syll.ProofsLoop.

(* ---------- generic list lemmas ---------- *)

Lemma chop_app {A : Type} (x y : list A) : chop (x ++ y) (length y) = x.
Proof.
  unfold chop. rewrite app_length.
  replace (length x + length y - length y) with (length x + 0) by lia.
  rewrite firstn_app_2. cbn [firstn]. apply app_nil_r.
Qed.

Lemma firstn_length_app {A : Type} (x y : list A) : firstn (length x) (x ++ y) = x.
Proof.
  replace (length x) with (length x + 0) by lia.
  rewrite firstn_app_2. cbn [firstn]. apply app_nil_r.
Qed.

Lemma skipn_length_app {A : Type} (x y : list A) : skipn (length x) (x ++ y) = y.
Proof.
  induction x as [|a x IH]; cbn [length skipn app]; [reflexivity | exact IH].
Qed.

Lemma nth_error_length_app {A : Type} (x : list A) (a : A) (y : list A) :
  nth_error (x ++ a :: y) (length x) = Some a.
Proof.
  induction x as [|b x IH]; cbn [length nth_error app]; [reflexivity | exact IH].
Qed.

Lemma nth_error_lengths_app (pre : list str) (ph : str) (post : list str) :
  nth_error (map (@length char) (pre ++ ph :: post)) (length pre) = Some (length ph).
Proof.
  induction pre as [|b pre IH]; cbn [length nth_error app map]; [reflexivity | exact IH].
Qed.

Lemma concat_sep_join (psep : str) (syl : list str) :
  syl <> [] -> concat (map (fun ph : str => ph ++ psep) syl) = join psep syl ++ psep.
Proof.
  induction syl as [|ph r IH]; intros Hne; [congruence|].
  destruct r as [|ph2 r].
  - cbn [map concat join]. rewrite app_nil_r. reflexivity.
  - cbn [map concat] in *. change (join psep (ph :: ph2 :: r)) with (ph ++ psep ++ join psep (ph2 :: r)).
    rewrite IH by discriminate. rewrite <- !app_assoc. reflexivity.
Qed.

(* one step of the while loop *)
Lemma phones_loop_step (f : nat) (c : char) (s : str) (idx : list nat) (j n : nat) (psep acc : str) :
  nth_error idx j = Some n ->
  phones_loop (S f) (c :: s) idx j psep acc
  = phones_loop f (skipn n (c :: s)) idx (S j) psep (acc ++ firstn n (c :: s) ++ psep).
Proof. intros Hn. cbn [phones_loop]. rewrite Hn. reflexivity. Qed.

Lemma phones_loop_nil (fuel : nat) (idx : list nat) (j : nat) (psep acc : str) :
  phones_loop fuel [] idx j psep acc = Ok (acc, j).
Proof. destruct fuel; reflexivity. Qed.

(* ---------- T1 ---------- *)

(* general form: the syllable is whole phones followed by a (possibly empty) beginning [p1] of the next phone *)
Lemma phones_loop_whole_then_piece_gen : forall (syl pre : list str) (p1 : str) (post : list str) (psep acc : str)
    (fuel : nat) (idx : list nat) (j : nat),
  Forall (fun ph : str => ph <> []) syl -> length (concat syl ++ p1) <= fuel ->
  (p1 <> [] -> exists (ph : str) (post' : list str), post = ph :: post' /\ length p1 <= length ph) ->
  idx = map (@length char) (pre ++ syl ++ post) -> j = length pre ->
  phones_loop fuel (concat syl ++ p1) idx j psep acc
  = Ok (acc ++ concat (map (fun ph : str => ph ++ psep) syl) ++ (match p1 with [] => [] | _ => p1 ++ psep end),
        length pre + length syl + (match p1 with [] => 0 | _ => 1 end)).
Proof.
  induction syl as [|ph r IH]; intros pre p1 post psep acc fuel idx j Hne Hfuel Hp1 Hidx Hj.
  - cbn [concat map app length] in *. destruct p1 as [|c p1].
    + rewrite phones_loop_nil. rewrite app_nil_r. f_equal. f_equal. lia.
    + destruct (Hp1 ltac:(discriminate)) as (ph & post' & -> & Hle).
      destruct fuel as [|f]; [cbn [length] in Hfuel; lia|].
      rewrite (phones_loop_step f c p1 idx j (length ph)).
      2:{ subst idx j. apply nth_error_lengths_app. }
      rewrite (firstn_all2 (n := length ph) (c :: p1)) by exact Hle.
      rewrite (skipn_all2 (n := length ph) (c :: p1)) by exact Hle.
      rewrite phones_loop_nil. f_equal. f_equal. lia.
  - pose proof (Forall_inv Hne) as Hph. pose proof (Forall_inv_tail Hne) as Hr.
    cbn [concat map] in *. rewrite <- !app_assoc in *.
    destruct ph as [|c ph]; [congruence|].
    destruct fuel as [|f]; [cbn [length app] in Hfuel; lia|].
    change ((c :: ph) ++ concat r ++ p1) with (c :: (ph ++ concat r ++ p1)).
    rewrite (phones_loop_step f c _ idx j (length (c :: ph))).
    2:{ subst idx j. apply nth_error_lengths_app. }
    change (c :: (ph ++ concat r ++ p1)) with ((c :: ph) ++ concat r ++ p1).
    rewrite firstn_length_app, skipn_length_app.
    etransitivity.
    + apply (IH (pre ++ [c :: ph]) p1 post psep (acc ++ (c :: ph) ++ psep) f idx (S j) Hr).
      * cbn [length app] in Hfuel. rewrite !app_length in *. lia.
      * exact Hp1.
      * rewrite Hidx, <- app_assoc. reflexivity.
      * rewrite Hj, app_length. cbn [length]. lia.
    + f_equal. f_equal.
      * rewrite <- !app_assoc. reflexivity.
      * rewrite app_length. cbn [length]. lia.
Qed.

Lemma phones_loop_whole_then_piece : forall (syl pre : list str) (p1 : str) (post : list str) (psep acc : str) (fuel : nat),
  Forall (fun ph : str => ph <> []) syl -> length (concat syl ++ p1) <= fuel ->
  (p1 <> [] -> exists (ph : str) (post' : list str), post = ph :: post' /\ length p1 <= length ph) ->
  phones_loop fuel (concat syl ++ p1) (map (@length char) (pre ++ syl ++ post)) (length pre) psep acc
  = Ok (acc ++ concat (map (fun ph : str => ph ++ psep) syl) ++ (match p1 with [] => [] | _ => p1 ++ psep end),
        length pre + length syl + (match p1 with [] => 0 | _ => 1 end)).
Proof.
  intros syl pre p1 post psep acc fuel Hne Hfuel Hp1.
  exact (phones_loop_whole_then_piece_gen syl pre p1 post psep acc fuel _ _ Hne Hfuel Hp1 eq_refl eq_refl).
Qed.

(* T1: phones_loop on a syllable made of whole phones puts the separator after each phone *)
Theorem phones_loop_spec : forall (syl pre post : list str) (psep acc : str) (fuel : nat),
  Forall (fun ph : str => ph <> []) syl -> length (concat syl) <= fuel ->
  phones_loop fuel (concat syl) (map (@length char) (pre ++ syl ++ post)) (length pre) psep acc
  = Ok (acc ++ concat (map (fun ph : str => ph ++ psep) syl), length pre + length syl).
Proof.
  intros syl pre post psep acc fuel Hne Hfuel.
  pose proof (phones_loop_whole_then_piece syl pre [] post psep acc fuel Hne) as H.
  rewrite !app_nil_r in H. rewrite H; [f_equal; f_equal; lia | exact Hfuel | congruence].
Qed.

(* the syllable ends inside the phone [p1 ++ p2]: the piece [p1] uses up the whole index entry *)
Lemma phones_loop_cut : forall (syl pre : list str) (p1 p2 : str) (post : list str) (psep acc : str) (fuel : nat),
  Forall (fun ph : str => ph <> []) syl -> p1 <> [] -> length (concat syl ++ p1) <= fuel ->
  phones_loop fuel (concat syl ++ p1) (map (@length char) (pre ++ syl ++ (p1 ++ p2) :: post)) (length pre) psep acc
  = Ok (acc ++ concat (map (fun ph : str => ph ++ psep) syl) ++ p1 ++ psep, length pre + length syl + 1).
Proof.
  intros syl pre p1 p2 post psep acc fuel Hne Hp1 Hfuel.
  rewrite (phones_loop_whole_then_piece syl pre p1 ((p1 ++ p2) :: post) psep acc fuel Hne Hfuel).
  - destruct p1; [congruence | reflexivity].
  - intros _. exists (p1 ++ p2), post. split; [reflexivity | rewrite app_length; lia].
Qed.

(* ---------- T2 ---------- *)

Definition syll_out (strip_ : bool) (psep : str) (syl : list str) : str :=
  if strip_ then join psep syl else concat (map (fun ph : str => ph ++ psep) syl).

(* T2: each syllable's phones followed by the phone separator (the last one dropped when strip_ is set),
   then the syllable separator -- after every syllable, the last included; the returned counter is the
   number of index entries used *)
Theorem sylls_loop_spec : forall (syls : list (list str)) (pre post : list str) (strip_ : bool) (psep ssep acc : str),
  Forall (fun syl : list str => syl <> [] /\ Forall (fun ph : str => ph <> []) syl) syls ->
  sylls_loop (map (@concat char) syls) (map (@length char) (pre ++ concat syls ++ post)) (length pre)
             strip_ psep ssep acc
  = Ok (acc ++ concat (map (fun syl : list str => syll_out strip_ psep syl ++ ssep) syls),
        length pre + length (concat syls)).
Proof.
  induction syls as [|syl r IH]; intros pre post strip_ psep ssep acc Hne.
  - cbn [map concat sylls_loop length]. rewrite app_nil_r. f_equal. f_equal. lia.
  - destruct (Forall_inv Hne) as [Hsyl Hph]. pose proof (Forall_inv_tail Hne) as Hr.
    cbn [map concat sylls_loop]. rewrite <- (app_assoc syl (concat r) post).
    rewrite (phones_loop_spec syl pre (concat r ++ post) psep acc _ Hph (le_n _)).
    cbn [bind fst snd].
    replace (if strip_ then chop (acc ++ concat (map (fun ph : str => ph ++ psep) syl)) (length psep)
             else acc ++ concat (map (fun ph : str => ph ++ psep) syl))
      with (acc ++ syll_out strip_ psep syl).
    2:{ unfold syll_out. destruct strip_; [|reflexivity].
        rewrite (concat_sep_join psep syl Hsyl), app_assoc, chop_app. reflexivity. }
    specialize (IH (pre ++ syl) post strip_ psep ssep ((acc ++ syll_out strip_ psep syl) ++ ssep) Hr).
    rewrite app_length in IH. rewrite <- (app_assoc pre syl) in IH. rewrite IH.
    f_equal. f_equal.
    + rewrite <- !app_assoc. reflexivity.
    + rewrite app_length. lia.
Qed.

(* ---------- T3 ---------- *)

(* the restored string, piece by piece: [(true, ph)] is a phone copied from the input,
   [(false, sep)] a separator that was put in *)
Definition syll_pieces (strip_ : bool) (psep : str) (syl : list str) : list (bool * str) :=
  if strip_
  then match syl with
       | [] => []
       | ph :: r => (true, ph) :: flat_map (fun ph' : str => [(false, psep); (true, ph')]) r
       end
  else flat_map (fun ph : str => [(true, ph); (false, psep)]) syl.

Definition word_pieces (strip_ : bool) (psep ssep : str) (syls : list (list str)) : list (bool * str) :=
  flat_map (fun syl : list str => syll_pieces strip_ psep syl ++ [(false, ssep)]) syls.

Definition phones_of (ps : list (bool * str)) : list str := map snd (filter fst ps).
Definition seps_of (ps : list (bool * str)) : list str := map snd (filter (fun p : bool * str => negb (fst p)) ps).

Lemma join_pieces (psep ph : str) (r : list str) :
  concat (map snd ((true, ph) :: flat_map (fun ph' : str => [(false, psep); (true, ph')]) r)) = join psep (ph :: r).
Proof.
  revert ph. induction r as [|ph2 r IH]; intros ph.
  - cbn [flat_map map snd concat join]. apply app_nil_r.
  - change (join psep (ph :: ph2 :: r)) with (ph ++ psep ++ join psep (ph2 :: r)). rewrite <- IH.
    cbn [flat_map map snd concat app]. reflexivity.
Qed.

Lemma syll_pieces_text (strip_ : bool) (psep : str) (syl : list str) :
  concat (map snd (syll_pieces strip_ psep syl)) = syll_out strip_ psep syl.
Proof.
  unfold syll_pieces, syll_out. destruct strip_.
  - destruct syl as [|ph r]; [reflexivity | apply join_pieces].
  - induction syl as [|ph r IH]; [reflexivity|].
    cbn [flat_map map snd concat app] in *. rewrite IH, <- app_assoc. reflexivity.
Qed.

Lemma syll_pieces_phones (strip_ : bool) (psep : str) (syl : list str) :
  phones_of (syll_pieces strip_ psep syl) = syl.
Proof.
  unfold phones_of, syll_pieces. destruct strip_.
  - destruct syl as [|ph r]; [reflexivity|]. cbn [filter fst map snd]. f_equal.
    induction r as [|ph2 r IH]; [reflexivity|]. cbn [flat_map app filter fst map snd]. f_equal. exact IH.
  - induction syl as [|ph r IH]; [reflexivity|]. cbn [flat_map app filter fst map snd]. f_equal. exact IH.
Qed.

Lemma syll_pieces_seps (strip_ : bool) (psep : str) (syl : list str) :
  Forall (fun s : str => s = psep) (seps_of (syll_pieces strip_ psep syl)).
Proof.
  unfold seps_of, syll_pieces. destruct strip_.
  - destruct syl as [|ph r]; [constructor|]. cbn [filter fst negb map snd].
    induction r as [|ph2 r IH]; [constructor|]. cbn [flat_map app filter fst negb map snd].
    constructor; [reflexivity | exact IH].
  - induction syl as [|ph r IH]; [constructor|]. cbn [flat_map app filter fst negb map snd].
    constructor; [reflexivity | exact IH].
Qed.

Lemma word_pieces_text (strip_ : bool) (psep ssep : str) (syls : list (list str)) :
  concat (map snd (word_pieces strip_ psep ssep syls))
  = concat (map (fun syl : list str => syll_out strip_ psep syl ++ ssep) syls).
Proof.
  unfold word_pieces. induction syls as [|syl r IH]; [reflexivity|].
  cbn [flat_map map concat]. rewrite !map_app, !concat_app, IH, syll_pieces_text.
  cbn [map snd concat]. rewrite app_nil_r. reflexivity.
Qed.

Lemma word_pieces_phones (strip_ : bool) (psep ssep : str) (syls : list (list str)) :
  phones_of (word_pieces strip_ psep ssep syls) = concat syls.
Proof.
  unfold word_pieces. induction syls as [|syl r IH]; [reflexivity|].
  cbn [flat_map concat]. unfold phones_of in *. rewrite !filter_app, !map_app, IH.
  fold (phones_of (syll_pieces strip_ psep syl)). rewrite syll_pieces_phones.
  cbn [filter fst map app]. rewrite app_nil_r. reflexivity.
Qed.

Lemma word_pieces_seps (strip_ : bool) (psep ssep : str) (syls : list (list str)) :
  Forall (fun s : str => s = psep \/ s = ssep) (seps_of (word_pieces strip_ psep ssep syls)).
Proof.
  unfold word_pieces. induction syls as [|syl r IH]; [constructor|].
  cbn [flat_map]. unfold seps_of in *. rewrite !filter_app, !map_app.
  apply Forall_app. split; [apply Forall_app; split|exact IH].
  - eapply Forall_impl; [|exact (syll_pieces_seps strip_ psep syl)]. intros s Hs. left. exact Hs.
  - cbn [filter fst negb map snd]. constructor; [right; reflexivity | constructor].
Qed.

(* T3: the result is a sequence of pieces; the pieces that are not inserted separators are exactly the
   phones of the word, in order and unchanged; every other piece is psep or ssep *)
Corollary sylls_loop_phones_unchanged : forall (syls : list (list str)) (pre post : list str) (strip_ : bool)
    (psep ssep acc : str),
  Forall (fun syl : list str => syl <> [] /\ Forall (fun ph : str => ph <> []) syl) syls ->
  exists ps : list (bool * str),
    sylls_loop (map (@concat char) syls) (map (@length char) (pre ++ concat syls ++ post)) (length pre)
               strip_ psep ssep acc
    = Ok (acc ++ concat (map snd ps), length pre + length (concat syls))
    /\ phones_of ps = concat syls
    /\ Forall (fun s : str => s = psep \/ s = ssep) (seps_of ps).
Proof.
  intros syls pre post strip_ psep ssep acc Hne. exists (word_pieces strip_ psep ssep syls).
  split; [|split].
  - rewrite (sylls_loop_spec syls pre post strip_ psep ssep acc Hne), word_pieces_text. reflexivity.
  - apply word_pieces_phones.
  - apply word_pieces_seps.
Qed.

(* T3, character form: if a class of characters [keep] contains the phones' characters and none of the
   separators', then erasing the other characters from what was appended gives back the input characters *)
Lemma filter_concat {A : Type} (f : A -> bool) (ls : list (list A)) :
  filter f (concat ls) = concat (map (filter f) ls).
Proof.
  induction ls as [|l r IH]; [reflexivity|]. cbn [concat map]. rewrite filter_app, IH. reflexivity.
Qed.

Lemma filter_all {A : Type} (f : A -> bool) (l : list A) : forallb f l = true -> filter f l = l.
Proof.
  induction l as [|a l IH]; [reflexivity|]. cbn [forallb filter]. intros H.
  apply andb_true_iff in H. destruct H as [Ha Hl]. rewrite Ha, (IH Hl). reflexivity.
Qed.

Lemma filter_none {A : Type} (f : A -> bool) (l : list A) : forallb (fun a : A => negb (f a)) l = true -> filter f l = [].
Proof.
  induction l as [|a l IH]; [reflexivity|]. cbn [forallb filter]. intros H.
  apply andb_true_iff in H. destruct H as [Ha Hl]. apply negb_true_iff in Ha. rewrite Ha. exact (IH Hl).
Qed.

Corollary sylls_loop_chars_unchanged : forall (keep : char -> bool) (syls : list (list str)) (pre post : list str)
    (strip_ : bool) (psep ssep acc : str),
  Forall (fun syl : list str => syl <> [] /\ Forall (fun ph : str => ph <> []) syl) syls ->
  Forall (Forall (fun ph : str => forallb keep ph = true)) syls ->
  forallb (fun c : char => negb (keep c)) psep = true ->
  forallb (fun c : char => negb (keep c)) ssep = true ->
  exists out : str,
    sylls_loop (map (@concat char) syls) (map (@length char) (pre ++ concat syls ++ post)) (length pre)
               strip_ psep ssep acc
    = Ok (acc ++ out, length pre + length (concat syls))
    /\ filter keep out = concat (concat syls).
Proof.
  intros keep syls pre post strip_ psep ssep acc Hne Hkeep Hp Hs.
  destruct (sylls_loop_phones_unchanged syls pre post strip_ psep ssep acc Hne) as (ps & Hrun & Hph & Hsep).
  exists (concat (map snd ps)). split; [exact Hrun|].
  rewrite <- Hph. clear Hrun.
  assert (Hall : Forall (fun ph : str => forallb keep ph = true) (phones_of ps)).
  { rewrite Hph. clear -Hkeep. induction Hkeep as [|syl r H1 _ IH]; [constructor|].
    cbn [concat]. apply Forall_app. split; assumption. }
  clear Hph Hkeep Hne. unfold phones_of, seps_of in *.
  induction ps as [|[[|] s] ps IH].
  - reflexivity.
  - cbn [filter fst negb map snd concat] in *. rewrite filter_app.
    rewrite (filter_all keep s (Forall_inv Hall)), (IH Hsep (Forall_inv_tail Hall)). reflexivity.
  - cbn [filter fst negb map snd concat] in *. rewrite filter_app.
    rewrite (IH (Forall_inv_tail Hsep) Hall).
    destruct (Forall_inv Hsep) as [-> | ->]; rewrite filter_none by assumption; reflexivity.
Qed.

(* ---------- T4 ---------- *)

(* counting: every index entry used covers at most its value in characters *)
Lemma list_sum_skipn_nth (idx : list nat) (j n : nat) :
  nth_error idx j = Some n -> list_sum (skipn j idx) = n + list_sum (skipn (S j) idx).
Proof.
  revert j. induction idx as [|a idx IH]; intros j Hn.
  - destruct j; discriminate.
  - destruct j as [|j].
    + cbn [nth_error] in Hn. injection Hn as ->. reflexivity.
    + cbn [nth_error] in Hn. change (skipn (S j) (a :: idx)) with (skipn j idx).
      change (skipn (S (S j)) (a :: idx)) with (skipn (S j) idx). exact (IH j Hn).
Qed.

Lemma phones_loop_count : forall (fuel : nat) (s : str) (idx : list nat) (j : nat) (psep acc out : str) (j' : nat),
  phones_loop fuel s idx j psep acc = Ok (out, j') ->
  length s + list_sum (skipn j' idx) <= list_sum (skipn j idx).
Proof.
  induction fuel as [|f IH]; intros s idx j psep acc out j' H.
  - destruct s; [|discriminate]. cbn [phones_loop] in H. injection H as _ <-. cbn [length]. lia.
  - destruct s as [|c s]; [cbn [phones_loop] in H; injection H as _ <-; cbn [length]; lia|].
    cbn [phones_loop] in H. destruct (nth_error idx j) as [n|] eqn:Hn; [|discriminate].
    apply IH in H. rewrite skipn_length in H. rewrite (list_sum_skipn_nth idx j n Hn). lia.
Qed.

Lemma sylls_loop_count : forall (ss : list str) (idx : list nat) (j : nat) (strip_ : bool) (psep ssep acc out : str) (j' : nat),
  sylls_loop ss idx j strip_ psep ssep acc = Ok (out, j') ->
  length (concat ss) + list_sum (skipn j' idx) <= list_sum (skipn j idx).
Proof.
  induction ss as [|s r IH]; intros idx j strip_ psep ssep acc out j' H.
  - cbn [sylls_loop] in H. injection H as _ <-. cbn [concat length]. lia.
  - cbn [sylls_loop] in H.
    destruct (phones_loop (length s) s idx j psep acc) as [[a1 j1]|e] eqn:Hp; cbn [bind fst snd] in H; [|discriminate].
    apply phones_loop_count in Hp. apply IH in H. cbn [concat]. rewrite app_length. lia.
Qed.

Lemma list_sum_lengths (l : list str) : list_sum (map (@length char) l) = length (concat l).
Proof.
  induction l as [|x l IH]; [reflexivity|]. cbn [map concat].
  change (list_sum (length x :: map (@length char) l)) with (length x + list_sum (map (@length char) l)).
  rewrite app_length, IH. reflexivity.
Qed.

Lemma lengths_positive (l : list str) :
  Forall (fun ph : str => ph <> []) l -> Forall (fun n : nat => 1 <= n) (map (@length char) l).
Proof.
  intros H. induction H as [|x l Hx _ IH]; [constructor|]. cbn [map]. constructor; [|exact IH].
  destruct x; [congruence | cbn [length]; lia].
Qed.

(* more characters left than the remaining index entries can cover: IndexError *)
Lemma sylls_loop_too_long (ss : list str) (idx : list nat) (j : nat) (strip_ : bool) (psep ssep acc : str) :
  Forall (fun n : nat => 1 <= n) idx ->
  list_sum (skipn j idx) < length (concat ss) ->
  sylls_loop ss idx j strip_ psep ssep acc = Raise IndexError.
Proof.
  intros Hpos Hlt. destruct (sylls_loop ss idx j strip_ psep ssep acc) as [[out j']|e] eqn:H.
  - apply sylls_loop_count in H. lia.
  - f_equal. exact (sylls_loop_error ss idx j strip_ psep ssep acc e Hpos H).
Qed.

Lemma app_eq_app_le {A : Type} (a b c d : list A) :
  a ++ b = c ++ d -> length a <= length c -> exists e : list A, c = a ++ e /\ b = e ++ d.
Proof.
  revert c. induction a as [|x a IH]; intros c H Hlen.
  - exists c. split; [reflexivity | exact H].
  - destruct c as [|y c]; [cbn [length] in Hlen; lia|].
    cbn [app] in H. injection H as -> H. cbn [length] in Hlen.
    destruct (IH c H ltac:(lia)) as (e & -> & ->). exists e. split; reflexivity.
Qed.

(* where the first syllable ends among the phones: at a phone boundary, or inside a phone *)
Lemma syllable_end : forall (phs : list str) (s t : str),
  Forall (fun ph : str => ph <> []) phs -> s <> [] -> s ++ t = concat phs ->
  exists (syl : list str),
    (exists phs' : list str, phs = syl ++ phs' /\ s = concat syl /\ t = concat phs')
    \/ (exists (p1 p2 : str) (phs' : list str),
          phs = syl ++ (p1 ++ p2) :: phs' /\ s = concat syl ++ p1 /\ p1 <> [] /\ p2 <> [] /\ t = p2 ++ concat phs').
Proof.
  induction phs as [|ph phs IH]; intros s t Hne Hs Hst.
  - cbn [concat] in Hst. destruct s; [congruence | discriminate].
  - pose proof (Forall_inv Hne) as Hph. pose proof (Forall_inv_tail Hne) as Hphs. cbn [concat] in Hst.
    destruct (Nat.le_gt_cases (length s) (length ph)) as [Hle | Hgt].
    + destruct (app_eq_app_le s t ph (concat phs) Hst Hle) as (p2 & -> & ->).
      destruct p2 as [|c p2].
      * exists [s]. left. exists phs. rewrite !app_nil_r. cbn [concat app]. rewrite app_nil_r. auto.
      * exists []. right. exists s, (c :: p2), phs. cbn [concat app].
        repeat split; [exact Hs | discriminate].
    + symmetry in Hst. destruct (app_eq_app_le ph (concat phs) s t Hst ltac:(lia)) as (s' & -> & Hc).
      assert (Hs' : s' <> []). { intros ->. rewrite app_nil_r in Hgt. lia. }
      destruct (IH s' t Hphs Hs' (eq_sym Hc)) as (syl & [(phs' & -> & -> & ->) | (p1 & p2 & phs' & -> & -> & Hp1 & Hp2 & ->)]).
      * exists (ph :: syl). left. exists phs'. cbn [concat app]. auto.
      * exists (ph :: syl). right. exists p1, p2, phs'. cbn [concat app]. rewrite <- app_assoc. auto.
Qed.

Lemma Forall_app_l {A : Type} (P : A -> Prop) (l1 l2 : list A) : Forall P (l1 ++ l2) -> Forall P l1.
Proof. intros H. apply Forall_app in H. exact (proj1 H). Qed.
Lemma Forall_app_r {A : Type} (P : A -> Prop) (l1 l2 : list A) : Forall P (l1 ++ l2) -> Forall P l2.
Proof. intros H. apply Forall_app in H. exact (proj2 H). Qed.

(* the syllables are a grouping of the phones, or the restoration ends in IndexError *)
Lemma sylls_loop_grouping_or_error_gen : forall (ss : list str) (phs pre : list str) (strip_ : bool) (psep ssep acc : str),
  Forall (fun s : str => s <> []) ss -> Forall (fun ph : str => ph <> []) pre -> Forall (fun ph : str => ph <> []) phs ->
  concat ss = concat phs ->
  (exists syls : list (list str), concat syls = phs /\ map (@concat char) syls = ss)
  \/ sylls_loop ss (map (@length char) (pre ++ phs)) (length pre) strip_ psep ssep acc = Raise IndexError.
Proof.
  induction ss as [|s r IH]; intros phs pre strip_ psep ssep acc Hss Hpre Hphs Heq.
  - left. exists []. split; [|reflexivity]. destruct phs as [|ph phs]; [reflexivity|].
    cbn [concat] in Heq. pose proof (Forall_inv Hphs) as Hph. destruct ph; [congruence | discriminate].
  - pose proof (Forall_inv Hss) as Hs. pose proof (Forall_inv_tail Hss) as Hr. cbn [concat] in Heq.
    destruct (syllable_end phs s (concat r) Hphs Hs Heq)
      as (syl & [(phs' & -> & -> & Hrest) | (p1 & p2 & phs' & -> & -> & Hp1 & Hp2 & Hrest)]).
    + (* the syllable is made of whole phones: go on with the next one *)
      pose proof (Forall_app_l _ _ _ Hphs) as Hsyl. pose proof (Forall_app_r _ _ _ Hphs) as Hphs'.
      cbn [sylls_loop].
      rewrite (phones_loop_spec syl pre phs' psep acc _ Hsyl (le_n _)). cbn [bind fst snd].
      specialize (IH phs' (pre ++ syl) strip_ psep ssep).
      rewrite app_length, <- app_assoc in IH.
      destruct (IH (((if strip_
                      then chop (acc ++ concat (map (fun ph : str => ph ++ psep) syl)) (length psep)
                      else acc ++ concat (map (fun ph : str => ph ++ psep) syl))) ++ ssep)
                   Hr (proj2 (Forall_app _ _ _) (conj Hpre Hsyl)) Hphs' Hrest)
        as [(syls' & Hc & Hm) | Herr].
      * left. exists (syl :: syls'). cbn [concat map]. rewrite Hc, Hm. split; reflexivity.
      * right. exact Herr.
    + (* the syllable ends inside the phone p1 ++ p2: its index entry is used up by p1 alone *)
      right. pose proof (Forall_app_l _ _ _ Hphs) as Hsyl.
      cbn [sylls_loop].
      rewrite (phones_loop_cut syl pre p1 p2 phs' psep acc _ Hsyl Hp1 (le_n _)). cbn [bind fst snd].
      apply sylls_loop_too_long.
      * apply lengths_positive. apply Forall_app. split; assumption.
      * rewrite Hrest.
        replace (length pre + length syl + 1) with (length (map (@length char) (pre ++ syl ++ [p1 ++ p2])))
          by (rewrite map_length, !app_length; cbn [length]; lia).
        replace (map (@length char) (pre ++ syl ++ (p1 ++ p2) :: phs'))
          with (map (@length char) (pre ++ syl ++ [p1 ++ p2]) ++ map (@length char) phs')
          by (rewrite <- map_app, <- !app_assoc; reflexivity).
        rewrite skipn_length_app, list_sum_lengths, app_length.
        destruct p2; [congruence | cbn [length]; lia].
Qed.

(* T4: a syllable boundary inside a phone never goes unnoticed *)
Theorem sylls_loop_cut_phone : forall (ss : list str) (phs : list str) (strip_ : bool) (psep ssep acc : str),
  Forall (fun s : str => s <> []) ss -> Forall (fun ph : str => ph <> []) phs -> concat ss = concat phs ->
  (forall syls : list (list str), concat syls = phs -> map (@concat char) syls <> ss) ->
  sylls_loop ss (map (@length char) phs) 0 strip_ psep ssep acc = Raise IndexError.
Proof.
  intros ss phs strip_ psep ssep acc Hss Hphs Heq Hno.
  destruct (sylls_loop_grouping_or_error_gen ss phs [] strip_ psep ssep acc Hss (Forall_nil _) Hphs Heq)
    as [(syls & Hc & Hm) | Herr]; [|exact Herr].
  exfalso. exact (Hno syls Hc Hm).
Qed.

Lemma grouping_nonempty (syls : list (list str)) (ss phs : list str) :
  Forall (fun s : str => s <> []) ss -> Forall (fun ph : str => ph <> []) phs ->
  concat syls = phs -> map (@concat char) syls = ss ->
  Forall (fun syl : list str => syl <> [] /\ Forall (fun ph : str => ph <> []) syl) syls.
Proof.
  intros Hss Hphs <- <-. induction syls as [|syl r IH]; [constructor|].
  cbn [concat map] in *. constructor.
  - split; [|exact (Forall_app_l _ _ _ Hphs)].
    intros ->. exact (Forall_inv Hss eq_refl).
  - exact (IH (Forall_inv_tail Hss) (Forall_app_r _ _ _ Hphs)).
Qed.

(* T4, both directions: the restoration of a word succeeds exactly when its syllables are a grouping of
   its phones, and then T2 gives the result; otherwise it ends in IndexError *)
Theorem sylls_loop_ok_iff_grouping : forall (ss : list str) (phs : list str) (strip_ : bool) (psep ssep acc : str),
  Forall (fun s : str => s <> []) ss -> Forall (fun ph : str => ph <> []) phs -> concat ss = concat phs ->
  ((exists syls : list (list str), concat syls = phs /\ map (@concat char) syls = ss /\
      sylls_loop ss (map (@length char) phs) 0 strip_ psep ssep acc
      = Ok (acc ++ concat (map (fun syl : list str => syll_out strip_ psep syl ++ ssep) syls), length phs))
   \/ ((forall syls : list (list str), concat syls = phs -> map (@concat char) syls <> ss) /\
       sylls_loop ss (map (@length char) phs) 0 strip_ psep ssep acc = Raise IndexError)).
Proof.
  intros ss phs strip_ psep ssep acc Hss Hphs Heq.
  destruct (sylls_loop_grouping_or_error_gen ss phs [] strip_ psep ssep acc Hss (Forall_nil _) Hphs Heq)
    as [(syls & Hc & Hm) | Herr].
  - left. exists syls. split; [exact Hc | split; [exact Hm|]].
    pose proof (grouping_nonempty syls ss phs Hss Hphs Hc Hm) as Hne.
    pose proof (sylls_loop_spec syls [] [] strip_ psep ssep acc Hne) as Hrun.
    cbn [app length] in Hrun. rewrite app_nil_r, Hc, Hm in Hrun. exact Hrun.
  - right. split; [|exact Herr].
    intros syls Hc Hm. cbn [app length] in Herr.
    pose proof (grouping_nonempty syls ss phs Hss Hphs Hc Hm) as Hne.
    pose proof (sylls_loop_spec syls [] [] strip_ psep ssep acc Hne) as Hrun.
    cbn [app length] in Hrun. rewrite app_nil_r, Hc, Hm in Hrun. rewrite Hrun in Herr. discriminate.
Qed.

(* ---------- concrete checks ---------- *)

Example restore_ex_ok :      (* "ab" "c" | "def", phones ab c d ef *)
  sylls_loop [[97;98;99]; [100;101;102]]%N [2;1;1;2] 0 false [46%N] [45%N] []
  = Ok ([97;98;46;99;46;45; 100;46;101;102;46;45]%N, 4).
Proof. reflexivity. Qed.

Example restore_ex_ok_strip :
  sylls_loop [[97;98;99]; [100;101;102]]%N [2;1;1;2] 0 true [46%N] [45%N] []
  = Ok ([97;98;46;99;45; 100;46;101;102;45]%N, 4).
Proof. reflexivity. Qed.

Example restore_ex_cut :     (* syllables "a" "bcdef": the boundary is inside the phone "ab" *)
  sylls_loop [[97]; [98;99;100;101;102]]%N [2;1;1;2] 0 false [46%N] [45%N] [] = Raise IndexError.
Proof. reflexivity. Qed.

Print Assumptions phones_loop_spec.
Print Assumptions sylls_loop_spec.
Print Assumptions sylls_loop_phones_unchanged.
Print Assumptions sylls_loop_chars_unchanged.
Print Assumptions sylls_loop_cut_phone.
Print Assumptions sylls_loop_ok_iff_grouping.
