(* C14, word level with the filling vowel (silent S0 = Some sc). *)
From WS Require Import Base.Py Base.Str Separator.Model Syll.Model Syll.Proofs Syll.ProofsRemove.

Lemma replace_single_notin (c : char) (s : str) : ~ In c s -> replace_all [c] [] s = s.
Proof.
  intros Hn. unfold replace_all. rewrite <- (app_nil_r s) at 1.
  rewrite (replace_go_notin c [] s [] Hn). cbn [replace_go]. apply app_nil_r.
Qed.

Section SyllFilling.
Variable S0 : syllabifier.

Lemma in_render (strip_ : bool) (syls : list syl) (c : char) :
  In c (render S0 strip_ syls) -> In c (concat (map syl_str syls)) \/ In c (osyll S0).
Proof.
  unfold render. destruct strip_.
  - induction syls as [|s r IH]; [intros []|].
    cbn [map]. destruct r as [|s2 r].
    + cbn [map join concat]. rewrite app_nil_r. auto.
    + change (join (osyll S0) (syl_str s :: map syl_str (s2 :: r)))
        with (syl_str s ++ osyll S0 ++ join (osyll S0) (map syl_str (s2 :: r))).
      intros H. apply in_app_or in H. destruct H as [H | H].
      * left. cbn [concat]. apply in_or_app. left. exact H.
      * apply in_app_or in H. destruct H as [H | H]; [right; exact H|].
        destruct (IH H) as [H' | H']; [left | right; exact H'].
        cbn [concat]. apply in_or_app. right. exact H'.
  - induction syls as [|s r IH]; [intros []|].
    cbn [map concat]. intros H. apply in_app_or in H. destruct H as [H | H].
    + apply in_app_or in H. destruct H as [H | H]; [left | right; exact H].
      apply in_or_app. left. exact H.
    + destruct (IH H) as [H' | H']; [left | right; exact H'].
      apply in_or_app. right. exact H'.
Qed.

(* a word that has a vowel and does not contain the filling vowel is treated
   as without the option: the output has the shape of part A and is conservative *)
Theorem syllabify_word_filling_with_vowel (w : str) (strip_ : bool) (out : str) (sc : char) :
  silent S0 = Some sc -> has_vowels S0 w = true ->
  ~ In sc w -> ~ In sc (osyll S0) ->
  syllabify_word S0 w strip_ = Ok out ->
  word_shape S0 w strip_ out /\ remove (sy_sep S0) out (Some Syll) = Ok w.
Proof.
  intros Hsil Hv Hw Ho H.
  destruct (syllabify_word_shape_filling S0 w strip_ out sc Hsil H) as (out0 & Hout & Hshape & Hrm).
  rewrite Hv in Hshape, Hrm.
  assert (Hn : ~ In sc out0).
  { destruct Hshape as (leftover & syls & Hw' & Hout0 & _). subst out0. intros Hin.
    apply in_render in Hin. destruct Hin as [Hin | Hin]; [|contradiction].
    apply Hw. rewrite Hw'. apply in_or_app. right. exact Hin. }
  rewrite (replace_single_notin sc out0 Hn) in Hout. subst out0. auto.
Qed.

(* the loop over consonants only emits nothing *)
Lemma word_loop_novowel : forall (fuel : nat) (strip_ : bool) (rw : list char) (syllable out : str),
  novowel S0 rw = true -> word_loop S0 fuel strip_ rw syllable out = out.
Proof.
  induction fuel as [|f IH]; intros strip_ rw syllable out Hn; [reflexivity|].
  destruct rw as [|c rw]; [reflexivity|]. cbn [word_loop].
  unfold novowel in Hn. cbn [forallb] in Hn. apply andb_true_iff in Hn. destruct Hn as [Hc Hn].
  destruct (is_vowel_char S0 c); [discriminate|]. apply IH. exact Hn.
Qed.

Lemma novowel_app (a b : str) : novowel S0 (a ++ b) = novowel S0 a && novowel S0 b.
Proof. unfold novowel. apply forallb_app. Qed.

Lemma novowel_rev (a : str) : novowel S0 (rev a) = novowel S0 a.
Proof.
  induction a as [|c a IH]; [reflexivity|]. cbn [rev]. rewrite novowel_app, IH.
  unfold novowel. cbn [forallb]. rewrite andb_true_r. apply andb_comm.
Qed.

(* the vowel-less word completed by the filling vowel: one syllable, whose
   onset is the longest listed suffix reachable one character at a time *)
Lemma word_loop_filling (w : str) (strip_ : bool) (sc : char) :
  novowel S0 w = true -> is_vowel_char S0 sc = true ->
  exists (leftover onset : str),
    w = leftover ++ onset /\
    (onset = [] \/ mem_str onset (onsets S0) = true) /\
    word_loop S0 (length (w ++ [sc])) strip_ (rev (w ++ [sc])) [] [] =
    render S0 strip_ [{| s_onset := onset; s_vowel := sc; s_coda := [] |}].
Proof.
  intros Hn Hsc. rewrite rev_unit, app_length. cbn [length]. rewrite Nat.add_1_r.
  cbn [word_loop]. rewrite Hsc.
  destruct (build_onset S0 (rev w) [sc]) as [rw2 syl2] eqn:Hb.
  apply build_onset_spec in Hb. destruct Hb as (onset & Hrw & Hs2 & Hl & _ & _).
  rewrite rev_involutive in Hrw.
  exists (rev rw2), onset. split; [exact Hrw|]. split; [exact Hl|].
  rewrite word_loop_novowel.
  - rewrite <- render_onto_nil. cbn [render_onto fold_right]. unfold emit, syl_str.
    cbn [s_onset s_vowel s_coda]. rewrite Hs2. reflexivity.
  - rewrite <- novowel_rev. rewrite Hrw, novowel_app in Hn. apply andb_true_iff in Hn. tauto.
Qed.

Lemma has_vowels_false_novowel (w : str) :
  Forall (fun v : str => length v = 1) (vowels S0) -> has_vowels S0 w = false -> novowel S0 w = true.
Proof.
  intros Hv Hh. apply novowel_forall. intros c Hc.
  destruct (is_vowel_char S0 c) eqn:Hvc; [|reflexivity].
  assert (has_vowels S0 w = true) by (apply (has_vowels_iff S0 w Hv); exists c; auto). congruence.
Qed.

(* vowel-less word with the filling vowel: the output is the word itself as
   one vowel-less syllable (followed by the separator unless strip), and the
   whole word is a listed onset *)
Theorem syllabify_word_filling_no_vowel (w : str) (strip_ : bool) (out : str) (sc x0 : char) (xr : str) :
  silent S0 = Some sc -> is_vowel_char S0 sc = true ->
  Forall (fun v : str => length v = 1) (vowels S0) ->
  has_vowels S0 w = false ->
  s_syll (sy_sep S0) = Some (x0 :: xr) ->
  ~ In x0 w -> ~ In sp w -> ~ In sc w -> ~ In sc (x0 :: xr) -> sc <> sp ->
  syllabify_word S0 w strip_ = Ok out ->
  out = (if strip_ then w else w ++ x0 :: xr) /\
  (w = [] \/ mem_str w (onsets S0) = true) /\
  remove (sy_sep S0) out (Some Syll) = Ok w.
Proof.
  intros Hsil Hsc Hv1 Hhv Hx Hx0 Hsp Hscw Hscx Hscsp H.
  assert (Ho : osyll S0 = x0 :: xr) by (unfold osyll; rewrite Hx; reflexivity).
  pose proof (has_vowels_false_novowel w Hv1 Hhv) as Hn.
  destruct (word_loop_filling w strip_ sc Hn Hsc) as (leftover & onset & Hw & Hl & Hloop).
  set (s := {| s_onset := onset; s_vowel := sc; s_coda := [] |}) in Hloop.
  assert (Hcat : concat (map syl_str [s]) = onset ++ [sc]).
  { cbn [map concat]. rewrite app_nil_r. reflexivity. }
  assert (Hrm : remove (sy_sep S0) (render S0 strip_ [s]) (Some Syll) = Ok (onset ++ [sc])).
  { rewrite <- Hcat. apply (remove_render S0 strip_ x0 xr [s] Hx); rewrite Hcat; intros Hin;
      apply in_app_or in Hin; destruct Hin as [Hin | [Hin | []]].
    - apply Hx0. rewrite Hw. apply in_or_app. right. exact Hin.
    - apply Hscx. left. symmetry. exact Hin.
    - apply Hsp. rewrite Hw. apply in_or_app. right. exact Hin.
    - apply Hscsp. exact Hin. }
  unfold syllabify_word in H.
  destruct (unknown_char S0 w); [discriminate|].
  rewrite Hhv, Hsil in H. cbn [bind] in H. rewrite Hloop, Hrm in H. cbn [bind] in H.
  destruct (str_eqb (w ++ [sc]) (onset ++ [sc])) eqn:He; cbn [negb] in H; [|discriminate].
  apply str_eqb_eq in He. apply app_inj_tail in He. destruct He as [He _]. subst onset.
  injection H as <-.
  assert (Hout : replace_go [sc] [] (render S0 strip_ [s]) 0 = if strip_ then w else w ++ x0 :: xr).
  { unfold render. rewrite Ho. destruct strip_.
    - cbn [map join]. unfold syl_str. cbn [s s_onset s_vowel s_coda].
      change (w ++ [sc]) with (w ++ [sc] ++ []).
      rewrite (replace_go_notin sc [] w _ Hscw), replace_go_sep. cbn [replace_go]. apply app_nil_r.
    - cbn [map concat]. unfold syl_str. cbn [s s_onset s_vowel s_coda]. rewrite app_nil_r, <- app_assoc.
      change (sc :: [] ++ x0 :: xr) with ([sc] ++ x0 :: xr).
      rewrite (replace_go_notin sc [] w _ Hscw), replace_go_sep.
      rewrite <- (app_nil_r (x0 :: xr)) at 1. rewrite (replace_go_notin sc [] (x0 :: xr) [] Hscx).
      cbn [replace_go]. rewrite app_nil_r. reflexivity. }
  rewrite Hout. split; [reflexivity|]. split.
  - exact Hl.
  - rewrite (remove_syll _ _ _ Hx). unfold replace_all. destruct strip_.
    + rewrite <- (app_nil_r w) at 1. rewrite (replace_go_notin x0 xr w [] Hx0). cbn [replace_go].
      rewrite app_nil_r, (collapse_spaces_nosp _ Hsp). reflexivity.
    + rewrite <- (app_nil_r (x0 :: xr)) at 2.
      rewrite (replace_go_notin x0 xr w _ Hx0), replace_go_sep. cbn [replace_go].
      rewrite app_nil_r, (collapse_spaces_nosp _ Hsp). reflexivity.
Qed.

End SyllFilling.

Lemma filter_len_le {A : Type} (f : A -> bool) (l : list A) : length (filter f l) <= length l.
Proof. induction l as [|x l IH]; [cbn; lia|]. cbn [filter]. destruct (f x); cbn [length]; lia. Qed.

(* the filling vowel chosen by mk_syllabifier is a vowel character and not a listed symbol *)
Lemma find_silent_notin : forall (fuel : nat) (code : N) (syms : list char),
  length (filter (fun x : char => (code <=? x)%N) syms) < fuel ->
  mem_char (find_silent fuel code syms) syms = false.
Proof.
  induction fuel as [|f IH]; intros code syms Hlt; [lia|].
  cbn [find_silent]. destruct (mem_char code syms) eqn:Hm; [|exact Hm].
  apply IH.
  unfold mem_char in Hm. apply existsb_exists in Hm. destruct Hm as (x & Hin & He).
  apply N.eqb_eq in He. subst x.
  assert (Hgen : forall l : list char, In code l ->
            length (filter (fun x : char => (code + 1 <=? x)%N) l) < length (filter (fun x : char => (code <=? x)%N) l)).
  { induction l as [|y l IHl]; [intros []|]. intros Hi. cbn [filter].
    assert (Hle : length (filter (fun x : char => (code + 1 <=? x)%N) l) <= length (filter (fun x : char => (code <=? x)%N) l)).
    { clear. induction l as [|z l IHz]; [cbn; lia|]. cbn [filter].
      destruct (N.leb_spec (code + 1) z); destruct (N.leb_spec code z); cbn [length]; lia. }
    destruct Hi as [-> | Hi].
    - rewrite N.leb_refl. destruct (N.leb_spec (code + 1) code); [lia|]. cbn [length]. lia.
    - specialize (IHl Hi).
      destruct (N.leb_spec (code + 1) y); destruct (N.leb_spec code y); cbn [length]; lia. }
  specialize (Hgen syms Hin). lia.
Qed.

Theorem mk_syllabifier_filling (ons vow : list str) (sep : separator) (S0 : syllabifier) :
  mk_syllabifier ons vow sep true = Ok S0 ->
  exists sc : char,
    silent S0 = Some sc /\ is_vowel_char S0 sc = true /\
    mem_char sc (concat vow ++ concat ons) = false /\
    onsets S0 = ons /\ vowels S0 = vow ++ [[sc]] /\ sy_sep S0 = sep.
Proof.
  unfold mk_syllabifier. destruct vow as [|v vow]; [discriminate|]. destruct ons as [|o ons]; [discriminate|].
  cbv zeta.
  assert (Hnot : mem_char (find_silent (S (length (concat (v :: vow) ++ concat (o :: ons)))) 1%N
                                       (concat (v :: vow) ++ concat (o :: ons)))
                          (concat (v :: vow) ++ concat (o :: ons)) = false).
  { apply find_silent_notin.
    pose proof (filter_len_le (fun x : char => (1 <=? x)%N) (concat (v :: vow) ++ concat (o :: ons))). lia. }
  remember (find_silent (S (length (concat (v :: vow) ++ concat (o :: ons)))) 1%N
                        (concat (v :: vow) ++ concat (o :: ons))) as sc eqn:Hsc.
  intros [= <-]. exists sc. cbn [silent vowels onsets sy_sep]. split; [reflexivity|]. split.
  - unfold is_vowel_char. cbn [vowels]. apply mem_str_In.
    apply (in_or_app (v :: vow) [[sc]] [sc]). right. left. reflexivity.
  - split; [exact Hnot|]. auto.
Qed.

(* ---------- the hypotheses are needed ---------- *)
Module Counterexamples.
  Definition a := 97%N. Definition t := 116%N.
  Definition sep0 : separator := {| s_phone := None; s_syll := Some [59%N]; s_word := Some [95%N] |}.
  (* an onset containing a vowel character: one syllable "ata" with two vowel characters *)
  Definition S2 : syllabifier :=
    {| onsets := [[t]; [a; t]]; vowels := [[a]]; symbols := [a; t]; silent := None; sy_sep := sep0 |}.
  Example two_vowels_in_one_syllable : syllabify_word S2 [a; t; a] true = Ok [a; t; a].
  Proof. reflexivity. Qed.
  (* a two-character vowel is seen by has_vowels but never by the loop: the word is rejected *)
  Definition S3 : syllabifier :=
    {| onsets := [[t]]; vowels := [[a; a]]; symbols := [a; t]; silent := None; sy_sep := sep0 |}.
  Example long_vowel_rejected :
    has_vowels S3 [t; a; a] = true /\ syllabify_word S3 [t; a; a] false = Raise RuntimeError.
  Proof. split; reflexivity. Qed.
  (* onsets are extended one character at a time: "tr" listed without "r" is never found *)
  Definition r := 114%N.
  Definition S4 : syllabifier :=
    {| onsets := [[t]; [t; r]]; vowels := [[a]]; symbols := [a; t; r]; silent := None; sy_sep := sep0 |}.
  Example onset_not_suffix_closed : syllabify_word S4 [t; r; a] false = Raise RuntimeError.
  Proof. reflexivity. Qed.
End Counterexamples.
