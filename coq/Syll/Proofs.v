(* C14, word level: shape of the output of the maximal-onset word loop and
   its consequences for syllabify_word. Depends on Base/, Separator/Model.v
   and Syll/Model.v only. *)
From WS Require Import Base.Py Base.Str Separator.Model Syll.Model.

(* ---------- separator-independent specification of a syllable ---------- *)

Record syl := { s_onset : str; s_vowel : char; s_coda : str }.
Definition syl_str (s : syl) : str := s_onset s ++ s_vowel s :: s_coda s.

Lemma syl_str_not_nil (s : syl) : syl_str s <> [].
Proof. unfold syl_str. intro H. apply app_eq_nil in H. destruct H as [_ H]. discriminate. Qed.

Lemma join_not_nil (sep x : str) (l : list str) : x <> [] -> join sep (x :: l) <> [].
Proof.
  intros Hx. cbn [join]. destruct l as [|y l]; [exact Hx|].
  intro H. apply app_eq_nil in H. destruct H as [H _]. contradiction.
Qed.

Lemma mem_str_In (s : str) (l : list str) : mem_str s l = true <-> In s l.
Proof.
  unfold mem_str. rewrite existsb_exists. split.
  - intros (x & Hin & He). apply str_eqb_eq in He. subst. exact Hin.
  - intros Hin. exists s. split; [exact Hin | apply str_eqb_refl].
Qed.

Section SyllProofs.
Variable S0 : syllabifier.

(* no character of [s] is a vowel character *)
Definition novowel (s : str) : bool := forallb (fun c : char => negb (is_vowel_char S0 c)) s.

Definition syl_ok (s : syl) : Prop :=
  is_vowel_char S0 (s_vowel s) = true /\
  novowel (s_coda s) = true /\
  (s_onset s = [] \/ mem_str (s_onset s) (onsets S0) = true).

(* [onset] starts right after the text [before]: it cannot be extended
   leftwards by a consonant into another listed onset *)
Definition onset_maximal (before onset : str) : Prop :=
  forall (u : str) (c : char), before = u ++ [c] -> is_vowel_char S0 c = false ->
    mem_str (c :: onset) (onsets S0) = false.

Fixpoint max_onsets (before : str) (syls : list syl) : Prop :=
  match syls with
  | [] => True
  | s :: r => onset_maximal before (s_onset s) /\ max_onsets (before ++ syl_str s) r
  end.

(* the rendering of a list of syllables *)
Definition render (strip_ : bool) (syls : list syl) : str :=
  if strip_ then join (osyll S0) (map syl_str syls)
  else concat (map (fun s : syl => syl_str s ++ osyll S0) syls).

(* one emission step of the loop, and the rendering in front of an existing output *)
Definition emit (strip_ : bool) (s out : str) : str :=
  if strip_ && (match out with [] => true | _ => false end) then s else s ++ osyll S0 ++ out.

Definition render_onto (strip_ : bool) (syls : list syl) (out : str) : str :=
  fold_right (fun (s : syl) (acc : str) => emit strip_ (syl_str s) acc) out syls.

Lemma render_onto_app (strip_ : bool) (a b : list syl) (out : str) :
  render_onto strip_ (a ++ b) out = render_onto strip_ a (render_onto strip_ b out).
Proof. unfold render_onto. apply fold_right_app. Qed.

Lemma render_onto_nil (strip_ : bool) (syls : list syl) :
  render_onto strip_ syls [] = render strip_ syls.
Proof.
  unfold render. destruct strip_.
  - induction syls as [|s r IH]; [reflexivity|].
    change (render_onto true (s :: r) []) with (emit true (syl_str s) (render_onto true r [])).
    rewrite IH. cbn [map].
    destruct r as [|s2 r]; [reflexivity|].
    unfold emit. cbn [andb].
    destruct (join (osyll S0) (map syl_str (s2 :: r))) eqn:Hj.
    + exfalso. cbn [map] in Hj. revert Hj. apply join_not_nil, syl_str_not_nil.
    + rewrite <- Hj. reflexivity.
  - induction syls as [|s r IH]; [reflexivity|].
    change (render_onto false (s :: r) []) with (emit false (syl_str s) (render_onto false r [])).
    rewrite IH. cbn [map concat].
    unfold emit. cbn [andb]. rewrite <- app_assoc. reflexivity.
Qed.

Lemma max_onsets_app (before : str) (a b : list syl) :
  max_onsets before (a ++ b) <->
  max_onsets before a /\ max_onsets (before ++ concat (map syl_str a)) b.
Proof.
  revert before. induction a as [|s a IH]; intros before; cbn [app map concat max_onsets].
  - rewrite app_nil_r. tauto.
  - rewrite IH. rewrite <- app_assoc. tauto.
Qed.

Lemma max_onsets_decomp (before : str) (syls pre post : list syl) (s : syl) :
  max_onsets before syls -> syls = pre ++ s :: post ->
  onset_maximal (before ++ concat (map syl_str pre)) (s_onset s).
Proof.
  intros H ->. apply max_onsets_app in H. destruct H as [_ H]. cbn [max_onsets] in H. tauto.
Qed.

(* ---------- build_onset ---------- *)

Lemma build_onset_loop_spec : forall (rw : list char) (onset : str) (rw2 : list char) (onset2 : str),
  build_onset_loop S0 rw onset = (rw2, onset2) ->
  exists ext : str,
    rw = rev ext ++ rw2 /\ onset2 = ext ++ onset /\
    (ext = [] \/ mem_str onset2 (onsets S0) = true) /\
    (forall (c : char) (r : list char), rw2 = c :: r -> mem_str (c :: onset2) (onsets S0) = false) /\
    length rw2 <= length rw.
Proof.
  induction rw as [|c rw IH]; intros onset rw2 onset2 H; cbn [build_onset_loop] in H.
  - injection H as <- <-. exists []. repeat split; auto. intros; discriminate.
  - destruct (mem_str (c :: onset) (onsets S0)) eqn:Hm.
    + apply IH in H. destruct H as (ext & Hrw & Hon & Hl & Hmax & Hlen).
      exists (ext ++ [c]). rewrite rev_app_distr. cbn [rev app]. rewrite <- app_assoc. cbn [app].
      split; [rewrite Hrw; reflexivity|]. split; [exact Hon|]. split.
      * right. destruct Hl as [-> | Hl]; [subst onset2; exact Hm | exact Hl].
      * split; [exact Hmax|]. cbn [length]. lia.
    + injection H as <- <-. exists []. cbn [rev app]. repeat split; auto.
      intros c0 r [= <- <-]. exact Hm.
Qed.

Lemma build_onset_spec : forall (rw : list char) (syllable : str) (rw2 : list char) (syl2 : str),
  build_onset S0 rw syllable = (rw2, syl2) ->
  exists onset : str,
    rev rw = rev rw2 ++ onset /\ syl2 = onset ++ syllable /\
    (onset = [] \/ mem_str onset (onsets S0) = true) /\
    (forall (c : char) (r : list char), rw2 = c :: r -> is_vowel_char S0 c = false ->
       mem_str (c :: onset) (onsets S0) = false) /\
    length rw2 <= length rw.
Proof.
  intros rw syllable rw2 syl2 H. unfold build_onset in H.
  destruct rw as [|prev rw'].
  - injection H as <- <-. exists []. rewrite app_nil_r. repeat split; auto. intros; discriminate.
  - destruct (is_vowel_char S0 prev) eqn:Hv.
    + injection H as <- <-. exists []. rewrite app_nil_r. repeat split; auto.
      intros c r [= <- <-] Hc. congruence.
    + destruct (build_onset_loop S0 (prev :: rw') []) as [rw3 onset] eqn:Hb.
      injection H as <- <-.
      apply build_onset_loop_spec in Hb. destruct Hb as (ext & Hrw & Hon & Hl & Hmax & Hlen).
      rewrite app_nil_r in Hon. subst ext.
      exists onset. split.
      * rewrite Hrw. rewrite rev_app_distr, rev_involutive. reflexivity.
      * split; [reflexivity|]. split; [exact Hl|]. split; [|exact Hlen].
        intros c r Hr _. exact (Hmax c r Hr).
Qed.

(* ---------- the invariant of the word loop ---------- *)

Theorem word_loop_spec : forall (fuel : nat) (strip_ : bool) (rw : list char) (syllable out : str),
  length rw <= fuel -> novowel syllable = true ->
  exists (leftover : str) (syls : list syl),
    rev rw ++ syllable = leftover ++ concat (map syl_str syls) /\
    word_loop S0 fuel strip_ rw syllable out = render_onto strip_ syls out /\
    Forall syl_ok syls /\
    max_onsets leftover syls /\
    novowel leftover = true.
Proof.
  induction fuel as [|f IH]; intros strip_ rw syllable out Hlen Hnv.
  - destruct rw; [|cbn [length] in Hlen; lia].
    exists syllable, []. cbn [rev app map concat word_loop render_onto fold_right max_onsets].
    rewrite app_nil_r. repeat split; auto.
  - destruct rw as [|c rw'].
    + exists syllable, []. cbn [rev app map concat word_loop render_onto fold_right max_onsets].
      rewrite app_nil_r. repeat split; auto.
    + cbn [word_loop]. cbn [length] in Hlen.
      destruct (is_vowel_char S0 c) eqn:Hv.
      * destruct (build_onset S0 rw' (c :: syllable)) as [rw2 syl2] eqn:Hb.
        apply build_onset_spec in Hb. destruct Hb as (onset & Hrw & Hs2 & Hl & Hmax & Hlen2).
        destruct (IH strip_ rw2 []
                    (if strip_ && match out with [] => true | _ :: _ => false end
                     then syl2 else syl2 ++ osyll S0 ++ out)) as (leftover & syls & Hw & Hout & Hok & Hmo & Hnl).
        { lia. } { reflexivity. }
        rewrite app_nil_r in Hw.
        set (s := {| s_onset := onset; s_vowel := c; s_coda := syllable |}).
        exists leftover, (syls ++ [s]). split.
        { cbn [rev]. rewrite Hrw, Hw. rewrite map_app, concat_app. cbn [map concat].
          rewrite app_nil_r. unfold syl_str. cbn [s s_onset s_vowel s_coda].
          rewrite <- !app_assoc. reflexivity. }
        split.
        { rewrite Hout. rewrite render_onto_app. f_equal.
          cbn [render_onto fold_right]. unfold emit, syl_str. cbn [s s_onset s_vowel s_coda].
          rewrite Hs2. reflexivity. }
        split.
        { apply Forall_app. split; [exact Hok|]. constructor; [|constructor].
          unfold syl_ok. cbn [s s_onset s_vowel s_coda]. auto. }
        split; [|exact Hnl].
        apply max_onsets_app. split; [exact Hmo|]. cbn [max_onsets]. split; [|exact I].
        rewrite <- Hw. cbn [s s_onset]. intros u c0 Hu Hc0.
        apply (Hmax c0 (rev u)); [|exact Hc0].
        rewrite <- (rev_involutive rw2), Hu, rev_app_distr. reflexivity.
      * destruct (IH strip_ rw' (c :: syllable) out) as (leftover & syls & Hw & Hout & Hok & Hmo & Hnl).
        { lia. } { unfold novowel. cbn [forallb]. rewrite Hv. exact Hnv. }
        exists leftover, syls. split.
        { cbn [rev]. rewrite <- app_assoc. exact Hw. }
        auto.
Qed.

(* ---------- the shape of a word: top-level call ---------- *)

(* [out] is a syllabification of [w]: leftover consonants, then syllables
   onset-vowel-coda with listed and maximal onsets *)
Definition word_shape (w : str) (strip_ : bool) (out : str) : Prop :=
  exists (leftover : str) (syls : list syl),
    w = leftover ++ concat (map syl_str syls) /\
    out = render strip_ syls /\
    Forall syl_ok syls /\
    (forall (pre post : list syl) (s : syl) (u : str) (c : char),
        syls = pre ++ s :: post ->
        leftover ++ concat (map syl_str pre) = u ++ [c] ->
        is_vowel_char S0 c = false ->
        mem_str (c :: s_onset s) (onsets S0) = false) /\
    novowel leftover = true.

Theorem word_loop_shape (w : str) (strip_ : bool) :
  word_shape w strip_ (word_loop S0 (length w) strip_ (rev w) [] []).
Proof.
  destruct (word_loop_spec (length w) strip_ (rev w) [] []) as (leftover & syls & Hw & Hout & Hok & Hmo & Hnl).
  { rewrite rev_length. lia. } { reflexivity. }
  rewrite rev_involutive, app_nil_r in Hw. rewrite render_onto_nil in Hout.
  exists leftover, syls. repeat split; auto.
  intros pre post s u c Hs Hu Hc.
  exact (max_onsets_decomp leftover syls pre post s Hmo Hs u c Hu Hc).
Qed.

(* explicit forms of [render] *)
Lemma render_false (syls : list syl) :
  render false syls = concat (map (fun s : syl => syl_str s ++ osyll S0) syls).
Proof. reflexivity. Qed.

Lemma render_true (syls : list syl) :
  render true syls = join (osyll S0) (map syl_str syls).
Proof. reflexivity. Qed.

(* with strip, the last syllable is not followed by the separator *)
Lemma render_true_snoc (syls : list syl) (s : syl) :
  render true (syls ++ [s]) = render false syls ++ syl_str s.
Proof.
  rewrite render_true, render_false. induction syls as [|x r IH]; [reflexivity|].
  cbn [app map concat]. rewrite <- app_assoc, <- IH.
  cbn [join]. destruct (map syl_str (r ++ [s])) eqn:Hm; [|rewrite <- app_assoc; reflexivity].
  apply map_eq_nil in Hm. destruct r; discriminate.
Qed.

(* ---------- syllabify_word ---------- *)

Lemma syllabify_word_inv (w : str) (strip_ : bool) (out : str) :
  syllabify_word S0 w strip_ = Ok out ->
  exists (word1 out0 : str),
    unknown_char S0 w = false /\
    (if has_vowels S0 w then word1 = w
     else exists sc : char, silent S0 = Some sc /\ word1 = w ++ [sc]) /\
    out0 = word_loop S0 (length word1) strip_ (rev word1) [] [] /\
    remove (sy_sep S0) out0 (Some Syll) = Ok word1 /\
    out = match silent S0 with Some sc => replace_all [sc] [] out0 | None => out0 end.
Proof.
  unfold syllabify_word. intros H.
  destruct (unknown_char S0 w); [discriminate|].
  set (r1 := if has_vowels S0 w then Ok w
             else match silent S0 with None => Raise RuntimeError | Some s => Ok (w ++ [s]) end) in H.
  destruct r1 as [word1|e] eqn:Hr1; [|discriminate]. cbn [bind] in H.
  destruct (remove (sy_sep S0) (word_loop S0 (length word1) strip_ (rev word1) [] []) (Some Syll))
    as [removed|e] eqn:Hrm; [|discriminate]. cbn [bind] in H.
  destruct (str_eqb word1 removed) eqn:He; cbn [negb] in H; [|discriminate].
  apply str_eqb_eq in He. subst removed.
  exists word1, (word_loop S0 (length word1) strip_ (rev word1) [] []).
  split; [reflexivity|]. split.
  - subst r1. destruct (has_vowels S0 w); [congruence|].
    destruct (silent S0) as [sc|]; [|discriminate]. exists sc. split; congruence.
  - split; [reflexivity|]. split; [exact Hrm|].
    destruct (silent S0); congruence.
Qed.

Theorem syllabify_word_shape (w : str) (strip_ : bool) (out : str) :
  silent S0 = None -> syllabify_word S0 w strip_ = Ok out -> word_shape w strip_ out.
Proof.
  intros Hs H. apply syllabify_word_inv in H.
  destruct H as (word1 & out0 & _ & Hw1 & Hout0 & _ & Hout).
  rewrite Hs in Hout. subst out.
  destruct (has_vowels S0 w).
  - subst word1 out0. apply word_loop_shape.
  - destruct Hw1 as (sc & Hsc & _). congruence.
Qed.

Theorem syllabify_word_conservative (w : str) (strip_ : bool) (out : str) :
  silent S0 = None -> syllabify_word S0 w strip_ = Ok out ->
  remove (sy_sep S0) out (Some Syll) = Ok w.
Proof.
  intros Hs H. apply syllabify_word_inv in H.
  destruct H as (word1 & out0 & _ & Hw1 & _ & Hrm & Hout).
  rewrite Hs in Hout. subst out.
  destruct (has_vowels S0 w).
  - subst word1. exact Hrm.
  - destruct Hw1 as (sc & Hsc & _). congruence.
Qed.

(* the filling-vowel case: the loop runs on the word (completed by the silent
   vowel when it has no vowel); the silent vowel is erased afterwards *)
Theorem syllabify_word_shape_filling (w : str) (strip_ : bool) (out : str) (sc : char) :
  silent S0 = Some sc -> syllabify_word S0 w strip_ = Ok out ->
  exists (out0 : str),
    let word1 := if has_vowels S0 w then w else w ++ [sc] in
    out = replace_all [sc] [] out0 /\
    word_shape word1 strip_ out0 /\
    remove (sy_sep S0) out0 (Some Syll) = Ok word1.
Proof.
  intros Hs H. apply syllabify_word_inv in H.
  destruct H as (word1 & out0 & _ & Hw1 & Hout0 & Hrm & Hout).
  rewrite Hs in Hout. exists out0. cbn zeta.
  assert (Hw : word1 = if has_vowels S0 w then w else w ++ [sc]).
  { destruct (has_vowels S0 w); [exact Hw1|].
    destruct Hw1 as (sc' & Hsc' & ->). congruence. }
  rewrite <- Hw. split; [exact Hout|]. split; [|exact Hrm].
  subst out0. apply word_loop_shape.
Qed.

Lemma remove_error (sep : separator) (u : str) (l : option level) (e : exn) :
  remove sep u l = Raise e -> e = ValueError /\ exists lv : level, l = Some lv /\ get_level sep lv = None.
Proof.
  unfold remove. destruct l as [lv|]; [|discriminate].
  unfold check_level. destruct (get_level sep lv) eqn:Hg; cbn [bind]; [discriminate|].
  intros [= <-]. split; [reflexivity|]. exists lv. auto.
Qed.

Theorem syllabify_word_errors (w : str) (strip_ : bool) (e : exn) :
  syllabify_word S0 w strip_ = Raise e ->
  (e = RuntimeError \/ e = ValueError) /\
  (s_syll (sy_sep S0) <> None -> e = RuntimeError).
Proof.
  unfold syllabify_word. intros H.
  destruct (unknown_char S0 w); [injection H as <-; auto|].
  set (r1 := if has_vowels S0 w then Ok w
             else match silent S0 with None => Raise RuntimeError | Some s => Ok (w ++ [s]) end) in H.
  assert (Hr1 : forall e1 : exn, r1 = Raise e1 -> e1 = RuntimeError).
  { subst r1. intros e1. destruct (has_vowels S0 w); [discriminate|].
    destruct (silent S0); [discriminate|]. congruence. }
  destruct r1 as [word1|e1]; cbn [bind] in H.
  - destruct (remove (sy_sep S0) (word_loop S0 (length word1) strip_ (rev word1) [] []) (Some Syll))
      as [removed|e2] eqn:Hrm; cbn [bind] in H.
    + destruct (negb (str_eqb word1 removed)).
      * injection H as <-. auto.
      * destruct (silent S0); discriminate.
    + injection H as <-. apply remove_error in Hrm.
      destruct Hrm as (-> & lv & [= <-] & Hg). cbn [get_level] in Hg.
      split; [auto|]. intros Hn. contradiction.
  - injection H as <-. rewrite (Hr1 e1 eq_refl). auto.
Qed.

Theorem syllabify_word_rejects_unknown (w : str) (strip_ : bool) :
  unknown_char S0 w = true -> syllabify_word S0 w strip_ = Raise RuntimeError.
Proof. intros H. unfold syllabify_word. rewrite H. reflexivity. Qed.

Theorem syllabify_word_rejects_no_vowel (w : str) (strip_ : bool) :
  unknown_char S0 w = false -> has_vowels S0 w = false -> silent S0 = None ->
  syllabify_word S0 w strip_ = Raise RuntimeError.
Proof. intros H1 H2 H3. unfold syllabify_word. rewrite H1, H2, H3. reflexivity. Qed.

(* ---------- exactly one vowel per syllable ---------- *)

Definition onsets_novowel : Prop :=
  forall (o : str) (c : char), In o (onsets S0) -> In c o -> is_vowel_char S0 c = false.

Lemma novowel_filter (s : str) : novowel s = true -> filter (is_vowel_char S0) s = [].
Proof.
  unfold novowel. induction s as [|c s IH]; [reflexivity|].
  cbn [forallb filter]. intros H. apply andb_true_iff in H. destruct H as [Hc Hs].
  destruct (is_vowel_char S0 c); [discriminate|]. auto.
Qed.

Lemma novowel_forall (s : str) :
  novowel s = true <-> forall c : char, In c s -> is_vowel_char S0 c = false.
Proof.
  unfold novowel. rewrite forallb_forall. split; intros H c Hc; specialize (H c Hc).
  - destruct (is_vowel_char S0 c); [discriminate | reflexivity].
  - rewrite H. reflexivity.
Qed.

Theorem syl_one_vowel (s : syl) :
  onsets_novowel -> syl_ok s -> length (filter (is_vowel_char S0) (syl_str s)) = 1.
Proof.
  intros Hon (Hv & Hc & Ho). unfold syl_str. rewrite filter_app. cbn [filter]. rewrite Hv.
  rewrite (novowel_filter _ Hc).
  assert (Hno : novowel (s_onset s) = true).
  { destruct Ho as [-> | Ho]; [reflexivity|]. apply novowel_forall. intros c Hc'.
    apply mem_str_In in Ho. exact (Hon _ _ Ho Hc'). }
  rewrite (novowel_filter _ Hno). reflexivity.
Qed.

(* single-character vowels are not needed for the count itself, the hypothesis
   is kept in the statement requested for C14 *)
Theorem syllabify_word_one_vowel (w : str) (strip_ : bool) (out : str) :
  onsets_novowel -> Forall (fun v : str => length v = 1) (vowels S0) ->
  silent S0 = None -> syllabify_word S0 w strip_ = Ok out ->
  exists (leftover : str) (syls : list syl),
    w = leftover ++ concat (map syl_str syls) /\
    out = render strip_ syls /\
    novowel leftover = true /\
    Forall (fun s : syl => length (filter (is_vowel_char S0) (syl_str s)) = 1) syls /\
    length (filter (is_vowel_char S0) w) = length syls.
Proof.
  intros Hon _ Hs H. destruct (syllabify_word_shape w strip_ out Hs H)
    as (leftover & syls & Hw & Hout & Hok & _ & Hnl).
  exists leftover, syls. split; [exact Hw|]. split; [exact Hout|]. split; [exact Hnl|].
  assert (H1 : Forall (fun s : syl => length (filter (is_vowel_char S0) (syl_str s)) = 1) syls).
  { eapply Forall_impl; [|exact Hok]. intros s. apply syl_one_vowel. exact Hon. }
  split; [exact H1|].
  rewrite Hw, filter_app, (novowel_filter _ Hnl). cbn [app].
  clear -H1. induction H1 as [|s r Hs _ IH]; [reflexivity|].
  cbn [map concat length]. rewrite filter_app, app_length, Hs, IH. reflexivity.
Qed.

(* ---------- has_vowels and vowel characters (single-character vowels) ---------- *)

Lemma infix_single (v : char) (w : str) :
  infix_b [v] w = existsb (fun c : char => (v =? c)%N) w.
Proof.
  induction w as [|c w IH]; [reflexivity|].
  cbn [infix_b prefix_b existsb]. rewrite IH. rewrite andb_true_r. reflexivity.
Qed.

Lemma has_vowels_iff (w : str) :
  Forall (fun v : str => length v = 1) (vowels S0) ->
  (has_vowels S0 w = true <-> exists c : char, In c w /\ is_vowel_char S0 c = true).
Proof.
  intros Hv. unfold has_vowels, is_vowel_char. rewrite existsb_exists. split.
  - intros (v & Hin & Hi). rewrite Forall_forall in Hv. specialize (Hv v Hin).
    destruct v as [|c [|? ?]]; try discriminate.
    rewrite infix_single in Hi. apply existsb_exists in Hi. destruct Hi as (c' & Hc' & He).
    apply N.eqb_eq in He. subst c'. exists c. split; [exact Hc'|]. apply mem_str_In. exact Hin.
  - intros (c & Hc & Hm). apply mem_str_In in Hm. exists [c]. split; [exact Hm|].
    rewrite infix_single. apply existsb_exists. exists c. split; [exact Hc | apply N.eqb_refl].
Qed.

(* a word with a vowel has at least one syllable *)
Theorem syllabify_word_has_syllable (w : str) (strip_ : bool) (out : str) :
  Forall (fun v : str => length v = 1) (vowels S0) ->
  silent S0 = None -> syllabify_word S0 w strip_ = Ok out ->
  exists (leftover : str) (syls : list syl),
    w = leftover ++ concat (map syl_str syls) /\ out = render strip_ syls /\ syls <> [].
Proof.
  intros Hv Hs H. pose proof (syllabify_word_inv w strip_ out H) as Hinv.
  destruct Hinv as (word1 & _ & _ & Hw1 & _).
  destruct (has_vowels S0 w) eqn:Hhv.
  2:{ destruct Hw1 as (sc & Hsc & _). congruence. }
  destruct (syllabify_word_shape w strip_ out Hs H) as (leftover & syls & Hw & Hout & _ & _ & Hnl).
  exists leftover, syls. split; [exact Hw|]. split; [exact Hout|].
  intros ->. cbn [map concat] in Hw. rewrite app_nil_r in Hw. subst leftover.
  apply (has_vowels_iff w Hv) in Hhv. destruct Hhv as (c & Hc & Hvc).
  rewrite novowel_forall in Hnl. rewrite (Hnl c Hc) in Hvc. discriminate.
Qed.

End SyllProofs.
