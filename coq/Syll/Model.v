(* Model of wordseg/syllabification.py: Syllabifier.__init__, syllabify and
   its helpers, at character level. *)
From WS Require Import Base.Py Base.Str Separator.Model.

Record syllabifier := {
  onsets : list str;
  vowels : list str;          (* with the filling vowel appended when enabled *)
  symbols : list char;
  silent : option char;
  sy_sep : separator }.

Definition mem_char (c : char) (l : list char) : bool := existsb (fun x => (c =? x)%N) l.
Definition mem_str (s : str) (l : list str) : bool := existsb (str_eqb s) l.

(* first code point >= 1 that is not a symbol *)
Fixpoint find_silent (fuel : nat) (code : N) (syms : list char) : char :=
  match fuel with
  | O => code
  | S f => if mem_char code syms then find_silent f (code + 1)%N syms else code
  end.

Definition mk_syllabifier (ons vow : list str) (sep : separator) (filling : bool) : result syllabifier :=
  match vow with
  | [] => Raise ValueError
  | _ =>
    match ons with
    | [] => Raise ValueError
    | _ =>
      let syms := concat vow ++ concat ons in
      if filling then
        let s := find_silent (S (length syms)) 1%N syms in
        Ok {| onsets := ons; vowels := vow ++ [[s]]; symbols := s :: syms; silent := Some s; sy_sep := sep |}
      else Ok {| onsets := ons; vowels := vow; symbols := syms; silent := None; sy_sep := sep |}
    end
  end.

Section Syll.
Variable S0 : syllabifier.

Definition is_vowel_char (c : char) : bool := mem_str [c] (vowels S0).

(* word, onset are kept reversed where convenient: [rw] is the word read from its end *)
Fixpoint build_onset_loop (rw : list char) (onset : str) : list char * str :=
  match rw with
  | [] => ([], onset)
  | c :: rw' => if mem_str (c :: onset) (onsets S0) then build_onset_loop rw' (c :: onset) else (rw, onset)
  end.

Definition build_onset (rw : list char) (syllable : str) : list char * str :=
  match rw with
  | [] => (rw, syllable)                                   (* IndexError: no previous char *)
  | prev :: _ =>
    if is_vowel_char prev then (rw, syllable)
    else let '(rw', onset) := build_onset_loop rw [] in (rw', onset ++ syllable)
  end.

Definition osyll : str := match s_syll (sy_sep S0) with Some x => x | None => [] end.

(* the while loop over the reversed word; fuel = length of the word *)
Fixpoint word_loop (fuel : nat) (strip_ : bool) (rw : list char) (syllable out : str) : str :=
  match fuel with
  | O => out
  | S f =>
    match rw with
    | [] => out
    | c :: rw' =>
      let syllable := c :: syllable in
      if is_vowel_char c then
        let '(rw2, syl2) := build_onset rw' syllable in
        let out' := if strip_ && (match out with [] => true | _ => false end) then syl2
                    else syl2 ++ osyll ++ out in
        word_loop f strip_ rw2 [] out'
      else word_loop f strip_ rw' syllable out
    end
  end.

Definition has_vowels (word : str) : bool := existsb (fun v => infix_b v word) (vowels S0).
Definition unknown_char (word : str) : bool := existsb (fun c => negb (mem_char c (symbols S0))) word.

Definition syllabify_word (word : str) (strip_ : bool) : result str :=
  if unknown_char word then Raise RuntimeError
  else
    do word1 <- (if has_vowels word then Ok word
                 else match silent S0 with None => Raise RuntimeError | Some s => Ok (word ++ [s]) end);
    let out := word_loop (length word1) strip_ (rev word1) [] [] in
    do removed <- remove (sy_sep S0) out (Some Syll);
    if negb (str_eqb word1 removed) then Raise RuntimeError
    else match silent S0 with
         | Some s => Ok (replace_all [s] [] out)
         | None => Ok out
         end.

Definition oword : result str := match s_word (sy_sep S0) with Some x => Ok x | None => Raise TypeError end.

Fixpoint utt_loop (rwords : list str) (strip_ : bool) (output : str) : result str :=
  match rwords with
  | [] => Ok output
  | w :: r =>
    do ow <- syllabify_word w strip_;
    if strip_ && negb (nonempty (remove_all (sy_sep S0) output)) then utt_loop r strip_ ow
    else do ws <- oword; utt_loop r strip_ (ow ++ ws ++ output)
  end.

Definition syllabify_utterance (utt : str) (strip_ : bool) : result str :=
  do words <- tokenize (sy_sep S0) utt Word false;
  utt_loop (rev words) strip_ [].

(* _remove_phone_separators *)
Definition remove_phone_separators (utt : str) : result (str * list (list nat)) :=
  match s_phone (sy_sep S0) with
  | None => Ok (utt, [])
  | Some p =>
    if negb (infix_b p utt) then Ok (utt, [])
    else
      do ws <- split (sy_sep S0) utt Word true;
      do idx <- mapM (fun w => do ph <- split (sy_sep S0) w Phone false;
                               Ok (map (@length char) (filter nonempty ph))) ws;
      do u <- remove (sy_sep S0) utt (Some Phone);
      Ok (u, filter (fun l => match l with [] => false | _ => true end) idx)
  end.

Definition chop {A} (l : list A) (n : nat) : list A := firstn (length l - n) l.   (* l[:-n], n > 0 *)

(* while k < len(syllable): restored += syllable[k:k+index[i][j]] + phonesep *)
Fixpoint phones_loop (fuel : nat) (syllable : str) (idx : list nat) (j : nat) (psep acc : str)
  : result (str * nat) :=
  match syllable with
  | [] => Ok (acc, j)
  | _ =>
    match fuel with
    | O => Raise OutOfFuel
    | S f =>
      match nth_error idx j with
      | None => Raise IndexError
      | Some n => phones_loop f (skipn n syllable) idx (S j) psep (acc ++ firstn n syllable ++ psep)
      end
    end
  end.

Fixpoint sylls_loop (sylls : list str) (idx : list nat) (j : nat) (strip_ : bool) (psep ssep acc : str)
  : result (str * nat) :=
  match sylls with
  | [] => Ok (acc, j)
  | s :: r =>
    do aj <- phones_loop (length s) s idx j psep acc;
    let acc1 := if strip_ then chop (fst aj) (length psep) else fst aj in
    sylls_loop r idx (snd aj) strip_ psep ssep (acc1 ++ ssep)
  end.

Fixpoint words_loop (ws : list str) (index : list (list nat)) (i : nat) (strip_ : bool)
         (psep ssep wsep acc : str) : result str :=
  match ws with
  | [] => Ok acc
  | w :: r =>
    match w, strip_ with
    | [], false => words_loop r index (S i) strip_ psep ssep wsep (acc ++ wsep)
    | _, _ =>
      do sylls <- split (sy_sep S0) w Syll true;
      (* index[i] is evaluated lazily, only when a phone is restored *)
      let idx := nth_error index i in
      do aj <- match idx with
               | Some ix => sylls_loop sylls ix 0 strip_ psep ssep acc
               | None => if forallb (fun s => match s with [] => true | _ => false end) sylls
                         then sylls_loop sylls [] 0 strip_ psep ssep acc
                         else Raise IndexError
               end;
      words_loop r index (S i) strip_ psep ssep wsep (chop (fst aj) (length ssep) ++ wsep)
    end
  end.

Definition restore_phone_separators (utt : str) (index : list (list nat)) (strip_ : bool) : result str :=
  match index with
  | [] => Ok utt
  | _ =>
    match s_phone (sy_sep S0), s_syll (sy_sep S0), s_word (sy_sep S0) with
    | Some p, Some s, Some w =>
      do ws <- split (sy_sep S0) utt Word true;
      do r <- words_loop ws index 0 strip_ p s w [];
      Ok (chop r (length w))
    | _, _, _ => Raise TypeError
    end
  end.

Inductive send := SDone | SError (e : exn).

Fixpoint syllabify_loop (text : list str) (strip_ tolerant : bool) : list str * send :=
  match text with
  | [] => ([], SDone)
  | raw :: r =>
    let utt := strip raw in
    match s_syll (sy_sep S0) with
    | None => ([], SError TypeError)
    | Some sy =>
      if infix_b sy utt then ([], SError ValueError)
      else
        match remove_phone_separators utt with
        | Raise e => ([], SError e)
        | Ok (u, index) =>
          match syllabify_utterance u strip_ with
          | Raise RuntimeError =>
            if tolerant then syllabify_loop r strip_ tolerant else ([], SError ValueError)
          | Raise e => ([], SError e)
          | Ok sylls =>
            (* since fix 88bc4d9 the restoration is inside the try block: an IndexError (a multi-character
               phone cut by a syllable boundary) is reported like an unsyllabifiable utterance *)
            match restore_phone_separators sylls index strip_ with
            | Raise IndexError =>
              if tolerant then syllabify_loop r strip_ tolerant else ([], SError ValueError)
            | Raise RuntimeError =>
              if tolerant then syllabify_loop r strip_ tolerant else ([], SError ValueError)
            | Raise e => ([], SError e)
            | Ok o => let '(os, e) := syllabify_loop r strip_ tolerant in (o :: os, e)
            end
          end
        end
    end
  end.

End Syll.

(* syllabify returns a list: an exception discards what was accumulated *)
Definition syllabify (ons vow : list str) (sep : separator) (filling : bool)
           (text : list str) (strip_ tolerant : bool) : result (list str) :=
  do S0 <- mk_syllabifier ons vow sep filling;
  match syllabify_loop S0 text strip_ tolerant with
  | (os, SDone) => Ok os
  | (_, SError e) => Raise e
  end.

(* ---------- wire ---------- *)
Definition run_syllabify (j : J) : J :=
  match j with
  | JL [ons; vow; sepj; fil; text; st; tol] =>
    match d_list d_str ons, d_list d_str vow, d_sep sepj, d_bool fil, d_list d_str text, d_bool st, d_bool tol with
    | Some ons, Some vow, Some sep, Some fil, Some text, Some st, Some tol =>
      j_result (j_list j_str) (syllabify ons vow sep fil text st tol)
    | _, _, _, _, _, _, _ => j_bad end
  | _ => j_bad end.

Definition run_syllabify_word (j : J) : J :=
  match j with
  | JL [ons; vow; sepj; fil; word; st] =>
    match d_list d_str ons, d_list d_str vow, d_sep sepj, d_bool fil, d_str word, d_bool st with
    | Some ons, Some vow, Some sep, Some fil, Some word, Some st =>
      j_result j_str (do S0 <- mk_syllabifier ons vow sep fil; syllabify_word S0 word st)
    | _, _, _, _, _, _ => j_bad end
  | _ => j_bad end.
