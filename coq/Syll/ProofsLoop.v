(* C14, utterance and text level: utt_loop, the strict / tolerant text loop,
   and the classification of the exceptions raised by syllabify. *)
From WS Require Import Base.Py Base.Str Separator.Model Syll.Model Syll.Proofs.

(* ---------- generic lemmas ---------- *)

Lemma mapM_error {A B : Type} (f : A -> result B) (l : list A) (e : exn) :
  mapM f l = Raise e -> exists x : A, In x l /\ f x = Raise e.
Proof.
  induction l as [|x l IH]; cbn [mapM]; [discriminate|].
  destruct (f x) as [y|e1] eqn:Hx; cbn [bind].
  - destruct (mapM f l) as [ys|e2]; cbn [bind]; [discriminate|].
    intros [= <-]. destruct (IH eq_refl) as (x' & Hin & Hx'). exists x'. split; [right; exact Hin | exact Hx'].
  - intros [= <-]. exists x. split; [left; reflexivity | exact Hx].
Qed.

Lemma mapM_ok {A B : Type} (f : A -> result B) (l : list A) (ys : list B) :
  mapM f l = Ok ys -> Forall2 (fun (x : A) (y : B) => f x = Ok y) l ys.
Proof.
  revert ys. induction l as [|x l IH]; cbn [mapM]; intros ys.
  - intros [= <-]. constructor.
  - destruct (f x) as [y|e1] eqn:Hx; cbn [bind]; [|discriminate].
    destruct (mapM f l) as [ys'|e2]; cbn [bind]; [|discriminate].
    intros [= <-]. constructor; [exact Hx | apply IH; reflexivity].
Qed.

Lemma split_error (sep : separator) (u : str) (l : level) (k : bool) (e : exn) :
  split sep u l k = Raise e -> e = ValueError /\ get_level sep l = None.
Proof.
  unfold split. destruct (get_level sep l); [discriminate|]. intros [= <-]. auto.
Qed.

Lemma tokenize_error (sep : separator) (u : str) (l : level) (k : bool) (e : exn) :
  tokenize sep u l k = Raise e -> e = ValueError /\ get_level sep l = None.
Proof.
  unfold tokenize, check_level. destruct (get_level sep l); cbn [bind]; [discriminate|].
  intros [= <-]. auto.
Qed.

Lemma tokenize_ok_level (sep : separator) (u : str) (l : level) (k : bool) (ws : list str) :
  tokenize sep u l k = Ok ws -> get_level sep l <> None.
Proof.
  unfold tokenize, check_level. destruct (get_level sep l); cbn [bind]; [discriminate|discriminate].
Qed.

Section SyllLoop.
Variable S0 : syllabifier.

(* ---------- D. utt_loop without strip ---------- *)

Theorem utt_loop_nostrip : forall (rwords : list str) (output out ws : str),
  s_word (sy_sep S0) = Some ws ->
  utt_loop S0 rwords false output = Ok out ->
  exists outs : list str,
    Forall2 (fun w ow : str => syllabify_word S0 w false = Ok ow) (rev rwords) outs /\
    out = concat (map (fun ow : str => ow ++ ws) outs) ++ output.
Proof.
  induction rwords as [|w r IH]; intros output out ws Hws H; cbn [utt_loop] in H.
  - injection H as <-. exists []. split; [constructor | reflexivity].
  - destruct (syllabify_word S0 w false) as [ow|e] eqn:Hw; cbn [bind andb] in H; [|discriminate].
    unfold oword in H. rewrite Hws in H. cbn [bind] in H.
    destruct (IH _ _ _ Hws H) as (outs & HF & Hout).
    exists (outs ++ [ow]). split.
    + cbn [rev]. apply Forall2_app; [exact HF|]. constructor; [exact Hw | constructor].
    + rewrite Hout, map_app, concat_app. cbn [map concat]. rewrite app_nil_r, <- !app_assoc. reflexivity.
Qed.

Theorem utt_loop_words (words : list str) (out ws : str) :
  s_word (sy_sep S0) = Some ws ->
  utt_loop S0 (rev words) false [] = Ok out ->
  exists outs : list str,
    Forall2 (fun w ow : str => syllabify_word S0 w false = Ok ow) words outs /\
    out = concat (map (fun ow : str => ow ++ ws) outs).
Proof.
  intros Hws H. destruct (utt_loop_nostrip _ _ _ _ Hws H) as (outs & HF & Hout).
  rewrite rev_involutive in HF. rewrite app_nil_r in Hout. exists outs. auto.
Qed.

Theorem syllabify_utterance_nostrip (u out : str) :
  syllabify_utterance S0 u false = Ok out ->
  exists (ws : str) (words outs : list str),
    s_word (sy_sep S0) = Some ws /\
    tokenize (sy_sep S0) u Word false = Ok words /\
    Forall2 (fun w ow : str => syllabify_word S0 w false = Ok ow) words outs /\
    out = concat (map (fun ow : str => ow ++ ws) outs).
Proof.
  unfold syllabify_utterance. intros H.
  destruct (tokenize (sy_sep S0) u Word false) as [words|e] eqn:Ht; cbn [bind] in H; [|discriminate].
  pose proof (tokenize_ok_level _ _ _ _ _ Ht) as Hl. cbn [get_level] in Hl.
  destruct (s_word (sy_sep S0)) as [ws|] eqn:Hws; [|contradiction].
  destruct (utt_loop_words words out ws Hws H) as (outs & HF & Hout).
  exists ws, words, outs. auto.
Qed.

(* ---------- errors of the utterance level ---------- *)

Lemma utt_loop_error : forall (rwords : list str) (strip_ : bool) (output : str) (e : exn),
  utt_loop S0 rwords strip_ output = Raise e ->
  e = RuntimeError \/ (e = ValueError /\ s_syll (sy_sep S0) = None) \/
  (e = TypeError /\ s_word (sy_sep S0) = None).
Proof.
  induction rwords as [|w r IH]; intros strip_ output e H; cbn [utt_loop] in H; [discriminate|].
  destruct (syllabify_word S0 w strip_) as [ow|e1] eqn:Hw; cbn [bind] in H.
  - destruct (strip_ && negb (nonempty (remove_all (sy_sep S0) output))).
    + exact (IH _ _ _ H).
    + unfold oword in H. destruct (s_word (sy_sep S0)); cbn [bind] in H.
      * exact (IH _ _ _ H).
      * injection H as <-. auto.
  - injection H as <-. apply syllabify_word_errors in Hw. destruct Hw as [[-> | ->] Hs]; [auto|].
    right. left. split; [reflexivity|].
    destruct (s_syll (sy_sep S0)); [|reflexivity]. assert (ValueError = RuntimeError) by (apply Hs; discriminate). discriminate.
Qed.

Lemma syllabify_utterance_error (u : str) (strip_ : bool) (e : exn) :
  syllabify_utterance S0 u strip_ = Raise e ->
  e = RuntimeError \/
  (e = ValueError /\ (s_syll (sy_sep S0) = None \/ s_word (sy_sep S0) = None)).
Proof.
  unfold syllabify_utterance. intros H.
  destruct (tokenize (sy_sep S0) u Word false) as [words|e1] eqn:Ht; cbn [bind] in H.
  - pose proof (tokenize_ok_level _ _ _ _ _ Ht) as Hl. cbn [get_level] in Hl.
    apply utt_loop_error in H. destruct H as [H | [[-> H] | [_ H]]]; auto. contradiction.
  - injection H as <-. apply tokenize_error in Ht. cbn [get_level] in Ht. destruct Ht as [-> Ht]. auto.
Qed.

(* ---------- remove_phone_separators ---------- *)

Definition idx_pos (index : list (list nat)) : Prop :=
  Forall (fun ix : list nat => Forall (fun n : nat => 1 <= n) ix) index.

Lemma remove_phone_separators_error (u : str) (e : exn) :
  remove_phone_separators S0 u = Raise e -> e = ValueError /\ s_word (sy_sep S0) = None.
Proof.
  unfold remove_phone_separators.
  destruct (s_phone (sy_sep S0)) as [p|] eqn:Hp; [|discriminate].
  destruct (negb (infix_b p u)); [discriminate|].
  destruct (split (sy_sep S0) u Word true) as [ws|e1] eqn:Hs; cbn [bind].
  - match goal with |- context [mapM ?f ws] => destruct (mapM f ws) as [idx|e2] eqn:Hm end; cbn [bind].
    + destruct (remove (sy_sep S0) u (Some Phone)) as [u'|e3] eqn:Hr; cbn [bind]; [discriminate|].
      intros [= <-]. apply remove_error in Hr. destruct Hr as (_ & lv & [= <-] & Hg).
      cbn [get_level] in Hg. congruence.
    + intros [= <-]. apply mapM_error in Hm. destruct Hm as (w & _ & Hw).
      destruct (split (sy_sep S0) w Phone false) as [ph|e3] eqn:Hs2; cbn [bind] in Hw; [discriminate|].
      apply split_error in Hs2. cbn [get_level] in Hs2. destruct Hs2 as [_ Hs2]. congruence.
  - intros [= <-]. apply split_error in Hs. exact Hs.
Qed.

Lemma remove_phone_separators_index (u u' : str) (index : list (list nat)) :
  remove_phone_separators S0 u = Ok (u', index) ->
  idx_pos index /\
  (index <> [] -> s_phone (sy_sep S0) <> None /\ s_word (sy_sep S0) <> None).
Proof.
  unfold remove_phone_separators, idx_pos.
  destruct (s_phone (sy_sep S0)) as [p|] eqn:Hp.
  2:{ intros [= <- <-]. split; [constructor | intros H; contradiction]. }
  destruct (negb (infix_b p u)).
  { intros [= <- <-]. split; [constructor | intros H; contradiction]. }
  destruct (split (sy_sep S0) u Word true) as [ws|e1] eqn:Hs; cbn [bind]; [|discriminate].
  match goal with |- context [mapM ?f ws] => destruct (mapM f ws) as [idx|e2] eqn:Hm end; cbn [bind]; [|discriminate].
  destruct (remove (sy_sep S0) u (Some Phone)) as [u2|e3]; cbn [bind]; [|discriminate].
  intros [= <- <-]. split.
  - apply mapM_ok in Hm. apply Forall_forall. intros ix Hin. apply filter_In in Hin. destruct Hin as [Hin _].
    clear -Hm Hin. induction Hm as [|w ix' ws idx Hw _ IH]; [destruct Hin|].
    destruct Hin as [<- | Hin]; [|exact (IH Hin)].
    destruct (split (sy_sep S0) w Phone false) as [ph|e]; cbn [bind] in Hw; [|discriminate].
    injection Hw as <-. apply Forall_forall. intros n Hn. apply in_map_iff in Hn.
    destruct Hn as (s & <- & Hs). apply filter_In in Hs. destruct Hs as [_ Hs].
    destruct s; [discriminate | cbn [length]; lia].
  - intros _. split; [discriminate|]. unfold split in Hs. cbn [get_level] in Hs.
    destruct (s_word (sy_sep S0)); [discriminate | discriminate].
Qed.

(* ---------- restore_phone_separators: IndexError only, never OutOfFuel ---------- *)

Lemma phones_loop_error : forall (fuel : nat) (s : str) (idx : list nat) (j : nat) (psep acc : str) (e : exn),
  length s <= fuel -> Forall (fun n : nat => 1 <= n) idx ->
  phones_loop fuel s idx j psep acc = Raise e -> e = IndexError.
Proof.
  induction fuel as [|f IH]; intros s idx j psep acc e Hlen Hidx H.
  - destruct s; [discriminate | cbn [length] in Hlen; lia].
  - destruct s as [|c s]; [discriminate|]. cbn [phones_loop] in H.
    destruct (nth_error idx j) as [n|] eqn:Hn.
    + apply IH in H; [exact H | | exact Hidx].
      apply nth_error_In in Hn. rewrite Forall_forall in Hidx. specialize (Hidx n Hn).
      rewrite skipn_length. cbn [length] in *. lia.
    + congruence.
Qed.

(* the statement asked for: with fuel = length of the syllable and positive
   index entries, the fuel never runs out *)
Theorem phones_loop_never_out_of_fuel (s : str) (idx : list nat) (j : nat) (psep acc : str) :
  Forall (fun n : nat => 1 <= n) idx ->
  phones_loop (length s) s idx j psep acc <> Raise OutOfFuel.
Proof.
  intros Hidx H. apply phones_loop_error in H; [discriminate | lia | exact Hidx].
Qed.

(* without the hypothesis the fuel can run out: an index entry 0 loops forever in Python *)
Example phones_loop_zero_entry :
  phones_loop 1 [97%N] [0] 0 [] [] = Raise OutOfFuel.
Proof. reflexivity. Qed.

Lemma sylls_loop_error : forall (sylls : list str) (idx : list nat) (j : nat) (strip_ : bool)
    (psep ssep acc : str) (e : exn),
  Forall (fun n : nat => 1 <= n) idx ->
  sylls_loop sylls idx j strip_ psep ssep acc = Raise e -> e = IndexError.
Proof.
  induction sylls as [|s r IH]; intros idx j strip_ psep ssep acc e Hidx H; cbn [sylls_loop] in H; [discriminate|].
  destruct (phones_loop (length s) s idx j psep acc) as [aj|e1] eqn:Hp; cbn [bind] in H.
  - exact (IH _ _ _ _ _ _ _ Hidx H).
  - injection H as <-. apply phones_loop_error in Hp; [exact Hp | lia | exact Hidx].
Qed.

Lemma words_loop_body_error (r : list str) (w : str) (index : list (list nat)) (i : nat) (strip_ : bool)
    (psep ssep wsep acc : str) (e : exn)
    (IH : forall (acc' : str), words_loop S0 r index (S i) strip_ psep ssep wsep acc' = Raise e ->
                               e = IndexError \/ (e = ValueError /\ s_syll (sy_sep S0) = None)) :
  idx_pos index ->
  (do sylls <- split (sy_sep S0) w Syll true;
   do aj <- match nth_error index i with
            | Some ix => sylls_loop sylls ix 0 strip_ psep ssep acc
            | None => if forallb (fun s : str => match s with [] => true | _ => false end) sylls
                      then sylls_loop sylls [] 0 strip_ psep ssep acc
                      else Raise IndexError
            end;
   words_loop S0 r index (S i) strip_ psep ssep wsep (chop (fst aj) (length ssep) ++ wsep)) = Raise e ->
  e = IndexError \/ (e = ValueError /\ s_syll (sy_sep S0) = None).
Proof.
  intros Hidx H.
  destruct (split (sy_sep S0) w Syll true) as [sylls|e1] eqn:Hs; cbn [bind] in H.
  - destruct (nth_error index i) as [ix|] eqn:Hn.
    + destruct (sylls_loop sylls ix 0 strip_ psep ssep acc) as [aj|e2] eqn:Hl; cbn [bind] in H.
      * exact (IH _ H).
      * injection H as <-. left. apply sylls_loop_error in Hl; [exact Hl|].
        apply nth_error_In in Hn. unfold idx_pos in Hidx. rewrite Forall_forall in Hidx. exact (Hidx ix Hn).
    + destruct (forallb (fun s : str => match s with [] => true | _ => false end) sylls).
      * destruct (sylls_loop sylls [] 0 strip_ psep ssep acc) as [aj|e2] eqn:Hl; cbn [bind] in H.
        -- exact (IH _ H).
        -- injection H as <-. left. apply sylls_loop_error in Hl; [exact Hl | constructor].
      * cbn [bind] in H. injection H as <-. auto.
  - injection H as <-. apply split_error in Hs. cbn [get_level] in Hs. destruct Hs as [-> Hs]. auto.
Qed.

Lemma words_loop_error : forall (ws : list str) (index : list (list nat)) (i : nat) (strip_ : bool)
    (psep ssep wsep acc : str) (e : exn),
  idx_pos index ->
  words_loop S0 ws index i strip_ psep ssep wsep acc = Raise e ->
  e = IndexError \/ (e = ValueError /\ s_syll (sy_sep S0) = None).
Proof.
  induction ws as [|w r IH]; intros index i strip_ psep ssep wsep acc e Hidx H; cbn [words_loop] in H; [discriminate|].
  destruct w as [|c w]; [destruct strip_|].
  - eapply words_loop_body_error; [|exact Hidx|exact H]. intros acc' H'. exact (IH _ _ _ _ _ _ _ _ Hidx H').
  - exact (IH _ _ _ _ _ _ _ _ Hidx H).
  - eapply words_loop_body_error; [|exact Hidx|exact H]. intros acc' H'. exact (IH _ _ _ _ _ _ _ _ Hidx H').
Qed.

Lemma restore_phone_separators_error (u : str) (index : list (list nat)) (strip_ : bool) (e : exn) :
  idx_pos index ->
  restore_phone_separators S0 u index strip_ = Raise e ->
  e = IndexError \/
  (e = TypeError /\ index <> [] /\
   (s_phone (sy_sep S0) = None \/ s_syll (sy_sep S0) = None \/ s_word (sy_sep S0) = None)).
Proof.
  intros Hidx. unfold restore_phone_separators.
  destruct index as [|ix index]; [discriminate|].
  destruct (s_phone (sy_sep S0)) as [p|] eqn:Hp.
  2:{ intros [= <-]. right. split; [reflexivity|]. split; [discriminate | auto]. }
  destruct (s_syll (sy_sep S0)) as [s|] eqn:Hs.
  2:{ intros [= <-]. right. split; [reflexivity|]. split; [discriminate | auto]. }
  destruct (s_word (sy_sep S0)) as [w|] eqn:Hw.
  2:{ intros [= <-]. right. split; [reflexivity|]. split; [discriminate | auto]. }
  destruct (split (sy_sep S0) u Word true) as [ws|e1] eqn:Hsp; cbn [bind].
  - destruct (words_loop S0 ws (ix :: index) 0 strip_ p s w []) as [r|e2] eqn:Hl; cbn [bind]; [discriminate|].
    intros [= <-]. apply words_loop_error in Hl; [|exact Hidx].
    destruct Hl as [-> | [_ Hl]]; [auto | congruence].
  - intros _. apply split_error in Hsp. cbn [get_level] in Hsp. destruct Hsp as [_ Hsp]. congruence.
Qed.

(* ---------- C. one line, then the loop ---------- *)

(* what the loop computes for one line (the body of the try block): Ok out,
   Raise RuntimeError when the utterance cannot be syllabified or, since fix
   88bc4d9, when its phone separators cannot be restored (the IndexError of
   the restoration is re-raised as RuntimeError inside the try block), or
   another exception *)
Definition line_result (strip_ : bool) (raw : str) : result str :=
  let utt := strip raw in
  match s_syll (sy_sep S0) with
  | None => Raise TypeError
  | Some sy =>
    if infix_b sy utt then Raise ValueError
    else
      match remove_phone_separators S0 utt with
      | Raise e => Raise e
      | Ok (u, index) =>
        match syllabify_utterance S0 u strip_ with
        | Raise e => Raise e
        | Ok sylls =>
          match restore_phone_separators S0 sylls index strip_ with
          | Raise IndexError => Raise RuntimeError
          | lr => lr
          end
        end
      end
  end.

(* the exceptions of one line, with their origin: IndexError does not leave
   the try block any more *)
Theorem line_result_error_no_index (strip_ : bool) (raw : str) (e : exn) :
  line_result strip_ raw = Raise e ->
  e = RuntimeError \/ e = ValueError \/ (e = TypeError /\ s_syll (sy_sep S0) = None).
Proof.
  unfold line_result. destruct (s_syll (sy_sep S0)) as [sy|] eqn:Hsy.
  2:{ intros [= <-]. auto. }
  destruct (infix_b sy (strip raw)). { intros [= <-]. auto. }
  destruct (remove_phone_separators S0 (strip raw)) as [[u index]|e1] eqn:Hr.
  2:{ intros [= <-]. apply remove_phone_separators_error in Hr. destruct Hr as [-> _]. auto. }
  apply remove_phone_separators_index in Hr. destruct Hr as [Hidx Hdef].
  destruct (syllabify_utterance S0 u strip_) as [sylls|e2] eqn:Hu.
  2:{ intros [= <-]. apply syllabify_utterance_error in Hu. destruct Hu as [-> | [-> _]]; auto. }
  destruct (restore_phone_separators S0 sylls index strip_) as [o|e3] eqn:Hre; [discriminate|].
  apply restore_phone_separators_error in Hre; [|exact Hidx].
  destruct Hre as [-> | (-> & Hne & Hnone)]; [intros [= <-]; auto|]. intros _. exfalso.
  destruct (Hdef Hne) as [Hp Hw].
  destruct Hnone as [H | [H | H]]; congruence.
Qed.

(* the weaker statement that held before fix 88bc4d9 (IndexError could escape) *)
Theorem line_result_error (strip_ : bool) (raw : str) (e : exn) :
  line_result strip_ raw = Raise e ->
  e = RuntimeError \/ e = ValueError \/ e = IndexError \/
  (e = TypeError /\ s_syll (sy_sep S0) = None).
Proof.
  intros H. apply line_result_error_no_index in H. destruct H as [H | [H | H]]; auto.
Qed.

Definition loop_step (tolerant : bool) (lr : result str) (rest : list str * send) : list str * send :=
  match lr with
  | Ok o => (o :: fst rest, snd rest)
  | Raise RuntimeError => if tolerant then rest else ([], SError ValueError)
  | Raise e => ([], SError e)
  end.

(* RuntimeError reaches the loop from syllabify_utterance or from the failed
   restoration of the phone separators: the loop is a fold of [loop_step] over
   the line results *)
Theorem syllabify_loop_step (raw : str) (r : list str) (strip_ tolerant : bool) :
  syllabify_loop S0 (raw :: r) strip_ tolerant =
  loop_step tolerant (line_result strip_ raw) (syllabify_loop S0 r strip_ tolerant).
Proof.
  cbn [syllabify_loop]. unfold line_result.
  destruct (s_syll (sy_sep S0)) as [sy|] eqn:Hsy; [|reflexivity].
  destruct (infix_b sy (strip raw)); [reflexivity|].
  destruct (remove_phone_separators S0 (strip raw)) as [[u index]|e1] eqn:Hr.
  2:{ apply remove_phone_separators_error in Hr. destruct Hr as [-> _]. reflexivity. }
  clear Hr.
  destruct (syllabify_utterance S0 u strip_) as [sylls|e2] eqn:Hu.
  2:{ destruct e2; reflexivity. }
  destruct (restore_phone_separators S0 sylls index strip_) as [o|e3] eqn:Hre.
  - cbn [loop_step]. destruct (syllabify_loop S0 r strip_ tolerant). reflexivity.
  - destruct e3; reflexivity.
Qed.

(* an utterance whose phone separators cannot be restored is treated like an unsyllabifiable one *)
Theorem syllabify_loop_restore_error_strict (raw : str) (r : list str) (strip_ : bool)
    (sy u : str) (index : list (list nat)) (sylls : str) :
  s_syll (sy_sep S0) = Some sy -> infix_b sy (strip raw) = false ->
  remove_phone_separators S0 (strip raw) = Ok (u, index) ->
  syllabify_utterance S0 u strip_ = Ok sylls ->
  restore_phone_separators S0 sylls index strip_ = Raise IndexError ->
  syllabify_loop S0 (raw :: r) strip_ false = ([], SError ValueError).
Proof.
  intros Hsy Hinf Hrem Hu Hre. cbn [syllabify_loop]. rewrite Hsy, Hinf, Hrem, Hu, Hre. reflexivity.
Qed.

Theorem syllabify_loop_restore_error_tolerant (raw : str) (r : list str) (strip_ : bool)
    (sy u : str) (index : list (list nat)) (sylls : str) :
  s_syll (sy_sep S0) = Some sy -> infix_b sy (strip raw) = false ->
  remove_phone_separators S0 (strip raw) = Ok (u, index) ->
  syllabify_utterance S0 u strip_ = Ok sylls ->
  restore_phone_separators S0 sylls index strip_ = Raise IndexError ->
  syllabify_loop S0 (raw :: r) strip_ true = syllabify_loop S0 r strip_ true.
Proof.
  intros Hsy Hinf Hrem Hu Hre. cbn [syllabify_loop]. rewrite Hsy, Hinf, Hrem, Hu, Hre. reflexivity.
Qed.

(* in terms of [line_result]: such a line is unsyllabifiable *)
Theorem line_result_restore_error (raw : str) (strip_ : bool)
    (sy u : str) (index : list (list nat)) (sylls : str) :
  s_syll (sy_sep S0) = Some sy -> infix_b sy (strip raw) = false ->
  remove_phone_separators S0 (strip raw) = Ok (u, index) ->
  syllabify_utterance S0 u strip_ = Ok sylls ->
  restore_phone_separators S0 sylls index strip_ = Raise IndexError ->
  line_result strip_ raw = Raise RuntimeError.
Proof.
  intros Hsy Hinf Hrem Hu Hre. unfold line_result. rewrite Hsy, Hinf, Hrem, Hu, Hre. reflexivity.
Qed.

Lemma syllabify_loop_nil (strip_ tolerant : bool) : syllabify_loop S0 [] strip_ tolerant = ([], SDone).
Proof. reflexivity. Qed.

(* the loop over a ++ b *)
Theorem syllabify_loop_app (a b : list str) (strip_ tolerant : bool) :
  syllabify_loop S0 (a ++ b) strip_ tolerant =
  match syllabify_loop S0 a strip_ tolerant with
  | (oa, SDone) => (oa ++ fst (syllabify_loop S0 b strip_ tolerant), snd (syllabify_loop S0 b strip_ tolerant))
  | (oa, SError e) => (oa, SError e)
  end.
Proof.
  induction a as [|raw a IH].
  - cbn [app]. rewrite syllabify_loop_nil. cbn [app]. destruct (syllabify_loop S0 b strip_ tolerant); reflexivity.
  - cbn [app]. rewrite !syllabify_loop_step, IH.
    destruct (syllabify_loop S0 a strip_ tolerant) as [oa [|ea]];
      destruct (line_result strip_ raw) as [o|[]]; cbn [loop_step fst snd app]; try reflexivity;
      destruct tolerant; reflexivity.
Qed.

(* outputs of the accepted lines, in order *)
Definition accepted (strip_ : bool) (raw : str) : bool :=
  match line_result strip_ raw with Ok _ => true | Raise _ => false end.

Definition line_outs (strip_ : bool) (text : list str) : list str :=
  flat_map (fun raw : str => match line_result strip_ raw with Ok o => [o] | Raise _ => [] end) text.

Definition ok_or_unsyllabifiable (strip_ : bool) (raw : str) : Prop :=
  (exists o : str, line_result strip_ raw = Ok o) \/ line_result strip_ raw = Raise RuntimeError.

Theorem syllabify_loop_tolerant (text : list str) (strip_ : bool) :
  Forall (ok_or_unsyllabifiable strip_) text ->
  syllabify_loop S0 text strip_ true = (line_outs strip_ text, SDone).
Proof.
  induction 1 as [|raw r Hraw _ IH]; [reflexivity|].
  rewrite syllabify_loop_step, IH. unfold line_outs. cbn [flat_map].
  destruct Hraw as [[o ->] | ->]; reflexivity.
Qed.

Theorem syllabify_loop_all_ok (text outs : list str) (strip_ tolerant : bool) :
  Forall2 (fun raw o : str => line_result strip_ raw = Ok o) text outs ->
  syllabify_loop S0 text strip_ tolerant = (outs, SDone).
Proof.
  induction 1 as [|raw o r outs Hraw _ IH]; [reflexivity|].
  rewrite syllabify_loop_step, IH, Hraw. reflexivity.
Qed.

(* strict mode: the first unsyllabifiable line stops the loop with ValueError *)
Theorem syllabify_loop_strict_error (pre post outs : list str) (raw : str) (strip_ : bool) :
  Forall2 (fun raw' o : str => line_result strip_ raw' = Ok o) pre outs ->
  line_result strip_ raw = Raise RuntimeError ->
  syllabify_loop S0 (pre ++ raw :: post) strip_ false = (outs, SError ValueError).
Proof.
  intros Hpre Hraw. rewrite syllabify_loop_app, (syllabify_loop_all_ok _ _ _ _ Hpre).
  rewrite syllabify_loop_step, Hraw. cbn [loop_step fst snd]. rewrite app_nil_r. reflexivity.
Qed.

(* any other exception stops the loop in both modes *)
Theorem syllabify_loop_other_error (pre post outs : list str) (raw : str) (strip_ tolerant : bool) (e : exn) :
  Forall2 (fun raw' o : str => line_result strip_ raw' = Ok o) pre outs ->
  line_result strip_ raw = Raise e -> e <> RuntimeError ->
  syllabify_loop S0 (pre ++ raw :: post) strip_ tolerant = (outs, SError e).
Proof.
  intros Hpre Hraw He. rewrite syllabify_loop_app, (syllabify_loop_all_ok _ _ _ _ Hpre).
  rewrite syllabify_loop_step, Hraw.
  destruct e; try contradiction; cbn [loop_step fst snd]; rewrite app_nil_r; reflexivity.
Qed.

(* unconditional form: the tolerant loop is the strict loop over the text
   from which the unsyllabifiable lines have been removed *)
Definition unsyllabifiable (strip_ : bool) (raw : str) : bool :=
  match line_result strip_ raw with Raise RuntimeError => true | _ => false end.

Theorem syllabify_loop_tolerant_is_strict_on_filtered (text : list str) (strip_ : bool) :
  syllabify_loop S0 text strip_ true =
  syllabify_loop S0 (filter (fun raw : str => negb (unsyllabifiable strip_ raw)) text) strip_ false.
Proof.
  induction text as [|raw r IH]; [reflexivity|].
  cbn [filter]. unfold unsyllabifiable at 1.
  destruct (line_result strip_ raw) as [o|e] eqn:Hl.
  - cbn [negb]. rewrite !syllabify_loop_step, Hl, IH. reflexivity.
  - destruct e; cbn [negb]; rewrite ?syllabify_loop_step, ?Hl; cbn [loop_step]; try reflexivity.
    exact IH.
Qed.

(* tolerant output = the strict outputs of exactly the accepted utterances, in order *)
Theorem syllabify_loop_tolerant_filter (text : list str) (strip_ : bool) :
  Forall (ok_or_unsyllabifiable strip_) text ->
  syllabify_loop S0 text strip_ true =
  (concat (map (fun raw : str => fst (syllabify_loop S0 [raw] strip_ false))
               (filter (accepted strip_) text)), SDone) /\
  Forall (fun raw : str => exists o : str, syllabify_loop S0 [raw] strip_ false = ([o], SDone))
         (filter (accepted strip_) text).
Proof.
  intros H. rewrite (syllabify_loop_tolerant _ _ H). split.
  - f_equal. unfold line_outs. clear H. induction text as [|raw r IH]; [reflexivity|].
    cbn [flat_map filter]. unfold accepted at 1.
    destruct (line_result strip_ raw) as [o|e] eqn:Hl.
    + cbn [map concat]. rewrite syllabify_loop_step, Hl. cbn [loop_step syllabify_loop fst].
      rewrite IH. reflexivity.
    + cbn [app]. exact IH.
  - apply Forall_forall. intros raw Hin. apply filter_In in Hin. destruct Hin as [_ Ha].
    unfold accepted in Ha. destruct (line_result strip_ raw) as [o|e] eqn:Hl; [|discriminate].
    exists o. rewrite syllabify_loop_step, Hl. reflexivity.
Qed.

(* the exceptions that end the loop: since fix 88bc4d9 IndexError is not one of them *)
Theorem syllabify_loop_error_no_index : forall (text : list str) (strip_ tolerant : bool) (os : list str) (e : exn),
  syllabify_loop S0 text strip_ tolerant = (os, SError e) ->
  e = ValueError \/ (e = TypeError /\ s_syll (sy_sep S0) = None).
Proof.
  induction text as [|raw r IH]; intros strip_ tolerant os e H.
  - discriminate.
  - rewrite syllabify_loop_step in H.
    destruct (line_result strip_ raw) as [o|e1] eqn:Hl.
    + cbn [loop_step] in H. destruct (syllabify_loop S0 r strip_ tolerant) as [os' e'] eqn:Hr.
      cbn [fst snd] in H. injection H as _ ->. exact (IH _ _ _ _ Hr).
    + apply line_result_error_no_index in Hl.
      destruct Hl as [-> | [-> | [-> Hs]]]; cbn [loop_step] in H.
      * destruct tolerant; [exact (IH _ _ _ _ H)|]. injection H as _ <-. auto.
      * injection H as _ <-. auto.
      * injection H as _ <-. auto.
Qed.

(* the weaker statement that held before fix 88bc4d9 *)
Theorem syllabify_loop_error : forall (text : list str) (strip_ tolerant : bool) (os : list str) (e : exn),
  syllabify_loop S0 text strip_ tolerant = (os, SError e) ->
  e = ValueError \/ e = IndexError \/ (e = TypeError /\ s_syll (sy_sep S0) = None).
Proof.
  intros text strip_ tolerant os e H. apply syllabify_loop_error_no_index in H. destruct H as [H | H]; auto.
Qed.

End SyllLoop.

(* ---------- syllabify ---------- *)

Lemma mk_syllabifier_error (ons vow : list str) (sep : separator) (filling : bool) (e : exn) :
  mk_syllabifier ons vow sep filling = Raise e -> e = ValueError.
Proof.
  unfold mk_syllabifier. destruct vow; [congruence|]. destruct ons; [congruence|].
  destruct filling; discriminate.
Qed.

Lemma mk_syllabifier_sep (ons vow : list str) (sep : separator) (filling : bool) (S0 : syllabifier) :
  mk_syllabifier ons vow sep filling = Ok S0 -> sy_sep S0 = sep.
Proof.
  unfold mk_syllabifier. destruct vow; [discriminate|]. destruct ons; [discriminate|].
  destruct filling; intros [= <-]; reflexivity.
Qed.

(* syllabify raises ValueError or TypeError (syllable level undefined); never
   RuntimeError, never OutOfFuel and, since fix 88bc4d9, never IndexError
   (phone separators restored against a too short index: now reported like an
   unsyllabifiable utterance) *)
Theorem syllabify_errors_no_index (ons vow : list str) (sep : separator) (filling : bool)
    (text : list str) (strip_ tolerant : bool) (e : exn) :
  syllabify ons vow sep filling text strip_ tolerant = Raise e ->
  e = ValueError \/ (e = TypeError /\ s_syll sep = None).
Proof.
  unfold syllabify.
  destruct (mk_syllabifier ons vow sep filling) as [S0|e1] eqn:Hmk; cbn [bind].
  - destruct (syllabify_loop S0 text strip_ tolerant) as [os [|e2]] eqn:Hl; [discriminate|].
    intros [= <-]. apply syllabify_loop_error_no_index in Hl.
    rewrite (mk_syllabifier_sep _ _ _ _ _ Hmk) in Hl. exact Hl.
  - intros [= <-]. apply mk_syllabifier_error in Hmk. auto.
Qed.

Corollary syllabify_never_index_error (ons vow : list str) (sep : separator)
    (filling : bool) (text : list str) (strip_ tolerant : bool) :
  syllabify ons vow sep filling text strip_ tolerant <> Raise IndexError.
Proof.
  intros H. apply syllabify_errors_no_index in H. destruct H as [H | [H _]]; discriminate.
Qed.

(* the weaker statement that held before fix 88bc4d9, kept under its name *)
Theorem syllabify_errors (ons vow : list str) (sep : separator) (filling : bool)
    (text : list str) (strip_ tolerant : bool) (e : exn) :
  syllabify ons vow sep filling text strip_ tolerant = Raise e ->
  e = ValueError \/ e = IndexError \/ (e = TypeError /\ s_syll sep = None).
Proof.
  intros H. apply syllabify_errors_no_index in H. destruct H as [H | H]; auto.
Qed.

Corollary syllabify_never_runtime_error_nor_out_of_fuel (ons vow : list str) (sep : separator)
    (filling : bool) (text : list str) (strip_ tolerant : bool) (e : exn) :
  syllabify ons vow sep filling text strip_ tolerant = Raise e ->
  e <> RuntimeError /\ e <> OutOfFuel.
Proof.
  intros H. apply syllabify_errors in H.
  destruct H as [-> | [-> | [-> _]]]; split; discriminate.
Qed.

(* strict mode, at the top level: an unsyllabifiable utterance preceded by
   accepted ones raises ValueError; tolerant mode returns the accepted ones *)
Theorem syllabify_strict_value_error (ons vow : list str) (sep : separator) (filling : bool)
    (S0 : syllabifier) (pre post outs : list str) (raw : str) (strip_ : bool) :
  mk_syllabifier ons vow sep filling = Ok S0 ->
  Forall2 (fun raw' o : str => line_result S0 strip_ raw' = Ok o) pre outs ->
  line_result S0 strip_ raw = Raise RuntimeError ->
  syllabify ons vow sep filling (pre ++ raw :: post) strip_ false = Raise ValueError.
Proof.
  intros Hmk Hpre Hraw. unfold syllabify. rewrite Hmk. cbn [bind].
  rewrite (syllabify_loop_strict_error S0 _ _ _ _ _ Hpre Hraw). reflexivity.
Qed.

Theorem syllabify_tolerant_ok (ons vow : list str) (sep : separator) (filling : bool)
    (S0 : syllabifier) (text : list str) (strip_ : bool) :
  mk_syllabifier ons vow sep filling = Ok S0 ->
  Forall (ok_or_unsyllabifiable S0 strip_) text ->
  syllabify ons vow sep filling text strip_ true = Ok (line_outs S0 strip_ text).
Proof.
  intros Hmk H. unfold syllabify. rewrite Hmk. cbn [bind].
  rewrite (syllabify_loop_tolerant S0 _ _ H). reflexivity.
Qed.

(* the hypotheses of syllabify_loop_restore_error_* are satisfiable: phones "ab" "a" (phone
   separator " ", syllable ";", word "_"), onset b, vowel a: the utterance "aba" is
   syllabified a;ba; which cuts the phone "ab"; the restoration raises IndexError, and
   syllabify raises ValueError (strict) or drops the utterance (tolerant) *)
Definition ex_sep : separator := {| s_phone := Some [32%N]; s_syll := Some [59%N]; s_word := Some [95%N] |}.
Definition ex_S : syllabifier :=
  {| onsets := [[98%N]]; vowels := [[97%N]]; symbols := [97%N; 98%N]; silent := None; sy_sep := ex_sep |}.
Definition ex_raw : str := [97; 98; 32; 97; 32; 95]%N.

Example restore_index_error_witness :
  mk_syllabifier [[98%N]] [[97%N]] ex_sep false = Ok ex_S /\
  remove_phone_separators ex_S (strip ex_raw) = Ok ([97; 98; 97; 95]%N, [[2; 1]]) /\
  syllabify_utterance ex_S [97; 98; 97; 95]%N false = Ok [97; 59; 98; 97; 59; 95]%N /\
  restore_phone_separators ex_S [97; 59; 98; 97; 59; 95]%N [[2; 1]] false = Raise IndexError /\
  syllabify [[98%N]] [[97%N]] ex_sep false [ex_raw] false false = Raise ValueError /\
  syllabify [[98%N]] [[97%N]] ex_sep false [ex_raw] false true = Ok [].
Proof. repeat split; vm_compute; reflexivity. Qed.
