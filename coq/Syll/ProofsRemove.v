(* C14, word level, second part: when the first character of the syllable
   separator and the space do not occur in the word, removing the syllable
   separators from the rendering gives back the syllables; hence a word is
   accepted exactly when the loop leaves no consonant over. *)
From WS Require Import Base.Py Base.Str Separator.Model Syll.Model Syll.Proofs.

(* ---------- replace_go with a separator whose first character is absent ---------- *)

Lemma prefix_b_app (p r : str) : prefix_b p (p ++ r) = true.
Proof.
  induction p as [|c p IH]; [reflexivity|]. cbn [app prefix_b]. rewrite N.eqb_refl, IH. reflexivity.
Qed.

Lemma replace_go_skip (old new pre rest : str) :
  replace_go old new (pre ++ rest) (length pre) = replace_go old new rest 0.
Proof.
  induction pre as [|c pre IH]; [reflexivity|]. cbn [app length replace_go]. exact IH.
Qed.

Lemma replace_go_notin (x0 : char) (xr t rest : str) :
  ~ In x0 t ->
  replace_go (x0 :: xr) [] (t ++ rest) 0 = t ++ replace_go (x0 :: xr) [] rest 0.
Proof.
  induction t as [|c t IH]; intros Hn; [reflexivity|].
  cbn [app]. cbn [replace_go]. cbn [prefix_b].
  destruct (N.eqb_spec x0 c) as [->|Hne].
  - exfalso. apply Hn. left. reflexivity.
  - cbn [andb]. f_equal. apply IH. intros Hin. apply Hn. right. exact Hin.
Qed.

Lemma replace_go_sep (x0 : char) (xr rest : str) :
  replace_go (x0 :: xr) [] ((x0 :: xr) ++ rest) 0 = replace_go (x0 :: xr) [] rest 0.
Proof.
  cbn [app]. cbn [replace_go].
  change (x0 :: xr ++ rest) with ((x0 :: xr) ++ rest). rewrite prefix_b_app.
  cbn [app length]. replace (S (length xr) - 1) with (length xr) by lia. apply replace_go_skip.
Qed.

Lemma collapse_spaces_nosp (t : str) : ~ In sp t -> collapse_spaces t = t.
Proof.
  induction t as [|c t IH]; intros Hn; [reflexivity|]. cbn [collapse_spaces].
  destruct (N.eqb_spec c sp) as [->|Hne].
  - exfalso. apply Hn. left. reflexivity.
  - f_equal. apply IH. intros Hin. apply Hn. right. exact Hin.
Qed.

Lemma remove_syll (sep : separator) (x u : str) :
  s_syll sep = Some x ->
  remove sep u (Some Syll) = Ok (collapse_spaces (replace_all x [] u)).
Proof.
  intros Hx. unfold remove, check_level. cbn [get_level]. rewrite Hx. cbn [bind].
  unfold remove_sel. rewrite Hx. cbn [level_eqb].
  destruct (s_word sep); destruct (s_phone sep); reflexivity.
Qed.

Section SyllRemove.
Variable S0 : syllabifier.

Lemma replace_render (strip_ : bool) (x0 : char) (xr : str) (syls : list syl) :
  osyll S0 = x0 :: xr ->
  ~ In x0 (concat (map syl_str syls)) ->
  replace_go (x0 :: xr) [] (render S0 strip_ syls) 0 = concat (map syl_str syls).
Proof.
  intros Hx. unfold render. rewrite Hx. destruct strip_.
  - induction syls as [|s r IH]; intros Hn; [reflexivity|].
    cbn [map concat] in Hn.
    assert (Hs : ~ In x0 (syl_str s)) by (intros H; apply Hn, in_or_app; left; exact H).
    assert (Hr : ~ In x0 (concat (map syl_str r))) by (intros H; apply Hn, in_or_app; right; exact H).
    cbn [map]. destruct r as [|s2 r].
    + cbn [join map concat]. rewrite <- (app_nil_r (syl_str s)) at 1.
      rewrite (replace_go_notin _ _ _ _ Hs). reflexivity.
    + change (join (x0 :: xr) (syl_str s :: map syl_str (s2 :: r)))
        with (syl_str s ++ (x0 :: xr) ++ join (x0 :: xr) (map syl_str (s2 :: r))).
      rewrite (replace_go_notin _ _ _ _ Hs), replace_go_sep, (IH Hr). reflexivity.
  - induction syls as [|s r IH]; intros Hn; [reflexivity|].
    cbn [map concat] in Hn.
    assert (Hs : ~ In x0 (syl_str s)) by (intros H; apply Hn, in_or_app; left; exact H).
    assert (Hr : ~ In x0 (concat (map syl_str r))) by (intros H; apply Hn, in_or_app; right; exact H).
    cbn [map concat]. rewrite <- !app_assoc.
    rewrite (replace_go_notin _ _ _ _ Hs), replace_go_sep, (IH Hr). reflexivity.
Qed.

(* removing the syllable separators from a rendering gives the syllables back *)
Theorem remove_render (strip_ : bool) (x0 : char) (xr : str) (syls : list syl) :
  s_syll (sy_sep S0) = Some (x0 :: xr) ->
  ~ In x0 (concat (map syl_str syls)) ->
  ~ In sp (concat (map syl_str syls)) ->
  remove (sy_sep S0) (render S0 strip_ syls) (Some Syll) = Ok (concat (map syl_str syls)).
Proof.
  intros Hx Hn Hsp. rewrite (remove_syll _ _ _ Hx).
  assert (Ho : osyll S0 = x0 :: xr) by (unfold osyll; rewrite Hx; reflexivity).
  unfold replace_all. rewrite (replace_render strip_ x0 xr syls Ho Hn).
  rewrite (collapse_spaces_nosp _ Hsp). reflexivity.
Qed.

(* hypotheses on the word: the first character of the syllable separator and
   the space do not occur in it *)
Definition sep_free (w : str) : Prop :=
  exists (x0 : char) (xr : str),
    s_syll (sy_sep S0) = Some (x0 :: xr) /\ ~ In x0 w /\ ~ In sp w.

Lemma str_eqb_leftover (leftover t : str) : str_eqb (leftover ++ t) t = true -> leftover = [].
Proof.
  intros H. apply str_eqb_eq in H. apply (f_equal (@length char)) in H.
  rewrite app_length in H. destruct leftover; [reflexivity | cbn [length] in H; lia].
Qed.

Lemma syllabify_word_decomp (w leftover : str) (syls : list syl) (strip_ : bool) :
  sep_free w -> silent S0 = None ->
  unknown_char S0 w = false -> has_vowels S0 w = true ->
  w = leftover ++ concat (map syl_str syls) ->
  word_loop S0 (length w) strip_ (rev w) [] [] = render S0 strip_ syls ->
  syllabify_word S0 w strip_ =
  if negb (str_eqb w (concat (map syl_str syls))) then Raise RuntimeError else Ok (render S0 strip_ syls).
Proof.
  intros (x0 & xr & Hx & Hn & Hsp) Hsil Hu Hv Hw Hout.
  unfold syllabify_word. rewrite Hu, Hv, Hsil. cbn [bind]. rewrite Hout.
  rewrite (remove_render strip_ x0 xr syls Hx).
  - reflexivity.
  - intros H. apply Hn. rewrite Hw. apply in_or_app. right. exact H.
  - intros H. apply Hsp. rewrite Hw. apply in_or_app. right. exact H.
Qed.

(* an accepted word is entirely covered by its syllables *)
Theorem syllabify_word_shape_full (w : str) (strip_ : bool) (out : str) :
  sep_free w -> silent S0 = None ->
  syllabify_word S0 w strip_ = Ok out ->
  exists syls : list syl,
    w = concat (map syl_str syls) /\
    out = render S0 strip_ syls /\
    Forall (syl_ok S0) syls /\
    max_onsets S0 [] syls.
Proof.
  intros Hfree Hsil H.
  pose proof (syllabify_word_inv S0 w strip_ out H) as (word1 & out0 & Hu & Hw1 & _).
  destruct (has_vowels S0 w) eqn:Hv.
  2:{ destruct Hw1 as (sc & Hsc & _). congruence. }
  destruct (word_loop_spec S0 (length w) strip_ (rev w) [] []) as (leftover & syls & Hw & Hout & Hok & Hmo & Hnl).
  { rewrite rev_length. lia. } { reflexivity. }
  rewrite rev_involutive, app_nil_r in Hw. rewrite render_onto_nil in Hout.
  rewrite (syllabify_word_decomp w leftover syls strip_ Hfree Hsil Hu Hv Hw Hout) in H.
  destruct (str_eqb w (concat (map syl_str syls))) eqn:He; cbn [negb] in H; [|discriminate].
  injection H as <-. rewrite Hw in He. apply str_eqb_leftover in He. subst leftover.
  exists syls. cbn [app] in Hw. auto.
Qed.

(* acceptance and rejection in terms of the decomposition computed by the loop *)
Theorem syllabify_word_accepts (w : str) (syls : list syl) (strip_ : bool) :
  sep_free w -> silent S0 = None ->
  unknown_char S0 w = false -> has_vowels S0 w = true ->
  w = concat (map syl_str syls) ->
  word_loop S0 (length w) strip_ (rev w) [] [] = render S0 strip_ syls ->
  syllabify_word S0 w strip_ = Ok (render S0 strip_ syls).
Proof.
  intros Hfree Hsil Hu Hv Hw Hout.
  rewrite (syllabify_word_decomp w [] syls strip_ Hfree Hsil Hu Hv Hw Hout).
  rewrite <- Hw, str_eqb_refl. reflexivity.
Qed.

Theorem syllabify_word_rejects_leftover (w leftover : str) (syls : list syl) (strip_ : bool) :
  sep_free w -> silent S0 = None ->
  leftover <> [] ->
  w = leftover ++ concat (map syl_str syls) ->
  word_loop S0 (length w) strip_ (rev w) [] [] = render S0 strip_ syls ->
  syllabify_word S0 w strip_ = Raise RuntimeError.
Proof.
  intros Hfree Hsil Hl Hw Hout.
  destruct (unknown_char S0 w) eqn:Hu; [apply syllabify_word_rejects_unknown; exact Hu|].
  destruct (has_vowels S0 w) eqn:Hv; [|apply syllabify_word_rejects_no_vowel; assumption].
  rewrite (syllabify_word_decomp w leftover syls strip_ Hfree Hsil Hu Hv Hw Hout).
  destruct (str_eqb w (concat (map syl_str syls))) eqn:He; [|reflexivity].
  rewrite Hw in He. apply str_eqb_leftover in He. contradiction.
Qed.

(* RuntimeError <-> unknown symbol, no vowel, or leftover consonants *)
Theorem syllabify_word_rejects_iff (w : str) (strip_ : bool) :
  sep_free w -> silent S0 = None ->
  (syllabify_word S0 w strip_ = Raise RuntimeError <->
   unknown_char S0 w = true \/ has_vowels S0 w = false \/
   exists (leftover : str) (syls : list syl),
     leftover <> [] /\ novowel S0 leftover = true /\
     w = leftover ++ concat (map syl_str syls) /\
     word_loop S0 (length w) strip_ (rev w) [] [] = render S0 strip_ syls).
Proof.
  intros Hfree Hsil. split.
  - intros H.
    destruct (unknown_char S0 w) eqn:Hu; [auto|].
    destruct (has_vowels S0 w) eqn:Hv; [|auto].
    right. right.
    destruct (word_loop_shape S0 w strip_) as (leftover & syls & Hw & Hout & _ & _ & Hnl).
    exists leftover, syls. split; [|auto].
    intros ->. cbn [app] in Hw.
    rewrite (syllabify_word_accepts w syls strip_ Hfree Hsil Hu Hv Hw Hout) in H. discriminate.
  - intros [Hu | [Hv | (leftover & syls & Hl & _ & Hw & Hout)]].
    + apply syllabify_word_rejects_unknown. exact Hu.
    + destruct (unknown_char S0 w) eqn:Hu; [apply syllabify_word_rejects_unknown; exact Hu|].
      apply syllabify_word_rejects_no_vowel; assumption.
    + exact (syllabify_word_rejects_leftover w leftover syls strip_ Hfree Hsil Hl Hw Hout).
Qed.

(* in that setting a word is never rejected with ValueError, and always gives Ok or RuntimeError *)
Theorem syllabify_word_total (w : str) (strip_ : bool) :
  sep_free w -> silent S0 = None ->
  (exists out : str, syllabify_word S0 w strip_ = Ok out) \/
  syllabify_word S0 w strip_ = Raise RuntimeError.
Proof.
  intros Hfree Hsil. destruct (syllabify_word S0 w strip_) as [out|e] eqn:H.
  - left. exists out. reflexivity.
  - right. apply syllabify_word_errors in H. destruct H as [_ H].
    destruct Hfree as (x0 & xr & Hx & _). rewrite H; [reflexivity|]. rewrite Hx. discriminate.
Qed.

End SyllRemove.

(* ---------- sanity: a concrete inventory ---------- *)

Module Example.
  (* vowels a e; onsets t, r, tr, s; syllable separator ';' ; word separator '_' *)
  Definition a := 97%N. Definition e := 101%N. Definition t := 116%N.
  Definition r := 114%N. Definition s := 115%N. Definition k := 107%N.
  Definition sep0 : separator := {| s_phone := None; s_syll := Some [59%N]; s_word := Some [95%N] |}.
  Definition S1 : syllabifier :=
    {| onsets := [[t]; [r]; [t; r]; [s]]; vowels := [[a]; [e]]; symbols := [a; e; t; r; s; k];
       silent := None; sy_sep := sep0 |}.

  (* "astra" -> "as;tra;" : the onset "tr" is maximal ("str" is not listed) *)
  Example ex_astra : syllabify_word S1 [a; s; t; r; a] false = Ok [a; s; 59%N; t; r; a; 59%N].
  Proof. reflexivity. Qed.
  Example ex_astra_strip : syllabify_word S1 [a; s; t; r; a] true = Ok [a; s; 59%N; t; r; a].
  Proof. reflexivity. Qed.
  (* "kta": "k" is not an onset and "kt" neither: leftover consonant, rejected *)
  Example ex_kta : syllabify_word S1 [k; t; a] false = Raise RuntimeError.
  Proof. reflexivity. Qed.
  Example ex_kta_loop : word_loop S1 3 false (rev [k; t; a]) [] [] = [t; a; 59%N].
  Proof. reflexivity. Qed.
End Example.
