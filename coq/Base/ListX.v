(* List lemmas missing from the 8.16 standard library. *)
From Coq Require Import List Arith Lia.
Import ListNotations.

Lemma skipn_skipn {A} (a b : nat) (l : list A) : skipn a (skipn b l) = skipn (b + a) l.
Proof.
  revert l; induction b as [|b IH]; intros l; [reflexivity|].
  destruct l as [|x l]; simpl.
  - now rewrite skipn_nil.
  - apply IH.
Qed.

Lemma firstn_add {A} (a b : nat) (l : list A) :
  firstn (a + b) l = firstn a l ++ firstn b (skipn a l).
Proof.
  revert l; induction a as [|a IH]; intros l; [reflexivity|].
  destruct l as [|x l]; simpl.
  - now rewrite firstn_nil.
  - now rewrite IH.
Qed.
