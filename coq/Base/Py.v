(* Shared vocabulary of all models: Python values as Coq values. Stdlib only. *)
From Coq Require Export List ZArith NArith Bool Lia.
Export ListNotations.

Definition char := N.
Definition str := list char.
Definition sp : char := 32%N.

Inductive exn :=
| ValueError | RuntimeError | IndexError | TypeError | KeyError
| ZeroDivisionError | AssertionError | OutOfFuel.

Inductive result (A : Type) : Type :=
| Ok (a : A)
| Raise (e : exn).
Arguments Ok {A} a.
Arguments Raise {A} e.

Definition bind {A B} (r : result A) (f : A -> result B) : result B :=
  match r with Ok a => f a | Raise e => Raise e end.
Notation "'do' x <- r ; k" := (bind r (fun x => k))
  (at level 200, x pattern, r at level 100, k at level 200).

Fixpoint mapM {A B} (f : A -> result B) (l : list A) : result (list B) :=
  match l with
  | [] => Ok []
  | x :: xs => do y <- f x; do ys <- mapM f xs; Ok (y :: ys)
  end.

(* The wire format between the harness, the extracted model and cases.v:
   nested lists of integers. *)
Inductive J := JI (z : Z) | JL (l : list J).

Fixpoint j_eqb (a b : J) : bool :=
  match a, b with
  | JI x, JI y => Z.eqb x y
  | JL l, JL m =>
    (fix go (l m : list J) : bool :=
       match l, m with
       | [], [] => true
       | x :: l', y :: m' => j_eqb x y && go l' m'
       | _, _ => false
       end) l m
  | _, _ => false
  end.

Definition exn_code (e : exn) : Z :=
  match e with
  | ValueError => 1 | RuntimeError => 2 | IndexError => 3 | TypeError => 4
  | KeyError => 5 | ZeroDivisionError => 6 | AssertionError => 7 | OutOfFuel => 99
  end%Z.

Definition j_result {A} (enc : A -> J) (r : result A) : J :=
  match r with
  | Ok a => JL [JI 0; enc a]
  | Raise e => JL [JI 1; JI (exn_code e)]
  end.

Definition j_bad : J := JL [JI 2].   (* malformed request: harness bug *)

Definition j_nat (n : nat) : J := JI (Z.of_nat n).
Definition j_N (n : N) : J := JI (Z.of_N n).
Definition j_bool (b : bool) : J := JI (if b then 1 else 0)%Z.
Definition j_list {A} (enc : A -> J) (l : list A) : J := JL (map enc l).
Definition j_str (s : str) : J := j_list j_N s.
Definition j_pair {A B} (ea : A -> J) (eb : B -> J) (p : A * B) : J :=
  JL [ea (fst p); eb (snd p)].
Definition j_option {A} (enc : A -> J) (o : option A) : J :=
  match o with None => JL [] | Some a => JL [enc a] end.

Definition d_Z (j : J) : option Z := match j with JI z => Some z | _ => None end.
Definition d_nat (j : J) : option nat :=
  match j with JI z => if (z <? 0)%Z then None else Some (Z.to_nat z) | _ => None end.
Definition d_N (j : J) : option N :=
  match j with JI z => if (z <? 0)%Z then None else Some (Z.to_N z) | _ => None end.
Definition d_bool (j : J) : option bool :=
  match j with JI z => Some (negb (z =? 0)%Z) | _ => None end.
Fixpoint d_all {A} (dec : J -> option A) (l : list J) : option (list A) :=
  match l with
  | [] => Some []
  | x :: xs => match dec x, d_all dec xs with
               | Some a, Some r => Some (a :: r) | _, _ => None end
  end.
Definition d_list {A} (dec : J -> option A) (j : J) : option (list A) :=
  match j with JL l => d_all dec l | _ => None end.
Definition d_str : J -> option str := d_list d_N.
Definition d_option {A} (dec : J -> option A) (j : J) : option (option A) :=
  match j with
  | JL [] => Some None
  | JL [x] => match dec x with Some a => Some (Some a) | None => None end
  | _ => None
  end.

(* decidable equality on strings *)
Fixpoint str_eqb (a b : str) : bool :=
  match a, b with
  | [], [] => true
  | x :: a', y :: b' => (x =? y)%N && str_eqb a' b'
  | _, _ => false
  end.

Lemma str_eqb_spec a b : reflect (a = b) (str_eqb a b).
Proof.
  revert b; induction a as [|x a IH]; intros [|y b]; simpl; try (constructor; congruence).
  destruct (N.eqb_spec x y) as [->|Hn]; simpl.
  - destruct (IH b) as [->|Hn]; constructor; congruence.
  - constructor; congruence.
Qed.

Lemma str_eqb_refl a : str_eqb a a = true.
Proof. destruct (str_eqb_spec a a); congruence. Qed.

Lemma str_eqb_eq a b : str_eqb a b = true <-> a = b.
Proof. destruct (str_eqb_spec a b); split; congruence. Qed.
