(* Python str primitives used by wordseg, over str = list N (code points). *)
From WS Require Import Base.Py.

(* str.isspace() / re \s for one code point (CPython's _PyUnicode_IsWhitespace) *)
Definition is_space (c : char) : bool :=
  ((9 <=? c) && (c <=? 13) || (28 <=? c) && (c <=? 32) || (c =? 133) || (c =? 160)
   || (c =? 5760) || (8192 <=? c) && (c <=? 8202) || (c =? 8232) || (c =? 8233)
   || (c =? 8239) || (c =? 8287) || (c =? 12288))%N.

Fixpoint lstrip (s : str) : str :=
  match s with
  | [] => []
  | c :: s' => if is_space c then lstrip s' else s
  end.
Definition rstrip (s : str) : str := rev (lstrip (rev s)).
Definition strip (s : str) : str := rstrip (lstrip s).

(* str.split() *)
Fixpoint split_ws_go (s acc : str) : list str :=
  match s with
  | [] => match acc with [] => [] | _ => [rev acc] end
  | c :: s' =>
    if is_space c
    then match acc with [] => split_ws_go s' [] | _ => rev acc :: split_ws_go s' [] end
    else split_ws_go s' (c :: acc)
  end.
Definition split_ws (s : str) : list str := split_ws_go s [].

Fixpoint prefix_b (p s : str) : bool :=
  match p, s with
  | [], _ => true
  | x :: p', y :: s' => (x =? y)%N && prefix_b p' s'
  | _ :: _, [] => false
  end.

Fixpoint infix_b (p s : str) : bool :=
  prefix_b p s || match s with [] => false | _ :: s' => infix_b p s' end.

Definition suffix_b (p s : str) : bool := prefix_b (rev p) (rev s).

(* str.split(sep), sep non-empty: leftmost, non-overlapping *)
Fixpoint split_go (sep s : str) (skip : nat) (acc : str) : list str :=
  match s with
  | [] => [rev acc]
  | c :: s' =>
    match skip with
    | S k => split_go sep s' k acc
    | O => if prefix_b sep s then rev acc :: split_go sep s' (length sep - 1) []
           else split_go sep s' 0 (c :: acc)
    end
  end.
Definition split_on (sep s : str) : list str := split_go sep s 0 [].

(* sep.join(l) *)
Fixpoint join (sep : str) (l : list str) : str :=
  match l with
  | [] => []
  | [x] => x
  | x :: r => x ++ sep ++ join sep r
  end.

(* s.replace(old, new), old non-empty *)
Fixpoint replace_go (old new s : str) (skip : nat) : str :=
  match s with
  | [] => []
  | c :: s' =>
    match skip with
    | S k => replace_go old new s' k
    | O => if prefix_b old s then new ++ replace_go old new s' (length old - 1)
           else c :: replace_go old new s' 0
    end
  end.
Definition replace_all (old new s : str) : str :=
  match old with
  | [] => new ++ flat_map (fun c => c :: new) s     (* Python: between every char *)
  | _ => replace_go old new s 0
  end.

(* re.sub(' +', ' ', s) *)
Fixpoint collapse_spaces (s : str) : str :=
  match s with
  | [] => []
  | c :: s' =>
    if (c =? sp)%N
    then match s' with
         | c' :: _ => if (c' =? sp)%N then collapse_spaces s' else c :: collapse_spaces s'
         | [] => [c]
         end
    else c :: collapse_spaces s'
  end.

(* re.sub(r'\s+', ' ', s.strip()) : utils.strip *)
Fixpoint collapse_ws (s : str) : str :=
  match s with
  | [] => []
  | c :: s' =>
    if is_space c
    then match s' with
         | c' :: _ => if is_space c' then collapse_ws s' else sp :: collapse_ws s'
         | [] => [sp]
         end
    else c :: collapse_ws s'
  end.
Definition norm_ws (s : str) : str := collapse_ws (strip s).

Definition despace (s : str) : str := filter (fun c => negb (c =? sp)%N) s.

Definition S_ (l : list Z) : str := map Z.to_N l.   (* literal helper *)
