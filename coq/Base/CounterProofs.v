From WS Require Import Base.Py Base.Counter.

Section CounterProofs.
Context {K : Type} (eqb : K -> K -> bool).
Hypothesis eqb_spec : forall a b, reflect (a = b) (eqb a b).

Fixpoint occ (k : K) (l : list K) : Z :=
  match l with
  | [] => 0
  | x :: r => (if eqb k x then 1 else 0) + occ k r
  end%Z.

Lemma occ_nonneg k l : (0 <= occ k l)%Z.
Proof. induction l as [|x r IH]; simpl; [lia|]. destruct (eqb k x); lia. Qed.

Lemma occ_app k l1 l2 : occ k (l1 ++ l2) = (occ k l1 + occ k l2)%Z.
Proof. induction l1 as [|x r IH]; simpl; [lia|]. rewrite IH. lia. Qed.

Lemma cget_cadd c k k' d :
  cget eqb (cadd eqb c k' d) k = (cget eqb c k + if eqb k k' then d else 0)%Z.
Proof.
  induction c as [|[k0 v] r IH]; simpl.
  - destruct (eqb k k'); lia.
  - destruct (eqb_spec k' k0) as [->|Hne]; simpl.
    + destruct (eqb k k0); lia.
    + destruct (eqb_spec k k0) as [->|Hne2].
      * destruct (eqb_spec k0 k'); [congruence|lia].
      * exact IH.
Qed.

Lemma cget_fold c l k :
  cget eqb (fold_left (fun c k => cadd eqb c k 1%Z) l c) k = (cget eqb c k + occ k l)%Z.
Proof.
  revert c; induction l as [|x r IH]; intros c; simpl; [lia|].
  rewrite IH, cget_cadd. destruct (eqb k x); lia.
Qed.

Lemma cget_count_list l k : cget eqb (count_list eqb l) k = occ k l.
Proof. unfold count_list. rewrite cget_fold. reflexivity. Qed.

Lemma cmem_cadd c k k' d :
  cmem eqb (cadd eqb c k' d) k = cmem eqb c k || eqb k k'.
Proof.
  induction c as [|[k0 v] r IH]; simpl.
  - now rewrite orb_false_r.
  - destruct (eqb_spec k' k0) as [->|Hne]; simpl.
    + destruct (eqb k k0); simpl; [reflexivity|]. now rewrite orb_false_r.
    + rewrite IH. now rewrite orb_assoc.
Qed.

Lemma cmem_fold c l k :
  cmem eqb (fold_left (fun c k => cadd eqb c k 1%Z) l c) k = cmem eqb c k || (0 <? occ k l)%Z.
Proof.
  revert c; induction l as [|x r IH]; intros c; simpl.
  - now rewrite orb_false_r.
  - rewrite IH, cmem_cadd. pose proof (occ_nonneg k r).
    destruct (eqb k x); destruct (cmem eqb c k); cbn [orb];
      destruct (Z.ltb_spec 0 (occ k r)); try reflexivity;
      match goal with |- context [(0 <? ?e + ?f)%Z] => destruct (Z.ltb_spec 0 (e + f)) end;
      try reflexivity; lia.
Qed.

Lemma cmem_count_list l k : cmem eqb (count_list eqb l) k = (0 <? occ k l)%Z.
Proof. unfold count_list. now rewrite cmem_fold. Qed.

End CounterProofs.
