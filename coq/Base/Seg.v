(* The notion shared by all conservation properties (C01, C02, C03):
   [out] is the unit sequence [units] with single spaces inserted only at unit
   boundaries - nothing lost, duplicated, reordered or split. *)
From WS Require Import Base.Py Base.Str.

Definition is_seg (units : list str) (out : str) : Prop :=
  exists groups : list (list str),
    concat groups = units /\
    Forall (fun g => g <> []) groups /\
    out = join [sp] (map (@concat char) groups).

(* one output utterance per input utterance, in order, each a segmentation of its own input *)
Definition aligned (text : list (list str)) (out : list str) : Prop :=
  Forall2 is_seg text out.

(* units as they come out of a prepared line *)
Definition unit_ok (u : str) : Prop := u <> [] /\ Forall (fun c => is_space c = false) u.
