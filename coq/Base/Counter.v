(* collections.Counter as an insertion-ordered association list. *)
From WS Require Import Base.Py.

Section Counter.
Context {K : Type} (eqb : K -> K -> bool).

Definition counter := list (K * Z).

Fixpoint cget (c : counter) (k : K) : Z :=
  match c with
  | [] => 0%Z
  | (k', v) :: r => if eqb k k' then v else cget r k
  end.

Fixpoint cmem (c : counter) (k : K) : bool :=
  match c with
  | [] => false
  | (k', _) :: r => eqb k k' || cmem r k
  end.

Fixpoint cadd (c : counter) (k : K) (d : Z) : counter :=
  match c with
  | [] => [(k, d)]
  | (k', v) :: r => if eqb k k' then (k', (v + d)%Z) :: r else (k', v) :: cadd r k d
  end.

Definition count_list (l : list K) : counter :=
  fold_left (fun c k => cadd c k 1%Z) l [].

(* max(..., key=count): first maximal entry in insertion order *)
Fixpoint cmax (c : counter) (best : option (K * Z)) : option (K * Z) :=
  match c with
  | [] => best
  | (k, v) :: r =>
    match best with
    | None => cmax r (Some (k, v))
    | Some (_, bv) => if (bv <? v)%Z then cmax r (Some (k, v)) else cmax r best
    end
  end.

End Counter.

Arguments counter K : clear implicits.
