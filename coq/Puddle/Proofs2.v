(* PUDDLE: first-match specification of the scan (D) and lexicon
   bookkeeping under update (E). *)
From WS Require Import Base.Py Base.Str Base.Counter Base.CounterProofs Base.ListX Base.Seg
  Folding.Model Puddle.Model Puddle.StrLemmas Puddle.Proofs.

(* ---------- D. first match (by_freq = false) ---------- *)

Section FirstMatch.
Variable w : Z.

Definition match_ok (st : pstate) (utt : list str) (i j : nat) : bool :=
  cmem str_eqb (lex st) (cand utt i j) && boundary_ok w st utt i j.

Lemma scan_j_first (fuel : nat) : forall (u : bool) (st : pstate) (seg : list str) (found : bool)
    (utt : list str) (i j : nat),
  (1 <= w)%Z -> Inv st -> i <= j -> length utt - j < fuel ->
  match scan_j w false fuel u st seg found utt i j with
  | JRecurse st2 seg2 rest =>
    exists j', j <= j' /\ S j' < length utt /\ match_ok st utt i j' = true /\
               (forall k : nat, j <= k -> k < j' -> match_ok st utt i k = false) /\
               rest = skipn (S j') utt /\ (st2, seg2) = emit w u st seg utt i j'
  | JNext st' seg' found' =>
    st' = st /\ seg' = seg /\ (found = false -> found' = false) /\
    (forall k : nat, j <= k -> k < length utt -> match_ok st utt i k = false)
  end.
Proof.
  induction fuel as [|n IH]; intros u st seg found utt i j Hw HI Hij Hf; [lia|].
  rewrite scan_j_S.
  destruct (Nat.leb_spec (length utt) j) as [Hle|Hlt].
  { repeat split; auto. intros k H1 H2. lia. }
  destruct (cmem str_eqb (lex st) (cand utt i j)) eqn:Ec.
  - cbv zeta.
    destruct (boundary_ok w st utt i j) eqn:Eb.
    + pose proof (boundary_ok_next w st utt i j Hw HI Hlt Eb) as Hn.
      destruct (emit w u st seg utt i j) as [st2 seg2] eqn:Ee.
      destruct (Nat.eqb_spec j (length utt - 1)); [lia|]. cbn [negb].
      exists j. repeat split; auto.
      * unfold match_ok. now rewrite Ec, Eb.
      * intros k H1 H2. lia.
    + assert (Hm : match_ok st utt i j = false) by (unfold match_ok; now rewrite Ec, Eb).
      specialize (IH u st seg false utt i (S j) Hw HI).
      destruct (scan_j w false n u st seg false utt i (S j)) as [st2 seg2 rest|st' seg' found'].
      * destruct IH as (k & Hk1 & Hk2 & Hk3 & Hk4 & Hk5 & Hk6); [lia|lia|].
        exists k. repeat split; auto; try lia.
        intros k0 H1 H2. destruct (Nat.eq_dec k0 j) as [->|Hne]; [exact Hm|].
        apply Hk4; lia.
      * destruct IH as (E1 & E2 & E3 & E4); [lia|lia|]. repeat split; auto.
        intros k0 H1 H2. destruct (Nat.eq_dec k0 j) as [->|Hne]; [exact Hm|].
        apply E4; lia.
  - assert (Hm : match_ok st utt i j = false) by (unfold match_ok; now rewrite Ec).
    specialize (IH u st seg found utt i (S j) Hw HI).
    destruct (scan_j w false n u st seg found utt i (S j)) as [st2 seg2 rest|st' seg' found'].
    + destruct IH as (k & Hk1 & Hk2 & Hk3 & Hk4 & Hk5 & Hk6); [lia|lia|].
      exists k. repeat split; auto; try lia.
      intros k0 H1 H2. destruct (Nat.eq_dec k0 j) as [->|Hne]; [exact Hm|].
      apply Hk4; lia.
    + destruct IH as (E1 & E2 & E3 & E4); [lia|lia|]. repeat split; auto.
      intros k0 H1 H2. destruct (Nat.eq_dec k0 j) as [->|Hne]; [exact Hm|].
      apply E4; lia.
Qed.

(* (a, b) lexicographically before (i, j) *)
Definition lex_lt (a b i j : nat) : Prop := a < i \/ (a = i /\ b < j).

Lemma scan_i_first (fuel : nat) : forall (u : bool) (st : pstate) (seg : list str)
    (utt : list str) (i : nat),
  (1 <= w)%Z -> Inv st -> length utt - i < fuel ->
  match scan_i w false fuel u st seg false utt i with
  | IRecurse st2 seg2 rest =>
    exists i' j', i <= i' /\ i' <= j' /\ S j' < length utt /\ match_ok st utt i' j' = true /\
      rest = skipn (S j') utt /\ (st2, seg2) = emit w u st seg utt i' j' /\
      (forall a b : nat, i <= a -> a <= b -> b < length utt -> lex_lt a b i' j' ->
                         match_ok st utt a b = false)
  | IDone st' seg' found' =>
    st' = st /\ seg' = seg /\ found' = false /\
    (forall a b : nat, i <= a -> a <= b -> b < length utt -> match_ok st utt a b = false)
  end.
Proof.
  induction fuel as [|n IH]; intros u st seg utt i Hw HI Hf; [lia|].
  rewrite scan_i_S.
  destruct (Nat.leb_spec (length utt) i) as [Hle|Hlt].
  { repeat split; auto. intros a b H1 H2 H3. lia. }
  pose proof (scan_j_first (S (length utt)) u st seg false utt i i Hw HI (le_n i)) as Hj.
  destruct (scan_j w false (S (length utt)) u st seg false utt i i) as [st2 seg2 rest|st' seg' found'].
  - destruct Hj as (j' & H1 & H2 & H3 & H4 & H5 & H6); [lia|].
    exists i, j'. repeat split; auto.
    intros a b Ha Hab Hb [Hl|[-> Hl]]; [lia|]. apply H4; lia.
  - destruct Hj as (E1 & E2 & E3 & E4); [lia|]. subst st' seg'. rewrite (E3 eq_refl).
    specialize (IH u st seg utt (S i) Hw HI).
    destruct (scan_i w false n u st seg false utt (S i)) as [st2 seg2 rest|st' seg' found''].
    + destruct IH as (i' & j' & H0 & H1 & H2 & H3 & H4 & H5 & H6); [lia|].
      exists i', j'. repeat split; auto; try lia.
      intros a b Ha Hab Hb Hl. destruct (Nat.eq_dec a i) as [->|Hne].
      * apply E4; lia.
      * apply H6; auto; lia.
    + destruct IH as (F1 & F2 & F3 & F4); [lia|]. repeat split; auto.
      intros a b Ha Hab Hb. destruct (Nat.eq_dec a i) as [->|Hne].
      * apply E4; lia.
      * apply F4; auto; lia.
Qed.

Theorem scan_first_match : forall (u : bool) (st : pstate) (seg utt : list str)
    (st2 : pstate) (seg2 rest : list str),
  (1 <= w)%Z -> Inv st ->
  scan_i w false (S (length utt)) u st seg false utt 0 = IRecurse st2 seg2 rest ->
  exists i j : nat,
    i <= j /\ S j < length utt /\ match_ok st utt i j = true /\
    rest = skipn (S j) utt /\ (st2, seg2) = emit w u st seg utt i j /\
    (forall i' j' : nat, i' <= j' -> j' < length utt ->
       (i' < i \/ (i' = i /\ j' < j)) -> match_ok st utt i' j' = false).
Proof.
  intros u st seg utt st2 seg2 rest Hw HI H.
  pose proof (scan_i_first (S (length utt)) u st seg utt 0 Hw HI) as Hs.
  rewrite H in Hs. destruct Hs as (i & j & _ & H1 & H2 & H3 & H4 & H5 & H6); [lia|].
  exists i, j. repeat split; auto. intros i' j' Ha Hb Hl. apply H6; auto; lia.
Qed.

Theorem scan_no_match : forall (u : bool) (st : pstate) (seg utt : list str)
    (st' : pstate) (seg' : list str) (found' : bool),
  (1 <= w)%Z -> Inv st ->
  scan_i w false (S (length utt)) u st seg false utt 0 = IDone st' seg' found' ->
  st' = st /\ seg' = seg /\ found' = false /\
  (forall i j : nat, i <= j -> j < length utt -> match_ok st utt i j = false).
Proof.
  intros u st seg utt st' seg' found' Hw HI H.
  pose proof (scan_i_first (S (length utt)) u st seg utt 0 Hw HI) as Hs.
  rewrite H in Hs. destruct Hs as (H1 & H2 & H3 & H4); [lia|].
  repeat split; auto. intros i j Ha Hb. apply H4; auto; lia.
Qed.

End FirstMatch.

(* ---------- E. update bookkeeping ---------- *)

Definition total (c : counter str) : Z := fold_right (fun kv acc => (snd kv + acc)%Z) 0%Z c.

Lemma total_cadd (c : counter str) (k : str) (d : Z) :
  total (cadd str_eqb c k d) = (total c + d)%Z.
Proof.
  unfold total. induction c as [|[k0 v] c IH]; cbn [cadd fold_right snd]; [lia|].
  destruct (str_eqb k k0); cbn [fold_right snd]; [lia|]. rewrite IH. lia.
Qed.

(* seg grew by exactly as many words as the lexicon total *)
Definition bk (st : pstate) (seg : list str) (st' : pstate) (seg' : list str) : Prop :=
  length seg <= length seg' /\
  (total (lex st') + Z.of_nat (length seg) = total (lex st) + Z.of_nat (length seg'))%Z.

Lemma bk_refl (st : pstate) (seg : list str) : bk st seg st seg.
Proof. unfold bk. lia. Qed.

Lemma bk_trans (s1 s2 s3 : pstate) (g1 g2 g3 : list str) :
  bk s1 g1 s2 g2 -> bk s2 g2 s3 g3 -> bk s1 g1 s3 g3.
Proof. unfold bk. lia. Qed.

Section Bookkeeping.
Variable w : Z.
Variable f : bool.

Lemma pc_bk (st : pstate) (seg utt : list str) (i j : nat) :
  bk st seg (fst (process_candidate w true st seg utt i j))
            (snd (process_candidate w true st seg utt i j)).
Proof.
  unfold process_candidate.
  destruct (2 <=? length (pyslice utt (zn i) (zn j + 1))); cbn [fst snd]; unfold bk; cbn [lex];
    rewrite total_cadd, app_length; cbn [length]; lia.
Qed.

Lemma emit_bk (st : pstate) (seg utt : list str) (i j : nat) :
  bk st seg (fst (emit w true st seg utt i j)) (snd (emit w true st seg utt i j)).
Proof.
  unfold emit. destruct (Nat.eqb i 0); [apply pc_bk|].
  pose proof (pc_bk st seg utt 0 (i - 1)) as H1.
  destruct (process_candidate w true st seg utt 0 (i - 1)) as [st1 seg1]. cbn [fst snd] in H1.
  eapply bk_trans; [exact H1|apply pc_bk].
Qed.

Lemma scan_j_bk (fuel : nat) : forall (st : pstate) (seg : list str) (found : bool)
    (utt : list str) (i j : nat),
  match scan_j w f fuel true st seg found utt i j with
  | JRecurse st' seg' _ => bk st seg st' seg'
  | JNext st' seg' _ => bk st seg st' seg'
  end.
Proof.
  induction fuel as [|n IH]; intros st seg found utt i j; [apply bk_refl|].
  rewrite scan_j_S.
  destruct (length utt <=? j); [apply bk_refl|].
  destruct (cmem str_eqb (lex st) (cand utt i j)); [|apply IH].
  cbv zeta. set (j' := if f then filter_freq st utt i j else j).
  destruct (boundary_ok w st utt i j'); [|apply IH].
  pose proof (emit_bk st seg utt i j') as He.
  destruct (emit w true st seg utt i j') as [st2 seg2]. cbn [fst snd] in He.
  destruct (negb (Nat.eqb j' (length utt - 1))); exact He.
Qed.

Lemma scan_i_bk (fuel : nat) : forall (st : pstate) (seg : list str) (found : bool)
    (utt : list str) (i : nat),
  match scan_i w f fuel true st seg found utt i with
  | IRecurse st' seg' _ => bk st seg st' seg'
  | IDone st' seg' _ => bk st seg st' seg'
  end.
Proof.
  induction fuel as [|n IH]; intros st seg found utt i; [apply bk_refl|].
  rewrite scan_i_S.
  destruct (length utt <=? i); [apply bk_refl|].
  pose proof (scan_j_bk (S (length utt)) st seg found utt i i) as Hj.
  destruct (scan_j w f (S (length utt)) true st seg found utt i i) as [st' seg' rest|st' seg' found'].
  - exact Hj.
  - specialize (IH st' seg' found' utt (S i)).
    destruct (scan_i w f n true st' seg' found' utt (S i)); eapply bk_trans; eauto.
Qed.

Lemma process_bk : forall (fuel : nat) (st : pstate) (utt seg : list str) (r : pstate * list str),
  process w f fuel true st utt seg = Ok r -> bk st seg (fst r) (snd r).
Proof.
  induction fuel as [|n IH]; intros st utt seg r H; rewrite process_eq in H;
    (destruct utt as [|x utt0]; [discriminate|]);
    set (utt := x :: utt0) in *; clearbody utt;
    pose proof (scan_i_bk (S (length utt)) st seg false utt 0) as Hi;
    destruct (scan_i w f (S (length utt)) true st seg false utt 0)
      as [st' seg' rest|st' seg' found].
  - discriminate.
  - destruct found; [inversion H; subst; cbn [fst snd]; exact Hi|].
    assert (E : r = process_candidate w true st' seg' utt 0 (length utt - 1)) by congruence.
    rewrite E. eapply bk_trans; [exact Hi|apply pc_bk].
  - eapply bk_trans; [exact Hi|]. eapply IH; eauto.
  - destruct found; [inversion H; subst; cbn [fst snd]; exact Hi|].
    assert (E : r = process_candidate w true st' seg' utt 0 (length utt - 1)) by congruence.
    rewrite E. eapply bk_trans; [exact Hi|apply pc_bk].
Qed.

Theorem process_lexicon_total : forall (fuel : nat) (st : pstate) (utt seg : list str)
    (st' : pstate) (seg' : list str),
  process w f fuel true st utt seg = Ok (st', seg') ->
  total (lex st') = (total (lex st) + Z.of_nat (length seg' - length seg))%Z.
Proof.
  intros fuel st utt seg st' seg' H.
  pose proof (process_bk fuel st utt seg (st', seg') H) as Hb.
  unfold bk in Hb. cbn [fst snd] in Hb. lia.
Qed.

End Bookkeeping.
