(* Model of wordseg/algos/puddle.py: class Puddle (train, segment,
   _process_utterance and its helpers) and segment(). *)
From WS Require Import Base.Py Base.Str Base.Counter Folding.Model.

(* l[lo:hi] with Python's negative indices and clamping *)
Definition norm_idx (n i : Z) : Z :=
  let j := if (i <? 0)%Z then (i + n)%Z else i in Z.max 0 (Z.min n j).
Definition pyslice {A} (l : list A) (lo hi : Z) : list A :=
  let n := Z.of_nat (length l) in
  let a := norm_idx n lo in let b := norm_idx n hi in
  firstn (Z.to_nat (b - a)) (skipn (Z.to_nat a) l).

Record pstate := { lex : counter str; beg : counter str; en : counter str }.
Definition pinit : pstate := {| lex := []; beg := []; en := [] |}.

Section Puddle.
Variable window : Z.
Variable by_freq : bool.

Definition zn (n : nat) : Z := Z.of_nat n.

(* ''.join(utterance[i:j+1]) *)
Definition cand (utt : list str) (i j : nat) : str :=
  concat (pyslice utt (zn i) (zn j + 1)).

(* _filter_by_frequency: arg max of the lexicon count over k in j..len-1,
   ties to the largest k (stable sort, last element) *)
Definition filter_freq (st : pstate) (utt : list str) (i j : nat) : nat :=
  fst (fold_left
         (fun best k =>
            let c := cget str_eqb (lex st) (cand utt i k) in
            if (snd best <=? c)%Z then (k, c) else best)
         (seq (S j) (length utt - S j))
         (j, cget str_eqb (lex st) (cand utt i j))).

Definition boundary_ok (st : pstate) (utt : list str) (i j : nat) : bool :=
  let prev := concat (pyslice utt (Z.max 0 (zn i - window)) (zn i)) in      (* fix e3d63e5: max(0, i - window) *)
  if negb (Nat.eqb i 0) && negb (cmem str_eqb (en st) prev) then false
  else
    let nxt := concat (pyslice utt (zn j + 1) (zn j + 1 + window)) in
    if negb (Nat.eqb (length utt) (j - i)) && negb (cmem str_eqb (beg st) nxt) then false
    else true.

(* _update_candidate / _segment_candidate *)
Definition process_candidate (do_update : bool) (st : pstate) (seg : list str)
           (utt : list str) (i j : nat) : pstate * list str :=
  let w := cand utt i j in
  if do_update then
    let lex' := cadd str_eqb (lex st) w 1 in
    if (2 <=? length (pyslice utt (zn i) (zn j + 1)))
    then ({| lex := lex';
             beg := cadd str_eqb (beg st) (concat (pyslice utt (zn i) (zn i + window))) 1;
             en := cadd str_eqb (en st) (concat (pyslice utt (Z.max 0 (zn j + 1 - window)) (zn j + 1))) 1 |},
          seg ++ [w])
    else ({| lex := lex'; beg := beg st; en := en st |}, seg ++ [w])
  else (st, seg ++ [w]).

(* what the inner while loop over j ends with *)
Inductive jres :=
| JRecurse (st : pstate) (seg : list str) (rest : list str)   (* return self._process_utterance(rest...) *)
| JNext (st : pstate) (seg : list str) (found : bool).         (* fall out of / break the j loop *)

Fixpoint scan_j (fuel : nat) (do_update : bool) (st : pstate) (seg : list str) (found : bool)
         (utt : list str) (i j : nat) : jres :=
  match fuel with
  | O => JNext st seg found
  | S f =>
    if length utt <=? j then JNext st seg found
    else if cmem str_eqb (lex st) (cand utt i j) then
      let j' := if by_freq then filter_freq st utt i j else j in
      if boundary_ok st utt i j' then
        let '(st1, seg1) := if Nat.eqb i 0 then (st, seg)
                            else process_candidate do_update st seg utt 0 (i - 1) in
        let '(st2, seg2) := process_candidate do_update st1 seg1 utt i j' in
        if negb (Nat.eqb j' (length utt - 1))
        then JRecurse st2 seg2 (skipn (S j') utt)
        else JNext st2 seg2 true                      (* break *)
      else scan_j f do_update st seg false utt i (S j')
    else scan_j f do_update st seg found utt i (S j)
  end.

Inductive ires :=
| IRecurse (st : pstate) (seg : list str) (rest : list str)
| IDone (st : pstate) (seg : list str) (found : bool).

Fixpoint scan_i (fuel : nat) (do_update : bool) (st : pstate) (seg : list str) (found : bool)
         (utt : list str) (i : nat) : ires :=
  match fuel with
  | O => IDone st seg found
  | S f =>
    if length utt <=? i then IDone st seg found
    else match scan_j (S (length utt)) do_update st seg found utt i i with
         | JRecurse st' seg' rest => IRecurse st' seg' rest
         | JNext st' seg' found' => scan_i f do_update st' seg' found' utt (S i)
         end
  end.

Fixpoint process (fuel : nat) (do_update : bool) (st : pstate) (utt : list str) (seg : list str)
  : result (pstate * list str) :=
  match utt with
  | [] => Raise ValueError
  | _ =>
    match scan_i (S (length utt)) do_update st seg false utt 0 with
    | IRecurse st' seg' rest =>
      match fuel with
      | O => Raise OutOfFuel
      | S f => process f do_update st' rest seg'
      end
    | IDone st' seg' found =>
      if found then Ok (st', seg')
      else Ok (process_candidate do_update st' seg' utt 0 (length utt - 1))
    end
  end.

Definition process_utterance (do_update : bool) (st : pstate) (line : str)
  : result (pstate * str) :=
  let utt := split_ws (strip line) in
  do r <- process (length utt) do_update st utt [];
  Ok (fst r, join [sp] (snd r)).

(* Puddle.train(text) *)
Fixpoint train (st : pstate) (text : list str) : result pstate :=
  match text with
  | [] => Ok st
  | l :: r => do s <- process_utterance true st l; train (fst s) r
  end.

(* list(Puddle.segment(text, update_model)) *)
Fixpoint segment_model (do_update : bool) (st : pstate) (text : list str)
  : result (pstate * list str) :=
  match text with
  | [] => Ok (st, [])
  | l :: r =>
    do s <- process_utterance do_update st l;
    do t <- segment_model do_update (fst s) r;
    Ok (fst t, snd s :: snd t)
  end.

(* _do_puddle *)
Definition do_puddle (fold : list str) : result (list str) :=
  do r <- segment_model true pinit fold; Ok (snd r).

Definition nonempty (s : str) : bool := match s with [] => false | _ => true end.

(* segment(text, train_text, window, by_frequency, nfolds) *)
Definition segment (text : list str) (train_text : option (list str)) (nfolds : Z)
  : result (list str) :=
  match train_text with
  | None | Some [] =>
    do fi <- fold text nfolds None;
    do segs <- mapM do_puddle (fst fi);
    do out <- unfold segs (snd fi);
    Ok (filter nonempty out)
  | Some tr =>
    do st <- train pinit tr;
    do r <- segment_model false st text;
    Ok (filter nonempty (snd r))
  end.

End Puddle.

(* ---------- wire ---------- *)

Definition j_counter (c : counter str) : J := j_list (j_pair j_str JI) c.
Definition j_pstate (s : pstate) : J := JL [j_counter (lex s); j_counter (beg s); j_counter (en s)].

Definition run_segment (j : J) : J :=
  match j with
  | JL [text; tr; w; f; k] =>
    match d_list d_str text, d_option (d_list d_str) tr, d_Z w, d_bool f, d_Z k with
    | Some text, Some tr, Some w, Some f, Some k =>
      j_result (j_list j_str) (segment w f text tr k)
    | _, _, _, _, _ => j_bad end
  | _ => j_bad end.

(* histories: ops = [kind, text] with kind 0 = train, 1 = segment(update), 2 = segment(frozen);
   returns after each op [outputs (empty for train), state] or the error *)
Fixpoint run_ops (window : Z) (f : bool) (st : pstate) (ops : list (Z * list str)) : list J :=
  match ops with
  | [] => []
  | (k, text) :: r =>
    if (k =? 0)%Z then
      match train window f st text with
      | Ok st' => JL [JI 0; JL []; j_pstate st'] :: run_ops window f st' r
      | Raise e => [JL [JI 1; JI (exn_code e)]]
      end
    else
      match segment_model window f (k =? 1)%Z st text with
      | Ok (st', out) => JL [JI 0; j_list j_str out; j_pstate st'] :: run_ops window f st' r
      | Raise e => [JL [JI 1; JI (exn_code e)]]
      end
  end.

Definition d_op (j : J) : option (Z * list str) :=
  match j with
  | JL [k; t] => match d_Z k, d_list d_str t with Some k, Some t => Some (k, t) | _, _ => None end
  | _ => None end.

Definition run_history (j : J) : J :=
  match j with
  | JL [w; f; ops] =>
    match d_Z w, d_bool f, d_list d_op ops with
    | Some w, Some f, Some ops => JL (run_ops w f pinit ops)
    | _, _, _ => j_bad end
  | _ => j_bad end.
