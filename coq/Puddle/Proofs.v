(* Proofs about the PUDDLE model: frozen model (A), histories (B),
   conservation C01 (C). *)
From WS Require Import Base.Py Base.Str Base.Counter Base.CounterProofs Base.ListX Base.Seg
  Folding.Model Folding.Proofs Puddle.Model Puddle.StrLemmas.

(* the empty string is not an attested onset *)
Definition Inv (st : pstate) : Prop := cmem str_eqb (beg st) [] = false.

Lemma Inv_pinit : Inv pinit.
Proof. reflexivity. Qed.

Section P.
Variable w : Z.
Variable f : bool.

(* ---------- unfolding equations ---------- *)

(* what is emitted when a candidate (i, j) is accepted: the prefix before i
   (if any) and the candidate itself *)
Definition emit (u : bool) (st : pstate) (seg utt : list str) (i j : nat) : pstate * list str :=
  let '(st1, seg1) := if Nat.eqb i 0 then (st, seg)
                      else process_candidate w u st seg utt 0 (i - 1) in
  process_candidate w u st1 seg1 utt i j.

Lemma scan_j_S (n : nat) (u : bool) (st : pstate) (seg : list str) (found : bool)
      (utt : list str) (i j : nat) :
  scan_j w f (S n) u st seg found utt i j =
  if length utt <=? j then JNext st seg found
  else if cmem str_eqb (lex st) (cand utt i j) then
    let j' := if f then filter_freq st utt i j else j in
    if boundary_ok w st utt i j' then
      let '(st2, seg2) := emit u st seg utt i j' in
      if negb (Nat.eqb j' (length utt - 1))
      then JRecurse st2 seg2 (skipn (S j') utt)
      else JNext st2 seg2 true
    else scan_j w f n u st seg false utt i (S j')
  else scan_j w f n u st seg found utt i (S j).
Proof.
  cbn [scan_j]. unfold emit.
  destruct (length utt <=? j); [reflexivity|].
  destruct (cmem str_eqb (lex st) (cand utt i j)); [|reflexivity].
  cbv zeta.
  destruct (boundary_ok w st utt i (if f then filter_freq st utt i j else j)); [|reflexivity].
  destruct (Nat.eqb i 0); [reflexivity|].
  destruct (process_candidate w u st seg utt 0 (i - 1)) as [st1 seg1]. reflexivity.
Qed.

Lemma scan_i_S (n : nat) (u : bool) (st : pstate) (seg : list str) (found : bool)
      (utt : list str) (i : nat) :
  scan_i w f (S n) u st seg found utt i =
  if length utt <=? i then IDone st seg found
  else match scan_j w f (S (length utt)) u st seg found utt i i with
       | JRecurse st' seg' rest => IRecurse st' seg' rest
       | JNext st' seg' found' => scan_i w f n u st' seg' found' utt (S i)
       end.
Proof. reflexivity. Qed.

Lemma process_eq (fuel : nat) (u : bool) (st : pstate) (utt seg : list str) :
  process w f fuel u st utt seg =
  match utt with
  | [] => Raise ValueError
  | _ :: _ =>
    match scan_i w f (S (length utt)) u st seg false utt 0 with
    | IRecurse st' seg' rest =>
      match fuel with
      | O => Raise OutOfFuel
      | S f' => process w f f' u st' rest seg'
      end
    | IDone st' seg' found =>
      if found then Ok (st', seg')
      else Ok (process_candidate w u st' seg' utt 0 (length utt - 1))
    end
  end.
Proof. destruct fuel; reflexivity. Qed.

(* ---------- A. frozen model ---------- *)

Theorem process_candidate_frozen (st : pstate) (seg utt : list str) (i j : nat) :
  process_candidate w false st seg utt i j = (st, seg ++ [cand utt i j]).
Proof. reflexivity. Qed.

Lemma emit_frozen (st : pstate) (seg utt : list str) (i j : nat) :
  fst (emit false st seg utt i j) = st.
Proof. unfold emit. destruct (Nat.eqb i 0); reflexivity. Qed.

Lemma scan_j_frozen (fuel : nat) : forall (st : pstate) (seg : list str) (found : bool)
    (utt : list str) (i j : nat),
  match scan_j w f fuel false st seg found utt i j with
  | JRecurse st' _ _ => st' = st
  | JNext st' _ _ => st' = st
  end.
Proof.
  induction fuel as [|n IH]; intros st seg found utt i j; [reflexivity|].
  rewrite scan_j_S.
  destruct (length utt <=? j); [reflexivity|].
  destruct (cmem str_eqb (lex st) (cand utt i j)); [|apply IH].
  cbv zeta. set (j' := if f then filter_freq st utt i j else j).
  destruct (boundary_ok w st utt i j'); [|apply IH].
  pose proof (emit_frozen st seg utt i j') as He.
  destruct (emit false st seg utt i j') as [st2 seg2]. cbn [fst] in He.
  destruct (negb (Nat.eqb j' (length utt - 1))); exact He.
Qed.

Lemma scan_i_frozen (fuel : nat) : forall (st : pstate) (seg : list str) (found : bool)
    (utt : list str) (i : nat),
  match scan_i w f fuel false st seg found utt i with
  | IRecurse st' _ _ => st' = st
  | IDone st' _ _ => st' = st
  end.
Proof.
  induction fuel as [|n IH]; intros st seg found utt i; [reflexivity|].
  rewrite scan_i_S.
  destruct (length utt <=? i); [reflexivity|].
  pose proof (scan_j_frozen (S (length utt)) st seg found utt i i) as Hj.
  destruct (scan_j w f (S (length utt)) false st seg found utt i i) as [st' seg' rest|st' seg' found'].
  - exact Hj.
  - subst st'. apply IH.
Qed.

Theorem process_frozen : forall (fuel : nat) (st : pstate) (utt seg : list str)
    (r : pstate * list str),
  process w f fuel false st utt seg = Ok r -> fst r = st.
Proof.
  induction fuel as [|n IH]; intros st utt seg r H; rewrite process_eq in H;
    (destruct utt as [|x utt]; [discriminate|]);
    pose proof (scan_i_frozen (S (length (x :: utt))) st seg false (x :: utt) 0) as Hi;
    destruct (scan_i w f (S (length (x :: utt))) false st seg false (x :: utt) 0)
      as [st' seg' rest|st' seg' found]; subst st'.
  - discriminate.
  - destruct found; inversion H; reflexivity.
  - eapply IH; eauto.
  - destruct found; inversion H; reflexivity.
Qed.

Lemma process_utterance_frozen (st : pstate) (line : str) (r : pstate * str) :
  process_utterance w f false st line = Ok r -> fst r = st.
Proof.
  unfold process_utterance. intros H.
  destruct (process w f (length (split_ws (strip line))) false st (split_ws (strip line)) [])
    as [r0|e] eqn:E; [|discriminate].
  cbn [bind] in H. inversion H; subst. cbn [fst]. eapply process_frozen; eauto.
Qed.

Theorem segment_model_frozen : forall (st : pstate) (text : list str) (r : pstate * list str),
  segment_model w f false st text = Ok r -> fst r = st.
Proof.
  intros st text; revert st; induction text as [|l text IH]; intros st r H.
  - cbn [segment_model] in H. inversion H; reflexivity.
  - cbn [segment_model] in H.
    destruct (process_utterance w f false st l) as [s|e] eqn:E; [|discriminate].
    cbn [bind] in H.
    destruct (segment_model w f false (fst s) text) as [t|e] eqn:E2; [|discriminate].
    cbn [bind] in H. inversion H; subst. cbn [fst].
    rewrite (IH _ _ E2). eapply process_utterance_frozen; eauto.
Qed.

(* ---------- B. histories ---------- *)

Theorem train_app : forall (st : pstate) (a b : list str),
  train w f st (a ++ b) = (do s <- train w f st a; train w f s b).
Proof.
  intros st a; revert st; induction a as [|l a IH]; intros st b; [reflexivity|].
  cbn [app train].
  destruct (process_utterance w f true st l) as [s|e]; [|reflexivity].
  cbn [bind]. apply IH.
Qed.

Theorem segment_model_app : forall (u : bool) (st : pstate) (xs ys : list str),
  segment_model w f u st (xs ++ ys) =
  (do r1 <- segment_model w f u st xs;
   do r2 <- segment_model w f u (fst r1) ys;
   Ok (fst r2, snd r1 ++ snd r2)).
Proof.
  intros u st xs; revert st; induction xs as [|l xs IH]; intros st ys.
  - cbn [app segment_model bind fst snd].
    destruct (segment_model w f u st ys) as [[st2 o2]|e]; reflexivity.
  - cbn [app segment_model].
    destruct (process_utterance w f u st l) as [s|e]; [|reflexivity].
    cbn [bind]. rewrite IH.
    destruct (segment_model w f u (fst s) xs) as [r1|e]; [|reflexivity].
    cbn [bind fst snd].
    destruct (segment_model w f u (fst r1) ys) as [r2|e]; reflexivity.
Qed.

Lemma segment_model_length : forall (u : bool) (text : list str) (st : pstate)
    (r : pstate * list str),
  segment_model w f u st text = Ok r -> length (snd r) = length text.
Proof.
  intros u text; induction text as [|l text IH]; intros st r H; cbn [segment_model] in H.
  - inversion H; reflexivity.
  - destruct (process_utterance w f u st l) as [s|e]; [|discriminate]. cbn [bind] in H.
    destruct (segment_model w f u (fst s) text) as [t|e] eqn:E; [|discriminate].
    cbn [bind] in H. inversion H; subst. cbn [snd length]. f_equal. eapply IH; eauto.
Qed.

Theorem segment_prefix_causal : forall (u : bool) (st : pstate) (xs ys : list str)
    (r : pstate * list str),
  segment_model w f u st (xs ++ ys) = Ok r ->
  exists r1, segment_model w f u st xs = Ok r1 /\ firstn (length xs) (snd r) = snd r1.
Proof.
  intros u st xs ys r H. rewrite segment_model_app in H.
  destruct (segment_model w f u st xs) as [r1|e] eqn:E1; [|discriminate]. cbn [bind] in H.
  destruct (segment_model w f u (fst r1) ys) as [r2|e] eqn:E2; [|discriminate].
  cbn [bind] in H. inversion H; subst. cbn [snd].
  exists r1. split; [reflexivity|].
  rewrite <- (segment_model_length _ _ _ _ E1).
  rewrite firstn_app, Nat.sub_diag, firstn_all. cbn [firstn]. apply app_nil_r.
Qed.

(* ---------- C. conservation ---------- *)

Lemma fold_left_pick {B} (F : nat * B -> nat -> nat * B) (l : list nat) :
  (forall (best : nat * B) (k : nat), F best k = best \/ fst (F best k) = k) ->
  forall init : nat * B,
    fst (fold_left F l init) = fst init \/ In (fst (fold_left F l init)) l.
Proof.
  intros HF. induction l as [|k l IH]; intros init; cbn [fold_left]; [now left|].
  destruct (IH (F init k)) as [E|E].
  - destruct (HF init k) as [E2|E2].
    + left. now rewrite E, E2.
    + right. left. now rewrite E, E2.
  - right. right. exact E.
Qed.

Lemma filter_freq_bounds (st : pstate) (utt : list str) (i j : nat) :
  j < length utt -> j <= filter_freq st utt i j < length utt.
Proof.
  intros Hj. unfold filter_freq.
  match goal with |- context [fold_left ?F ?l ?init0] =>
    assert (HF : forall (best : nat * Z) (k : nat), F best k = best \/ fst (F best k) = k);
    [|destruct (fold_left_pick F l HF init0) as [E|E]] end.
  - intros best k. cbv zeta. destruct (snd best <=? _)%Z; [right; reflexivity|now left].
  - rewrite E. cbn [fst]. lia.
  - apply in_seq in E. lia.
Qed.

Lemma boundary_ok_next (st : pstate) (utt : list str) (i j : nat) :
  (1 <= w)%Z -> Inv st -> j < length utt ->
  boundary_ok w st utt i j = true -> S j < length utt.
Proof.
  intros Hw HI Hj H.
  destruct (le_lt_dec (length utt) (S j)) as [Hle|Hlt]; [exfalso|exact Hlt].
  unfold boundary_ok in H. cbv zeta in H.
  destruct (negb (Nat.eqb i 0) && negb (cmem str_eqb (en st) (concat (pyslice utt (Z.max 0 (zn i - w)) (zn i)))));
    [discriminate|].
  rewrite pyslice_next_nil in H by assumption. cbn [concat] in H.
  unfold Inv in HI. rewrite HI in H.
  destruct (Nat.eqb_spec (length utt) (j - i)); [lia|]. cbn [negb andb] in H. discriminate.
Qed.

Lemma pc_snd (u : bool) (st : pstate) (seg utt : list str) (i j : nat) :
  snd (process_candidate w u st seg utt i j) = seg ++ [cand utt i j].
Proof.
  unfold process_candidate. destruct u; [|reflexivity].
  destruct (2 <=? length (pyslice utt (zn i) (zn j + 1))); reflexivity.
Qed.

Lemma pc_inv (u : bool) (st : pstate) (seg utt : list str) (i j : nat) :
  (1 <= w)%Z -> Inv st -> units_ok utt -> i < length utt ->
  Inv (fst (process_candidate w u st seg utt i j)).
Proof.
  intros Hw HI Hu Hi. unfold process_candidate. destruct u; [|exact HI].
  destruct (2 <=? length (pyslice utt (zn i) (zn j + 1))); cbn [fst]; [|exact HI].
  unfold Inv. cbn [beg]. rewrite (cmem_cadd str_eqb str_eqb_spec).
  unfold Inv in HI. rewrite HI. cbn [orb].
  destruct (str_eqb_spec [] (concat (pyslice utt (zn i) (zn i + w)))) as [E|E]; [exfalso|reflexivity].
  symmetry in E. revert E. apply concat_nonnil.
  - now apply pyslice_units.
  - now apply pyslice_window_nonnil.
Qed.

Lemma emit_inv (u : bool) (st : pstate) (seg utt : list str) (i j : nat) :
  (1 <= w)%Z -> Inv st -> units_ok utt -> i <= j -> j < length utt ->
  Inv (fst (emit u st seg utt i j)).
Proof.
  intros Hw HI Hu Hij Hj. unfold emit.
  destruct (Nat.eqb_spec i 0) as [E|E].
  - apply pc_inv; auto; lia.
  - pose proof (pc_inv u st seg utt 0 (i - 1) Hw HI Hu) as H1.
    destruct (process_candidate w u st seg utt 0 (i - 1)) as [st1 seg1]. cbn [fst] in H1.
    apply pc_inv; auto; try lia. apply H1. lia.
Qed.

Definition emit_groups (utt : list str) (i j : nat) : list (list str) :=
  (if Nat.eqb i 0 then [] else [firstn i utt]) ++ [firstn (S j - i) (skipn i utt)].

Lemma emit_snd (u : bool) (st : pstate) (seg utt : list str) (i j : nat) :
  i <= j -> j < length utt ->
  snd (emit u st seg utt i j) = seg ++ map (@concat char) (emit_groups utt i j).
Proof.
  intros Hij Hj. unfold emit, emit_groups.
  destruct (Nat.eqb_spec i 0) as [E|E].
  - rewrite pc_snd. rewrite cand_mid by lia. reflexivity.
  - pose proof (pc_snd u st seg utt 0 (i - 1)) as H1.
    destruct (process_candidate w u st seg utt 0 (i - 1)) as [st1 seg1]. cbn [snd] in H1.
    rewrite pc_snd, H1. rewrite !cand_mid by lia.
    cbn [skipn map app]. replace (S (i - 1) - 0) with i by lia.
    rewrite <- app_assoc. reflexivity.
Qed.

Lemma emit_groups_concat (utt : list str) (i j : nat) :
  i <= j -> concat (emit_groups utt i j) = firstn (S j) utt.
Proof.
  intros Hij. unfold emit_groups.
  destruct (Nat.eqb_spec i 0) as [E|E].
  - subst i. cbn [app concat skipn]. rewrite app_nil_r. now rewrite Nat.sub_0_r.
  - cbn [app concat]. rewrite app_nil_r.
    replace (S j) with (i + (S j - i)) at 2 by lia. now rewrite firstn_add.
Qed.

Lemma emit_groups_nonnil (utt : list str) (i j : nat) :
  i <= j -> j < length utt -> Forall (fun g : list str => g <> []) (emit_groups utt i j).
Proof.
  intros Hij Hj. unfold emit_groups. apply Forall_app. split.
  - destruct (Nat.eqb_spec i 0) as [E|E]; [constructor|]. constructor; [|constructor].
    apply firstn_nonnil; [lia|]. apply nonnil_length. lia.
  - constructor; [|constructor]. apply firstn_nonnil; [lia|]. apply skipn_nonnil. lia.
Qed.

(* the inner loop: under Inv the break is unreachable; a recursion emits an
   accepted candidate (i, j') that does not end the utterance *)
Lemma scan_j_spec (fuel : nat) : forall (u : bool) (st : pstate) (seg : list str) (found : bool)
    (utt : list str) (i j : nat),
  (1 <= w)%Z -> Inv st -> i <= j ->
  match scan_j w f fuel u st seg found utt i j with
  | JNext st' seg' found' => st' = st /\ seg' = seg /\ (found = false -> found' = false)
  | JRecurse st2 seg2 rest =>
    exists j', j <= j' /\ S j' < length utt /\ boundary_ok w st utt i j' = true /\
               rest = skipn (S j') utt /\ (st2, seg2) = emit u st seg utt i j'
  end.
Proof.
  induction fuel as [|n IH]; intros u st seg found utt i j Hw HI Hij; [cbn [scan_j]; auto|].
  rewrite scan_j_S.
  destruct (Nat.leb_spec (length utt) j) as [Hle|Hlt]; [auto|].
  destruct (cmem str_eqb (lex st) (cand utt i j)).
  - cbv zeta. set (j' := if f then filter_freq st utt i j else j).
    assert (Hj' : j <= j' < length utt).
    { subst j'. destruct f; [now apply filter_freq_bounds|lia]. }
    destruct (boundary_ok w st utt i j') eqn:Eb.
    + pose proof (boundary_ok_next st utt i j' Hw HI (proj2 Hj') Eb) as Hn.
      destruct (emit u st seg utt i j') as [st2 seg2] eqn:Ee.
      destruct (Nat.eqb_spec j' (length utt - 1)); [lia|]. cbn [negb].
      exists j'. repeat split; auto; lia.
    + specialize (IH u st seg false utt i (S j') Hw HI).
      destruct (scan_j w f n u st seg false utt i (S j')) as [st2 seg2 rest|st' seg' found'].
      * destruct IH as (k & Hk1 & Hk2 & Hk3 & Hk4 & Hk5); [lia|].
        exists k. repeat split; auto; lia.
      * destruct IH as (E1 & E2 & E3); [lia|]. repeat split; auto.
  - specialize (IH u st seg found utt i (S j) Hw HI).
    destruct (scan_j w f n u st seg found utt i (S j)) as [st2 seg2 rest|st' seg' found'].
    + destruct IH as (k & Hk1 & Hk2 & Hk3 & Hk4 & Hk5); [lia|].
      exists k. repeat split; auto; lia.
    + apply IH. lia.
Qed.

Lemma scan_i_spec (fuel : nat) : forall (u : bool) (st : pstate) (seg : list str)
    (utt : list str) (i : nat),
  (1 <= w)%Z -> Inv st ->
  match scan_i w f fuel u st seg false utt i with
  | IDone st' seg' found' => st' = st /\ seg' = seg /\ found' = false
  | IRecurse st2 seg2 rest =>
    exists i' j', i <= i' /\ i' <= j' /\ S j' < length utt /\ boundary_ok w st utt i' j' = true /\
                  rest = skipn (S j') utt /\ (st2, seg2) = emit u st seg utt i' j'
  end.
Proof.
  induction fuel as [|n IH]; intros u st seg utt i Hw HI; [cbn [scan_i]; auto|].
  rewrite scan_i_S.
  destruct (Nat.leb_spec (length utt) i) as [Hle|Hlt]; [auto|].
  pose proof (scan_j_spec (S (length utt)) u st seg false utt i i Hw HI (le_n i)) as Hj.
  destruct (scan_j w f (S (length utt)) u st seg false utt i i) as [st2 seg2 rest|st' seg' found'].
  - destruct Hj as (j' & H1 & H2 & H3 & H4 & H5). exists i, j'. repeat split; auto.
  - destruct Hj as (E1 & E2 & E3). subst st' seg'. rewrite (E3 eq_refl).
    specialize (IH u st seg utt (S i) Hw HI).
    destruct (scan_i w f n u st seg false utt (S i)) as [st2 seg2 rest|st' seg' found''].
    + destruct IH as (i' & j' & H0 & H1 & H2 & H3 & H4 & H5).
      exists i', j'. repeat split; auto; lia.
    + exact IH.
Qed.

Definition grouping (utt : list str) (seg seg' : list str) : Prop :=
  exists groups : list (list str),
    concat groups = utt /\ Forall (fun g : list str => g <> []) groups /\
    seg' = seg ++ map (@concat char) groups.

Lemma process_spec : forall (fuel : nat) (u : bool) (st : pstate) (utt seg : list str),
  (1 <= w)%Z -> Inv st -> units_ok utt -> length utt <= fuel ->
  match process w f fuel u st utt seg with
  | Ok r => Inv (fst r) /\ utt <> [] /\ grouping utt seg (snd r)
  | Raise e => e = ValueError /\ utt = []
  end.
Proof.
  induction fuel as [|n IH]; intros u st utt seg Hw HI Hu Hf.
  - destruct utt as [|x utt0]; [|cbn [length] in Hf; lia]. cbn [process]. auto.
  - rewrite process_eq. destruct utt as [|x utt0]; [auto|].
    set (utt := x :: utt0) in *. assert (Hne : utt <> []) by discriminate. clearbody utt.
    pose proof (scan_i_spec (S (length utt)) u st seg utt 0 Hw HI) as Hi.
    destruct (scan_i w f (S (length utt)) u st seg false utt 0) as [st2 seg2 rest|st' seg' found'].
    + destruct Hi as (i' & j' & _ & H1 & H2 & H3 & H4 & H5).
      assert (Hj' : j' < length utt) by lia.
      pose proof (emit_inv u st seg utt i' j' Hw HI Hu H1 Hj') as HI2.
      pose proof (emit_snd u st seg utt i' j' H1 Hj') as Hs2.
      rewrite <- H5 in HI2, Hs2. cbn [fst snd] in HI2, Hs2.
      assert (Hur : units_ok rest) by (subst rest; now apply Forall_skipn_).
      assert (Hlr : length rest <= n) by (subst rest; rewrite skipn_length; lia).
      specialize (IH u st2 rest seg2 Hw HI2 Hur Hlr).
      destruct (process w f n u st2 rest seg2) as [r|e].
      * destruct IH as (HI' & Hrne & gs & G1 & G2 & G3).
        split; [exact HI'|]. split; [exact Hne|].
        exists (emit_groups utt i' j' ++ gs). split; [|split].
        -- rewrite concat_app, emit_groups_concat, G1, H4 by exact H1.
           apply firstn_skipn.
        -- apply Forall_app. split; [now apply emit_groups_nonnil|exact G2].
        -- rewrite G3, Hs2, map_app, app_assoc. reflexivity.
      * destruct IH as (_ & Hr). exfalso. rewrite H4 in Hr.
        revert Hr. apply skipn_nonnil. lia.
    + destruct Hi as (E1 & E2 & E3). subst st' seg' found'.
      assert (Hl : 1 <= length utt) by now apply nonnil_length.
      split; [|split; [exact Hne|]].
      * apply pc_inv; auto.
      * exists [utt]. split; [|split].
        -- cbn [concat]. apply app_nil_r.
        -- constructor; [exact Hne|constructor].
        -- rewrite pc_snd, cand_mid by lia. cbn [skipn map].
           replace (S (length utt - 1) - 0) with (length utt) by lia.
           now rewrite firstn_all.
Qed.

Theorem process_is_grouping : forall (fuel : nat) (do_update : bool) (st : pstate)
    (utt seg : list str) (st' : pstate) (seg' : list str),
  (1 <= w)%Z -> Inv st -> units_ok utt -> length utt <= fuel ->
  process w f fuel do_update st utt seg = Ok (st', seg') ->
  Inv st' /\ exists groups : list (list str),
     concat groups = utt /\ Forall (fun g => g <> []) groups /\
     seg' = seg ++ map (@concat char) groups.
Proof.
  intros fuel u st utt seg st' seg' Hw HI Hu Hf H.
  pose proof (process_spec fuel u st utt seg Hw HI Hu Hf) as Hs.
  rewrite H in Hs. cbn [fst snd] in Hs. destruct Hs as (H1 & _ & H3). split; assumption.
Qed.

Theorem process_no_fuel_out : forall (fuel : nat) (do_update : bool) (st : pstate)
    (utt seg : list str),
  (1 <= w)%Z -> Inv st -> units_ok utt -> length utt <= fuel ->
  process w f fuel do_update st utt seg <> Raise OutOfFuel.
Proof.
  intros fuel u st utt seg Hw HI Hu Hf H.
  pose proof (process_spec fuel u st utt seg Hw HI Hu Hf) as Hs.
  rewrite H in Hs. destruct Hs as (Hs & _). discriminate.
Qed.

(* the relation between an input line and its output used for folds *)
Definition line_ok (line out : str) : Prop :=
  is_seg (split_ws (strip line)) out /\ out <> [].

Lemma process_utterance_ok (u : bool) (st : pstate) (line : str) (st' : pstate) (out : str) :
  (1 <= w)%Z -> Inv st -> process_utterance w f u st line = Ok (st', out) ->
  Inv st' /\ line_ok line out.
Proof.
  intros Hw HI H. unfold process_utterance in H.
  set (utt := split_ws (strip line)) in *.
  assert (Hu : units_ok utt) by apply split_ws_units.
  pose proof (process_spec (length utt) u st utt [] Hw HI Hu (le_n _)) as Hs.
  destruct (process w f (length utt) u st utt []) as [r|e]; [|discriminate].
  cbn [bind] in H. inversion H; subst st' out. clear H.
  destruct Hs as (HI' & Hne & gs & G1 & G2 & G3). cbn [app] in G3.
  split; [exact HI'|]. split.
  - exists gs. repeat split; auto. now rewrite G3.
  - rewrite G3. apply join_nonnil.
    + (* every group is a non-empty list of non-empty units *)
      assert (Hall : Forall units_ok gs).
      { rewrite <- G1 in Hu. clear - Hu. induction gs as [|g gs IH]; [constructor|].
        cbn [concat] in Hu. apply Forall_app in Hu. destruct Hu. constructor; auto. }
      clear - Hall G2. induction gs as [|g gs IH]; [constructor|].
      inversion Hall; inversion G2; subst. constructor; [|now apply IH].
      now apply concat_nonnil.
    + destruct gs as [|g gs]; [|discriminate]. cbn [concat] in G1. congruence.
Qed.

Theorem process_utterance_is_seg : forall (do_update : bool) (st : pstate) (line : str)
    (st' : pstate) (out : str),
  (1 <= w)%Z -> Inv st -> process_utterance w f do_update st line = Ok (st', out) ->
  Inv st' /\ is_seg (split_ws (strip line)) out.
Proof.
  intros u st line st' out Hw HI H.
  destruct (process_utterance_ok u st line st' out Hw HI H) as (H1 & H2 & _). now split.
Qed.

Theorem process_utterance_nonempty : forall (do_update : bool) (st : pstate) (line : str)
    (st' : pstate) (out : str),
  (1 <= w)%Z -> Inv st -> process_utterance w f do_update st line = Ok (st', out) -> out <> [].
Proof.
  intros u st line st' out Hw HI H.
  destruct (process_utterance_ok u st line st' out Hw HI H) as (_ & _ & H3). exact H3.
Qed.

Lemma segment_model_ok : forall (u : bool) (text : list str) (st st' : pstate) (outs : list str),
  (1 <= w)%Z -> Inv st -> segment_model w f u st text = Ok (st', outs) ->
  Inv st' /\ Forall2 line_ok text outs.
Proof.
  intros u text; induction text as [|l text IH]; intros st st' outs Hw HI H;
    cbn [segment_model] in H.
  - inversion H; subst. split; [exact HI|constructor].
  - destruct (process_utterance w f u st l) as [[s1 o1]|e] eqn:E; [|discriminate].
    cbn [bind fst snd] in H.
    destruct (process_utterance_ok u st l s1 o1 Hw HI E) as (HI1 & Hl).
    destruct (segment_model w f u s1 text) as [[s2 o2]|e] eqn:E2; [|discriminate].
    cbn [bind fst snd] in H. inversion H; subst.
    destruct (IH s1 st' o2 Hw HI1 E2) as (HI2 & HF). split; [exact HI2|].
    constructor; assumption.
Qed.

Lemma line_ok_aligned (text outs : list str) :
  Forall2 line_ok text outs -> aligned (map (fun l => split_ws (strip l)) text) outs.
Proof.
  unfold aligned. induction 1 as [|l o text outs Hl HF IH]; cbn [map]; constructor; auto.
  apply Hl.
Qed.

Lemma line_ok_filter (text outs : list str) :
  Forall2 line_ok text outs -> filter nonempty outs = outs.
Proof.
  induction 1 as [|l o text outs Hl HF IH]; [reflexivity|]. cbn [filter].
  destruct Hl as (_ & Hne). destruct o as [|c o]; [congruence|]. cbn [nonempty]. now rewrite IH.
Qed.

Theorem segment_model_aligned : forall (do_update : bool) (st : pstate) (text : list str)
    (st' : pstate) (outs : list str),
  (1 <= w)%Z -> Inv st -> segment_model w f do_update st text = Ok (st', outs) ->
  Inv st' /\ aligned (map (fun l => split_ws (strip l)) text) outs.
Proof.
  intros u st text st' outs Hw HI H.
  destruct (segment_model_ok u text st st' outs Hw HI H) as (H1 & H2).
  split; [exact H1|]. now apply line_ok_aligned.
Qed.

Theorem train_inv : forall (st : pstate) (text : list str) (st' : pstate),
  (1 <= w)%Z -> Inv st -> train w f st text = Ok st' -> Inv st'.
Proof.
  intros st text; revert st; induction text as [|l text IH]; intros st st' Hw HI H;
    cbn [train] in H.
  - inversion H; subst. exact HI.
  - destruct (process_utterance w f true st l) as [[s1 o1]|e] eqn:E; [|discriminate].
    cbn [bind fst] in H.
    destruct (process_utterance_ok true st l s1 o1 Hw HI E) as (HI1 & _).
    eapply IH; eauto.
Qed.

(* ---------- the top-level function with folds ---------- *)

Lemma mapM_do_puddle (folds : list (list str)) (segs : list (list str)) :
  (1 <= w)%Z -> mapM (do_puddle w f) folds = Ok segs -> Forall2 (Forall2 line_ok) folds segs.
Proof.
  intros Hw. revert segs; induction folds as [|fd folds IH]; intros segs H; cbn [mapM] in H.
  - inversion H; constructor.
  - unfold do_puddle at 1 in H.
    destruct (segment_model w f true pinit fd) as [[s o]|e] eqn:E; [|discriminate].
    cbn [bind snd] in H.
    destruct (mapM (do_puddle w f) folds) as [ys|e] eqn:E2; [|discriminate].
    cbn [bind] in H. inversion H; subst. constructor; [|now apply IH].
    now destruct (segment_model_ok true fd pinit s o Hw Inv_pinit E).
Qed.

Theorem puddle_segment_aligned : forall (text : list str) (train_text : option (list str))
    (nfolds : Z) (out : list str),
  (1 <= w)%Z -> segment w f text train_text nfolds = Ok out ->
  aligned (map (fun l => split_ws (strip l)) text) out.
Proof.
  intros text train_text nfolds out Hw H.
  assert (Hfold : (do fi <- fold text nfolds None;
                   do segs <- mapM (do_puddle w f) (fst fi);
                   do o <- unfold segs (snd fi); Ok (filter nonempty o)) = Ok out ->
                  aligned (map (fun l => split_ws (strip l)) text) out).
  { clear H. intros H.
    destruct (Z.eq_dec nfolds 1) as [E1|N1].
    - subst nfolds.
      destruct text as [|l0 text0]; [rewrite fold_empty_raises in H; discriminate|].
      set (text := l0 :: text0) in *.
      rewrite fold_one_fold in H by (subst text; discriminate). cbn [bind fst snd] in H.
      destruct (mapM (do_puddle w f) [text]) as [segs|e] eqn:E; [|discriminate].
      cbn [bind] in H. pose proof (mapM_do_puddle _ _ Hw E) as HF.
      inversion HF as [|? o ? segs' Ho Hnil]; subst. inversion Hnil; subst.
      rewrite unfold_single in H. cbn [bind] in H. inversion H; subst.
      rewrite (line_ok_filter _ _ Ho). now apply line_ok_aligned.
    - destruct (Z_lt_le_dec nfolds 1) as [Hlt|Hge].
      { rewrite fold_errors in H by lia. discriminate. }
      destruct (Z_lt_le_dec (Z.of_nat (length text)) nfolds) as [Hlt2|Hle2].
      { rewrite fold_errors in H by lia. discriminate. }
      rewrite fold_default_ok in H by lia. cbn [bind] in H.
      set (b := default_bounds (length text) (Z.to_nat nfolds)) in *.
      assert (Hv : valid_bounds b) by (apply default_bounds_valid; lia).
      destruct (mapM (do_puddle w f) (fst (fold_spec text b))) as [segs|e] eqn:E; [|discriminate].
      cbn [bind] in H. pose proof (mapM_do_puddle _ _ Hw E) as HF.
      destruct (unfold_transformed line_ok text b segs Hv HF) as (o & Ho & HR).
      rewrite Ho in H. cbn [bind] in H. inversion H; subst.
      rewrite (line_ok_filter _ _ HR). now apply line_ok_aligned. }
  unfold segment in H.
  destruct train_text as [[|l tr]|]; [exact (Hfold H)| |exact (Hfold H)].
  destruct (train w f pinit (l :: tr)) as [st|e] eqn:Et; [|discriminate].
  cbn [bind] in H.
  destruct (segment_model w f false st text) as [[st' outs]|e] eqn:Es; [|discriminate].
  cbn [bind snd] in H. inversion H; subst.
  pose proof (train_inv pinit (l :: tr) st Hw Inv_pinit Et) as HI.
  destruct (segment_model_ok false text st st' outs Hw HI Es) as (_ & HF).
  rewrite (line_ok_filter _ _ HF). now apply line_ok_aligned.
Qed.

End P.
