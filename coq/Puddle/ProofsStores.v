(* PUDDLE: the n-gram stores after the repair e3d63e5 (slices starting at
   max(0, ...)).
   G1. ending_ngram_spec: the key added to `en` by an updating candidate of
       at least two units is the concatenation of the last min(window, j+1)
       units up to position j; it is not the empty string.
   G2. preceding_ngram_spec: the string boundary_ok looks up in `en` for a
       candidate starting at i > 0 is the concatenation of the min(window, i)
       units before position i; it is not the empty string.
   G3. en_never_empty: the empty string is never an attested word ending, in
       any state reachable from the empty model by train/segment calls.
   G4. the formerly failing history, replayed. *)
From Coq Require Import List Arith ZArith Bool Lia.
From WS Require Import Base.Py Base.Str Base.Counter Base.CounterProofs Base.ListX Base.Seg
  Folding.Model Puddle.Model Puddle.StrLemmas Puddle.Proofs Puddle.Proofs2 Puddle.ProofsFreq.
Import ListNotations.

(* ---------- slices between two natural positions ---------- *)

Lemma pyslice_nat {A} (utt : list A) (lo hi : nat) :
  lo <= length utt -> hi <= length utt ->
  pyslice utt (Z.of_nat lo) (Z.of_nat hi) = firstn (hi - lo) (skipn lo utt).
Proof.
  intros Hl Hh. unfold pyslice.
  rewrite !norm_idx_nat by assumption. rewrite Nat2Z.id.
  replace (Z.to_nat (Z.of_nat hi - Z.of_nat lo)) with (hi - lo) by lia.
  reflexivity.
Qed.

(* utt[max(0, p - w):p]: the min(w, p) elements before position p *)
Lemma pyslice_back {A} (utt : list A) (p : nat) (w : Z) :
  (1 <= w)%Z -> p <= length utt ->
  let lo := Z.to_nat (Z.max 0 (Z.of_nat p - w)) in
  pyslice utt (Z.max 0 (Z.of_nat p - w)) (Z.of_nat p) = firstn (p - lo) (skipn lo utt) /\
  length (firstn (p - lo) (skipn lo utt)) = Z.to_nat (Z.min w (Z.of_nat p)) /\
  lo + length (firstn (p - lo) (skipn lo utt)) = p.
Proof.
  intros Hw Hp lo.
  assert (Hlo : Z.max 0 (Z.of_nat p - w) = Z.of_nat lo) by (subst lo; lia).
  assert (Hlp : lo <= p) by (subst lo; lia).
  split; [|split].
  - rewrite Hlo. apply pyslice_nat; lia.
  - rewrite firstn_length, skipn_length. subst lo. lia.
  - rewrite firstn_length, skipn_length. lia.
Qed.

Lemma pyslice_back_nonnil {A} (utt : list A) (p : nat) (w : Z) :
  (1 <= w)%Z -> 1 <= p -> p <= length utt ->
  pyslice utt (Z.max 0 (Z.of_nat p - w)) (Z.of_nat p) <> [].
Proof.
  intros Hw H1 Hp.
  destruct (pyslice_back utt p w Hw Hp) as (E1 & E2 & _).
  rewrite E1. apply nonnil_length. rewrite E2. lia.
Qed.

(* the slice of the model for the ending n-gram of a word ending at j *)
Lemma pyslice_ending_nonnil {A} (utt : list A) (j : nat) (w : Z) :
  (1 <= w)%Z -> j < length utt ->
  pyslice utt (Z.max 0 (zn j + 1 - w)) (zn j + 1) <> [].
Proof.
  intros Hw Hj. unfold zn.
  replace (Z.of_nat j + 1)%Z with (Z.of_nat (S j)) by lia.
  apply pyslice_back_nonnil; [exact Hw|lia|lia].
Qed.

(* ---------- G1. the ending n-gram ---------- *)

Theorem ending_ngram_spec : forall (w : Z) (st : pstate) (seg utt : list str) (i j : nat),
  (1 <= w)%Z -> units_ok utt -> i < j -> j < length utt ->
  let lo := Z.to_nat (Z.max 0 (Z.of_nat j + 1 - w)) in
  let ngram := firstn (j + 1 - lo) (skipn lo utt) in
  en (fst (process_candidate w true st seg utt i j)) = cadd str_eqb (en st) (concat ngram) 1 /\
  length ngram = Z.to_nat (Z.min w (Z.of_nat j + 1)) /\
  lo + length ngram = j + 1 /\
  concat ngram <> [].
Proof.
  intros w st seg utt i j Hw Hu Hij Hj lo ngram.
  assert (Hp : S j <= length utt) by lia.
  pose proof (pyslice_back utt (S j) w Hw Hp) as H. cbv zeta in H.
  replace (Z.of_nat (S j)) with (Z.of_nat j + 1)%Z in H by lia.
  replace (S j) with (j + 1) in H by lia.
  fold lo in H. fold ngram in H. destruct H as (E1 & E2 & E3).
  assert (Hc : (2 <=? length (pyslice utt (zn i) (zn j + 1))) = true).
  { apply Nat.leb_le. rewrite pyslice_mid by lia.
    rewrite firstn_length, skipn_length. lia. }
  split; [|split; [exact E2|split; [exact E3|]]].
  - unfold process_candidate. rewrite Hc. cbn [fst en]. unfold zn. rewrite E1. reflexivity.
  - apply concat_nonnil.
    + subst ngram. now apply Forall_firstn_, Forall_skipn_.
    + apply nonnil_length. rewrite E2. lia.
Qed.

(* the other cases leave the store alone: a word of one unit, a frozen model *)
Theorem ending_ngram_single : forall (w : Z) (st : pstate) (seg utt : list str) (i : nat),
  i < length utt -> en (fst (process_candidate w true st seg utt i i)) = en st.
Proof.
  intros w st seg utt i Hi. unfold process_candidate.
  rewrite pyslice_mid by lia. rewrite firstn_length, skipn_length.
  destruct (Nat.leb_spec 2 (Nat.min (S i - i) (length utt - i))) as [H|H]; [lia|reflexivity].
Qed.

Theorem ending_ngram_frozen : forall (w : Z) (st : pstate) (seg utt : list str) (i j : nat),
  en (fst (process_candidate w false st seg utt i j)) = en st.
Proof. reflexivity. Qed.

(* ---------- G2. the preceding n-gram ---------- *)

Theorem preceding_ngram_spec : forall (w : Z) (st : pstate) (utt : list str) (i j : nat),
  (1 <= w)%Z -> 0 < i -> i <= length utt ->
  let lo := Z.to_nat (Z.max 0 (Z.of_nat i - w)) in
  let ngram := firstn (i - lo) (skipn lo utt) in
  boundary_ok w st utt i j =
    cmem str_eqb (en st) (concat ngram) &&
    (Nat.eqb (length utt) (j - i) ||
     cmem str_eqb (beg st) (concat (pyslice utt (zn j + 1) (zn j + 1 + w)))) /\
  length ngram = Z.to_nat (Z.min w (Z.of_nat i)) /\
  lo + length ngram = i /\
  (units_ok utt -> concat ngram <> []).
Proof.
  intros w st utt i j Hw Hi0 Hi lo ngram.
  pose proof (pyslice_back utt i w Hw Hi) as H. cbv zeta in H.
  fold lo in H. fold ngram in H. destruct H as (E1 & E2 & E3).
  split; [|split; [exact E2|split; [exact E3|]]].
  - unfold boundary_ok. cbv zeta. unfold zn at 1 2. rewrite E1.
    destruct (Nat.eqb_spec i 0) as [E|_]; [lia|]. cbn [negb andb].
    destruct (cmem str_eqb (en st) (concat ngram)); cbn [negb andb]; [|reflexivity].
    destruct (Nat.eqb (length utt) (j - i)); cbn [negb andb orb]; [reflexivity|].
    destruct (cmem str_eqb (beg st) (concat (pyslice utt (zn j + 1) (zn j + 1 + w))));
      reflexivity.
  - intros Hu. apply concat_nonnil.
    + subst ngram. now apply Forall_firstn_, Forall_skipn_.
    + apply nonnil_length. rewrite E2. lia.
Qed.

(* a boundary before position i > 0 needs the preceding n-gram in `en` *)
Corollary boundary_needs_attested_ending : forall (w : Z) (st : pstate) (utt : list str) (i j : nat),
  (1 <= w)%Z -> 0 < i -> i <= length utt -> boundary_ok w st utt i j = true ->
  let lo := Z.to_nat (Z.max 0 (Z.of_nat i - w)) in
  cmem str_eqb (en st) (concat (firstn (i - lo) (skipn lo utt))) = true.
Proof.
  intros w st utt i j Hw Hi0 Hi Hb lo.
  destruct (preceding_ngram_spec w st utt i j Hw Hi0 Hi) as (E & _).
  cbv zeta in E. fold lo in E. rewrite E in Hb.
  apply andb_true_iff in Hb. apply Hb.
Qed.

(* ---------- G3. the empty string is never an attested ending ---------- *)

Definition InvEn (st : pstate) : Prop := cmem str_eqb (en st) [] = false.

Theorem InvEn_pinit : InvEn pinit.
Proof. reflexivity. Qed.

Section Stores.
Variable w : Z.
Variable f : bool.
Hypothesis Hw : (1 <= w)%Z.

Theorem process_candidate_inven : forall (u : bool) (st : pstate) (seg utt : list str) (i j : nat),
  InvEn st -> units_ok utt -> j < length utt ->
  InvEn (fst (process_candidate w u st seg utt i j)).
Proof.
  intros u st seg utt i j HI Hu Hj. unfold process_candidate. destruct u; [|exact HI].
  destruct (2 <=? length (pyslice utt (zn i) (zn j + 1))); cbn [fst]; [|exact HI].
  unfold InvEn. cbn [en]. rewrite (cmem_cadd str_eqb str_eqb_spec).
  unfold InvEn in HI. rewrite HI. cbn [orb].
  destruct (str_eqb_spec [] (concat (pyslice utt (Z.max 0 (zn j + 1 - w)) (zn j + 1))))
    as [E|E]; [exfalso|reflexivity].
  symmetry in E. revert E. apply concat_nonnil.
  - now apply pyslice_units.
  - now apply pyslice_ending_nonnil.
Qed.

Lemma emit_inven (u : bool) (st : pstate) (seg utt : list str) (i j : nat) :
  InvEn st -> units_ok utt -> i <= j -> j < length utt ->
  InvEn (fst (emit w u st seg utt i j)).
Proof.
  intros HI Hu Hij Hj. unfold emit.
  destruct (Nat.eqb i 0).
  - apply process_candidate_inven; auto.
  - assert (Hi1 : i - 1 < length utt) by lia.
    pose proof (process_candidate_inven u st seg utt 0 (i - 1) HI Hu Hi1) as H1.
    destruct (process_candidate w u st seg utt 0 (i - 1)) as [st1 seg1]. cbn [fst] in H1.
    apply process_candidate_inven; auto.
Qed.

Lemma scan_j_inven (fuel : nat) : forall (u : bool) (st : pstate) (seg : list str) (found : bool)
    (utt : list str) (i j : nat),
  InvEn st -> units_ok utt -> i <= j ->
  match scan_j w f fuel u st seg found utt i j with
  | JRecurse st' _ rest => InvEn st' /\ units_ok rest
  | JNext st' _ _ => InvEn st'
  end.
Proof.
  induction fuel as [|n IH]; intros u st seg found utt i j HI Hu Hij; [cbn [scan_j]; exact HI|].
  rewrite scan_j_S.
  destruct (Nat.leb_spec (length utt) j) as [Hle|Hlt]; [exact HI|].
  destruct (cmem str_eqb (lex st) (cand utt i j)); [|apply IH; auto; lia].
  cbv zeta. set (j' := if f then filter_freq st utt i j else j).
  assert (Hj' : j <= j' < length utt).
  { subst j'. destruct f; [now apply filter_freq_bounds|lia]. }
  destruct (boundary_ok w st utt i j'); [|apply IH; auto; lia].
  assert (Hij' : i <= j') by lia.
  pose proof (emit_inven u st seg utt i j' HI Hu Hij' (proj2 Hj')) as He.
  destruct (emit w u st seg utt i j') as [st2 seg2]. cbn [fst] in He.
  destruct (negb (Nat.eqb j' (length utt - 1))); [|exact He].
  split; [exact He|now apply Forall_skipn_].
Qed.

Lemma scan_i_inven (fuel : nat) : forall (u : bool) (st : pstate) (seg : list str) (found : bool)
    (utt : list str) (i : nat),
  InvEn st -> units_ok utt ->
  match scan_i w f fuel u st seg found utt i with
  | IRecurse st' _ rest => InvEn st' /\ units_ok rest
  | IDone st' _ _ => InvEn st'
  end.
Proof.
  induction fuel as [|n IH]; intros u st seg found utt i HI Hu; [cbn [scan_i]; exact HI|].
  rewrite scan_i_S.
  destruct (length utt <=? i); [exact HI|].
  pose proof (scan_j_inven (S (length utt)) u st seg found utt i i HI Hu (le_n i)) as Hj.
  destruct (scan_j w f (S (length utt)) u st seg found utt i i) as [st' seg' rest|st' seg' found'].
  - exact Hj.
  - apply IH; assumption.
Qed.

(* one utterance, as a list of units *)
Theorem process_inven : forall (fuel : nat) (u : bool) (st : pstate) (utt seg : list str)
    (r : pstate * list str),
  InvEn st -> units_ok utt -> process w f fuel u st utt seg = Ok r -> InvEn (fst r).
Proof.
  induction fuel as [|n IH]; intros u st utt seg r HI Hu H; rewrite process_eq in H;
    (destruct utt as [|x utt0]; [discriminate|]);
    set (utt := x :: utt0) in *;
    assert (Hne : length utt - 1 < length utt) by (subst utt; cbn [length]; lia);
    clearbody utt;
    pose proof (scan_i_inven (S (length utt)) u st seg false utt 0 HI Hu) as Hi;
    destruct (scan_i w f (S (length utt)) u st seg false utt 0)
      as [st' seg' rest|st' seg' found].
  - discriminate.
  - destruct found; [inversion H; subst; cbn [fst]; exact Hi|].
    assert (E : r = process_candidate w u st' seg' utt 0 (length utt - 1)) by congruence.
    rewrite E. now apply process_candidate_inven.
  - destruct Hi as (Hi1 & Hi2). eapply IH; eauto.
  - destruct found; [inversion H; subst; cbn [fst]; exact Hi|].
    assert (E : r = process_candidate w u st' seg' utt 0 (length utt - 1)) by congruence.
    rewrite E. now apply process_candidate_inven.
Qed.

(* one utterance, as a line of text: its units are never empty *)
Theorem process_utterance_inven : forall (u : bool) (st : pstate) (line : str) (r : pstate * str),
  InvEn st -> process_utterance w f u st line = Ok r -> InvEn (fst r).
Proof.
  intros u st line r HI H. unfold process_utterance in H.
  destruct (process w f (length (split_ws (strip line))) u st (split_ws (strip line)) [])
    as [r0|e] eqn:E; [|discriminate].
  cbn [bind] in H. inversion H; subst. cbn [fst].
  eapply process_inven; [exact HI|apply split_ws_units|exact E].
Qed.

Theorem train_inven : forall (st : pstate) (text : list str) (st' : pstate),
  InvEn st -> train w f st text = Ok st' -> InvEn st'.
Proof.
  intros st text; revert st; induction text as [|l text IH]; intros st st' HI H;
    cbn [train] in H.
  - inversion H; subst. exact HI.
  - destruct (process_utterance w f true st l) as [s|e] eqn:E; [|discriminate].
    cbn [bind] in H. eapply IH; [|exact H].
    eapply process_utterance_inven; eauto.
Qed.

Theorem segment_model_inven : forall (u : bool) (st : pstate) (text : list str)
    (r : pstate * list str),
  InvEn st -> segment_model w f u st text = Ok r -> InvEn (fst r).
Proof.
  intros u st text; revert st; induction text as [|l text IH]; intros st r HI H;
    cbn [segment_model] in H.
  - inversion H; subst. exact HI.
  - destruct (process_utterance w f u st l) as [s|e] eqn:E; [|discriminate].
    cbn [bind] in H.
    destruct (segment_model w f u (fst s) text) as [t|e] eqn:E2; [|discriminate].
    cbn [bind] in H. inversion H; subst. cbn [fst].
    eapply IH; [|exact E2]. eapply process_utterance_inven; eauto.
Qed.

(* the states of a Puddle object: any sequence of train / segment calls
   (with or without update) on the empty model, errors aborting the call *)
Inductive reachable : pstate -> Prop :=
| R_init : reachable pinit
| R_train : forall (st : pstate) (text : list str) (st' : pstate),
    reachable st -> train w f st text = Ok st' -> reachable st'
| R_segment : forall (st : pstate) (u : bool) (text : list str) (st' : pstate) (outs : list str),
    reachable st -> segment_model w f u st text = Ok (st', outs) -> reachable st'.

Theorem en_never_empty : forall st : pstate, reachable st -> InvEn st.
Proof.
  induction 1 as [|st text st' HR IH H|st u text st' outs HR IH H].
  - exact InvEn_pinit.
  - eapply train_inven; eauto.
  - exact (segment_model_inven u st text (st', outs) IH H).
Qed.

(* with the invariant of Proofs.v: neither store attests the empty string *)
Theorem stores_never_empty : forall st : pstate,
  reachable st -> cmem str_eqb (beg st) [] = false /\ cmem str_eqb (en st) [] = false.
Proof.
  intros st HR. split; [|exact (en_never_empty st HR)].
  induction HR as [|st text st' HR IH H|st u text st' outs HR IH H].
  - exact Inv_pinit.
  - exact (train_inv w f st text st' Hw IH H).
  - exact (proj1 (segment_model_ok w f u text st st' outs Hw IH H)).
Qed.

(* so a boundary inside an utterance is only ever licensed by a non-empty
   attested ending: the n-gram of G2 *)
Corollary reachable_boundary_ending : forall (st : pstate) (utt : list str) (i j : nat),
  reachable st -> units_ok utt -> 0 < i -> i <= length utt ->
  boundary_ok w st utt i j = true ->
  exists e : str, e <> [] /\ cmem str_eqb (en st) e = true /\
    let lo := Z.to_nat (Z.max 0 (Z.of_nat i - w)) in
    e = concat (firstn (i - lo) (skipn lo utt)).
Proof.
  intros st utt i j HR Hu Hi0 Hi Hb.
  destruct (preceding_ngram_spec w st utt i j Hw Hi0 Hi) as (_ & _ & _ & Hne).
  pose proof (boundary_needs_attested_ending w st utt i j Hw Hi0 Hi Hb) as Hm.
  cbv zeta in Hne, Hm.
  eexists. split; [exact (Hne Hu)|]. split; [exact Hm|reflexivity].
Qed.

(* the histories of the wire (Model.run_ops): every state they report is
   reachable, hence without an empty ending *)
Definition op_result_ok (j : J) : Prop :=
  (exists e : Z, j = JL [JI 1; JI e]) \/
  (exists (outs : J) (st' : pstate),
      j = JL [JI 0; outs; j_pstate st'] /\ reachable st' /\ InvEn st').

Theorem run_ops_en_never_empty : forall (ops : list (Z * list str)) (st : pstate),
  reachable st -> Forall op_result_ok (run_ops w f st ops).
Proof.
  induction ops as [|[k text] ops IH]; intros st HR; cbn [run_ops]; [constructor|].
  destruct (k =? 0)%Z.
  - destruct (train w f st text) as [st'|e] eqn:E.
    + assert (HR' : reachable st') by (eapply R_train; eauto).
      constructor; [|apply IH; exact HR'].
      right. exists (JL []), st'. split; [reflexivity|].
      split; [exact HR'|apply en_never_empty; exact HR'].
    + constructor; [|constructor]. left. eexists. reflexivity.
  - destruct (segment_model w f (k =? 1)%Z st text) as [[st' out]|e] eqn:E.
    + assert (HR' : reachable st') by (eapply R_segment; eauto).
      constructor; [|apply IH; exact HR'].
      right. exists (j_list j_str out), st'. split; [reflexivity|].
      split; [exact HR'|apply en_never_empty; exact HR'].
    + constructor; [|constructor]. left. eexists. reflexivity.
Qed.

End Stores.

(* ---------- G4. the formerly failing history ---------- *)

(* window 3: train on "a b", segment with update "a b" then "a b a b".
   Before e3d63e5 the candidate (0, 1) of "a b a b" looked at
   utterance[-1:2], the empty slice, and '' entered `en`; "q a b a b" was
   then cut before every "ab". *)
Example history_en_no_empty_key :
  let ab := S_ [97;98]%Z in
  let a_b := S_ [97;32;98]%Z in
  let a_b_a_b := S_ [97;32;98;32;97;32;98]%Z in
  let q_a_b_a_b := S_ [113;32;97;32;98;32;97;32;98]%Z in
  let st1 := {| lex := [(ab, 1%Z)]; beg := [(ab, 1%Z)]; en := [(ab, 1%Z)] |} in
  let st2 := {| lex := [(ab, 4%Z)]; beg := [(ab, 3%Z); (S_ [97;98;97]%Z, 1%Z)];
                en := [(ab, 4%Z)] |} in
  train 3 false pinit [a_b] = Ok st1 /\
  segment_model 3 false true st1 [a_b; a_b_a_b] = Ok (st2, [ab; S_ [97;98;32;97;98]%Z]) /\
  cmem str_eqb (en st2) [] = false /\
  map fst (en st2) = [ab] /\
  segment_model 3 false false st2 [q_a_b_a_b] = Ok (st2, [S_ [113;97;98;97;98]%Z]).
Proof. vm_compute. repeat split; reflexivity. Qed.

(* the same history through the wire function *)
Example history_run_ops :
  let a_b := S_ [97;32;98]%Z in
  let a_b_a_b := S_ [97;32;98;32;97;32;98]%Z in
  let q_a_b_a_b := S_ [113;32;97;32;98;32;97;32;98]%Z in
  nth 2 (run_ops 3 false pinit [(0%Z, [a_b]); (1%Z, [a_b; a_b_a_b]); (2%Z, [q_a_b_a_b])]) (JL []) =
  JL [JI 0; j_list j_str [S_ [113;97;98;97;98]%Z];
      j_pstate {| lex := [(S_ [97;98]%Z, 4%Z)];
                  beg := [(S_ [97;98]%Z, 3%Z); (S_ [97;98;97]%Z, 1%Z)];
                  en := [(S_ [97;98]%Z, 4%Z)] |}].
Proof. vm_compute. reflexivity. Qed.

Print Assumptions ending_ngram_spec.
Print Assumptions preceding_ngram_spec.
Print Assumptions process_candidate_inven.
Print Assumptions process_inven.
Print Assumptions process_utterance_inven.
Print Assumptions train_inven.
Print Assumptions segment_model_inven.
Print Assumptions en_never_empty.
Print Assumptions stores_never_empty.
Print Assumptions run_ops_en_never_empty.
