(* List / string / pyslice lemmas shared by the PUDDLE proofs. *)
From WS Require Import Base.Py Base.Str Base.Counter Base.ListX Puddle.Model.

(* ---------- generic list facts ---------- *)

Lemma Forall_skipn_ {A} (P : A -> Prop) (n : nat) (l : list A) :
  Forall P l -> Forall P (skipn n l).
Proof.
  revert l; induction n as [|n IH]; intros l H; [exact H|].
  destruct l as [|x l]; [constructor|]. cbn [skipn]. apply IH. now inversion H.
Qed.

Lemma Forall_firstn_ {A} (P : A -> Prop) (n : nat) (l : list A) :
  Forall P l -> Forall P (firstn n l).
Proof.
  revert l; induction n as [|n IH]; intros l H; [constructor|].
  destruct l as [|x l]; [constructor|]. cbn [firstn]. inversion H; subst.
  constructor; auto.
Qed.

Lemma firstn_nonnil {A} (n : nat) (l : list A) : 1 <= n -> l <> [] -> firstn n l <> [].
Proof.
  intros Hn Hl. destruct n as [|n]; [lia|]. destruct l as [|x l]; [congruence|].
  cbn [firstn]. discriminate.
Qed.

Lemma skipn_nonnil {A} (n : nat) (l : list A) : n < length l -> skipn n l <> [].
Proof.
  intros Hn H. apply (f_equal (@length A)) in H. rewrite skipn_length in H.
  cbn [length] in H. lia.
Qed.

Lemma nonnil_length {A} (l : list A) : l <> [] <-> 1 <= length l.
Proof.
  destruct l as [|x l]; cbn [length]; split; intros H; try congruence; try lia.
Qed.

(* ---------- strings ---------- *)

Definition units_ok (utt : list str) : Prop := Forall (fun u : str => u <> []) utt.

Lemma concat_nonnil (l : list str) : units_ok l -> l <> [] -> concat l <> [].
Proof.
  intros H Hl. destruct l as [|x l]; [congruence|]. inversion H; subst.
  cbn [concat]. destruct x as [|c x]; [congruence|]. discriminate.
Qed.

Lemma join_nonnil (sep : str) (l : list str) : units_ok l -> l <> [] -> join sep l <> [].
Proof.
  intros H Hl. destruct l as [|x l]; [congruence|]. inversion H; subst.
  destruct x as [|c x]; [congruence|]. cbn [join]. destruct l; discriminate.
Qed.

Lemma rev_nonnil {A} (l : list A) : l <> [] -> rev l <> [].
Proof.
  intros H E. apply (f_equal (@rev A)) in E. rewrite rev_involutive in E. now subst.
Qed.

Lemma split_ws_go_units (s acc : str) : units_ok (split_ws_go s acc).
Proof.
  revert acc; induction s as [|c s IH]; intros acc; cbn [split_ws_go].
  - destruct acc as [|a acc]; [constructor|]. constructor; [|constructor].
    apply rev_nonnil. discriminate.
  - destruct (is_space c).
    + destruct acc as [|a acc]; [apply IH|]. constructor; [|apply IH].
      apply rev_nonnil. discriminate.
    + apply IH.
Qed.

Lemma split_ws_units (s : str) : units_ok (split_ws s).
Proof. apply split_ws_go_units. Qed.

(* ---------- pyslice ---------- *)

Lemma norm_idx_nat (n i : nat) : i <= n -> norm_idx (Z.of_nat n) (Z.of_nat i) = Z.of_nat i.
Proof.
  intros H. unfold norm_idx. destruct (Z.ltb_spec (Z.of_nat i) 0); lia.
Qed.

Lemma norm_idx_nonneg (n i : Z) : (0 <= n)%Z -> (0 <= i)%Z -> norm_idx n i = Z.min n i.
Proof.
  intros Hn H. unfold norm_idx. destruct (Z.ltb_spec i 0); lia.
Qed.

Lemma pyslice_mid {A} (utt : list A) (i j : nat) :
  i <= length utt -> j < length utt ->
  pyslice utt (zn i) (zn j + 1) = firstn (S j - i) (skipn i utt).
Proof.
  intros Hi Hj. unfold pyslice, zn.
  rewrite norm_idx_nat by exact Hi.
  replace (Z.of_nat j + 1)%Z with (Z.of_nat (S j)) by lia.
  rewrite norm_idx_nat by lia. rewrite Nat2Z.id.
  replace (Z.to_nat (Z.of_nat (S j) - Z.of_nat i)) with (S j - i) by lia.
  reflexivity.
Qed.

Lemma pyslice_next_nil {A} (utt : list A) (j : nat) (w : Z) :
  (1 <= w)%Z -> length utt <= S j -> pyslice utt (zn j + 1) (zn j + 1 + w) = [].
Proof.
  intros Hw Hj. unfold pyslice, zn.
  rewrite (norm_idx_nonneg _ (Z.of_nat j + 1)) by lia.
  rewrite skipn_all2 by lia. apply firstn_nil.
Qed.

Lemma pyslice_window_nonnil {A} (utt : list A) (i : nat) (w : Z) :
  (1 <= w)%Z -> i < length utt -> pyslice utt (zn i) (zn i + w) <> [].
Proof.
  intros Hw Hi. unfold pyslice, zn.
  rewrite norm_idx_nat by lia. rewrite norm_idx_nonneg by lia. rewrite Nat2Z.id.
  apply firstn_nonnil; [lia|]. now apply skipn_nonnil.
Qed.

Lemma pyslice_units (utt : list str) (lo hi : Z) : units_ok utt -> units_ok (pyslice utt lo hi).
Proof. intros H. unfold pyslice. now apply Forall_firstn_, Forall_skipn_. Qed.

Lemma cand_mid (utt : list str) (i j : nat) :
  i <= length utt -> j < length utt ->
  cand utt i j = concat (firstn (S j - i) (skipn i utt)).
Proof. intros Hi Hj. unfold cand. now rewrite pyslice_mid. Qed.
