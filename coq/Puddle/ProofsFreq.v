(* PUDDLE: specification of the scan with by_frequency = True (F): the
   frequency filter is an arg max with ties to the largest index, the cut
   is the filtered end of a lexicon hit, and under positive counts the
   emitted candidate is itself a lexicon entry. *)
From Coq Require Import List Arith ZArith Bool Lia.
From WS Require Import Base.Py Base.Str Base.Counter Base.CounterProofs Base.ListX Base.Seg
  Folding.Model Puddle.Model Puddle.StrLemmas Puddle.Proofs Puddle.Proofs2.
Import ListNotations.

(* ---------- counters: absent keys count 0 ---------- *)

Lemma cget_nomem {K : Type} (eqb : K -> K -> bool) (c : counter K) (k : K) :
  cmem eqb c k = false -> cget eqb c k = 0%Z.
Proof.
  induction c as [|[k0 v] c IH]; cbn [cmem cget]; [reflexivity|].
  destruct (eqb k k0); cbn [orb]; [discriminate|exact IH].
Qed.

Lemma cget_pos_mem {K : Type} (eqb : K -> K -> bool) (c : counter K) (k : K) :
  (0 < cget eqb c k)%Z -> cmem eqb c k = true.
Proof.
  intros H. destruct (cmem eqb c k) eqn:E; [reflexivity|].
  rewrite (cget_nomem eqb c k E) in H. lia.
Qed.

Section Freq.
Variable w : Z.

Definition count (st : pstate) (utt : list str) (i k : nat) : Z :=
  cget str_eqb (lex st) (cand utt i k).

(* ---------- F1. the frequency filter ---------- *)

(* the step function of filter_freq *)
Definition ff_step (st : pstate) (utt : list str) (i : nat) (best : nat * Z) (k : nat) : nat * Z :=
  let c := cget str_eqb (lex st) (cand utt i k) in
  if (snd best <=? c)%Z then (k, c) else best.

Lemma filter_freq_eq (st : pstate) (utt : list str) (i j : nat) :
  filter_freq st utt i j =
  fst (fold_left (ff_step st utt i) (seq (S j) (length utt - S j)) (j, count st utt i j)).
Proof. reflexivity. Qed.

Lemma ff_fold (st : pstate) (utt : list str) (i : nat) :
  forall (n s b : nat),
    let r := fold_left (ff_step st utt i) (seq s n) (b, count st utt i b) in
    snd r = count st utt i (fst r) /\
    (count st utt i b <= snd r)%Z /\
    (forall k, s <= k < s + n -> (count st utt i k <= snd r)%Z) /\
    (forall k, fst r < k -> s <= k < s + n -> (count st utt i k < snd r)%Z).
Proof.
  induction n as [|n IH]; intros s b r.
  - subst r. cbn [seq fold_left fst snd]. repeat split; try lia.
  - subst r. cbn [seq fold_left].
    assert (Es : ff_step st utt i (b, count st utt i b) s =
                 if (count st utt i b <=? count st utt i s)%Z then (s, count st utt i s)
                 else (b, count st utt i b)) by reflexivity.
    rewrite Es. clear Es.
    destruct (Z.leb_spec (count st utt i b) (count st utt i s)) as [Hle|Hgt].
    + destruct (IH (S s) s) as (H1 & H2 & H3 & H4).
      assert (Hs : s = fst (fold_left (ff_step st utt i) (seq (S s) n) (s, count st utt i s)) \/
                   s < fst (fold_left (ff_step st utt i) (seq (S s) n) (s, count st utt i s))).
      { destruct (fold_left_pick (ff_step st utt i) (seq (S s) n)) with (init := (s, count st utt i s))
          as [E|E].
        - intros best k. unfold ff_step. destruct (snd best <=? _)%Z; [right; reflexivity|now left].
        - left. now rewrite E.
        - right. apply in_seq in E. lia. }
      split; [exact H1|]. split; [lia|]. split.
      * intros k Hk. destruct (Nat.eq_dec k s) as [->|Hne]; [exact H2|]. apply H3. lia.
      * intros k Hk1 Hk2. apply H4; [exact Hk1|]. lia.
    + destruct (IH (S s) b) as (H1 & H2 & H3 & H4).
      split; [exact H1|]. split; [exact H2|]. split.
      * intros k Hk. destruct (Nat.eq_dec k s) as [->|Hne]; [lia|]. apply H3. lia.
      * intros k Hk1 Hk2. destruct (Nat.eq_dec k s) as [->|Hne]; [lia|]. apply H4; [exact Hk1|lia].
Qed.

(* F1: _filter_by_frequency returns the arg max of the lexicon count over
   k in j..len-1, ties to the LARGEST k *)
Theorem filter_freq_spec : forall (st : pstate) (utt : list str) (i j : nat),
  j < length utt ->
  let m := filter_freq st utt i j in
  j <= m < length utt /\
  (forall k, j <= k < length utt -> (count st utt i k <= count st utt i m)%Z) /\
  (forall k, m < k < length utt -> (count st utt i k < count st utt i m)%Z).
Proof.
  intros st utt i j Hj m.
  pose proof (filter_freq_bounds st utt i j Hj) as Hb. fold m in Hb.
  split; [exact Hb|].
  pose proof (ff_fold st utt i (length utt - S j) (S j) j) as Hf. cbv zeta in Hf.
  pose proof (filter_freq_eq st utt i j) as Em. fold m in Em. rewrite <- Em in Hf.
  destruct Hf as (H1 & H2 & H3 & H4). rewrite H1 in H2, H3, H4.
  split.
  - intros k Hk. destruct (Nat.eq_dec k j) as [->|Hne]; [exact H2|]. apply H3. lia.
  - intros k Hk. apply H4; lia.
Qed.

(* ---------- F2. the inner loop ---------- *)

Theorem scan_j_freq (fuel : nat) : forall (u : bool) (st : pstate) (seg : list str) (found : bool)
    (utt : list str) (i j : nat) (st2 : pstate) (seg2 rest : list str),
  (1 <= w)%Z -> Inv st -> i <= j -> length utt - j < fuel ->
  scan_j w true fuel u st seg found utt i j = JRecurse st2 seg2 rest ->
  exists j0 m : nat,
    j <= j0 /\ j0 <= m /\ S m < length utt /\
    cmem str_eqb (lex st) (cand utt i j0) = true /\ m = filter_freq st utt i j0 /\
    boundary_ok w st utt i m = true /\
    rest = skipn (S m) utt /\ (st2, seg2) = emit w u st seg utt i m.
Proof.
  induction fuel as [|n IH]; intros u st seg found utt i j st2 seg2 rest Hw HI Hij Hf H; [lia|].
  rewrite scan_j_S in H.
  destruct (Nat.leb_spec (length utt) j) as [Hle|Hlt]; [discriminate|].
  destruct (cmem str_eqb (lex st) (cand utt i j)) eqn:Ec.
  - cbv zeta in H.
    pose proof (filter_freq_bounds st utt i j Hlt) as Hb.
    remember (filter_freq st utt i j) as m eqn:Em.
    destruct (boundary_ok w st utt i m) eqn:Eb.
    + pose proof (boundary_ok_next w st utt i m Hw HI (proj2 Hb) Eb) as Hn.
      destruct (emit w u st seg utt i m) as [st3 seg3] eqn:Ee.
      destruct (Nat.eqb_spec m (length utt - 1)) as [El|Nl]; [lia|]. cbn [negb] in H.
      inversion H; subst st3 seg3 rest.
      exists j, m. repeat split; auto; lia.
    + destruct (IH u st seg false utt i (S m) st2 seg2 rest Hw HI) as
          (j0 & m0 & K1 & K2 & K3 & K4 & K5 & K6 & K7 & K8); [lia|lia|exact H|].
      exists j0, m0. repeat split; auto; lia.
  - destruct (IH u st seg found utt i (S j) st2 seg2 rest Hw HI) as
        (j0 & m0 & K1 & K2 & K3 & K4 & K5 & K6 & K7 & K8); [lia|lia|exact H|].
    exists j0, m0. repeat split; auto; lia.
Qed.

(* ---------- F3. the whole scan ---------- *)

Lemma scan_i_freq (fuel : nat) : forall (u : bool) (st : pstate) (seg utt : list str) (i0 : nat)
    (st2 : pstate) (seg2 rest : list str),
  (1 <= w)%Z -> Inv st ->
  scan_i w true fuel u st seg false utt i0 = IRecurse st2 seg2 rest ->
  exists i j0 m : nat,
    i0 <= i /\ i <= j0 /\ j0 <= m /\ S m < length utt /\
    cmem str_eqb (lex st) (cand utt i j0) = true /\ m = filter_freq st utt i j0 /\
    boundary_ok w st utt i m = true /\
    rest = skipn (S m) utt /\ (st2, seg2) = emit w u st seg utt i m.
Proof.
  induction fuel as [|n IH]; intros u st seg utt i0 st2 seg2 rest Hw HI H; [discriminate|].
  rewrite scan_i_S in H.
  destruct (Nat.leb_spec (length utt) i0) as [Hle|Hlt]; [discriminate|].
  pose proof (scan_j_spec w true (S (length utt)) u st seg false utt i0 i0 Hw HI (le_n i0)) as Hs.
  destruct (scan_j w true (S (length utt)) u st seg false utt i0 i0)
    as [st3 seg3 rest3|st' seg' found'] eqn:Ej.
  - inversion H; subst st3 seg3 rest3.
    destruct (scan_j_freq (S (length utt)) u st seg false utt i0 i0 st2 seg2 rest Hw HI (le_n i0))
      as (j0 & m & K1 & K2 & K3 & K4 & K5 & K6 & K7 & K8); [lia|exact Ej|].
    exists i0, j0, m. repeat split; auto.
  - destruct Hs as (E1 & E2 & E3). subst st' seg'. rewrite (E3 eq_refl) in H.
    destruct (IH u st seg utt (S i0) st2 seg2 rest Hw HI H) as
        (i & j0 & m & K0 & K1 & K2 & K3 & K4 & K5 & K6 & K7 & K8).
    exists i, j0, m. repeat split; auto; lia.
Qed.

Theorem scan_freq_match : forall (u : bool) (st : pstate) (seg utt : list str)
    (st2 : pstate) (seg2 rest : list str),
  (1 <= w)%Z -> Inv st ->
  scan_i w true (S (length utt)) u st seg false utt 0 = IRecurse st2 seg2 rest ->
  exists i j0 m : nat,
    i <= j0 /\ j0 <= m /\ S m < length utt /\
    cmem str_eqb (lex st) (cand utt i j0) = true /\ m = filter_freq st utt i j0 /\
    boundary_ok w st utt i m = true /\
    (forall k, j0 <= k < length utt -> (count st utt i k <= count st utt i m)%Z) /\
    rest = skipn (S m) utt /\ (st2, seg2) = emit w u st seg utt i m.
Proof.
  intros u st seg utt st2 seg2 rest Hw HI H.
  destruct (scan_i_freq (S (length utt)) u st seg utt 0 st2 seg2 rest Hw HI H) as
      (i & j0 & m & _ & K1 & K2 & K3 & K4 & K5 & K6 & K7 & K8).
  exists i, j0, m. repeat split; auto.
  intros k Hk. assert (Hj0 : j0 < length utt) by lia.
  destruct (filter_freq_spec st utt i j0 Hj0) as (_ & Hmax & _).
  rewrite K5. apply Hmax. exact Hk.
Qed.

(* ---------- F4. no cut ---------- *)

Theorem scan_freq_no_match : forall (u : bool) (st : pstate) (seg utt : list str)
    (st' : pstate) (seg' : list str) (found' : bool),
  (1 <= w)%Z -> Inv st ->
  scan_i w true (S (length utt)) u st seg false utt 0 = IDone st' seg' found' ->
  st' = st /\ seg' = seg /\ found' = false.
Proof.
  intros u st seg utt st' seg' found' Hw HI H.
  pose proof (scan_i_spec w true (S (length utt)) u st seg utt 0 Hw HI) as Hs.
  rewrite H in Hs. exact Hs.
Qed.

(* ---------- F5. the cut is a lexicon entry ---------- *)

Definition lex_pos (st : pstate) : Prop :=
  forall k, cmem str_eqb (lex st) k = true -> (0 < cget str_eqb (lex st) k)%Z.

Theorem freq_cut_in_lexicon : forall (st : pstate) (utt : list str) (i j0 : nat),
  lex_pos st -> j0 < length utt -> cmem str_eqb (lex st) (cand utt i j0) = true ->
  cmem str_eqb (lex st) (cand utt i (filter_freq st utt i j0)) = true.
Proof.
  intros st utt i j0 Hp Hj Hc.
  destruct (filter_freq_spec st utt i j0 Hj) as (_ & Hmax & _).
  specialize (Hmax j0 (conj (le_n j0) Hj)). unfold count in Hmax.
  pose proof (Hp _ Hc) as Hpos.
  apply cget_pos_mem. lia.
Qed.

(* without positivity the filtered end need not be a key: all counts <= 0
   make the filter run to the last unit *)
Example freq_cut_needs_lex_pos :
  let a := S_ [97]%Z in let b := S_ [98]%Z in let c := S_ [99]%Z in
  let st := {| lex := [(a, 0%Z)]; beg := []; en := [] |} in
  cmem str_eqb (lex st) (cand [a; b; c] 0 0) = true /\
  cmem str_eqb (lex st) (cand [a; b; c] 0 (filter_freq st [a; b; c] 0 0)) = false.
Proof. vm_compute. split; reflexivity. Qed.

(* ---------- positivity is an invariant of training ---------- *)

Theorem lex_pos_pinit : lex_pos pinit.
Proof. intros k H. cbn [pinit lex cmem] in H. discriminate. Qed.

Lemma lex_pos_cadd (c : counter str) (k0 : str) :
  (forall k, cmem str_eqb c k = true -> (0 < cget str_eqb c k)%Z) ->
  forall k, cmem str_eqb (cadd str_eqb c k0 1) k = true ->
            (0 < cget str_eqb (cadd str_eqb c k0 1) k)%Z.
Proof.
  intros Hp k H.
  rewrite (cmem_cadd str_eqb str_eqb_spec) in H.
  rewrite (cget_cadd str_eqb str_eqb_spec).
  destruct (cmem str_eqb c k) eqn:Ec.
  - pose proof (Hp k Ec). destruct (str_eqb k k0); lia.
  - cbn [orb] in H. rewrite H. rewrite (cget_nomem str_eqb c k Ec). lia.
Qed.

Theorem process_candidate_lex_pos : forall (u : bool) (st : pstate) (seg utt : list str) (i j : nat),
  lex_pos st -> lex_pos (fst (process_candidate w u st seg utt i j)).
Proof.
  intros u st seg utt i j Hp. unfold process_candidate. destruct u; [|exact Hp].
  destruct (2 <=? length (pyslice utt (zn i) (zn j + 1))); cbn [fst];
    unfold lex_pos; cbn [lex]; apply lex_pos_cadd; exact Hp.
Qed.

Theorem emit_lex_pos : forall (u : bool) (st : pstate) (seg utt : list str) (i j : nat),
  lex_pos st -> lex_pos (fst (emit w u st seg utt i j)).
Proof.
  intros u st seg utt i j Hp. unfold emit.
  destruct (Nat.eqb i 0); [now apply process_candidate_lex_pos|].
  pose proof (process_candidate_lex_pos u st seg utt 0 (i - 1) Hp) as H1.
  destruct (process_candidate w u st seg utt 0 (i - 1)) as [st1 seg1]. cbn [fst] in H1.
  now apply process_candidate_lex_pos.
Qed.

End Freq.

(* a small run: "ab" and "abc" tie at 3, the filter prefers the longer *)
Example freq_example :
  let a := S_ [97]%Z in let b := S_ [98]%Z in let c := S_ [99]%Z in let d := S_ [100]%Z in
  let st := {| lex := [(a, 1%Z); (a ++ b, 3%Z); (a ++ b ++ c, 3%Z); (a ++ b ++ c ++ d, 2%Z)];
               beg := [(c, 1%Z); (d, 1%Z)]; en := [(a, 1%Z)] |} in
  filter_freq st [a; b; c; d] 0 0 = 2 /\
  scan_i 1 true 5 false st [] false [a; b; c; d] 0 = IRecurse st [a ++ b ++ c] [d].
Proof. vm_compute. split; reflexivity. Qed.

Print Assumptions filter_freq_spec.
Print Assumptions scan_j_freq.
Print Assumptions scan_freq_match.
Print Assumptions scan_freq_no_match.
Print Assumptions freq_cut_in_lexicon.
Print Assumptions process_candidate_lex_pos.
Print Assumptions lex_pos_pinit.
