"""The toolkit accepts its own output (coq/Pipeline/Proofs.v, composed from C01, C06 and C12).

For an aligned segmenter output `out` of the prepared text `text_units`, and a gold text that is another
segmentation of the same units, evaluate() and summary() must not refuse the pair, with and without the
prepared text as units text (`aligned_evaluate_ok`, `aligned_evaluate_units_ok`, `aligned_summary_ok`).
This module produces such pairs from the REAL segmenters; the callers (c06.py, c12.py) judge them with the
oracles they apply to every other pair. No random draw outside the rng passed in: the check must replay."""
import random as _random
import zlib

from wordseg.algos import tp, puddle, baseline


def other_segmentation(text_units):
    """a gold text: the same units, cut after unit i when a checksum of (utterance, i, unit) is even"""
    gold = []
    for k, units in enumerate(text_units):
        words, cur = [], ''
        for i, u in enumerate(units):
            cur += u
            if i == len(units) - 1 or zlib.crc32(('%d/%d/%s' % (k, i, u)).encode('utf8')) % 2 == 0:
                words.append(cur)
                cur = ''
        gold.append(' '.join(words))
    return gold


def segmenter_outputs(rng, text_units):
    """[(segmenter name, output lines)] of the real Python segmenters on the prepared text"""
    prepared = [' '.join(u) for u in text_units]
    outs = []
    outs.append(('tp', list(tp.segment(list(prepared), threshold=rng.choice(['relative', 'absolute']),
                                       dependency=rng.choice(['ftp', 'btp', 'mi'])))))
    outs.append(('puddle', list(puddle.segment(list(prepared), window=rng.randint(1, 3), by_frequency=rng.random() < 0.5,
                                               nfolds=rng.randint(1, max(1, min(3, len(prepared))))))))
    p = rng.choice([0.0, 0.3, 0.5, 1.0])
    state = _random.getstate()             # the baseline draws from the global stream: give it a seed of ours
    _random.seed(rng.randint(0, 10 ** 6))
    try:
        outs.append(('baseline', [o.rstrip(' ') for o in baseline.segment(list(prepared), probability=p)]))
    finally:
        _random.setstate(state)
    return prepared, outs
