"""Generators and reference definitions shared by C05, C06, C12."""
import itertools
from fractions import Fraction


def apply_mask(units, mask):
    """units: list of str; mask: iterable of bool of len(units)-1 (True = word
    boundary after unit i). Returns the utterance string."""
    out = [units[0]] if units else []
    for u, m in zip(units[1:], mask):
        out.append(' ' + u if m else u)
    return ''.join(out)


def exhaustive_pairs(alphabet, maxlen):
    """all (string, text mask, gold mask), one character per unit"""
    for n in range(1, maxlen + 1):
        for s in itertools.product(alphabet, repeat=n):
            for tm in itertools.product([False, True], repeat=n - 1):
                for gm in itertools.product([False, True], repeat=n - 1):
                    yield list(s), tm, gm


def random_triple(rng, alphabet, nutts=None, maxunits=8):
    """consistent (text, gold, units) lists of utterance strings"""
    nutts = nutts or rng.randint(1, 6)
    text, gold, units = [], [], []
    lex = [[rng.choice(alphabet) for _ in range(rng.randint(1, 3))] for _ in range(rng.randint(2, 5))]
    for _ in range(nutts):
        if rng.random() < 0.7:
            us = [u for _ in range(rng.randint(1, 3)) for u in rng.choice(lex)]
        else:
            us = [rng.choice(alphabet) for _ in range(rng.randint(1, maxunits))]
        us = us[:maxunits]
        p = rng.choice([0.2, 0.5, 0.8])
        tm = [rng.random() < p for _ in us[1:]]
        gm = [rng.random() < 0.4 for _ in us[1:]]
        text.append(apply_mask(us, tm))
        gold.append(apply_mask(us, gm))
        units.append(' '.join(us))
    return text, gold, units


def respace(rng, utt):
    """same words, different spacing (extra spaces, leading/trailing)"""
    words = utt.split(' ')
    out = (' ' * rng.randint(0, 2)).join([''] + []) if False else ''
    out = ' ' * rng.randint(0, 2)
    for i, w in enumerate(words):
        if i:
            out += ' ' * rng.randint(1, 3)
        out += w
    out += ' ' * rng.randint(0, 2)
    return out


def interleave_blank(rng, lines):
    out = []
    for l in lines:
        while rng.random() < 0.3:
            out.append(rng.choice(['', ' ', '  ']))
        out.append(l)
    while rng.random() < 0.3:
        out.append('')
    return out


# ---- reference definitions (the property statement, exact arithmetic) ----

def words_of(utt):
    return [w for w in utt.split(' ') if w]


def spans_of(utt):
    res, idx = set(), 0
    for w in words_of(utt):
        res.add((idx, idx + len(w)))
        idx += len(w)
    return res


def prf(correct, test, gold):
    return (Fraction(correct, test) if test else None,
            Fraction(correct, gold) if gold else None,
            Fraction(2 * correct, test + gold) if test + gold else None)


def reference_scores(text, gold):
    """token/type/boundary scores by definition, for non-blank consistent lines"""
    text = [t for t in text if t.strip()]
    gold = [g for g in gold if g.strip()]
    tok = [0, 0, 0]
    ball = [0, 0, 0]
    bno = [0, 0, 0]
    tlex, glex = set(), set()
    for t, g in zip(text, gold):
        st, sg = spans_of(t), spans_of(g)
        tok[0] += len(st & sg); tok[1] += len(st); tok[2] += len(sg)
        bt = {i for p in st for i in p}; bg = {i for p in sg for i in p}
        ball[0] += len(bt & bg); ball[1] += len(bt); ball[2] += len(bg)
        n = len(t.replace(' ', ''))
        nt = {a for a, _ in st if a > 0}; ng = {a for a, _ in sg if a > 0}
        bno[0] += len(nt & ng); bno[1] += len(nt); bno[2] += len(ng)
        tlex |= set(words_of(t)); glex |= set(words_of(g))
    typ = [len(tlex & glex), len(tlex), len(glex)]
    return {'token': prf(*tok), 'type': prf(*typ), 'boundary_all': prf(*ball), 'boundary_noedge': prf(*bno)}


def labels_of(words_lines, units_lines):
    """one label per unit: index of the word that contains it"""
    labels = []
    wid = 0
    for wl, ul in zip(words_lines, units_lines):
        us = ul.split()
        ws = wl.split()
        k = 0
        for w in ws:
            acc = ''
            while acc != w:
                if k >= len(us):
                    return None
                acc += us[k]
                labels.append(wid)
                k += 1
            wid += 1
        if k != len(us):
            return None
    return labels


def reference_ari(ltrue, lpred):
    n = len(ltrue)
    tp = fp = fn = tn = 0
    for i in range(n):
        for j in range(n):
            if i == j:
                continue
            a = ltrue[i] == ltrue[j]
            b = lpred[i] == lpred[j]
            if a and b:
                tp += 1
            elif a:
                fn += 1
            elif b:
                fp += 1
            else:
                tn += 1
    if fn == 0 and fp == 0:
        return Fraction(1)
    return Fraction(2 * (tp * tn - fn * fp), (tp + fn) * (fn + tn) + (tp + fp) * (fp + tn))


SCORE_KEYS = ['token', 'type', 'boundary_all', 'boundary_noedge']


def impl_scores(d):
    """evaluate()'s dict -> {'token': (p, r, f), ...}, 'ari'"""
    out = {}
    for k in SCORE_KEYS:
        out[k] = (d[k + '_precision'], d[k + '_recall'], d[k + '_fscore'])
    return out, d.get('adjusted_rand_index')


def close(f, q, tol=1e-9):
    if f is None or q is None:
        return f is None and q is None
    return abs(float(f) - float(q)) <= tol * max(1.0, abs(float(q)))
