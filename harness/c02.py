"""C02 — the Adaptor Grammar pipeline returns the input with only spaces added.

The real ag program is built from /repo's working tree on every run and driven
through the real Python wrapper; a three-line wrapper script tees each run's
raw output, which is (1) fed to the wrapper model (AG/Model.v) and compared
with the wrapper's result and (2) checked parse by parse against the oracle
contract the Coq theorems assume about the binary."""
import os
import shutil
import stat
import string
import subprocess
import sys
import shlex
import tempfile

from common import Check, VERIF, correspond, decode_result, call_impl, finish_proof_failures, text2j, j2text, s2j
import gens
import agbuild

os.environ.setdefault('WORDSEG_VERIF_BINDIR', os.path.join(VERIF, 'harness', 'stubs'))
from wordseg.algos import ag  # noqa: E402

DATA_AG = '/repo/data/ag'


def make_bindir(real_bin, capture):
    d = tempfile.mkdtemp(prefix='c02-bin-')
    script = os.path.join(d, 'ag')
    open(script, 'w').write('''#!/bin/bash
# forwards to the freshly built ag and keeps a copy of its standard output, keyed by the -r seed
# (taken from the argument that follows -r, not searched in the whole command line: a temporary path may contain "-r<digit>")
seed=
for ((i = 1; i < $#; i++)); do
  if [ "${!i}" = "-r" ]; then j=$((i + 1)); seed="${!j}"; fi
done
"%s" "$@" | tee "%s/out.$seed.$$"
exit ${PIPESTATUS[0]}
''' % (real_bin, capture))
    os.chmod(script, os.stat(script).st_mode | stat.S_IEXEC)
    return d


def read_captures(capture, seed, nruns):
    runs = []
    for i in range(nruns):
        fs = [f for f in os.listdir(capture) if f.startswith('out.%d.' % (seed + i))]
        if len(fs) != 1:
            return None
        runs.append(open(os.path.join(capture, fs[0]), encoding='utf8').read().split('\n')[:-1])
    return runs


def contract_violation(test_units, lines):
    """every emitted parse has one line per test utterance, each line the
    utterance's units with spaces at unit boundaries"""
    block = []
    k = 0
    for l in lines + ['']:
        if l.strip() == '':
            if block:
                if len(block) != len(test_units):
                    return 'parse %d has %d lines for %d test utterances' % (k, len(block), len(test_units))
                for u, o in zip(test_units, block):
                    if gens.seg_cuts(u, o.strip()) is None:
                        return 'parse %d: %r is not %r with spaces at unit boundaries' % (k, o, u)
                k += 1
                block = []
        else:
            block.append(l)
    return None


def run_case(ck, bindir_real, text_units, train_units, n, x, seed, nruns, njobs, ignore, grammar, category, family, pre=''):
    text = gens.lines(text_units)
    train = None if train_units is None else gens.lines(train_units)
    # pre: earlier occurrences of -n / -x that the later ones override (the program and the wrapper take the last)
    # n / x = None: the option is left out (the program's defaults are 2000 iterations, a parse at every iteration)
    args = pre + ('' if n is None else '-n %d ' % n) + ('' if x is None else '-x %d ' % x) + '-r %d -d 0 -E -a 0.0001 -b 10000 -e 1 -f 1 -g 100 -h 0.01 -R -1 -P' % seed
    work = tempfile.mkdtemp(prefix='c02_')
    capture = os.path.join(work, 'cap')
    os.mkdir(capture)
    tmp = os.path.join(work, 'tmp')
    os.mkdir(tmp)
    bindir = make_bindir(os.path.join(bindir_real, 'ag'), capture)
    os.environ['WORDSEG_VERIF_BINDIR'] = bindir
    try:
        res = call_impl(ag.segment, list(text), train_text=None if train is None else list(train), grammar_file=grammar,
                        category=category, args=args, nruns=nruns, njobs=njobs, ignore_first_parses=ignore, tempdir=tmp)
        runs = read_captures(capture, seed, nruns)
        left = os.listdir(tmp)
    finally:
        os.environ['WORDSEG_VERIF_BINDIR'] = os.path.join(VERIF, 'harness', 'stubs')
        shutil.rmtree(work, ignore_errors=True)
        shutil.rmtree(bindir, ignore_errors=True)
    return res, runs, left, args


def read_grammar(path):
    """(terminals by pre-terminal, categories the wrapper accepts) of a grammar file"""
    rules = []
    for l in open(path, encoding='utf8'):
        if '-->' in l:
            lhs, rhs = l.split('-->', 1)
            if lhs.split() and rhs.split():
                rules.append((lhs.split()[-1], rhs.split(), l.split(' ')[0]))
    parents = {r[0] for r in rules}
    terms = {}
    for par, rhs, _ in rules:
        for t in rhs:
            # the quantifier excludes ASCII punctuation (wordseg-prep removes it)
            if t not in parents and not any(c in string.punctuation or c.isspace() for c in t):
                terms.setdefault(par, [])
                if t not in terms[par]:
                    terms[par].append(t)
    cats = sorted({first for par, _, first in rules if first == par})
    return terms, cats


def covered_text(rng, terms, nutts, max_words=3):
    """a text the grammar derives: any unit sequence for the flat Colloc0 grammars (one pre-terminal); for the
    syllable-structure grammars (Consonant / Vowel) words made of syllables C{0,2} V{1,2} C{0,1}, so that every
    utterance has a nucleus"""
    if set(terms) == {'Consonant', 'Vowel'}:
        cons = rng.sample(terms['Consonant'], min(5, len(terms['Consonant'])))
        vow = rng.sample(terms['Vowel'], min(3, len(terms['Vowel'])))
        lex = []
        for _ in range(rng.randint(3, 6)):
            w = []
            for _ in range(rng.randint(1, 3)):
                w += [rng.choice(cons) for _ in range(rng.randint(0, 2))] + [rng.choice(vow) for _ in range(rng.randint(1, 2))] + [rng.choice(cons) for _ in range(rng.randint(0, 1))]
            lex.append(w)
        return gens.random_text(rng, cons + vow, nutts=nutts, lex=lex, max_words=max_words)[0]
    (pre, ts), = terms.items()
    multi = [t for t in ts if len(t) > 1]
    alpha = rng.sample(ts, min(len(ts), rng.randint(3, 7))) + rng.sample(multi, min(len(multi), 2))
    return gens.random_text(rng, sorted(set(alpha)), nutts=nutts, max_words=max_words)[0]


def main():
    ck = Check('C02')
    failures = ck.prove()
    rng = ck.rng
    try:
        bindir_real = agbuild.build()
    except Exception as e:  # noqa
        ck.violation({'build': str(e)[-500:]}, 'the ag program cannot be built from /repo: ' + str(e)[-300:], nofail=True)
        return ck.finish(rule='build failed')
    ncases = 120 if ck.thorough else 14
    cases = []
    bad = []
    alphas = [['a', 'b', 'c'], ['uː', 'dʒ', 'ʌ', 'ŋ'], ['aa', 'b', 'ch', 'ng'], gens.ALPHABETS['wide'][:12], ['U', 'B', 'e', 'w']]
    for k in range(ncases):
        alpha = alphas[k % len(alphas)]
        text_units, _ = gens.random_text(rng, alpha, nutts=rng.randint(1, 6), max_words=3)
        mode = k % 3
        train_units = None if mode == 0 else (text_units if mode == 1 else gens.random_text(rng, alpha, nutts=rng.randint(2, 6))[0])
        n, x = rng.randint(2, 8), rng.randint(1, 4)
        if k % 7 == 4:
            x = None          # no -x: a parse at every iteration
        if k % 14 in (2, 9):
            # no -n: the default 2000 iterations, on a tiny text; every 2nd such call also without -x (2001 parses)
            n = None
            x = None if k % 14 == 2 else rng.choice([400, 999, 2000, 3000])
            text_units = [us[:4] for us in text_units[:3]]
            if train_units is not None:
                train_units = [us[:4] for us in (text_units if mode == 1 else train_units[:3])]
        emitted = len(range(0, 2000 if n is None else n, 1 if x is None else x)) + 1
        nruns, njobs = rng.randint(1, 4), rng.randint(1, 4)
        ignore = rng.choice([0, 0, 1, -1, -2, emitted - 1])
        # the wrapper gives run i the seed seed + i: seed 0 included
        seed = 0 if k % 5 == 1 else rng.randint(0, 10**5)
        ck.count('iterations:%s%s' % ('-n ' if n is not None else '', '-x' if x is not None else ''))
        ck.count('nruns:%d' % nruns)
        ck.count('njobs:%d' % njobs)
        ck.count('seed:' + ('0' if seed == 0 else 'positive'))
        pre = ''
        if k % 3 == 2 and n is not None and x is not None:
            # options given twice, e.g. overrides appended to a default argument string
            # (chosen so that reading the FIRST occurrence instead of the last one must show: either the largest
            #  legal ignore_first_parses becomes "too many", or "keep the last parse" ignores every parse)
            if (k // 3) % 2 == 0:
                n, x = max(n, 4), min(x, 2)
                emitted = len(range(0, n, x)) + 1
                pre, ignore = ['-n 1 ', '-n1 ', '-x 7 -n 1 ', '-x7 -n1 '][(k // 6) % 4], emitted - 1      # also in the attached spelling -n1
            else:
                pre, ignore = ['-n 30 -x 1 ', '-n40 ', '-n 40 ', '-n30 -x1 '][(k // 6) % 4], rng.choice([-1, -2])
        res, runs, left, args = run_case(ck, bindir_real, text_units, train_units, n, x, seed, nruns, njobs, ignore, None, 'Colloc0', 'colloc0', pre)
        desc = {'text': gens.lines(text_units), 'train': None if train_units is None else gens.lines(train_units), 'args': args,
                'nruns': nruns, 'njobs': njobs, 'ignore_first_parses': ignore, 'family': 'colloc0-%s' % ['self', 'same', 'disjoint'][mode]}
        if runs is None:
            bad.append((desc, 'the raw output of a run could not be captured (result %r)' % (res,)))
            continue
        for r in runs:
            cv = contract_violation(text_units, r)
            if cv:
                bad.append((desc, 'the ag program broke its contract: ' + cv))
        if left:
            bad.append((desc, 'temporary entries left behind: %r' % left))
        ck.count('parses_checked_against_contract', sum(1 for r in runs for l in r if l.strip() == ''))
        cases.append(dict(op=1502, arg=[len(text_units), [s2j(t) for t in shlex.split(args)], ignore, [text2j(r) for r in runs]], site='ag.segment', desc=desc,
                          impl=(lambda res=res: res), dec=lambda w: decode_result(w, j2text),
                          oracle=(lambda out, tu=text_units: ('segment raised ' + out[1]) if out[0] != 'ok' else gens.aligned(tu, out[1])),
                          nontrivial=lambda m: m[0] == 'raise' or any(' ' in u for u in m[1])))
    # a large output of one run (several hundred parses of a non-ASCII text: more than 64 KiB of UTF-8 once
    # uncompressed), read back by the wrapper
    for kk in range(3 if ck.thorough else 1):
        # every unit is made of multi-byte characters (2, 3 and 4 bytes in UTF-8) and the run prints about ten blocks of
        # 64 KiB: a reader that decodes the output block by block meets a character cut by a block boundary
        alpha = ['uː', 'dʒʌ', 'ŋŋ', '日本', 'éé', '\U0001d11e\U0001d11e', '語']
        text_units, _ = gens.random_text(rng, alpha, nutts=30, max_words=3)
        res, runs, left, args = run_case(ck, bindir_real, text_units, None, 1500 + 37 * kk, 1, 7 + kk, 1 + kk, 1 + kk, -200, None, 'Colloc0', 'large-output')
        desc = {'text': gens.lines(text_units)[:3] + ['...'], 'args': args, 'family': 'large-output'}
        if runs is None:
            bad.append((desc, 'the raw output of a run could not be captured (result %r)' % (res,)))
        else:
            ck.count('large_output_bytes', sum(len(l.encode('utf8')) + 1 for r in runs for l in r))
            cases.append(dict(op=1502, arg=[len(text_units), [s2j(t) for t in shlex.split(args)], -200, [text2j(r) for r in runs]], site='ag.segment', desc=desc,
                              impl=(lambda res=res: res), dec=lambda w: decode_result(w, j2text),
                              oracle=(lambda out, tu=text_units: ('segment raised ' + out[1]) if out[0] != 'ok' else gens.aligned(tu, out[1])),
                              nontrivial=lambda m: True))
    # the bundled grammars, each on texts it covers, with several runs / jobs and ignored parses
    gfiles = sorted(f for f in os.listdir(DATA_AG) if f.endswith('.lt')) if os.path.isdir(DATA_AG) else []
    for gi, gname in enumerate(gfiles):
        gfile = os.path.join(DATA_AG, gname)
        terms, cats = read_grammar(gfile)
        if not cats or not terms or not (len(terms) == 1 or set(terms) == {'Consonant', 'Vowel'}):
            ck.count('bundled_grammar_not_covered:' + gname)
            continue
        for k in range(4 if ck.thorough else 1 + (gi % 2)):
            tu = covered_text(rng, terms, rng.randint(2, 4), max_words=2)
            mode = (gi + k) % 3
            tr = None if mode == 0 else (tu if mode == 1 else covered_text(rng, terms, rng.randint(2, 4), max_words=2))
            category = 'Colloc0' if 'Colloc0' in cats and k == 0 else rng.choice(cats)
            n, x = rng.randint(3, 8), rng.randint(1, 3)
            emitted = len(range(0, n, x)) + 1
            simple = (k == 1)     # the plain configuration kept from earlier versions of this check
            nruns, njobs = (1, 1) if simple else (rng.randint(2, 4), rng.randint(2, 4))
            ignore = 0 if simple else rng.choice([1, -1, -2, emitted - 1, -(emitted - 1)])
            seed = rng.choice([0, 11 + k, rng.randint(1, 10**5)])
            res, runs, left, args = run_case(ck, bindir_real, tu, tr, n, x, seed, nruns, njobs, ignore, gfile, category, 'bundled')
            desc = {'text': gens.lines(tu), 'train': None if tr is None else gens.lines(tr), 'grammar': gfile, 'category': category, 'args': args,
                    'nruns': nruns, 'njobs': njobs, 'ignore_first_parses': ignore, 'family': 'bundled-grammar'}
            ck.count('bundled:' + gname)
            ck.count('bundled_category:' + category)
            if runs is None:
                bad.append((desc, 'no captured output with the bundled grammar (result %r)' % (res,)))
                continue
            for r in runs:
                cv = contract_violation(tu, r)
                if cv:
                    bad.append((desc, 'the ag program broke its contract: ' + cv))
            if left:
                bad.append((desc, 'temporary entries left behind: %r' % left))
            cases.append(dict(op=1502, arg=[len(tu), [s2j(t) for t in shlex.split(args)], ignore, [text2j(r) for r in runs]], site='ag.segment', desc=desc,
                              impl=(lambda res=res: res), dec=lambda w: decode_result(w, j2text),
                              oracle=(lambda out, tu=tu: ('segment raised ' + out[1]) if out[0] != 'ok' else gens.aligned(tu, out[1])),
                              nontrivial=lambda m: True))
    # a history: a call whose runs FAIL (a grammar that does not derive the text: the program exits with an error), then a
    # valid call in the same process - the failure of the first must not reach the second
    gdir = tempfile.mkdtemp(prefix='c02g_')
    try:
        gpath = os.path.join(gdir, 'only_a.lt')
        open(gpath, 'w', encoding='utf8').write(ag.build_colloc0_grammar(['a']))
        tu = [['a', 'b'], ['b', 'a', 'b']]
        r1, _, _, a1 = run_case(ck, bindir_real, tu, None, 3, 1, 3, 2, 2, 0, gpath, 'Colloc0', 'history-after-failure')
        ck.count('history_first_call:' + (r1[0] if r1[0] == 'ok' else r1[1]))
        r2, runs2, left2, a2 = run_case(ck, bindir_real, tu, None, 3, 1, 4, 2, 2, 0, None, 'Colloc0', 'history-after-failure')
        desc = {'history': [{'text': gens.lines(tu), 'grammar': 'Colloc0 grammar over the unit a only', 'args': a1, 'result': repr(r1)[:120]},
                            {'text': gens.lines(tu), 'grammar': None, 'args': a2}], 'family': 'history-after-failure'}
        ck.case('history-after-failure', True, sample=desc)
        ck.count('family:history-after-failure')
        why = ('segment raised ' + r2[1]) if r2[0] != 'ok' else gens.aligned(tu, r2[1])
        if why:
            bad.append((desc, 'a valid call made after a call whose runs failed: ' + why))
    finally:
        shutil.rmtree(gdir, ignore_errors=True)
    for c in cases:
        ck.count('family:' + c['desc']['family'])
    for d, what in bad[:3]:
        ck.violation({'site': 'ag.segment', 'input': d}, 'property fails on the implementation: ' + what)
    correspond(ck, cases)
    # grammar generation
    gcases = []
    for k in range(100 if ck.thorough else 20):
        tu, _ = gens.random_text(rng, rng.choice(alphas), nutts=rng.randint(1, 4))
        tr, _ = gens.random_text(rng, rng.choice(alphas), nutts=rng.randint(1, 4))
        a, b = gens.lines(tr), gens.lines(tu)

        def impl(a=a, b=b):
            phones = set(p for utt in a for p in utt.split() if p)
            phones.update(set(p for utt in b for p in utt.split() if p))
            g = ag.build_colloc0_grammar(phones)
            return [l[len('1 1 Phoneme -->'):] for l in g.split('\n') if l.startswith('1 1 Phoneme -->')]
        gcases.append(dict(op=1506, arg=[text2j(a), text2j(b)], site='ag.build_colloc0_grammar', desc={'train': a, 'test': b, 'family': 'grammar'},
                           impl=impl, dec=j2text, res_of=lambda m: ('ok',),
                           oracle=lambda out, a=a, b=b: None if set(out) == {u for l in a + b for u in l.split()} and len(out) == len(set(out)) else 'the grammar does not list every unit exactly once',
                           nontrivial=lambda m: True))
    correspond(ck, gcases)
    if ck.thorough:
        try:
            san = agbuild.build(sanitize=True)
            nsan = 0
            for k in range(25):
                tu, _ = gens.random_text(rng, alphas[k % len(alphas)], nutts=rng.randint(1, 6))
                d = tempfile.mkdtemp(prefix='c02-san-')
                try:
                    gram = os.path.join(d, 'g.lt')
                    open(gram, 'w', encoding='utf8').write(ag.build_colloc0_grammar({u for us in tu for u in us}))
                    tf = os.path.join(d, 't.ylt')
                    open(tf, 'w', encoding='utf8').write('\n'.join(gens.lines(tu)) + '\n')
                    r = subprocess.run('cat %s | %s %s -n 6 -x 2 -r %d -d 0 -E -P -R -1 -u %s -c Colloc0' % (tf, os.path.join(san, 'ag'), gram, k + 1, tf),
                                       shell=True, capture_output=True, env=dict(os.environ, ASAN_OPTIONS='detect_leaks=0'))
                    nsan += 1
                    err = r.stderr.decode('utf8', 'replace')
                    if r.returncode != 0 or 'ERROR: AddressSanitizer' in err or 'runtime error:' in err:
                        ck.violation({'site': 'ag binary (ASan/UBSan)', 'input': {'text': gens.lines(tu), 'seed': k + 1}, 'stderr': err[-800:]},
                                     'property fails on the implementation: sanitizer report or non-zero exit (%d) of the ag program' % r.returncode)
                        break
                finally:
                    shutil.rmtree(d, ignore_errors=True)
            ck.count('sanitizer_runs', nsan)
            shutil.rmtree(san, ignore_errors=True)
        except Exception as e:  # noqa
            ck.count('sanitizer_build_failed')
            ck.cov['sanitizer_note'] = str(e)[-300:]
    # a run in which the program writes more than a pipe buffer of messages on its standard error (debug level 100, the
    # default of wordseg-ag, and 800 iterations): the wrapper must drain them while the program runs, and return
    import threading
    tu = [['a', 'b', 'c'], ['b', 'a'], ['c', 'a', 'b']]
    box = []
    os.environ['WORDSEG_VERIF_BINDIR'] = bindir_real

    def chatty():
        box.append(call_impl(ag.segment, gens.lines(tu), args='-n 800 -x 400 -r 7 -d 100', nruns=1, njobs=1))
    th = threading.Thread(target=chatty, daemon=True)
    th.start()
    th.join(120)
    os.environ['WORDSEG_VERIF_BINDIR'] = os.path.join(VERIF, 'harness', 'stubs')
    res = box[0] if box else ('raise', 'HANG (no answer after 120 s)')
    ck.case('chatty-stderr', True, sample={'args': '-n 800 -x 400 -r 7 -d 100', 'result': res[0] if res[0] == 'raise' else res[1]})
    ck.count('family:chatty-stderr')
    why = ('segment raised ' + res[1]) if res[0] != 'ok' else gens.aligned(tu, res[1])
    if why:
        ck.violation({'site': 'ag.segment', 'input': {'text': gens.lines(tu), 'args': '-n 800 -x 400 -r 7 -d 100', 'nruns': 1}},
                     'property fails on the implementation: ' + why)
    # units spelled like a non-terminal of the auto-generated grammar (Colloc0, Colloc0s, Phoneme, Phonemes, Sentence): the
    # rule "Phoneme --> Colloc0" makes the unit a non-terminal and the grammar cyclic (known finding)
    for unit in ('Colloc0', 'Sentence', 'Phonemes'):
        tu = [['a', unit, 'c', 'a', unit], ['c', 'a', unit]]
        res, runs, left, args = run_case(ck, bindir_real, tu, None, 6, 2, 5, 1, 1, 0, None, 'Colloc0', 'unit-named-like-nonterminal')
        ck.case('nonterminal-unit:' + unit, True, sample={'text': gens.lines(tu), 'result': res[0] if res[0] == 'raise' else res[1]})
        ck.count('family:unit-named-like-nonterminal')
        why = ('segment raised ' + res[1]) if res[0] != 'ok' else gens.aligned(tu, res[1])
        if why and not ck.match_known('ag.segment', {'unit_named_like_grammar_nonterminal'}):
            ck.violation({'site': 'ag.segment', 'input': {'text': gens.lines(tu), 'args': args}}, 'property fails on the implementation: ' + why)
    n, problems = ck.coq_recheck()
    finish_proof_failures(ck, failures + problems)
    return ck.finish(
        rule='%d runs of the real ag.segment on the ag program built from /repo (random corpora over 5 alphabets incl. multi-character, non-ASCII and U/B units; '
             'train in {None, same, disjoint}; -n 2-8 or absent (2000 iterations on a tiny text), -x 1-4 or absent, seeds 0..1e5, nruns 1-4, njobs 1-4, positive and negative ignore_first_parses; '
             'auto-generated Colloc0 grammar, and every grammar file of data/ag on generated texts it covers with a category the wrapper accepts, nruns/njobs 2-4 and ignored parses); '
             'each run\'s raw output is captured, fed to the wrapper model and checked parse by parse against the contract assumed of the binary. Non-trivial = a boundary placed or an error.' % ncases,
        assumptions=['the sampler (py-cky.h), symbol handling (sym.cc) and memory safety of the C++ program are an oracle with a stated contract, tested (not proved) on every emitted parse; thorough tier adds an ASan/UBSan build'])


if __name__ == '__main__':
    sys.exit(main())
