"""C03 — the dpseg pipeline returns the input with only spaces added, or raises.

dpseg cannot be built in this sandbox (no Boost): the real Python wrapper is
driven through the WORDSEG_VERIF_BINDIR hook with a scripted stand-in that obeys
(or, in the malformed stream, breaks) the contract of the program."""
import hashlib
import itertools
import json
import os
import shutil
import sys
import tempfile

from common import Check, VERIF, correspond, decode_result, call_impl, finish_proof_failures, text2j, j2text, run_model_batch
import gens

STUBS = os.path.join(VERIF, 'harness', 'stubs')
os.environ['WORDSEG_VERIF_BINDIR'] = STUBS
# fixed for the life of the process: joblib worker processes keep the environment they were started with
import atexit
_ROOT = tempfile.mkdtemp(prefix='c03-root-')
atexit.register(shutil.rmtree, _ROOT, ignore_errors=True)
CAP = os.path.join(_ROOT, 'cap')
os.mkdir(CAP)
PLAN = os.path.join(_ROOT, 'plan.json')
json.dump({}, open(PLAN, 'w'))
os.environ['DPSEG_STUB_CAPTURE'] = CAP
os.environ['DPSEG_STUB_PLAN'] = PLAN
from wordseg.algos import dpseg  # noqa: E402
from wordseg import folding  # noqa: E402


def unit_order(text):
    """the iteration order of the set built by dpseg.segment (same construction, same process)"""
    return list(set(unit for utt in text for unit in utt.split()))


def guarded(f, seconds=120):
    """f() in a thread: "either returns ... or raises" - a call that gives no answer is reported, not waited for"""
    import threading
    box = []
    th = threading.Thread(target=lambda: box.append(f()), daemon=True)
    th.start()
    th.join(seconds)
    return box[0] if box else ('raise', 'HANG (no answer after %d s)' % seconds)


def magnitude_probe(ck, rng, nunits):
    """more distinct units than there are code points below the surrogates (3001 + 52295 = U+D800): the answer of the
    implementation alone (the model's recoding is quadratic at this size; the thorough tier also runs it)"""
    units = ['u%d' % i for i in range(nunits)]
    rng.shuffle(units)
    text = [' '.join(units[i:i + 25]) for i in range(0, nunits, 25)]
    for f in os.listdir(CAP):
        os.remove(os.path.join(CAP, f))
    res = guarded(lambda: call_impl(lambda: list(dpseg.segment(list(text), nfolds=1, njobs=1, args='--randseed 3'))))
    sent = []
    for fn in os.listdir(CAP):
        if fn.endswith('.in'):
            sent.extend(open(os.path.join(CAP, fn), encoding='utf8').read().split('\n'))
    chars = set(''.join(sent))
    desc = {'text': '%d utterances of 25 units over %d distinct units u0..u%d (shuffled, seed %d)' % (len(text), nunits, nunits - 1, ck.seed),
            'nfolds': 1, 'njobs': 1, 'family': 'distinct-units-magnitude'}
    ck.case('magnitude:%d' % nunits, True, sample={'distinct_units': nunits, 'result': res[0] if res[0] == 'raise' else 'ok'})
    ck.count('family:distinct-units-magnitude')
    if res[0] == 'raise':
        return None if res[1] in ('ValueError', 'RuntimeError') else (desc, 'dpseg.segment on %d distinct units: %s (only ValueError/RuntimeError allowed)' % (nunits, res[1]))
    if any(ch.isspace() for ch in chars) or len(chars) != nunits:
        return desc, 'the recoding of %d distinct units uses %d code points (whitespace among them: %s)' % (nunits, len(chars), any(ch.isspace() for ch in chars))
    why = gens.aligned([l.split() for l in text], res[1])
    return (desc, why) if why else None


def segment_case(ck, text_units, nfolds, njobs, family, plan=None, raw_text=None, folds_only=False):
    text = raw_text if raw_text is not None else gens.lines(text_units)
    order = unit_order(text)
    cap = CAP
    for f in os.listdir(cap):
        os.remove(os.path.join(cap, f))
    json.dump(plan or {}, open(PLAN, 'w'))
    try:
        res = guarded(lambda: call_impl(lambda: list(dpseg.segment(list(text), nfolds=nfolds, njobs=njobs, args='--randseed 3'))))
        # which outputs belong to which fold: recompute the folds with the model
        mf = run_model_batch([(303, [text2j(text), text2j(order), nfolds])])[0]
        outputs = []
        if mf[0] == 0:
            for fold in mf[1][0]:
                lines = [''.join(chr(c) for c in l) for l in fold]
                h = hashlib.sha1(('\n'.join(lines) + '\n').encode('utf8')).hexdigest()
                p = os.path.join(cap, h + '.out')
                outputs.append(open(p, encoding='utf8').read().split('\n') if os.path.exists(p) else None)
        # what the program really received (whatever the model thinks): first line of every fold
        first_lens = []
        sent = []
        for fn in os.listdir(cap):
            if fn.endswith('.in'):
                fl = open(os.path.join(cap, fn), encoding='utf8').read().split('\n')
                first_lens.append(len(fl[0]) if fl else 0)
                sent.extend(fl)
        sent_chars = set(''.join(sent))
    finally:
        json.dump({}, open(PLAN, 'w'))
    desc = {'text': text, 'nfolds': nfolds, 'njobs': njobs, 'family': family, 'plan': plan}
    if mf[0] == 0 and any(o is None for o in outputs):
        if res[0] == 'ok':
            return desc, None, res, 'a fold the model predicts was never sent to the program'
        outputs = [o if o is not None else [''] for o in outputs]

    def oracle(out):
        if plan or raw_text is not None:
            return None            # outside the property's quantifier: correspondence only
        if out[0] == 'raise' and out[1] not in ('ValueError', 'RuntimeError'):
            return 'raised %s (only ValueError/RuntimeError allowed)' % out[1]
        if any(l == 1 for l in first_lens):
            return 'a fold handed to the program starts with a one-symbol line'
        if out[0] == 'raise':
            return None
        # the recoding: one code point per distinct unit, none of them whitespace
        if any(ch.isspace() for ch in sent_chars):
            return 'the recoded text handed to the program contains the whitespace code point(s) %r' % sorted(ch for ch in sent_chars if ch.isspace())
        if len(sent_chars) != len(order):
            return 'the recoding is not injective: %d distinct units sent as %d distinct code points' % (len(order), len(sent_chars))
        return gens.aligned([l.split() for l in text], out[1])
    if folds_only:
        # thousands of distinct units: the model's decoding step (op 304) is cubic in the number of units, so the
        # correspondence is on what is sent to the program (recoding, repair, folding: op 303) and the oracle is
        # applied to the implementation's result as everywhere else
        sent_folds = sorted(open(os.path.join(cap, fn), encoding='utf8').read().split('\n')[:-1] for fn in os.listdir(cap) if fn.endswith('.in'))
        c = dict(op=303, arg=[text2j(text), text2j(order), nfolds], site='dpseg.segment', desc=desc,
                 impl=(lambda: ('ok', (sent_folds, res))),
                 dec=lambda w: decode_result(w, lambda v: sorted([''.join(chr(ch) for ch in l) for l in fold] for fold in v[0])),
                 eq=lambda m, i: (m == i[1][1]) if m[0] == 'raise' else (i[1][1][0] == 'ok' and m[1] == i[1][0]),
                 oracle=lambda out: oracle(out[1][1]), nontrivial=lambda m: True)
        return desc, c, res, None
    c = dict(op=304, arg=[text2j(text), text2j(order), nfolds, [text2j(o) for o in outputs] if mf[0] == 0 else []], site='dpseg.segment', desc=desc,
             impl=(lambda res=res: res), dec=lambda w: decode_result(w, j2text), oracle=oracle,
             nontrivial=lambda m: m[0] == 'raise' or any(' ' in u for u in m[1]))
    return desc, c, res, None


def main():
    ck = Check('C03')
    failures = ck.prove()
    rng = ck.rng
    cases = []
    bad = []
    # 1. UnicodeGenerator: consecutive outputs, no whitespace, strictly increasing
    ngen = 20000 if ck.thorough else 6000
    g = dpseg.UnicodeGenerator()
    impl_chars = [ord(g()) for _ in range(ngen)]
    cases.append(dict(op=301, arg=[3001, ngen], site='dpseg.UnicodeGenerator', desc={'start': 3001, 'n': ngen, 'family': 'generator'},
                      impl=lambda: impl_chars, dec=lambda w: w, res_of=lambda m: ('ok',),
                      oracle=lambda out: None if all(not chr(c).isspace() for c in out) and all(a < b for a, b in zip(out, out[1:])) else 'generator yields whitespace or repeats',
                      nontrivial=lambda m: True))
    # 2. _dpseg_bugfix: every (line-length vector in {1,2,3}^n, k <= n)
    nmax = 8 if ck.thorough else 6
    for n in range(1, nmax + 1):
        for lens in itertools.product([1, 2, 3], repeat=n):
            if n > 5 and rng.random() < (0.85 if not ck.thorough else 0.6):
                continue
            text = ['x' * l for l in lens]
            for k in range(1, n + 1):
                b0 = folding.boundaries(text, k)

                def impl(text=text, b0=b0):
                    return call_impl(dpseg._dpseg_bugfix, list(text), list(b0))

                def oracle(out, text=text, k=k):
                    if out[0] == 'raise':
                        return None if out[1] == 'ValueError' else 'bugfix raised ' + out[1]
                    b = out[1]
                    if len(b) != k or any(x >= y for x, y in zip(b, b[1:])):
                        return 'repaired boundaries are not %d strictly increasing indices' % k
                    if any(len(text[i]) < 2 for i in b):
                        return 'a repaired fold still starts with a one-symbol line'
                    return None
                cases.append(dict(op=302, arg=[text2j(text), b0], site='dpseg._dpseg_bugfix', desc={'lengths': list(lens), 'nfolds': k, 'family': 'bugfix'},
                                  impl=impl, dec=decode_result, oracle=oracle, nontrivial=lambda m: True))
    # 2b. the repair step on boundary vectors that folding.boundaries does not produce: every strictly increasing
    # vector starting at 0 for n <= nfree lines, random ones beyond
    nfree = 5
    def free_case(lens, b0):
        text = ['x' * l for l in lens]

        def impl(text=text, b0=b0):
            return call_impl(dpseg._dpseg_bugfix, list(text), list(b0))

        def oracle(out, text=text, k=len(b0)):
            if out[0] == 'raise':
                return None if out[1] == 'ValueError' else 'bugfix raised ' + out[1]
            b = out[1]
            if len(b) != k or any(x >= y for x, y in zip(b, b[1:])) or b[0] != 0 or b[-1] >= len(text):
                return 'repaired boundaries are not %d strictly increasing line indices starting at 0' % k
            if any(len(text[i]) < 2 for i in b):
                return 'a repaired fold still starts with a one-symbol line'
            return None
        return dict(op=302, arg=[text2j(text), list(b0)], site='dpseg._dpseg_bugfix', desc={'lengths': list(lens), 'boundaries': list(b0), 'family': 'bugfix-free-vector'},
                    impl=impl, dec=decode_result, oracle=oracle, nontrivial=lambda m: True)
    for n in range(1, nfree + 1):
        for lens in itertools.product([1, 2, 3], repeat=n):
            std = {tuple(folding.boundaries(['x' * l for l in lens], k)) for k in range(1, n + 1)}
            for r in range(0, n):
                for rest in itertools.combinations(range(1, n), r):
                    b0 = (0,) + rest
                    if b0 not in std:
                        cases.append(free_case(lens, b0))
    for _ in range(3000 if ck.thorough else 300):
        n = rng.randint(nfree + 1, 14)
        lens = [rng.choice([1, 1, 2, 3, 5]) for _ in range(n)]
        b0 = [0] + sorted(rng.sample(range(1, n), rng.randint(0, n - 1)))
        cases.append(free_case(lens, b0))
    # 3. the wrapper with a contract-abiding stand-in
    nseg = 300 if ck.thorough else 40
    alphas = [['a', 'b', 'c'], ['uː', 'dʒ', 'ʌ', 'ŋ'], ['aa', 'b', 'ch'], gens.ALPHABETS['wide']]
    for k in range(nseg):
        alpha = alphas[k % 4]
        tu, _ = gens.random_text(rng, alpha if len(alpha) < 50 else rng.sample(alpha, 40), nutts=rng.randint(1, 12), max_words=3)
        nfolds = rng.randint(1, len(tu))
        njobs = 1 if k % 2 else rng.randint(2, 4)
        ck.count('segment_njobs:%d' % njobs)
        desc, c, res, err = segment_case(ck, tu, nfolds, njobs, 'contract-ok')
        if err:
            bad.append((desc, err))
        elif c:
            cases.append(c)
    # 3b. thousands of distinct units: the recoding walks over the whitespace code points U+1680, U+2000-200A,
    # U+2028/2029/202F/205F (and U+3000 in the thorough tier)
    for nunits, nf, nj in ([(5600, 3, 2), (9500, 1, 1), (4000, 7, 3)] if ck.thorough else [(5600, 3, 2)]):
        units = ['u%d' % i for i in range(nunits)]
        rng.shuffle(units)
        tu, i = [], 0
        while i < nunits:
            m = rng.randint(1, 6)
            tu.append(units[i:i + m])
            i += m
        tu = [tu[0] + tu[1]] + tu[2:]        # the first line has at least two units
        for _ in range(20):
            tu.insert(rng.randint(1, len(tu)), list(rng.choice(tu)))      # repeated lines
        desc, c, res, err = segment_case(ck, tu, nf, nj, 'contract-ok-%d-units' % nunits, folds_only=True)
        desc['text'] = '%d utterances over %d distinct units u0..u%d (shuffled, seed %d)' % (len(tu), nunits, nunits - 1, ck.seed)
        if err:
            bad.append((desc, err))
        elif c:
            cases.append(c)
    # 3c. more distinct units than code points below the surrogates
    for nunits in ((53000, 70000) if ck.thorough else (53000,)):
        r = magnitude_probe(ck, rng, nunits)
        if r:
            bad.append(r)
    # 4. malformed stream: the stand-in breaks its contract or fails; blank lines; too many folds
    for corrupt in ('drop', 'dup', 'char'):
        for k in range(6 if ck.thorough else 2):
            tu, _ = gens.random_text(rng, ['a', 'b', 'c'], nutts=rng.randint(2, 6))
            desc, c, res, err = segment_case(ck, tu, rng.randint(1, len(tu)), 1, 'contract-broken-' + corrupt, plan={'default': {'corrupt': corrupt}})
            if c:
                cases.append(c)
    for raw, k in ((['a b', '', 'c'], 1), (['a b', 'c'], 3), (['a', 'b c', 'a b'], 1), (['a b', 'c', 'a b'], 2), ([], 1), (['a b'], 0)):
        desc, c, res, err = segment_case(ck, None, k, 1, 'malformed-input', raw_text=raw)
        if c:
            cases.append(c)
    for d, what in bad[:3]:
        ck.violation({'site': 'dpseg.segment', 'input': d}, 'property fails on the implementation: ' + what)
    for c in cases:
        ck.count('family:' + c['desc']['family'])
    correspond(ck, cases)
    n, problems = ck.coq_recheck()
    finish_proof_failures(ck, failures + problems)
    return ck.finish(
        rule='%d consecutive outputs of UnicodeGenerator; _dpseg_bugfix on every line-length vector in {1,2,3}^n (n <= 5 exhaustively, sampled up to %d) x every fold count, and on every other strictly increasing boundary vector starting at 0 (n <= 5 exhaustively, random vectors up to 14 lines); '
             '%d runs of the real dpseg.segment (random corpora over 4 alphabets incl. hundreds of distinct units, nfolds 1..len, njobs 1-4 (half of the runs with several jobs), plus a corpus with thousands of distinct units whose recoding crosses the whitespace code points) on a contract-abiding stand-in whose per-fold '
             'outputs are captured and fed to the model; contract-breaking stand-ins and malformed inputs as correspondence. Non-trivial = boundary placed or error.' % (ngen, nmax, nseg),
        assumptions=['the dpseg program itself cannot be built here (no Boost): its contract (same lines, in order, only U+0020 inserted) is assumed by the theorems and realised by the stand-in',
                     'the iteration order of the Python set of units is a parameter of the model (read back from the same process)'])


if __name__ == '__main__':
    sys.exit(main())
