"""C16 — a failing ag or dpseg process is never mistaken for a result: fault
enumeration against the real wrappers driving scripted stand-ins, compared
with the prediction of AG/Proc.v on the configuration generated from the
sources (gen/ProcCfg.v)."""
import itertools
import json
import random
import os
import re
import shutil
import subprocess
import sys
import tempfile
import threading
import time

from common import Check, VERIF, COQ, OUT, finish_proof_failures
import translate_proc

STUBS = os.path.join(VERIF, 'harness', 'stubs')
os.environ['WORDSEG_VERIF_BINDIR'] = STUBS

from wordseg.algos import ag, dpseg  # noqa: E402

TEXT = ['a b c', 'b a', 'c c a b', 'a']
HOWS = [('exit', 1), ('exit', 3), ('signal', 11), ('signal', 9)]


def how_coq(h):
    if h is None or h[0] == 'ok':
        return 'HOk'
    return ('HExit (%d)' if h[0] == 'exit' else 'HSignal (%d)') % h[1]


def run_ag(nruns, plan_by_run, njobs=1, text=None, train=None):
    """plan_by_run: {run index: behaviour}; returns (outcome, leftover entries)"""
    d = tempfile.mkdtemp(prefix='c16-ag-')
    nthreads = threading.active_count()      # the main thread, plus joblib's process-pool threads once dpseg ran with several jobs
    try:
        work = os.path.join(d, 'tmp')
        os.mkdir(work)
        seed = 100
        plan = {'by_seed': {str(seed + i): b for i, b in plan_by_run.items()}}
        pf = os.path.join(d, 'plan.json')
        json.dump(plan, open(pf, 'w'))
        os.environ['AG_STUB_PLAN'] = pf
        try:
            out = ag.segment(list(text or TEXT), train_text=None if train is None else list(train), args='-n 4 -x 2 -r %d' % seed, nruns=nruns, njobs=njobs, tempdir=work)
            res = ('ok', out)
        except Exception as e:  # noqa
            res = ('raise', type(e).__name__)
        # what is there at the very moment segment() returns or raises (a command exits on the error: nobody waits for
        # sibling runs that are still working)
        left = sorted(os.listdir(work))
        # then let worker threads (stderr readers, sibling runs) finish before the scratch directory goes
        t0 = time.time()
        while threading.active_count() > nthreads and time.time() - t0 < 5:
            time.sleep(0.02)
        return res, left
    finally:
        os.environ.pop('AG_STUB_PLAN', None)
        shutil.rmtree(d, ignore_errors=True)


def run_dpseg(nfolds, plan_by_call, text=None):
    d = tempfile.mkdtemp(prefix='c16-dp-')
    try:
        work = os.path.join(d, 'tmp')
        os.mkdir(work)
        plan = {'by_call': [plan_by_call.get(i, {}) for i in range(nfolds)], 'counter': os.path.join(d, 'counter')}
        pf = os.path.join(d, 'plan.json')
        json.dump(plan, open(pf, 'w'))
        os.environ['DPSEG_STUB_PLAN'] = pf
        old = tempfile.tempdir
        tempfile.tempdir = work
        try:
            box = []

            def call():
                try:
                    box.append(('ok', list(dpseg.segment(list(text or TEXT), nfolds=nfolds, njobs=1, args='--randseed 1'))))
                except Exception as e:  # noqa
                    box.append(('raise', type(e).__name__))
            th = threading.Thread(target=call, daemon=True)
            th.start()
            th.join(60)
            res = box[0] if box else ('raise', 'HANG (no answer after 60 s)')
        finally:
            tempfile.tempdir = old
        return res, sorted(os.listdir(work))
    finally:
        os.environ.pop('DPSEG_STUB_PLAN', None)
        shutil.rmtree(d, ignore_errors=True)


# ---- dpseg with several jobs ----
# joblib runs the folds in worker processes that keep the environment (and so the temporary directory and the plan
# file name) they were started with: both are fixed from the first parallel scenario to the end of the process, only
# the content of the plan file changes. With parallel folds there is no invocation order, so a fold's fate is keyed
# by its input, discovered beforehand by sequential runs that fail at fold k (the stand-in records what it received).
_PAR = {}


class DiscoveryFailed(Exception):
    """the sequential runs that tell the folds apart (fold k scripted to exit 1) did not behave: itself a violation"""


def par_setup():
    if not _PAR:
        import atexit
        root = tempfile.mkdtemp(prefix='c16-par-')
        atexit.register(shutil.rmtree, root, ignore_errors=True)
        for sub in ('tmp', 'cap'):
            os.mkdir(os.path.join(root, sub))
        _PAR.update(root=root, tmp=os.path.join(root, 'tmp'), cap=os.path.join(root, 'cap'), plan=os.path.join(root, 'plan.json'), folds={})
    return _PAR


def fold_inputs(nfolds):
    """sha1 of the input of every fold, in fold order"""
    par = par_setup()
    if nfolds not in par['folds']:
        hs, prev = [], set()
        for k in range(nfolds):
            for f in os.listdir(par['cap']):
                os.remove(os.path.join(par['cap'], f))
            counter = os.path.join(par['root'], 'counter')
            if os.path.exists(counter):
                os.remove(counter)
            json.dump({'by_call': [{} for _ in range(k)] + [{'how': ['exit', 1]}], 'counter': counter}, open(par['plan'], 'w'))
            os.environ['DPSEG_STUB_PLAN'] = par['plan']
            os.environ['DPSEG_STUB_CAPTURE'] = par['cap']
            try:
                list(dpseg.segment(list(TEXT), nfolds=nfolds, njobs=1, args='--randseed 1'))
                raise DiscoveryFailed('dpseg.segment(nfolds=%d, njobs=1) returned normally although the program exits 1 on fold %d' % (nfolds, k))
            except RuntimeError:
                pass
            except DiscoveryFailed:
                raise
            except Exception as e:      # noqa: the failure of a fold must surface as RuntimeError, whichever fold it is
                raise DiscoveryFailed('dpseg.segment(nfolds=%d, njobs=1) raised %s: %s instead of RuntimeError when the program exits 1 on fold %d (of 0..%d), the other folds succeeding'
                                      % (nfolds, type(e).__name__, e, k, nfolds - 1))
            finally:
                os.environ.pop('DPSEG_STUB_CAPTURE', None)
                os.environ.pop('DPSEG_STUB_PLAN', None)
            cur = {f[:-3] for f in os.listdir(par['cap']) if f.endswith('.in')}
            if len(cur - prev) != 1:
                raise DiscoveryFailed('the sequential run that fails at fold %d of %d does not stop there (%d new inputs seen)' % (k, nfolds, len(cur - prev)))
            hs.append((cur - prev).pop())
            prev = cur
        par['folds'][nfolds] = hs
    return par['folds'][nfolds]


def run_dpseg_par(nfolds, plan_by_fold, njobs):
    par = par_setup()
    hs = fold_inputs(nfolds)
    json.dump({'by_input_sha1': {hs[i]: b for i, b in plan_by_fold.items()}}, open(par['plan'], 'w'))
    # from here to the end of the process (worker processes may be started at any later parallel call)
    os.environ['DPSEG_STUB_PLAN'] = par['plan']
    os.environ['TMPDIR'] = par['tmp']
    try:
        out = list(dpseg.segment(list(TEXT), nfolds=nfolds, njobs=njobs, args='--randseed 1'))
        res = ('ok', out)
    except Exception as e:  # noqa
        res = ('raise', type(e).__name__)
    finally:
        pass
    # what is there at the very moment segment() returns or raises (sibling folds still working included)
    left = sorted(os.listdir(par['tmp']))
    t0 = time.time()
    while os.listdir(par['tmp']) and time.time() - t0 < 3.0:
        time.sleep(0.05)
    for f in left:
        p = os.path.join(par['tmp'], f)
        shutil.rmtree(p, ignore_errors=True) if os.path.isdir(p) else os.remove(p)
    json.dump({}, open(par['plan'], 'w'))
    return res, left


def parallel_scenarios(ck, scs):
    """(kind, n, plan, njobs) with njobs in 2..3: the whole matrix for n in 2..3 in the thorough tier, in the quick tier
    every failing index x exit mode once (failure points in rotation) and the all-succeed rows"""
    res = []
    if ck.thorough:
        for kind, n, plan in scs:
            if n >= 2:
                for nj in (2, 3):
                    res.append((kind, n, plan, nj))
        res += slow_sibling_scenarios()
        res.sort(key=lambda r: r[0] != 'ag')
        return res
    ag_points = [dict(complete=0, partial=0), dict(complete=1, partial=1), dict(complete=2, partial=0), dict(complete=None), dict(complete=None, late=True)]
    dp_points = [dict(written=0), dict(written=1), dict(written=None), dict(written=None, late=True)]
    k = 0
    for n, nj in ((3, 2), (3, 3), (2, 2)):
        if (n, nj) != (3, 3):
            res.append(('ag', n, {}, nj))
            res.append(('dpseg', n, {}, nj))
        for i in range(n):
            for how in ([HOWS[0], HOWS[3]] if (n, nj) == (3, 2) else [HOWS[1 + k % 2]]):
                res.append(('ag', n, {i: dict(ag_points[k % len(ag_points)], how=list(how))}, nj))
                res.append(('dpseg', n, {i: dict(dp_points[k % len(dp_points)], how=list(how))}, nj))
                k += 1
    # a negative job count (joblib: -1 = as many jobs as CPUs): the same reporting and the same clean-up as any other count
    res.append(('ag', 2, {}, -1))
    res.append(('dpseg', 2, {}, -1))
    res.append(('ag', 2, {1: dict(ag_points[0], how=list(HOWS[0]))}, -1))
    res.append(('dpseg', 2, {0: dict(dp_points[1], how=list(HOWS[0]))}, -1))
    res.append(('dpseg', 3, {2: dict(dp_points[2], how=list(HOWS[3]))}, -2))
    res += slow_sibling_scenarios()
    # every ag scenario first: once joblib's process pool exists its threads stay in this process
    res.sort(key=lambda r: r[0] != 'ag')
    return res


def slow_sibling_scenarios():
    """one run (fold) fails at once while its healthy siblings are still working (0.8 s): at the moment the error is
    raised nothing may be left, and the error must still be the RuntimeError of the failing one"""
    res = []
    for n, nj, i, how in ((2, 2, 0, HOWS[0]), (2, 2, 1, HOWS[3]), (3, 3, 1, HOWS[1]), (3, 2, 0, HOWS[2])):
        slow = {j: {'delay': 0.8} for j in range(n) if j != i}
        pa = dict(slow)
        pa[i] = dict(complete=0, partial=0, how=list(how))
        res.append(('ag', n, pa, nj))
        pd = dict(slow)
        pd[i] = dict(written=0, how=list(how))
        res.append(('dpseg', n, pd, nj))
    return res


def scenarios(ck):
    """(kind, n, {index: behaviour}) for every failing index, failure point and exit mode"""
    res = []
    nmax = 3
    for n in range(1, nmax + 1):
        res.append(('ag', n, {}))
        res.append(('dpseg', n, {}))
        for i in range(n):
            for how in HOWS:
                # ag: before any output, after c complete parses, in the middle of a parse
                points = [dict(complete=0, partial=0), dict(complete=1, partial=0), dict(complete=2, partial=0),
                          dict(complete=0, partial=2), dict(complete=1, partial=1), dict(complete=None)]
                for pt in points:
                    b = dict(pt, how=list(how))
                    res.append(('ag', n, {i: b}))
                for written in (0, 1, None):
                    res.append(('dpseg', n, {i: dict(written=written, how=list(how))}))
                # the program closes its output streams and dies a little later (the wrapper
                # sees EOF while the process is alive): same fate, same required outcome
                if ck.thorough or how in (HOWS[0], HOWS[-1]):
                    res.append(('dpseg', n, {i: dict(written=None, how=list(how), late=True)}))
                    res.append(('ag', n, {i: dict(complete=None, how=list(how), late=True)}))
    if ck.thorough:
        # two simultaneous failures, and parallel runs
        for n in (2, 3):
            for i, j in itertools.combinations(range(n), 2):
                for h1, h2 in itertools.product(HOWS[:2] + HOWS[3:], repeat=2):
                    res.append(('ag', n, {i: dict(complete=1, partial=1, how=list(h1)), j: dict(complete=0, partial=0, how=list(h2))}))
                    res.append(('dpseg', n, {i: dict(written=1, how=list(h1)), j: dict(written=None, how=list(h2))}))
    return res


def main():
    ck = Check('C16')
    tr_fail = []
    try:
        cfg = translate_proc.main()
    except translate_proc.TranslationError as e:
        cfg = None
        tr_fail.append('translator: ' + str(e))
        for ext in ('.v', '.vo', '.vok', '.vos', '.glob'):
            try:
                os.remove(os.path.join(VERIF, 'coq', 'gen', 'ProcCfg' + ext))
            except OSError:
                pass
    failures = ck.prove(gen=['gen/ProcCfg.v'] if cfg else []) + tr_fail
    scs = scenarios(ck)
    observed = []
    for kind, n, plan in scs:
        if kind == 'ag':
            res, left = run_ag(n, plan)
        else:
            res, left = run_dpseg(n, plan)
        observed.append((res, left))
    # the program dies before reading its input, and the input is larger than what the pipe and the write buffer
    # can absorb (the writer thread is stopped by EPIPE with unflushed data): same required outcome
    _hook = threading.excepthook
    threading.excepthook = lambda a: None if issubclass(a.exc_type, BrokenPipeError) else _hook(a)   # the writer thread's EPIPE traceback
    rb = random.Random(5)
    big = [' '.join(rb.choice('abcdefgh') for _ in range(25)) for _ in range(4000)]
    for n, i, how in ((1, 0, HOWS[0]), (2, 1, HOWS[3])) + (((3, 0, HOWS[2]), (3, 2, HOWS[1])) if ck.thorough else ()):
        plan = {i: dict(how=list(how), early=True, big_input=True)}
        scs.append(('dpseg', n, plan))
        observed.append(run_dpseg(n, plan, text=big))
    # a program that writes its diagnostics (more than a pipe holds) on one stream only, healthy or failing
    for n, i, how, stream in ((1, 0, ('ok',), 'stderr'), (2, 1, ('ok',), 'stdout'), (2, 0, HOWS[0], 'stderr'), (3, 1, HOWS[3], 'stdout')):
        plan = {i: dict(how=list(how), chatter={'stream': stream, 'bytes': 200000})}
        scs.append(('dpseg', n, plan))
        observed.append(run_dpseg(n, plan))
    # a non-ASCII text, the output of the failing run stopping INSIDE a multi-byte character
    text_u = ['ð ə k', 'æ t ð', 'ə ə']
    for n, i, how, pt in ((1, 0, HOWS[0], dict(complete=1, partial=0, cut_bytes=2)), (2, 1, HOWS[2], dict(complete=0, partial=1, cut_bytes=2)),
                          (3, 0, HOWS[3], dict(complete=2, partial=2, cut_bytes=2))):
        plan = {i: dict(pt, how=list(how), non_ascii=True)}
        scs.append(('ag', n, plan))
        observed.append(run_ag(n, plan, text=text_u))
    # a training text distinct from the text to segment (another code path for the files of a run): failing and healthy runs
    train_u = ['a b c', 'c b', 'a a b']
    for n, i, how, pt in ((1, 0, HOWS[0], dict(complete=0, partial=0)), (2, 1, HOWS[3], dict(complete=1, partial=1)), (3, 0, HOWS[2], dict(complete=None)),
                          (2, None, None, None)):
        plan = {} if i is None else {i: dict(pt, how=list(how), train_text=True)}
        scs.append(('ag', n, plan))
        observed.append(run_ag(n, plan, train=train_u))
    # several jobs (after the sequential scenarios: see par_setup)
    njobs_obs = []
    for kind, n, plan, nj in parallel_scenarios(ck, scs):
        try:
            njobs_obs.append(((kind, n, plan, nj), run_ag(n, plan, njobs=nj) if kind == 'ag' else run_dpseg_par(n, plan, nj)))
        except DiscoveryFailed as e:
            ck.violation({'site': 'dpseg.segment', 'input': {'nfolds': n, 'njobs': 1, 'scenario': 'the stand-in exits 1 on one fold'}},
                         'property fails on the implementation: a failing dpseg process was not reported as RuntimeError: ' + str(e))
            break
        ck.count('njobs:%s:%d' % (kind, nj))
    # the property itself, on the implementation
    bad = []
    for (kind, n, plan, nj), (res, left) in [((k, n, p, 1), o) for (k, n, p), o in zip(scs, observed)] + njobs_obs:
        fails = any(b.get('how', ['ok'])[0] != 'ok' for b in plan.values())
        desc = {'wrapper': kind, 'nruns_or_nfolds': n, 'njobs': nj, 'behaviours': {str(k): v for k, v in plan.items()}}
        ck.case(json.dumps(desc, sort_keys=True), fails, sample={'scenario': desc, 'observed': repr(res)[:120], 'left_behind': left})
        ck.count('wrapper:' + kind)
        ck.count('outcome:' + (res[0] if res[0] == 'ok' else res[1]))
        if fails and res != ('raise', 'RuntimeError'):
            bad.append((desc, 'a failing %s process was not reported as RuntimeError: %r' % (kind, res if res[0] == 'raise' else ('ok', '...'))))
        elif not fails and res[0] != 'ok':
            bad.append((desc, 'all processes succeeded but segmentation raised ' + res[1]))
        if left:
            bad.append((desc, 'temporary entries left behind: %r' % left))
    for desc, what in bad[:3]:
        ck.violation({'site': desc['wrapper'] + '.segment', 'input': desc}, 'property fails on the implementation: ' + what)
    # the model's prediction on the generated configuration, evaluated inside Coq
    problems = []
    if cfg and not failures:
        lines = ['From WS Require Import Base.Py AG.Proc gen.ProcCfg.',
                 'Definition oeqb (a b : outcome) : bool := match a, b with Returned, Returned => true | Raised x, Raised y => Z.eqb (exn_code x) (exn_code y) | _, _ => false end.',
                 'Definition scs : list (bool * list how * outcome * bool) := [']
        items = []
        for (kind, n, plan), (res, left) in list(zip(scs, observed)) + [((k, n, p), o) for (k, n, p, nj), o in njobs_obs]:
            hs = '[' + '; '.join(how_coq(tuple(plan[i]['how']) if i in plan and 'how' in plan[i] else None) for i in range(n)) + ']'
            oc = 'Returned' if res[0] == 'ok' else ('Raised RuntimeError' if res[1] == 'RuntimeError' else 'Raised ValueError')
            items.append('  (%s, %s, %s, %s)' % ('true' if kind == 'ag' else 'false', hs, oc, 'true' if left else 'false'))
        lines.append(';\n'.join(items))
        lines.append('].')
        lines.append('Definition agree (s : bool * list how * outcome * bool) : bool :=')
        lines.append("  let '(k, hs, o, l) := s in")
        lines.append('  if k then oeqb (ag_segment_outcome ag_cfg_src hs) o && Bool.eqb (negb (match ag_left_behind ag_cfg_src hs with [] => true | _ => false end)) l')
        lines.append('  else oeqb (dp_segment_outcome dp_cfg_src hs) o && Bool.eqb (negb (match dp_left_behind dp_cfg_src hs with [] => true | _ => false end)) l.')
        lines.append('Eval vm_compute in (length scs, length (filter (fun s => negb (agree s)) scs)).')
        d = os.path.join(OUT, 'coqcases')
        os.makedirs(d, exist_ok=True)
        path = os.path.join(d, 'c16_%d.v' % os.getpid())
        open(path, 'w').write('\n'.join(lines) + '\n')
        r = subprocess.run(['timeout', '600', 'coqc', '-Q', COQ, 'WS', path], cwd=d, capture_output=True, text=True)
        for ext in ('.v', '.vo', '.vok', '.vos', '.glob'):
            try:
                os.remove(path[:-2] + ext)
            except OSError:
                pass
        m = re.search(r'=\s*\((\d+),\s*(\d+)\)', r.stdout.replace('\n', ' '))
        if r.returncode != 0 or not m:
            problems.append('evaluation of the process model failed: ' + (r.stdout + r.stderr)[-600:])
        else:
            ck.cov['traces_validated_against_impl'] = int(m.group(1))
            ck.cov['coq_reevaluated'] = int(m.group(1))
            if int(m.group(2)):
                problems.append('%s of %s fault scenarios: the process model (AG/Proc.v on gen/ProcCfg.v) predicts another outcome than the wrappers show' % (m.group(2), m.group(1)))
    if (failures or problems) and not bad:
        # a proof obligation failed (the generated configuration lost a safeguard) or the
        # correspondence broke, and the fault matrix above found no failing scenario
        finish_proof_failures(ck, failures + problems)
    elif failures or problems:
        ck.cov['failed_obligations'] = failures + problems
    return ck.finish(
        level='proof',
        rule='fault enumeration: every (nruns or nfolds in 1..3, failing index, failure point [before output / after 1 or 2 complete parses / mid-parse / at the end; '
             'for dpseg after 0, 1 or all lines], exit mode in {exit 1, exit 3, SIGSEGV, SIGKILL}) and the all-succeed rows, real ag.segment / dpseg.segment '
             'driving the scripted stand-ins with a private temporary directory; both wrappers again with njobs 2-3 (quick: every failing index x {exit 1, SIGKILL} for 3 runs/folds on 2 jobs, every failing index with exit 3 / SIGSEGV in rotation for 3 on 3 and 2 on 2, failure points in rotation; thorough: the whole matrix, and two simultaneous failures); outcome and directory listing compared with '
             'the model evaluated in Coq on the generated configuration. Non-trivial = a scenario with a failing process.',
        assumptions=['bash pipeline status, Popen.returncode, gzip of a truncated stream and joblib exception propagation are modelled (AG/Proc.v) and tied by this enumeration',
                     'temp files are observed after the worker threads have finished'],
        extra={'exhaustive': True, 'generated_config': cfg and {'ag': {k: v for k, v in cfg[0].items()}, 'dpseg': cfg[1]}})


if __name__ == '__main__':
    sys.exit(main())
