"""C10 — DiBS statistics and boundary decisions follow the published model."""
import collections
import sys
from fractions import Fraction

from common import load_corpus, Check, correspond, decode_result, call_impl, finish_proof_failures, text2j, j2s, s2j, EXN
import seplib as sl
import gens

from wordseg.algos import dibs
from wordseg.separator import Separator

KINDS = ['gold', 'phrasal', 'lexical']
LEVELS = ['phone', 'syllable', 'word']


def qj(fr):
    return [fr.numerator, fr.denominator]


def units_of_word(word, level):
    if level == 'phone':
        return [ph for syl in word for ph in syl]
    return [''.join(syl) for syl in word]


def reference(train_trees, level, kind, thr, pwb, sep=(' ', ';esyll', ';eword')):
    """direct counts and the published probabilities, in exact arithmetic"""
    nlines = nwords = nunits = 0
    ini, fin = collections.Counter(), collections.Counter()
    within, across = collections.Counter(), collections.Counter()
    types = set()
    for utt in train_trees:
        words = [units_of_word(w, level) for w in utt]
        nlines += 1
        nwords += len(words)
        nunits += sum(len(w) for w in words)
        ini[words[0][0]] += 1
        fin[words[-1][-1]] += 1
        for i, w in enumerate(words):
            # a word type is a distinct tagged word: its unit sequence and whatever structure the defined
            # levels of the separator can express (an undefined level merges words that differ only there)
            types.add((tuple(w), sl.render([utt[i]], sep, 'compact')))
            for a, b in zip(w, w[1:]):
                within[(a, b)] += 1
            if i + 1 < len(words):
                across[(w[-1], words[i + 1][0])] += 1
    dip = within + across
    summary = dict(nlines=nlines, nwords=nwords, nphones=nunits, phrase_initial=dict(ini), phrase_final=dict(fin),
                   internal=dict(within), spanning=dict(across), diphones=dict(dip))
    probs = {}
    ntot = sum(dip.values())
    if kind == 'gold':
        for d in dip:
            probs[d] = Fraction(across[d], within[d] + across[d])
    else:
        if pwb is None:
            if nunits == nlines:
                return summary, None
            p = Fraction(nwords - nlines, nunits - nlines)
        else:
            p = pwb
        if kind == 'phrasal':
            pf = {k: Fraction(v, nlines) for k, v in fin.items()}
            pi = {k: Fraction(v, nlines) for k, v in ini.items()}
        else:
            wf, wi = collections.Counter(), collections.Counter()
            for t, _ in types:
                wi[t[0]] += 1
                wf[t[-1]] += 1
            pf = {k: Fraction(v, len(types)) for k, v in wf.items()}
            pi = {k: Fraction(v, len(types)) for k, v in wi.items()}
        for d in dip:
            num = pf.get(d[0], 0) * p * pi.get(d[1], 0)
            probs[d] = min(Fraction(1), num / Fraction(dip[d], ntot))
    return summary, probs


def make_case(train_trees, sep, style, level, test_units, kind, thr, pwb, family, blanks=()):
    train = [sl.render(t, sep, style) for t in train_trees]
    # blank and whitespace-only lines of the training text are ignored (positions given by the caller)
    for pos, b in sorted(blanks, reverse=True):
        train.insert(min(pos, len(train)), b)
    test = gens.lines(test_units)
    li, ki = LEVELS.index(level), KINDS.index(kind)

    def impl():
        def f():
            m = dibs.CorpusSummary(list(train), separator=Separator(*sep), level=level)
            summ = dict(nlines=m.summary['nlines'], nwords=m.summary['nwords'], nphones=m.summary['nphones'],
                        lexicon=dict(m.lexicon),
                        phrase_initial={k[0]: v for k, v in m.phrase_initial.items()},
                        phrase_final={k[0]: v for k, v in m.phrase_final.items()},
                        internal=dict(m.internal_diphones), spanning=dict(m.spanning_diphones),
                        diphones=dict(m.diphones))
            try:
                out = ('ok', list(dibs.segment(list(test), m, type=kind, threshold=float(thr),
                                               pwb=None if pwb is None else float(pwb))))
            except Exception as e:  # noqa
                out = ('raise', type(e).__name__)
            if out[0] == 'ok':
                # ONE trained summary serves several segmenters: the other model types, then the first call again
                for k2 in KINDS:
                    try:
                        list(dibs.segment(list(test), m, type=k2, threshold=0.3))
                    except ZeroDivisionError:      # pwb estimated on a corpus of one-unit utterances
                        pass
                again = list(dibs.segment(list(test), m, type=kind, threshold=float(thr), pwb=None if pwb is None else float(pwb)))
                summ2 = dict(nlines=m.summary['nlines'], nwords=m.summary['nwords'], nphones=m.summary['nphones'], lexicon=dict(m.lexicon),
                             phrase_initial={k[0]: v for k, v in m.phrase_initial.items()}, phrase_final={k[0]: v for k, v in m.phrase_final.items()},
                             internal=dict(m.internal_diphones), spanning=dict(m.spanning_diphones), diphones=dict(m.diphones))
                if again != out[1] or summ2 != summ:
                    raise AssertionError('a CorpusSummary used by several segmenters changed, or gives another answer the second time')
            return summ, out
        return call_impl(f)

    def dec(w):
        if w[0][0] == 1:
            return ('raise', EXN.get(w[0][1], str(w[0][1])))
        s = w[0][1]

        def c1(c):
            return {j2s(k): v for k, v in c}

        def c2(c):
            return {(j2s(k[0]), j2s(k[1])): v for k, v in c}
        summ = dict(nlines=s[0], nwords=s[1], nphones=s[2], lexicon=c1(s[3]), phrase_initial=c1(s[4]),
                    phrase_final=c1(s[5]), internal=c2(s[6]), spanning=c2(s[7]), diphones=c2(s[8]))
        out = decode_result(w[1], lambda v: [j2s(x) for x in v])
        return ('ok', (summ, out), bool(w[2]))

    def eq(m, i):
        if m[0] == 'raise' or i[0] == 'raise':
            return m[:2] == i[:2]
        return m[1] == i[1]

    def oracle(out):
        if out[0] != 'ok':
            return 'training on a well-formed tagged text raised ' + out[1]
        summ, seg = out[1]
        ref, probs = reference(train_trees, level, kind, thr, pwb, sep)
        for k in ('nlines', 'nwords', 'nphones', 'phrase_initial', 'phrase_final', 'internal', 'spanning', 'diphones'):
            if summ[k] != ref[k]:
                return 'summary.%s = %r, direct count gives %r' % (k, summ[k], ref[k])
        if probs is None or not ref['diphones']:
            return None      # the quantifier asks for at least one diphone
        if seg[0] != 'ok':
            return 'segment raised ' + seg[1]
        bad = gens.aligned(test_units, seg[1])
        if bad:
            return bad
        for u, o in zip(test_units, seg[1]):
            cuts = gens.seg_cuts(u, o)
            for j in range(1, len(u)):
                p = probs.get((u[j - 1], u[j]), Fraction(1))
                if abs(p - thr) * 10**9 < 1 and p not in (0, 1):
                    continue
                if (j in cuts) != (p > thr):
                    return 'boundary inside diphone %r is %s but its probability is %s (threshold %s)' % ((u[j - 1], u[j]), j in cuts, p, thr)
        if thr < 1:
            thr2 = min(Fraction(1), thr + Fraction(1, 4))
            m = dibs.CorpusSummary(list(train), separator=Separator(*sep), level=level)
            o2 = list(dibs.segment(list(test), m, type=kind, threshold=float(thr2), pwb=None if pwb is None else float(pwb)))
            for u, a, b in zip(test_units, seg[1], o2):
                ca, cb = gens.seg_cuts(u, a), gens.seg_cuts(u, b)
                if ca is not None and cb is not None and not cb <= ca:
                    return 'raising the threshold from %s to %s added a boundary' % (thr, thr2)
        return None

    def classes(out):
        cl = set()
        if pwb is not None and pwb == 0 and kind != 'gold':
            cl.add('pwb_zero_ignored')
        if kind == 'lexical' and any(len(u) > 1 for t in train_trees for w in t for u in units_of_word(w, level)):
            cl.add('lexical_edges_in_characters')
        if level == 'syllable' and sep[0] and any(len(s) > 1 for t in train_trees for w in t for s in w):
            cl.add('syllable_units_keep_phone_separator')
        return cl

    return dict(op=1001, arg=[text2j(train), sl.sepj(sep), li, text2j(test), ki, qj(thr), [] if pwb is None else [qj(pwb)]],
                site='dibs.segment', desc={'train': train, 'sep': sep, 'level': level, 'test': test, 'type': kind,
                                           'threshold': str(thr), 'pwb': None if pwb is None else str(pwb), 'family': family},
                impl=impl, dec=dec, eq=eq, oracle=oracle, classes=classes,
                skip=lambda m: m[0] == 'ok' and m[2],
                res_of=lambda m: ('raise', m[1]) if m[0] == 'raise' else m[1][1],
                nontrivial=lambda m: m[0] == 'raise' or m[1][1][0] == 'raise' or any(' ' in u for u in m[1][1][1]))


def main():
    ck = Check('C10')
    failures = ck.prove()
    rng = ck.rng
    cases = []
    n = 5000 if ck.thorough else 500
    seps = [(' ', ';esyll', ';eword'), ('_', ';esyll', ';eword'), (None, ';esyll', ';eword'), (' ', None, ';eword'), ('_', '=', '@@'),
            ('_', None, ' '), ('_', '=', ';e w')]      # a word separator that is, or contains, a space
    for k in range(n):
        fam = ['ascii', 'multi', 'ipa'][k % 3]
        phones = sl.PHONES[fam][:rng.randint(2, 5)]
        sep = seps[k % len(seps)]
        level = rng.choice(['phone', 'syllable'])
        if sep[0] is None and level == 'phone':
            level = 'syllable'
        if sep[1] is None and level == 'syllable':
            level = 'phone'
        lexi = [sl.rand_tree(rng, phones, nwords=1, maxsyll=2, maxphones=2)[0] for _ in range(rng.randint(2, 5))]
        train_trees = [[rng.choice(lexi) for _ in range(rng.randint(1, 4))] for _ in range(rng.randint(1, 8))]
        if not all(sl.tree_ok(t, sep) for t in train_trees):
            continue
        style = 'padded' if sep[0] == ' ' and rng.random() < 0.7 else 'compact'
        if k % 5 == 4 and not any(x is not None and ' ' in x for x in sep):
            # inside a word the tokens are joined BY their separators (h_e/l_o;eword: a syllable boundary is the syllable
            # separator alone): a tagged text like any other for the levels' tokenization
            style = 'joined-inner'
        if rng.random() < 0.6:
            test_trees = train_trees
        else:
            test_trees = [[rng.choice(lexi) for _ in range(rng.randint(1, 4))] for _ in range(rng.randint(1, 5))]
            if rng.random() < 0.4:
                # a test text may contain units never seen in training
                extra = sl.rand_tree(rng, sl.PHONES[fam][:6], nwords=1, maxsyll=2, maxphones=2)[0]
                test_trees.append([extra, rng.choice(lexi)])
        test_units = [[u for w in t for u in units_of_word(w, level)] for t in test_trees]
        kind = KINDS[(k // 3) % 3]      # crossed with the phone family (k % 3), not in lockstep with it
        thr = Fraction(rng.randint(0, 8), 8) if rng.random() < 0.7 else Fraction(rng.randint(0, 1000), 1000)
        pwb = rng.choice([None, None, Fraction(0), Fraction(1, 8), Fraction(1, 4), Fraction(1, 2), Fraction(1)])
        blanks = [(rng.randint(0, len(train_trees)), rng.choice(['', ' ', '\n', '  \t'])) for _ in range(rng.randint(1, 3))] if k % 4 == 1 else []
        ck.count('style:' + style)
        cases.append(make_case(train_trees, sep, style, level, test_units, kind, thr, pwb,
                               'trees-%s-%s%s' % (fam, level, '-blank-lines' if blanks else ''), blanks))
    for c in cases:
        ck.count('family:' + c['desc']['family'])
        ck.count('type:' + c['desc']['type'])
    correspond(ck, cases)
    nre, problems = ck.coq_recheck()
    finish_proof_failures(ck, failures + problems)
    return ck.finish(
        rule='%d random tagged training corpora (trees over single- and multi-character units, 5 separator triples, compact/padded, or syllables and phones joined by their separators inside the words) x test text from the same or other trees '
             'x type in gold/phrasal/lexical x threshold k/8 x pwb in {None,0,1/8,1/4,1/2,1} x unit level; summary attributes compared entry by entry with the model and with direct counts; '
             'decisions with exact margin < 1e-9 skipped. Non-trivial = some boundary placed or an error.' % n,
        assumptions=['float probabilities agree with exact rationals on decisions whose margin is >= 1e-9'])


if __name__ == '__main__':
    sys.exit(main())
