"""Shared machinery of every check: build/prove step, model driver, Coq
re-evaluation sample, evidence writer, violation and known-finding reporting.

Run with /venv/bin/python and PYTHONPATH=/repo (see /verif/check).
"""
import json
import os
import random
import re
import subprocess
import sys
import time

VERIF = os.path.dirname(os.path.dirname(os.path.abspath(__file__)))
COQ = os.path.join(VERIF, 'coq')
DRIVER = os.path.join(VERIF, 'ocaml', 'model_driver')
OUT = os.path.join(VERIF, 'out')
REPO = '/repo'

EXN = {1: 'ValueError', 2: 'RuntimeError', 3: 'IndexError', 4: 'TypeError',
       5: 'KeyError', 6: 'ZeroDivisionError', 7: 'AssertionError',
       99: 'OutOfFuel'}

LINT_RE = re.compile(
    r'\b(Admitted|admit|Axiom|Axioms|Parameter|Parameters|Conjecture|'
    r'Admit Obligations|bypass_check|Unset Guard Checking|'
    r'Unset Positivity Checking|Unset Universe Checking|type-in-type|'
    r'impredicative-set)\b')

TRUSTED_BASE = [
    'Coq 8.16.1 kernel (coqc); vm_compute used in finite lemmas and in the in-Coq re-evaluation sample; no native_compute',
    'axioms: none (Print Assumptions under every property theorem is parsed on every run)',
    'extraction: ExtrOcamlBasic only (bool, option, unit, list, prod, sumbool, sumor mapped to OCaml; nat, positive, N, Z, Q stay Coq datatypes); OCaml 4.13.1; ocaml/driver.ml',
    'hand-written Gallina model tied to /repo by the correspondence check of this run (harness generators, canonicalisation, oracle)',
]


def s2j(s):
    """python str -> wire (list of code points)"""
    return [ord(c) for c in s]


def j2s(j):
    return ''.join(chr(c) for c in j)


def text2j(text):
    return [s2j(u) for u in text]


def j2text(j):
    return [j2s(u) for u in j]


def decode_result(j, dec=lambda x: x):
    """wire result -> ('ok', value) | ('raise', name)"""
    if j[0] == 0:
        return ('ok', dec(j[1]))
    if j[0] == 1:
        return ('raise', EXN.get(j[1], 'exn%d' % j[1]))
    raise RuntimeError('model rejected the request as malformed: %r' % (j,))


def call_impl(f, *a, **kw):
    """run the implementation, mapping exceptions to their class name"""
    try:
        return ('ok', f(*a, **kw))
    except Exception as e:  # noqa
        return ('raise', type(e).__name__)


def coq_j(v):
    """python nested list/int -> Coq term of type J"""
    if isinstance(v, bool):
        v = int(v)
    if isinstance(v, int):
        return 'JI (%d)' % v
    return 'JL [' + '; '.join(coq_j(x) for x in v) + ']'


class ModelProc:
    """persistent extracted-model process (one request per line)"""

    def __init__(self):
        self.p = subprocess.Popen([DRIVER], stdin=subprocess.PIPE,
                                  stdout=subprocess.PIPE, text=True, bufsize=1)

    def ask(self, op, arg):
        self.p.stdin.write('%d %s\n' % (op, json.dumps(arg, separators=(',', ':'))))
        self.p.stdin.flush()
        line = self.p.stdout.readline()
        if not line:
            raise RuntimeError('model driver died on op %d' % op)
        return json.loads(line)

    def close(self):
        try:
            self.p.stdin.close()
            self.p.wait(timeout=10)
        except Exception:
            self.p.kill()


def run_model_batch(reqs):
    """reqs: list of (op, arg). Returns list of decoded wire answers."""
    if not reqs:
        return []
    data = ''.join('%d %s\n' % (op, json.dumps(arg, separators=(',', ':')))
                   for op, arg in reqs)
    r = subprocess.run([DRIVER], input=data, capture_output=True, text=True)
    if r.returncode != 0:
        raise RuntimeError('model driver failed: ' + r.stderr[-2000:])
    lines = r.stdout.splitlines()
    if len(lines) != len(reqs):
        raise RuntimeError('model driver answered %d of %d requests'
                           % (len(lines), len(reqs)))
    return [json.loads(l) for l in lines]


class Check:
    def __init__(self, pid, argv=None):
        import argparse
        ap = argparse.ArgumentParser()
        ap.add_argument('--tier', default=os.environ.get('VERIF_TIER', 'quick'))
        ap.add_argument('--replay', default=None)
        a = ap.parse_args(argv)
        self.pid = pid
        self.tier = 'thorough' if a.tier == 'thorough' else 'quick'
        self.replay = a.replay
        self.seed = int(os.environ.get('VERIF_SEED', '0') or 0)
        self.rng = random.Random(self.seed * 1000003 + int(pid[1:]))
        self.t0 = time.time()
        self.violations = []       # (witness dict, what, nofail)
        self.known_hits = {}       # finding key -> count
        self.cov = {'evaluations': 0, 'distinct_nontrivial': 0, 'rule': '',
                    'samples': [], 'obligations': 0, 'discharged': 0,
                    'checker_cmd': '', 'trusted_base': list(TRUSTED_BASE)}
        self.assumptions = []
        self._distinct = set()
        self._coq_sample = []
        self.dist = {}
        os.makedirs(OUT, exist_ok=True)
        os.makedirs(os.path.join(VERIF, 'evidence'), exist_ok=True)
        self.known = load_known(pid)

    @property
    def thorough(self):
        return self.tier == 'thorough'

    # ---- proof step -------------------------------------------------
    def lint(self):
        bad = []
        for root, _, files in os.walk(COQ):
            for f in files:
                if f.endswith('.v'):
                    path = os.path.join(root, f)
                    txt = strip_coq_comments(open(path).read())
                    for m in LINT_RE.finditer(txt):
                        bad.append('%s: %s' % (os.path.relpath(path, VERIF), m.group(0)))
                    for m in re.finditer(r'^\s*(Variable|Variables|Hypothesis|Hypotheses|Context)\b', txt, re.M):
                        if not inside_section(txt, m.start()):
                            bad.append('%s: %s outside a section' % (os.path.relpath(path, VERIF), m.group(1)))
        proj = open(os.path.join(COQ, '_CoqProject')).read()
        if re.search(r'-type-in-type|-impredicative-set|-noinit', proj):
            bad.append('_CoqProject: forbidden flag')
        return bad

    def prove(self, props=None, extra_files=(), gen=()):
        """Re-check the property file(s) with coqc (full .vo of the cone is
        kept up to date by build.sh; the property file itself is always
        recompiled). Returns list of failures (strings)."""
        props = props or ['Props/%s.v' % self.pid]
        failures = []
        bad = self.lint()
        if bad:
            failures += ['lint: ' + b for b in bad]
        args = ['clean'] if os.environ.get('VERIF_CLEAN') else []
        if args:
            subprocess.run(['bash', os.path.join(VERIF, 'build.sh'), 'clean'],
                           capture_output=True, text=True)
        r = subprocess.run(['bash', os.path.join(VERIF, 'build.sh')],
                           capture_output=True, text=True)
        if r.returncode != 0:
            failures.append('build failed: ' + (r.stdout + r.stderr)[-1500:])
        obligations = discharged = 0
        axioms = []
        # regenerated artefacts (translators): compiled here, under a lock, never part of the main build
        if gen:
            import fcntl
            with open(os.path.join(VERIF, '.gen.lock'), 'w') as lk:
                fcntl.flock(lk, fcntl.LOCK_EX)
                for g in gen:
                    r = subprocess.run(['timeout', '600', 'coqc', '-Q', '.', 'WS', g], cwd=COQ, capture_output=True, text=True)
                    if r.returncode != 0:
                        failures.append('%s (generated from /repo) does not check: %s' % (g, (r.stdout + r.stderr)[-1500:]))
        for pf in props:
            src = strip_coq_comments(open(os.path.join(COQ, pf)).read())
            thms = re.findall(r'^\s*(?:Theorem|Lemma|Corollary)\s+(\w+)', src, re.M)
            prints = re.findall(r'Print Assumptions\s+(\w+)', src)
            missing = [t for t in thms if t not in prints]
            if missing:
                failures.append('%s: theorems without Print Assumptions: %s' % (pf, missing))
            obligations += len(thms)
            r = subprocess.run(['timeout', '900', 'coqc', '-Q', '.', 'WS', pf],
                               cwd=COQ, capture_output=True, text=True)
            if r.returncode != 0:
                failures.append('%s does not check: %s' % (pf, (r.stdout + r.stderr)[-1500:]))
                continue
            closed = r.stdout.count('Closed under the global context')
            ax = re.findall(r'^Axioms:\n((?:.+\n?)+?)(?=^\S|\Z)', r.stdout, re.M)
            for a in ax:
                axioms.append(a.strip())
            discharged += closed
            if closed != len(prints):
                failures.append('%s: %d of %d theorems closed; axioms: %s'
                                % (pf, closed, len(prints), axioms[:3]))
        self.cov['obligations'] += obligations
        self.cov['discharged'] += discharged
        self.cov['checker_cmd'] = ('bash /verif/build.sh && cd /verif/coq && coqc -Q . WS ' + ' '.join(props))
        if self.thorough:
            for pf in props:
                lib = 'WS.' + pf[:-2].replace('/', '.')
                r = subprocess.run(['timeout', '1500', 'coqchk', '-silent', '-o', '-Q', '.', 'WS', lib],
                                   cwd=COQ, capture_output=True, text=True)
                out = r.stdout + r.stderr
                self.cov.setdefault('coqchk', []).append(out[-600:])
                if r.returncode != 0:
                    failures.append('coqchk failed on %s: %s' % (lib, out[-800:]))
        self.proof_failures = failures
        return failures

    # ---- model ------------------------------------------------------
    def model(self, reqs, sample_every=50):
        outs = run_model_batch(reqs)
        for i, (rq, o) in enumerate(zip(reqs, outs)):
            if (i % sample_every) == 0 and len(json.dumps(rq[1])) < 4000:
                self._coq_sample.append((rq[0], rq[1], o))
        return outs

    def coq_recheck(self, limit=60):
        """evaluate a sample of the requests inside Coq (vm_compute) and
        compare with the extracted model's answers: validates extraction."""
        sample = self._coq_sample
        if len(sample) > limit:
            step = len(sample) / float(limit)
            sample = [sample[int(i * step)] for i in range(limit)]
        if not sample:
            return 0, []
        lines = ['From WS Require Import Base.Py Dispatch.',
                 'Definition cases : list (Z * J * J) := [']
        lines.append(';\n'.join('  ((%d)%%Z, %s, %s)' % (op, coq_j(a), coq_j(o))
                                for op, a, o in sample))
        lines.append('].')
        lines.append('Definition bad := filter (fun c => negb (j_eqb (dispatch (fst (fst c)) (snd (fst c))) (snd c))) cases.')
        lines.append('Eval vm_compute in (length cases, map (fun c => fst (fst c)) bad).')
        d = os.path.join(OUT, 'coqcases')
        os.makedirs(d, exist_ok=True)
        path = os.path.join(d, 'cases_%s_%d.v' % (self.pid, os.getpid()))
        open(path, 'w').write('\n'.join(lines) + '\n')
        r = subprocess.run(['timeout', '600', 'coqc', '-Q', COQ, 'WS', path],
                           cwd=d, capture_output=True, text=True)
        for ext in ('.vo', '.vok', '.vos', '.glob'):
            try:
                os.remove(path[:-2] + ext)
            except OSError:
                pass
        try:
            os.remove(os.path.join(d, '.' + os.path.basename(path)[:-2] + '.aux'))
        except OSError:
            pass
        out = r.stdout + r.stderr
        m = re.search(r'=\s*\((\d+)%?\w*,\s*(\[.*?\]|nil)', out.replace('\n', ' '))
        if r.returncode != 0 or not m:
            return 0, ['in-Coq re-evaluation failed: ' + out[-800:]]
        n = int(m.group(1))
        badl = m.group(2)
        problems = []
        if badl not in ('[]', 'nil'):
            problems.append('extracted model and vm_compute disagree on ops ' + badl)
        os.remove(path)
        self.cov['coq_reevaluated'] = n
        return n, problems

    # ---- accounting ---------------------------------------------------
    def count(self, key, n=1):
        self.dist[key] = self.dist.get(key, 0) + n

    def case(self, canon, nontrivial, sample=None):
        """register one evaluated case"""
        self.cov['evaluations'] += 1
        if nontrivial:
            h = hash(canon if isinstance(canon, (str, tuple)) else json.dumps(canon, sort_keys=True, default=str))
            self._distinct.add(h)
        if sample is not None and len(self.cov['samples']) < 6:
            self.cov['samples'].append(sample)

    # ---- reporting ----------------------------------------------------
    def violation(self, witness, what, nofail=False):
        """witness: json-serialisable dict (replay). Known findings are
        filtered by the caller through match_known()."""
        self.violations.append((witness, what, nofail))

    def match_known(self, site, classes):
        """classes: set of class names the (shrunk) witness satisfies at
        `site`. Returns the known-finding entry or None."""
        for k in self.known:
            if k.get('status') == 'known' and k.get('site') == site and k.get('class') in classes:
                key = (k['site'], k['class'])
                self.known_hits[key] = self.known_hits.get(key, 0) + 1
                return k
        return None

    def finish(self, rule, level='proof', assumptions=(), extra=None):
        self.cov['rule'] = rule
        self.cov['distinct_nontrivial'] = len(self._distinct)
        self.cov['distribution'] = self.dist
        if extra:
            self.cov.update(extra)
        code = 0
        lines = []
        for k in self.known:
            if k.get('status') == 'known':
                key = (k['site'], k['class'])
                if self.known_hits.get(key):
                    lines.append('KNOWN-FINDING: property=%s %s [site=%s class=%s, %d witnesses this run, e.g. %s]'
                                 % (self.pid, k['what'], k['site'], k['class'],
                                    self.known_hits[key], json.dumps(k.get('witness'), ensure_ascii=False)))
                else:
                    lines.append('NOTE: known finding %s/%s (%s) had no failing witness in this run'
                                 % (k['site'], k['class'], self.pid))
        rd = os.path.join(OUT, 'replay')
        os.makedirs(rd, exist_ok=True)
        for i, (w, what, nofail) in enumerate(self.violations[:20]):
            path = os.path.join(rd, '%s-%s-%d.json' % (self.pid, self.tier, i))
            json.dump({'property': self.pid, 'what': what, 'witness': w,
                       'seed': self.seed, 'tier': self.tier},
                      open(path, 'w'), indent=1, ensure_ascii=False, default=str)
            lines.append('VIOLATION property=%s replay=%s%s'
                         % (self.pid, path, ' no-failing-input-found' if nofail else ''))
            lines.append('  ' + what[:600])
            code = 1
        ev = {'property_id': self.pid, 'tier': self.tier, 'seed': self.seed,
              'level': level, 'coverage': self.cov,
              'assumptions': list(assumptions),
              'wall_s': round(time.time() - self.t0, 2),
              'violations': len(self.violations),
              'known_findings_hit': {'%s/%s' % k: v for k, v in self.known_hits.items()}}
        json.dump(ev, open(os.path.join(VERIF, 'evidence', self.pid + '.json'), 'w'),
                  indent=1, ensure_ascii=False, default=str)
        for l in lines:
            print(l)
        print('%s %s: evaluations=%d distinct_nontrivial=%d obligations=%d discharged=%d violations=%d wall=%.1fs'
              % (self.pid, self.tier, self.cov['evaluations'], self.cov['distinct_nontrivial'],
                 self.cov['obligations'], self.cov['discharged'], len(self.violations),
                 time.time() - self.t0))
        sys.stdout.flush()
        return code


def strip_coq_comments(s):
    out = []
    depth = 0
    i = 0
    while i < len(s):
        if s.startswith('(*', i):
            depth += 1
            i += 2
        elif s.startswith('*)', i) and depth > 0:
            depth -= 1
            i += 2
        else:
            if depth == 0:
                out.append(s[i])
            elif s[i] == '\n':
                out.append('\n')
            i += 1
    return ''.join(out)


def inside_section(txt, pos):
    pre = txt[:pos]
    opened = len(re.findall(r'^\s*Section\s+\w+', pre, re.M))
    closed = 0
    for m in re.finditer(r'^\s*End\s+(\w+)\s*\.', pre, re.M):
        name = m.group(1)
        if re.search(r'^\s*Section\s+%s\b' % re.escape(name), pre[:m.start()], re.M):
            closed += 1
    return opened > closed


def load_known(pid):
    path = os.path.join(VERIF, 'KNOWN_FINDINGS.jsonl')
    res = []
    if os.path.exists(path):
        for l in open(path):
            l = l.strip()
            if l and not l.startswith('#'):
                k = json.loads(l)
                if k.get('property') == pid:
                    res.append(k)
    return res


def shrink_list(xs, fails, min_len=0):
    """greedy delta debugging on a list: remove chunks while `fails(xs)`"""
    n = len(xs)
    chunk = max(1, n // 2)
    while chunk >= 1:
        i = 0
        changed = False
        while i < len(xs):
            cand = xs[:i] + xs[i + chunk:]
            if len(cand) >= min_len and fails(cand):
                xs = cand
                changed = True
            else:
                i += chunk
        if chunk == 1 and not changed:
            break
        chunk = chunk // 2 if chunk > 1 else (1 if changed else 0)
    return xs


def jsize(v):
    return len(json.dumps(v, default=str))


def correspond(ck, cases, max_report=3):
    """Differential run of model and implementation plus the property oracle
    on the implementation's answer, for every case.

    case = dict(op, arg, impl (thunk -> ('ok', v) | ('raise', name)),
                dec (wire answer -> same shape), site, desc (json-able input),
                oracle (impl_out -> None | str)  [optional],
                classes (impl_out -> set of known-finding class names) [optional],
                nontrivial (model_out -> bool) [optional],
                eq (a, b -> bool) [optional], skip (model_out -> bool) [optional])
    """
    outs = ck.model([(c['op'], c['arg']) for c in cases])
    disagreements = []
    failures = []
    for c, w in zip(cases, outs):
        m = c['dec'](w)
        if c.get('skip') and c['skip'](m):
            ck.count('skipped_near_tie')
            continue
        i = c['impl']()
        nt = c['nontrivial'](m) if c.get('nontrivial') else True
        ck.case(json.dumps(c['desc'], default=str, sort_keys=True), nt,
                sample={'site': c['site'], 'input': c['desc'], 'model': repr(m)[:300], 'impl': repr(i)[:300]})
        ck.count('site:' + c['site'])
        mr = c['res_of'](m) if c.get('res_of') else m
        ck.count('model_result:' + (mr[0] if mr[0] == 'ok' else mr[1]))
        eq = c.get('eq') or (lambda a, b: a == b)
        agree = eq(m, i)
        bad = c['oracle'](i) if c.get('oracle') else None
        if bad:
            cls = c['classes'](i) if c.get('classes') else set()
            if ck.match_known(c['site'], cls):
                ck.count('known_finding_witness')
            else:
                failures.append((jsize(c['desc']), c, i, bad))
        if not agree:
            disagreements.append((jsize(c['desc']), c, m, i, bad))
    failures.sort(key=lambda t: t[0])
    disagreements.sort(key=lambda t: t[0])
    reported = set()
    for _, c, i, bad in failures[:max_report]:
        ck.violation({'site': c['site'], 'input': c['desc'], 'impl_output': repr(i)},
                     'property fails on the implementation: ' + bad)
        reported.add(id(c))
    ck.cov.setdefault('disagreement_samples', []).extend([{'site': d[1]['site'], 'input': d[1]['desc'], 'model': repr(d[2])[:300], 'impl': repr(d[3])[:300]} for d in disagreements[:3]])
    ck.count('oracle_failures', len(failures))
    ck.count('disagreements', len(disagreements))
    if disagreements and not failures:
        # the model no longer describes the code and no case of this run breaks
        # the property statement itself
        unexplained = [d for d in disagreements if not d[4]]
        if unexplained:
            _, c, m, i, _ = unexplained[0]
            ck.violation({'correspondence': 'model vs implementation at ' + c['site'],
                          'input': c['desc'], 'model_output': repr(m), 'impl_output': repr(i),
                          'disagreements_in_run': len(disagreements)},
                         'correspondence broken at %s (model %r, implementation %r); '
                         'the theorems no longer speak about this code'
                         % (c['site'], m, i), nofail=True)
    return disagreements, failures


def finish_proof_failures(ck, failures):
    """a proof obligation or the extraction check failed: report it (after the
    correspondence/oracle search found no concrete input)"""
    if failures and not any(not nf for _, _, nf in ck.violations):
        ck.violation({'obligation': failures}, 'proof obligation no longer checks: ' + '; '.join(failures)[:500], nofail=True)


def load_corpus(pid):
    """minimised past failures / finding witnesses, replayed first on every run"""
    d = os.path.join(VERIF, 'corpus', pid)
    res = []
    if os.path.isdir(d):
        for f in sorted(os.listdir(d)):
            if f.endswith('.json'):
                v = json.load(open(os.path.join(d, f)))
                res.extend(v if isinstance(v, list) else [v])
    return res
