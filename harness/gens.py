"""Generators shared by the text-based properties. Every random choice comes
from the rng passed in (seeded from VERIF_SEED)."""
import itertools

ALPHABETS = {
    'ascii1': ['a', 'b', 'c'],
    'prefixy': ['a', 'b', 'ab', 'ba', 'aa'],
    'ipa': ['uː', 'dʒ', 'ʌ', 'oʊ', 'ŋ', 'ã', '\U0001d11e', 'ɛ'],
    'marker': ['U', 'B', 'UB', '_', 'e', 'w', 'aU', 'Bb'],
    'wide': ['u%d' % i for i in range(300)],
}


def compositions(m, maxparts):
    """all ways to cut a sequence of length m into 1..maxparts non-empty parts"""
    for j in range(1, min(m, maxparts) + 1):
        for cuts in itertools.combinations(range(1, m), j - 1):
            yield [0] + list(cuts) + [m]


def exhaustive_texts(alphabet, max_units, max_utts):
    """every text (list of unit lists) with <= max_units units in <= max_utts utterances"""
    for m in range(1, max_units + 1):
        for seq in itertools.product(alphabet, repeat=m):
            for comp in compositions(m, max_utts):
                yield [list(seq[a:b]) for a, b in zip(comp, comp[1:])]


def planted_lexicon(rng, alphabet, nwords=None):
    nwords = nwords or rng.randint(3, 7)
    lex = []
    for _ in range(nwords):
        lex.append([rng.choice(alphabet) for _ in range(rng.randint(1, 3))])
    return lex


def random_text(rng, alphabet, nutts=None, lex=None, max_words=4):
    """Zipf-ish corpus built from a planted lexicon; returns list of unit lists
    and the gold word structure (list of list of words, each a unit list)"""
    lex = lex or planted_lexicon(rng, alphabet)
    nutts = nutts or rng.randint(1, 12)
    weights = [1.0 / (i + 1) for i in range(len(lex))]
    gold = []
    for _ in range(nutts):
        nw = rng.randint(1, max_words)
        gold.append([list(rng.choices(lex, weights)[0]) for _ in range(nw)])
    text = [[u for w in utt for u in w] for utt in gold]
    return text, gold


def degenerate_texts(alphabet):
    a = alphabet[0]
    b = alphabet[1 % len(alphabet)]
    yield [[a]]
    yield [[a, b]]
    yield [[a], [b]]
    yield [[a], [a], [a]]
    yield [[a, b, a]]
    yield [[a, a, a, a]]
    yield [[a, b], [a, b], [a, b]]
    yield [[a], [b], [a], [b]]


def lines(text):
    """unit lists -> prepared lines"""
    return [' '.join(u) for u in text]


def seg_cuts(units, out):
    """If `out` is `units` with spaces inserted only at unit boundaries return
    the set of cut positions (a cut at p separates units[p-1] and units[p]);
    otherwise None."""
    if out != out.strip(' ') or '  ' in out:
        return None
    words = out.split(' ') if out else []
    if ''.join(words) != ''.join(units):
        return None
    offs = {}
    acc = 0
    for i, u in enumerate(units):
        acc += len(u)
        offs[acc] = i + 1
    cuts = set()
    acc = 0
    for w in words[:-1]:
        acc += len(w)
        if acc not in offs:
            return None
        cuts.add(offs[acc])
    if any(len(w) == 0 for w in words):
        return None
    return cuts


def aligned(text_units, out):
    """C01's notion: same number of utterances, each a segmentation of its input.
    Returns None if aligned, else a description."""
    if not isinstance(out, list):
        return 'output is not a list'
    if len(out) != len(text_units):
        return '%d output utterances for %d input utterances' % (len(out), len(text_units))
    for i, (u, o) in enumerate(zip(text_units, out)):
        if seg_cuts(u, o) is None:
            return 'utterance %d: %r is not %r with spaces at unit boundaries' % (i, o, u)
    return None
