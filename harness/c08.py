"""C08 — tokenization inverts joining: Separator/Model.v vs wordseg.separator."""
import sys

from common import load_corpus, Check, correspond, decode_result, call_impl, finish_proof_failures, s2j, j2s
import seplib as sl

from wordseg.separator import Separator

LEVELS = ['phone', 'syllable', 'word']


def dec_tree(j):
    if j[0] == 0:
        return j2s(j[1])
    return [dec_tree(x) for x in j[1]]


def flatten(t):
    if isinstance(t, str):
        return [t]
    return [x for c in t for x in flatten(c)]


def mk(sep):
    return Separator(phone=sep[0], syllable=sep[1], word=sep[2])


def case(kind, sep, utt, level, keep, family, oracle=None):
    lv = [] if level is None else [LEVELS.index(level)]

    def impl():
        def f():
            s = mk(sep)
            if kind == 1:
                return list(s.tokenize(utt, level, keep_boundaries=keep))
            if kind == 2:
                return s.tokenize(utt)
            if kind == 3:
                return s.remove(utt, level)
            if kind == 4:
                return s.strip(utt, level)
            if kind == 5:
                return list(s.split(utt, level, keep_boundaries=keep))
        return call_impl(f)

    def dec(w):
        if kind in (1, 5):
            return decode_result(w, lambda v: [j2s(x) for x in v])
        if kind == 2:
            return decode_result(w, dec_tree)
        return decode_result(w, j2s)
    return dict(op=801, arg=[kind, sl.sepj(sep), s2j(utt), lv, int(keep)], site='separator.' + ['ctor', 'tokenize', 'tokenize_nested', 'remove', 'strip', 'split'][kind],
                desc={'sep': sep, 'utt': utt, 'level': level, 'keep': keep, 'family': family},
                impl=impl, dec=dec, oracle=oracle, nontrivial=lambda m: True)


def ctor_case(sep, family):
    def impl():
        return call_impl(lambda: (mk(sep), None)[1])

    def oracle(out):
        ds = [x for x in sep if x]
        bad = len(ds) != len(set(ds)) or any(c in x for x in ds for c in Separator.forbidden_chars)
        if bad and out != ('raise', 'ValueError'):
            return 'duplicated or forbidden separator accepted'
        if not bad and out[0] != 'ok':
            return 'legal separator rejected'
        return None
    return dict(op=801, arg=[0, [[] if x is None else [s2j(x)] for x in sep], [], [], 0], site='separator.ctor',
                desc={'sep': sep, 'family': family}, impl=impl,
                dec=lambda w: decode_result(w, lambda v: None), oracle=oracle, nontrivial=lambda m: True)


def spurious_occurrence(tree, sep, utt):
    """compact joining: does some separator occur in the utterance at a place
    where the joining did not put it (an occurrence straddling tokens and
    separators)?"""
    def occ(x):
        return sum(1 for i in range(len(utt)) if utt.startswith(x, i))
    nph = sum(len(s) for w in tree for s in w)
    nsy = sum(len(w) for w in tree)
    want = {0: nph, 1: nsy, 2: len(tree)}
    return any(x and occ(x) > want[i] for i, x in enumerate(sep))


def tree_cases(tree, sep, style, family):
    """well-formed joined utterance: the property oracle applies"""
    utt = sl.render(tree, sep, style)
    cls = (lambda out: {'spurious_separator_occurrence'} if style == 'compact' and spurious_occurrence(tree, sep, utt) else set())
    defined = [l for l, x in zip(LEVELS, sep) if x]
    want = {'phone': sl.phones_of(tree, sep), 'syllable': sl.sylls_of(tree, sep), 'word': sl.words_of(tree) if sep[2] else [''.join(sl.words_of(tree))]}
    out = []
    for level in defined:
        def orc(o, level=level):
            if o[0] != 'ok':
                return 'tokenize raised ' + o[1]
            if o[1] != want[level]:
                return 'tokenize(%s, keep_boundaries=False) = %r, original tokens %r' % (level, o[1], want[level])
            return None
        out.append(case(1, sep, utt, level, False, family, orc))

        def orc_keep(o, level=level):
            if o[0] != 'ok':
                return 'tokenize raised ' + o[1]
            s = mk(sep)
            got = [s.remove(t) for t in o[1]]
            if [g.replace(' ', '') for g in got] != want[level]:
                return 'tokenize(%s, keep_boundaries=True) tokens do not reduce to the original tokens' % level
            return None
        out.append(case(1, sep, utt, level, True, family, orc_keep))

    def orc_nested(o):
        if o[0] != 'ok':
            return 'nested tokenize raised ' + o[1]
        lowest = defined[0]
        flat = [x for x in flatten(o[1]) if x]
        if flat != want[lowest]:
            return 'nested tokenization flattens to %r, flat tokenization is %r' % (flat, want[lowest])
        return None
    out.append(case(2, sep, utt, None, False, family, orc_nested))

    def orc_remove(o):
        if o[0] != 'ok':
            return 'remove raised ' + o[1]
        if o[1].replace(' ', '') != ''.join(sl.words_of(tree)):
            return 'remove() = %r is not the plain concatenation' % (o[1],)
        if style == 'compact' and o[1] != ''.join(sl.words_of(tree)):
            return 'remove() of a compact utterance left spaces: %r' % (o[1],)
        return None
    out.append(case(3, sep, utt, None, False, family, orc_remove))
    for level in defined:
        others = [l for l in defined if l != level]

        def orc_local(o, level=level, others=others, kind='remove'):
            if o[0] != 'ok':
                return '%s(%s) raised %s' % (kind, level, o[1])
            s = mk(sep)
            for l2 in others:
                # tokens at the other levels are unchanged
                a = [t for t in s.tokenize(o[1], l2, keep_boundaries=False)]
                if LEVELS.index(l2) > LEVELS.index(level) or kind == 'strip':
                    if a != want[l2] and kind == 'remove':
                        return 'remove(%s) changed the %s tokens: %r' % (level, l2, a)
            return None
        out.append(case(3, sep, utt, level, False, family, orc_local))
        out.append(case(4, sep, utt, level, False, family))
        out.append(case(5, sep, utt, level, False, family))
        out.append(case(5, sep, utt, level, True, family))
    out.append(case(4, sep, utt, None, False, family))
    for c in out:
        c['classes'] = cls
        c['site'] = 'separator.tokenize' if cls(None) else c['site']
    return out


def main():
    ck = Check('C08')
    failures = ck.prove()
    rng = ck.rng
    cases = []
    seps = list(sl.SEPARATORS) + [('_', ';esyll', None), (' ', None, None), (None, ';esyll', None)]
    for c in load_corpus('C08'):
        cases.extend(tree_cases(c['tree'], tuple(c['sep']), c.get('style', 'compact'), 'corpus'))
    ntrees = 400 if ck.thorough else 45
    for k in range(ntrees):
        fam = ['ascii', 'multi', 'ipa', 'sepfrag'][k % 4]
        tree = sl.rand_tree(rng, sl.PHONES[fam])
        for sep in seps:
            if not sl.tree_ok(tree, sep):
                continue
            styles = ['compact', 'joined'] + (['padded', 'joined-padded'] if sep[0] == ' ' else [])
            for st in styles:
                cases.extend(tree_cases(tree, sep, st, 'tree-%s-%s' % (fam, st)))
    # variants outside the proved fragment: surrounding whitespace, missing trailing
    # separators, tokens that contain separator fragments (correspondence only)
    for k in range(3000 if ck.thorough else 400):
        sep = rng.choice(seps)
        fam = rng.choice(list(sl.PHONES))
        tree = sl.rand_tree(rng, sl.PHONES[fam])
        utt = sl.render(tree, sep, rng.choice(['compact', 'padded']))
        mode = rng.randint(0, 4)
        if mode == 0:
            utt = ' ' * rng.randint(0, 2) + utt + rng.choice(['', ' ', '\n', ' \n'])
        elif mode == 1 and sep[2]:
            utt = utt[:max(0, len(utt) - len(sep[2]))]
        elif mode == 2:
            pos = rng.randint(0, len(utt))
            utt = utt[:pos] + rng.choice([x for x in sep if x] + [' ', '  ']) + utt[pos:]
        elif mode == 3:
            utt = utt.replace(' ', '  ', 1)
        kind = rng.choice([1, 1, 2, 3, 4, 5])
        level = rng.choice([l for l, x in zip(LEVELS, sep) if x] + ([None] if kind in (3, 4) else []) + (LEVELS if rng.random() < 0.1 else []))
        if kind in (1, 5) and level is None:
            level = 'word'
        cases.append(case(kind, sep, utt, level if kind != 2 else None, rng.random() < 0.5, 'variant-%d' % mode))
    # constructor
    pool = [None, '', ' ', '_', ';esyll', ';eword', 'a', 'ab', '.', 'a-b', 'x|y', '#', '!', '~', '"', "'", '\\', 'w', '§']
    for k in range(1500 if ck.thorough else 250):
        cases.append(ctor_case((rng.choice(pool), rng.choice(pool), rng.choice(pool)), 'ctor'))
    for c in cases:
        ck.count('family:' + c['desc']['family'])
    correspond(ck, cases)
    n, problems = ck.coq_recheck()
    finish_proof_failures(ck, failures + problems)
    return ck.finish(
        rule='%d random word/syllable/phone trees x %d separator triples (levels undefined in every combination, multi-character, non-ASCII, space as phone/syllable/word separator) '
             'x compact/padded joining through tokenize (3 levels x keep_boundaries), nested tokenize, remove, strip, split with the property oracle; '
             'variants (surrounding whitespace, missing trailing separator, injected separators, doubled spaces) and constructor triples as correspondence. '
             'Every case counts as non-trivial (each exercises a distinct (tree, separator, method)).' % (ntrees, len(seps)),
        assumptions=['separators are regex-literal strings (no regex metacharacters): re.split/re.sub on them are literal split/replace'])


if __name__ == '__main__':
    sys.exit(main())
