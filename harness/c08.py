"""C08 — tokenization inverts joining: Separator/Model.v vs wordseg.separator."""
import copy
import sys

from common import load_corpus, Check, correspond, decode_result, call_impl, finish_proof_failures, s2j, j2s
import seplib as sl

from wordseg.separator import Separator

LEVELS = ['phone', 'syllable', 'word']

# the characters the documentation of Separator declares forbidden in separators (class docstring of
# wordseg/separator.py: "The following characters are forbidden in separators", 17 characters once the docstring escapes are read),
# written out here independently of Separator.forbidden_chars
FORBIDDEN = '!#$%&\'*+-.^`|~:\\"'
assert len(FORBIDDEN) == 17 and len(set(FORBIDDEN)) == 17

TRAILING_STYLES = ('compact', 'padded', 'fullpad')     # every token is followed by its separator


def styles_for(sep):
    """the joinings of seplib.render that are inside the quantifier for this triple: compact and joined
    always; space-padded ones whenever there is a separator to pad and the space is not itself a separator above
    the lowest level (fullpad puts spaces between phones, so it needs a phone separator)"""
    st = ['compact', 'joined'] + sl.padded_styles(sep)
    return st


def peel(utt, xs):
    """reference stripping: whitespace and whole occurrences of the separators xs are taken off both ends
    until neither end has any; the text in between is returned as it is"""
    xs = [x for x in xs if x]
    s = utt
    while True:
        t = s.strip()
        for x in xs:
            while t.startswith(x):
                t = t[len(x):]
            while t.endswith(x):
                t = t[:len(t) - len(x)]
        if t == s:
            return s
        s = t


def one_space(s):
    while '  ' in s:
        s = s.replace('  ', ' ')
    return s


def dec_tree(j):
    if j[0] == 0:
        return j2s(j[1])
    return [dec_tree(x) for x in j[1]]


def flatten(t):
    if isinstance(t, str):
        return [t]
    return [x for c in t for x in flatten(c)]


_SHARED = {}


def mk(sep, fresh=False):
    """one Separator object per triple, REUSED by every method call of the run (an answer must not depend on what
    the object was asked before); constructor cases ask for a fresh object"""
    if fresh:
        return Separator(phone=sep[0], syllable=sep[1], word=sep[2])
    key = tuple(sep)
    if key not in _SHARED:
        _SHARED[key] = Separator(phone=sep[0], syllable=sep[1], word=sep[2])
    return _SHARED[key]


def _scramble(x):
    """what a caller may do to a list it was given: modify it in place, at every depth"""
    if isinstance(x, list):
        for y in x:
            _scramble(y)
        x.reverse()
        x.append('</caller>')
        if len(x) > 2:
            x.pop(0)


def case(kind, sep, utt, level, keep, family, oracle=None):
    lv = [] if level is None else [LEVELS.index(level)]
    inner = oracle

    def oracle(out):      # noqa: F811
        if out[0] == 'ok' and isinstance(out[1], tuple) and out[1] and out[1][0] == 'second-call-differs':
            return 'tokenize() asked again after the caller modified the first result in place answers %r, not %r' % (out[1][2], out[1][1])
        return inner(out) if inner else None

    def impl():
        def f():
            s = mk(sep)
            if kind in (1, 2):
                # the result belongs to the caller: after the caller has modified it in place, the same question
                # gets the same (fresh) answer
                first = list(s.tokenize(utt, level, keep_boundaries=keep)) if kind == 1 else s.tokenize(utt)
                answer = copy.deepcopy(first)
                _scramble(first)
                second = list(s.tokenize(utt, level, keep_boundaries=keep)) if kind == 1 else s.tokenize(utt)
                if second != answer:
                    return ('second-call-differs', answer, second)
                return answer
            if kind == 3:
                return s.remove(utt, level)
            if kind == 4:
                return s.strip(utt, level)
            if kind == 5:
                return list(s.split(utt, level, keep_boundaries=keep))
        return call_impl(f)

    def dec(w):
        if kind in (1, 5):
            return decode_result(w, lambda v: [j2s(x) for x in v])
        if kind == 2:
            return decode_result(w, dec_tree)
        return decode_result(w, j2s)
    return dict(op=801, arg=[kind, sl.sepj(sep), s2j(utt), lv, int(keep)], site='separator.' + ['ctor', 'tokenize', 'tokenize_nested', 'remove', 'strip', 'split'][kind],
                desc={'sep': sep, 'utt': utt, 'level': level, 'keep': keep, 'family': family},
                impl=impl, dec=dec, oracle=oracle, nontrivial=lambda m: True)


def ctor_case(sep, family):
    def impl():
        return call_impl(lambda: (mk(sep, fresh=True), None)[1])

    def oracle(out):
        ds = [x for x in sep if x]
        bad = len(ds) != len(set(ds)) or any(c in x for x in ds for c in FORBIDDEN)
        if bad and out != ('raise', 'ValueError'):
            return 'duplicated or forbidden separator accepted'
        if not bad and out[0] != 'ok':
            return 'legal separator rejected'
        return None
    return dict(op=801, arg=[0, [[] if x is None else [s2j(x)] for x in sep], [], [], 0], site='separator.ctor',
                desc={'sep': sep, 'family': family}, impl=impl,
                dec=lambda w: decode_result(w, lambda v: None), oracle=oracle, nontrivial=lambda m: True)


def spurious_occurrence(tree, sep, utt):
    """compact joining: does some separator occur in the utterance at a place
    where the joining did not put it (an occurrence straddling tokens and
    separators)?"""
    def occ(x):
        return sum(1 for i in range(len(utt)) if utt.startswith(x, i))
    nph = sum(len(s) for w in tree for s in w)
    nsy = sum(len(w) for w in tree)
    want = {0: nph, 1: nsy, 2: len(tree)}
    return any(x and occ(x) > want[i] for i, x in enumerate(sep))


def tree_cases(tree, sep, style, family, lead='', trail=''):
    """well-formed joined utterance, possibly surrounded by whitespace: the property oracle applies"""
    bare = sl.render(tree, sep, style)
    utt = lead + bare + trail
    trailing_ws = any(x and x.strip() and x != x.rstrip() for x in sep)      # ', ' or '= ': a separator whose tail is white space
    cls = (lambda out: {'separator_ending_with_whitespace'} if trailing_ws else
           {'spurious_separator_occurrence'} if style == 'compact' and spurious_occurrence(tree, sep, bare) else set())
    defined = [l for l, x in zip(LEVELS, sep) if x]
    plain = ''.join(sl.words_of(tree))
    want = {'phone': sl.phones_of(tree, sep), 'syllable': sl.sylls_of(tree, sep), 'word': sl.words_of(tree) if sep[2] else [plain]}
    out = []
    for level in defined:
        def orc(o, level=level):
            if o[0] != 'ok':
                return 'tokenize raised ' + o[1]
            if o[1] != want[level]:
                return 'tokenize(%s, keep_boundaries=False) = %r, original tokens %r' % (level, o[1], want[level])
            return None
        out.append(case(1, sep, utt, level, False, family, orc))

        def orc_keep(o, level=level):
            if o[0] != 'ok':
                return 'tokenize raised ' + o[1]
            s = mk(sep)
            got = [s.remove(t) for t in o[1]]
            if [g.replace(' ', '') for g in got] != want[level]:
                return 'tokenize(%s, keep_boundaries=True) tokens do not reduce to the original tokens' % level
            return None
        out.append(case(1, sep, utt, level, True, family, orc_keep))
    for level in LEVELS:
        if level not in defined:
            # a level the triple leaves undefined (all three when nothing is defined): correspondence
            out.append(case(1, sep, utt, level, False, family))

    def orc_nested(o):
        if o[0] != 'ok':
            return 'nested tokenize raised ' + o[1]
        flat = [x for x in flatten(o[1]) if x]
        if not defined:
            # no level defined: no flat tokenization exists; the utterance itself is the only token
            # (the statement says nothing about its surrounding whitespace)
            if [x.strip() for x in flat] != [plain]:
                return 'nested tokenization without any level = %r, the utterance is %r' % (o[1], plain)
            return None
        lowest = defined[0]
        if flat != want[lowest]:
            return 'nested tokenization flattens to %r, flat tokenization is %r' % (flat, want[lowest])
        return None
    out.append(case(2, sep, utt, None, False, family, orc_nested))

    def orc_remove(o):
        if o[0] != 'ok':
            return 'remove raised ' + o[1]
        got = o[1].strip() if lead or trail else o[1]      # whitespace around the utterance is not a separator
        if got != plain:
            return 'remove() = %r is not the plain concatenation %r' % (o[1], plain)
        return None
    out.append(case(3, sep, utt, None, False, family, orc_remove))
    for level in defined:
        x = sep[LEVELS.index(level)]
        # the levels whose tokens must survive remove(level): the higher ones always; the lower ones too when
        # every token carries its own trailing separator (otherwise neighbours are necessarily concatenated)
        others = [l for l in defined if l != level and (LEVELS.index(l) > LEVELS.index(level) or style in TRAILING_STYLES)]

        def orc_rm(o, level=level, others=others, x=x):
            if o[0] != 'ok':
                return 'remove(%s) raised %s' % (level, o[1])
            # nothing but the occurrences of this level's separator goes away (runs of spaces count as one space)
            ref = utt.replace(x, '')
            if one_space(o[1]) != one_space(ref):
                return 'remove(%s) = %r, the utterance without its %s separators is %r' % (level, o[1], level, ref)
            s = mk(sep)
            for l2 in others:
                # (tokenize is judged by its own cases: padding spaces it leaves inside a token are not remove's doing)
                a = [t.replace(' ', '') for t in s.tokenize(o[1], l2, keep_boundaries=False)]
                if a != want[l2]:
                    return 'remove(%s) changed the %s tokens: %r' % (level, l2, a)
            return None
        out.append(case(3, sep, utt, level, False, family, orc_rm))

        def orc_strip(o, level=level, x=x):
            if o[0] != 'ok':
                return 'strip(%s) raised %s' % (level, o[1])
            ref = peel(utt, [x])
            if o[1] != ref:
                return 'strip(%s) = %r; without leading/trailing %s separators and whitespace the utterance is %r' % (level, o[1], level, ref)
            return None
        out.append(case(4, sep, utt, level, False, family, orc_strip))
        out.append(case(5, sep, utt, level, False, family))
        out.append(case(5, sep, utt, level, True, family))

    def orc_strip_all(o):
        if o[0] != 'ok':
            return 'strip() raised ' + o[1]
        ref = peel(utt, sep)
        if o[1] != ref:
            return 'strip() = %r; without leading/trailing separators and whitespace the utterance is %r' % (o[1], ref)
        return None
    out.append(case(4, sep, utt, None, False, family, orc_strip_all))
    for c in out:
        c['classes'] = cls
        c['site'] = 'separator.tokenize' if cls(None) else c['site']
    if style != 'compact' and sep[0] != ' ':
        # space-padded joining whose spaces are not phone separators: a failure that consists only of padding
        # spaces left inside the returned tokens is one class of its own
        for c in out:
            lv = c['desc']['level']
            if c['site'] == 'separator.remove' and lv is None:
                c['classes'] = (lambda o: {'padding_space_inside_token'} if o[0] == 'ok' and ''.join(o[1].split()) == plain else set())
            if c['site'] == 'separator.tokenize' and lv in defined and not c['desc']['keep']:
                c['classes'] = (lambda o, lv=lv: {'padding_space_inside_token'} if o[0] == 'ok' and o[1] != want[lv]
                                and [t.replace(' ', '') for t in o[1]] == want[lv] else set())
    return out


def forbidden_ctor_cases():
    """every forbidden character, alone and inside a longer separator, at each level, next to legal or undefined levels"""
    out = []
    for c in FORBIDDEN:
        for lvl in range(3):
            for form in (c, 'x' + c, c + 'y', 'a' + c + 'b', c + c, ';e' + c + 'word'):
                for base in (['_', ';esyll', ';eword'], [None, None, None], [' ', None, '@@']):
                    sep = list(base)
                    sep[lvl] = form
                    out.append(ctor_case(tuple(sep), 'ctor-forbidden'))
    return out


def legal_ctor_cases():
    """every other regex-literal ASCII punctuation mark (and a few letters, digits, non-ASCII marks) is a LEGAL separator
    character: alone, doubled and inside a longer separator, at each level - the forbidden set is exactly the documented one"""
    out = []
    for c in ',;/=@<>_"' .replace('"', '') + 'a7' + '§·‖':
        for lvl in range(3):
            for form in (c, 'x' + c, c + c, ';e' + c + 'w'):
                for base in (['~~', ';esyll', ';eword'], [None, None, None]):
                    sep = [b if b != '~~' else 'PH' for b in base]
                    sep[lvl] = form
                    out.append(ctor_case(tuple(sep), 'ctor-legal'))
    return out


def main():
    ck = Check('C08')
    failures = ck.prove()
    rng = ck.rng
    cases = []
    seps = list(sl.SEPARATORS) + [('_', ';esyll', None), (' ', None, None), (None, ';esyll', None), (None, None, None)]
    for c in load_corpus('C08'):
        cases.extend(tree_cases(c['tree'], tuple(c['sep']), c.get('style', 'compact'), 'corpus'))
    ntrees = 400 if ck.thorough else 45
    leads, trails = ['', ' ', '  ', '\t'], ['', ' ', '\n', ' \n', '  ', '\t\n']
    for k in range(ntrees):
        fam = ['ascii', 'multi', 'ipa', 'sepfrag'][k % 4]
        tree = sl.rand_tree(rng, sl.PHONES[fam])
        for j, sep in enumerate(seps):
            if not sl.tree_ok(tree, sep):
                continue
            allst = styles_for(sep)
            # compact, one of the other joinings in rotation (two in the thorough tier), and one whitespace-surrounded
            # rendering (two in the thorough tier), so that every joining meets every triple
            r = k // 4 + j
            styles = ['compact', allst[1 + r % (len(allst) - 1)]]
            ws_styles = [allst[(k // 4 + 2 * j) % len(allst)]]
            if ck.thorough:
                styles.append(allst[1 + (r + 1) % (len(allst) - 1)])
                ws_styles.append(allst[(k // 4 + 2 * j + 1) % len(allst)])
            for st in dict.fromkeys(styles):
                cases.extend(tree_cases(tree, sep, st, 'tree-%s-%s' % (fam, st)))
            for st in ws_styles:
                lead, trail = rng.choice(leads), rng.choice(trails)
                if not lead and not trail:
                    trail = '\n'
                cases.extend(tree_cases(tree, sep, st, 'ws-%s-%s' % (fam, st), lead, trail))
    # separators that END with white space (legal for the constructor, distinct, no substring of one another): the per-token
    # strip() of tokenize eats the tail of the separator that closes a token (known finding separator_ending_with_whitespace)
    for k in range(40 if ck.thorough else 8):
        fam = ['ascii', 'multi', 'ipa'][k % 3]
        tree = sl.rand_tree(rng, sl.PHONES[fam])
        for sep in ((', ', ';esyll', ';eword'), ('_', '= ', ';eword'), ('_', ';esyll', ' / '), (', ', None, ';eword')):
            if sl.tree_ok(tree, sep):
                cases.extend(tree_cases(tree, sep, 'compact', 'trailing-ws-separator-%s' % fam))
    # separators, tokens that contain separator fragments (correspondence only)
    for k in range(3000 if ck.thorough else 400):
        sep = rng.choice(seps)
        fam = rng.choice(list(sl.PHONES))
        tree = sl.rand_tree(rng, sl.PHONES[fam])
        utt = sl.render(tree, sep, rng.choice(['compact', 'padded', 'joined', 'joined-padded']))
        mode = rng.randint(0, 4)
        if mode == 0:
            utt = ' ' * rng.randint(0, 2) + utt + rng.choice(['', ' ', '\n', ' \n'])
        elif mode == 1 and sep[2]:
            utt = utt[:max(0, len(utt) - len(sep[2]))]
        elif mode == 2:
            pos = rng.randint(0, len(utt))
            utt = utt[:pos] + rng.choice([x for x in sep if x] + [' ', '  ']) + utt[pos:]
        elif mode == 3:
            utt = utt.replace(' ', '  ', 1)
        kind = rng.choice([1, 1, 2, 3, 4, 5])
        level = rng.choice([l for l, x in zip(LEVELS, sep) if x] + ([None] if kind in (3, 4) else []) + (LEVELS if rng.random() < 0.1 or not any(sep) else []))
        if kind in (1, 5) and level is None:
            level = 'word'
        cases.append(case(kind, sep, utt, level if kind != 2 else None, rng.random() < 0.5, 'variant-%d' % mode))
    # constructor
    pool = [None, '', ' ', '_', ';esyll', ';eword', 'a', 'ab', 'x|y', 'a-b', 'w', '§', '@@', '/'] + list(FORBIDDEN)
    for k in range(1500 if ck.thorough else 250):
        cases.append(ctor_case((rng.choice(pool), rng.choice(pool), rng.choice(pool)), 'ctor'))
    cases.extend(forbidden_ctor_cases())
    cases.extend(legal_ctor_cases())
    for c in cases:
        ck.count('family:' + c['desc']['family'])
    correspond(ck, cases)
    n, problems = ck.coq_recheck()
    finish_proof_failures(ck, failures + problems)
    return ck.finish(
        rule='%d random word/syllable/phone trees x %d separator triples (levels undefined in every combination including all three, multi-character, non-ASCII, space as phone/syllable/word separator) '
             'x compact / joined / space-padded joining (padded, joined-padded, fullpad for every phone separator that leaves the space free), plain and surrounded by whitespace, through tokenize '
             '(3 levels x keep_boundaries), nested tokenize, remove() and remove(level) at every level, strip() and strip(level) (reference: only leading/trailing separators of the level and whitespace go), '
             'split, with the property oracle; variants (missing trailing separator, injected separators, doubled spaces) as correspondence; constructor triples over a pool holding the 17 forbidden '
             'characters of the documentation (independent list), each also alone and inside longer separators at each level. '
             'Every case counts as non-trivial (each exercises a distinct (tree, separator, method)).' % (ntrees, len(seps)),
        assumptions=['separators are regex-literal strings (no regex metacharacters): re.split/re.sub on them are literal split/replace'])


if __name__ == '__main__':
    sys.exit(main())
