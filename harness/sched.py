"""Deterministic bytecode-level scheduler for threads calling a Python function
(ParseCounter.update). Each worker thread is traced with sys.settrace and
f_trace_opcodes; it stops before every opcode of the traced function and
waits for the scheduler's permission. A thread that blocks inside an opcode
(lock acquisition) is detected by a timeout and resumed later.
"""
import sys
import threading
import time


class Worker:
    def __init__(self, tid, fn, code_names):
        self.tid = tid
        self.fn = fn
        self.code_names = code_names
        self.go = threading.Semaphore(0)       # scheduler -> thread: run one opcode
        self.arrived = threading.Semaphore(0)  # thread -> scheduler: stopped before an opcode / finished
        self.done = False
        self.error = None
        self.steps = 0
        self.thread = threading.Thread(target=self._main, daemon=True)

    def _trace(self, frame, event, arg):
        if frame.f_code.co_name in self.code_names:
            frame.f_trace_opcodes = True
            if event == 'opcode':
                self.arrived.release()
                self.go.acquire()
                self.steps += 1
            return self._trace
        return None

    def _main(self):
        sys.settrace(self._trace)
        try:
            self.fn()
        except Exception as e:  # noqa
            self.error = e
        finally:
            sys.settrace(None)
            self.done = True
            self.arrived.release()


def run_schedule(fns, schedule, code_names=('update',), block_timeout=0.03, tail=True):
    """fns: one zero-argument callable per thread. schedule: list of thread ids,
    one opcode per entry (entries for finished threads are skipped). After the
    schedule, every thread is run to completion in thread-id order (tail).
    Returns the list of workers."""
    ws = [Worker(i, f, code_names) for i, f in enumerate(fns)]
    pending = [False] * len(ws)     # a permission was granted and its arrival not yet seen (thread blocked)
    for w in ws:
        w.thread.start()
        w.arrived.acquire()          # first stop (or finished immediately)

    def grant(w):
        """let w run one opcode; True if it arrived at the next stop (or finished)"""
        if pending[w.tid]:
            # still inside the opcode it blocked in? (non-blocking check)
            if w.arrived.acquire(blocking=False):
                pending[w.tid] = False
            else:
                return False
            if w.done:
                return True
        if w.done:
            return True
        w.go.release()
        if w.arrived.acquire(timeout=block_timeout):
            return True
        pending[w.tid] = True
        return False

    for tid in schedule:
        w = ws[tid]
        if w.done and not pending[tid]:
            continue
        grant(w)
    if tail:
        # run everything to completion; blocked threads are retried until all are done
        deadline = time.time() + 20
        while not all(w.done and not pending[w.tid] for w in ws):
            progressed = False
            for w in ws:
                while not (w.done and not pending[w.tid]):
                    if not grant(w):
                        break
                    progressed = True
            if time.time() > deadline:
                raise RuntimeError('scheduler: threads did not finish (deadlock?)')
            if not progressed:
                time.sleep(0.005)
    for w in ws:
        w.thread.join(timeout=5)
    return ws


def count_opcodes(fn, code_names=('update',)):
    """number of opcode stops of one call of fn (the first traced call of a
    process reports no opcode events on CPython 3.12: warm up first)"""
    for _ in range(3):
        ws = run_schedule([fn], [], code_names)
        if ws[0].steps:
            return ws[0].steps
    return 0
