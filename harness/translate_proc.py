"""Translator (C16): reads the AST of wordseg/algos/ag.py and dpseg.py and emits
coq/gen/ProcCfg.v, the process configuration the fault theorems are about.
Fail-closed: anything it does not recognise raises TranslationError."""
import ast
import os
import sys

REPO = '/repo'
OUT = os.path.join(os.path.dirname(os.path.dirname(os.path.abspath(__file__))), 'coq', 'gen', 'ProcCfg.v')


class TranslationError(Exception):
    pass


def func(tree, name):
    for n in ast.walk(tree):
        if isinstance(n, ast.FunctionDef) and n.name == name:
            return n
    raise TranslationError('function %s not found' % name)


def const_strings(node):
    return [n.value for n in ast.walk(node) if isinstance(n, ast.Constant) and isinstance(n.value, str)]


def contains_call(node, attr):
    for n in ast.walk(node):
        if isinstance(n, ast.Call):
            f = n.func
            if isinstance(f, ast.Attribute) and f.attr == attr:
                return True
            if isinstance(f, ast.Name) and f.id == attr:
                return True
    return False


def returncode_check(fn):
    """an `if process.returncode[ != 0]:` whose body raises RuntimeError"""
    for n in ast.walk(fn):
        if isinstance(n, ast.If):
            t = n.test
            ok = False
            if isinstance(t, ast.Attribute) and t.attr == 'returncode':
                ok = True
            if (isinstance(t, ast.Compare) and isinstance(t.left, ast.Attribute) and t.left.attr == 'returncode'
                    and len(t.ops) == 1 and isinstance(t.ops[0], ast.NotEq)
                    and isinstance(t.comparators[0], ast.Constant) and t.comparators[0].value == 0):
                ok = True
            if ok:
                for b in n.body:
                    if isinstance(b, ast.Raise) and b.exc is not None:
                        exc = b.exc.func if isinstance(b.exc, ast.Call) else b.exc
                        if isinstance(exc, ast.Name) and exc.id == 'RuntimeError':
                            return True
    return False


def joined(seg, utils_src):
    """Is the exception of a job kept until all the jobs are done? Recognised shape (anything else: False):
       errors = []; Parallel(...)(delayed(utils.catch_errors(<job>, errors))(...) for ...); if errors: raise errors[0]
       with utils.catch_errors returning a wrapper whose body is `if errors: return None` then a try/except Exception that
       appends the exception to `errors`."""
    # 1. the wrapper in utils.py
    ut = ast.parse(utils_src)
    try:
        ce = func(ut, 'catch_errors')
    except TranslationError:
        return False
    inner = [n for n in ce.body if isinstance(n, ast.FunctionDef)]
    if len(inner) != 1:
        return False
    w = inner[0]
    tries = [n for n in w.body if isinstance(n, ast.Try)]
    if len(tries) != 1 or tries[0].finalbody or len(tries[0].handlers) != 1:
        return False
    h = tries[0].handlers[0]
    if not (isinstance(h.type, ast.Name) and h.type.id == 'Exception' and h.name):
        return False
    appends = any(isinstance(m, ast.Call) and isinstance(m.func, ast.Attribute) and m.func.attr == 'append'
                  and isinstance(m.func.value, ast.Name) and m.func.value.id == 'errors'
                  and any(isinstance(a, ast.Name) and a.id == h.name for a in m.args) for b in h.body for m in ast.walk(b))
    reraises = any(isinstance(m, ast.Raise) for b in h.body for m in ast.walk(b))
    if not appends or reraises:
        return False
    # 2. segment(): the job is wrapped, and the first error is raised AFTER the Parallel call, at the same nesting level
    for body in [n.body for n in ast.walk(seg) if hasattr(n, 'body') and isinstance(getattr(n, 'body'), list)]:
        for k, st in enumerate(body):
            if contains_call(st, 'Parallel') and not isinstance(st, (ast.With, ast.Try, ast.If, ast.For, ast.While, ast.FunctionDef)):
                wrapped = any(isinstance(m, ast.Call) and isinstance(m.func, ast.Attribute) and m.func.attr == 'delayed'
                              and m.args and isinstance(m.args[0], ast.Call) and isinstance(m.args[0].func, ast.Attribute)
                              and m.args[0].func.attr == 'catch_errors' for m in ast.walk(st))
                nxt = body[k + 1] if k + 1 < len(body) else None
                raised = (isinstance(nxt, ast.If) and isinstance(nxt.test, ast.Name) and nxt.test.id == 'errors'
                          and any(isinstance(m, ast.Raise) for m in nxt.body))
                return bool(wrapped and raised)
    return False


def translate_ag(src):
    tree = ast.parse(src)
    fn = func(tree, '_segment_single')
    # command template
    template = None
    for n in ast.walk(fn):
        if isinstance(n, ast.Assign) and len(n.targets) == 1 and isinstance(n.targets[0], ast.Name) and n.targets[0].id == 'command':
            strs = const_strings(n.value)
            template = ''.join(s for s in strs if '{' in s or '|' in s or 'cat' in s)
    if not template or '{bin}' not in template:
        raise TranslationError('command template of _segment_single not recognised')
    stages = [s.strip() for s in template.split('|')]
    idx = [i for i, s in enumerate(stages) if '{bin}' in s]
    if len(idx) != 1:
        raise TranslationError('the program must be exactly one stage of the pipeline: %r' % stages)
    before, after = idx[0], len(stages) - idx[0] - 1
    # what is written to the script file
    pipefail = None
    for n in ast.walk(fn):
        if isinstance(n, ast.Call) and isinstance(n.func, ast.Attribute) and n.func.attr == 'write':
            names = [m.id for a in n.args for m in ast.walk(a) if isinstance(m, ast.Name)]
            if 'command' in names:
                consts = [s for a in n.args for s in const_strings(a)]
                pipefail = any('set -o pipefail' in s or 'set -eo pipefail' in s for s in consts)
    if pipefail is None:
        raise TranslationError('the write of the script file was not found')
    if not contains_call(fn, 'Popen'):
        raise TranslationError('no subprocess.Popen call in _segment_single')
    checks = returncode_check(fn)
    # temp directory removed in a finally block that covers the run
    fin = False
    for n in ast.walk(fn):
        if isinstance(n, ast.Try) and n.finalbody:
            rm = any(isinstance(m, ast.Call) and isinstance(m.func, ast.Attribute) and m.func.attr == 'rmtree'
                     for b in n.finalbody for m in ast.walk(b))
            body_has_popen = any(contains_call(b, 'Popen') for b in n.body)
            if rm and body_has_popen:
                fin = True
    seg = func(tree, 'segment')
    ctx = False
    for n in ast.walk(seg):
        if isinstance(n, ast.With):
            for it in n.items:
                if contains_call(it.context_expr, 'NamedTemporaryFile'):
                    if any(contains_call(b, 'Parallel') for b in n.body):
                        ctx = True
    utils_src = open(os.path.join(REPO, 'wordseg/utils.py')).read()
    return dict(before=before, after=after, pipefail=pipefail, checks=checks, fin=fin, ctx=ctx, stages=stages, joined=joined(seg, utils_src))


def translate_dpseg(src):
    tree = ast.parse(src)
    fn = func(tree, '_dpseg')
    if not contains_call(fn, 'Popen'):
        raise TranslationError('no subprocess.Popen call in _dpseg')
    checks = returncode_check(fn)
    ctx = False
    for n in ast.walk(fn):
        if isinstance(n, ast.With):
            for it in n.items:
                if contains_call(it.context_expr, 'NamedTemporaryFile') and any(contains_call(b, 'Popen') for b in n.body):
                    ctx = True
    # the folds are run by joblib.Parallel: which backend?
    seg = func(tree, 'segment')
    par = [n for n in ast.walk(seg) if isinstance(n, ast.Call) and isinstance(n.func, ast.Attribute) and n.func.attr == 'Parallel']
    if len(par) != 1:
        raise TranslationError('expected exactly one joblib.Parallel call in dpseg.segment, found %d' % len(par))
    threads = any(k.arg == 'backend' and isinstance(k.value, ast.Constant) and k.value.value == 'threading' for k in par[0].keywords)
    for k in par[0].keywords:
        if k.arg not in ('n_jobs', 'verbose', 'backend'):
            raise TranslationError('joblib.Parallel keyword not understood: ' + str(k.arg))
    utils_src = open(os.path.join(REPO, 'wordseg/utils.py')).read()
    return dict(checks=checks, ctx=ctx, threads=threads, joined=joined(seg, utils_src))


def b(x):
    return 'true' if x else 'false'


def main():
    ag = translate_ag(open(os.path.join(REPO, 'wordseg/algos/ag.py')).read())
    dp = translate_dpseg(open(os.path.join(REPO, 'wordseg/algos/dpseg.py')).read())
    text = '''(* GENERATED by harness/translate_proc.py from /repo/wordseg/algos/ag.py and dpseg.py - do not edit.
   pipeline stages: %s *)
From WS Require Import Base.Py AG.Proc.
Definition ag_cfg_src : ag_cfg :=
  {| ag_before := %d; ag_after := %d; ag_pipefail := %s; ag_checks := %s; ag_finally := %s; ag_grammar_ctx := %s; ag_joined := %s |}.
Definition dp_cfg_src : dp_cfg := {| dp_checks := %s; dp_tmp_ctx := %s; dp_threads := %s; dp_joined := %s |}.
''' % (' | '.join(ag['stages']).replace('*)', '* )'), ag['before'], ag['after'], b(ag['pipefail']), b(ag['checks']), b(ag['fin']), b(ag['ctx']), b(ag['joined']),
       b(dp['checks']), b(dp['ctx']), b(dp['threads']), b(dp['joined']))
    os.makedirs(os.path.dirname(OUT), exist_ok=True)
    if not os.path.exists(OUT) or open(OUT).read() != text:
        open(OUT, 'w').write(text)
    return ag, dp


if __name__ == '__main__':
    try:
        print(main())
    except TranslationError as e:
        print('TRANSLATION-ERROR: %s' % e)
        sys.exit(2)
