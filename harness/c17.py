"""C17 — each wordseg command does what its Python function does.

(a) option tables regenerated from the sources (gen/Options.v) + theorem;
(b)/(c) every command is run as `python -m wordseg.<module>` on generated
corpora and option combinations and compared with what the Python function
returns in-process for the same arguments, formatted as documented; the ag
options are read back from the parameter echo of the program built from the
tree; the dpseg options from the argv of the stand-in."""
import json
import os
import random
import re
import shutil
import subprocess
import sys
import tempfile
from concurrent.futures import ThreadPoolExecutor

from common import Check, VERIF, COQ, finish_proof_failures
import gens
import seplib as sl
import translate_options

STUBS = os.path.join(VERIF, 'harness', 'stubs')
os.environ['WORDSEG_VERIF_BINDIR'] = STUBS
from wordseg import prepare as prep_mod, evaluate as eval_mod  # noqa: E402
from wordseg.statistics import CorpusStatistics  # noqa: E402
from wordseg.syllabification import Syllabifier  # noqa: E402
from wordseg.separator import Separator  # noqa: E402
from wordseg.algos import tp, puddle, dibs, baseline, ag, dpseg  # noqa: E402

PY = '/venv/bin/python'
ENV = dict(os.environ, PYTHONPATH='/repo', PYTHONWARNINGS='ignore', PYTHONHASHSEED='0')


def fmt(lines):
    return '\n'.join(lines) + '\n'


def expect(f):
    """('ok', text) | ('fatal',) for ValueError/RuntimeError | ('other', name)"""
    try:
        return ('ok', f())
    except (ValueError, RuntimeError) as e:
        return ('fatal', type(e).__name__)
    except Exception as e:  # noqa
        return ('other', type(e).__name__)


class Job:
    def __init__(self, name, module, argv, files, expected, outfiles=(), env=None):
        self.name, self.module, self.argv, self.files, self.expected, self.outfiles = name, module, argv, files, expected, outfiles
        self.env = env or {}

    def run(self):
        d = tempfile.mkdtemp(prefix='c17-')
        try:
            for fn, content in self.files.items():
                open(os.path.join(d, fn), 'w', encoding='utf8').write(content)
            argv = [a.replace('@', d + '/') if isinstance(a, str) and a.startswith('@') else a for a in self.argv]
            r = subprocess.run([PY, '-m', self.module] + argv + ['-o', os.path.join(d, 'out.txt')], capture_output=True, text=True,
                               env=dict(ENV, **self.env), cwd=d)
            out = open(os.path.join(d, 'out.txt'), encoding='utf8').read() if os.path.exists(os.path.join(d, 'out.txt')) else None
            extra = {f: (open(os.path.join(d, f), encoding='utf8').read() if os.path.exists(os.path.join(d, f)) else None) for f in self.outfiles}
            return dict(code=r.returncode, out=out, err=r.stderr, extra=extra)
        finally:
            shutil.rmtree(d, ignore_errors=True)


def judge(job, res):
    exp = job.expected
    if exp[0] == 'ok':
        want = exp[1] if isinstance(exp[1], dict) else {'out': exp[1]}
        if res['code'] != 0:
            return 'exit status %d (stderr %r) although the function returns normally' % (res['code'], res['err'][-200:])
        if res['out'] != want['out']:
            return 'output %r differs from the function result %r' % ((res['out'] or '')[:200], want['out'][:200])
        if not res['out'].endswith('\n'):
            return 'output is not newline terminated'
        for f, content in want.items():
            if f != 'out' and res['extra'].get(f) != content:
                return 'file %s %r differs from the function result %r' % (f, (res['extra'].get(f) or '')[:200], content[:200])
        return None
    if exp[0] == 'fatal':
        lines = [l for l in res['err'].strip().split('\n') if l]
        if res['code'] != 1 or len(lines) != 1 or not lines[0].startswith('fatal error:'):
            return '%s raised by the function but the command ended with status %d and stderr %r' % (exp[1], res['code'], res['err'][-300:])
        if res['out'] not in (None, ''):
            return 'a partial result was written although the command failed'
        return None
    return None      # other exception kinds: not covered by the property


def tagged_corpus(rng, n=None, sep=(' ', ';esyll', ';eword')):
    trees = [sl.rand_tree(rng, sl.PHONES['ascii']) for _ in range(n or rng.randint(2, 6))]
    return trees, [sl.render(t, sep, 'padded') for t in trees]


def build_jobs(ck):
    rng = ck.rng
    jobs = []
    reps = 8 if ck.thorough else 3
    for _ in range(reps):
        # ---- prep
        trees, tags = tagged_corpus(rng)
        bad = rng.random() < 0.4
        lines = tags + (['bad line'] if bad else [])
        rng.shuffle(lines)
        for unit in ('phone', 'syllable'):
            for tol in (False, True):
                def f(lines=lines, unit=unit, tol=tol):
                    return fmt(list(prep_mod.prepare(list(l + '\n' for l in lines), Separator(), unit=unit, tolerant=tol)))
                jobs.append(Job('prep', 'wordseg.prepare', ['-q', '-u', unit] + (['-t'] if tol else []) + ['@in.txt'], {'in.txt': fmt(lines)}, expect(f)))
        # -g (gold file) with and without -t and -P on a text with a punctuated utterance:
        # the gold file is gold() of exactly the utterances the prepared output keeps
        plines = list(tags)
        plines.insert(rng.randint(0, len(plines)), tags[0].replace(' ', ' ? ', 1))
        if rng.random() < 0.5:
            plines.insert(rng.randint(0, len(plines)), 'bad line')
        for tol, allow in ((True, True), (True, False), (False, True)):
            def fg(plines=plines, tol=tol, allow=allow):
                src = [l + '\n' for l in plines]
                out = list(prep_mod.prepare(src, Separator(), unit='phone', tolerant=tol, check_punctuation=not allow))

                def ok(l):
                    try:
                        prep_mod.check_utterance(l.strip(), Separator(), check_punctuation=not allow)
                        return True
                    except ValueError:
                        return False
                kept = [l for l in src if ok(l)] if tol else src
                return {'out': fmt(out), 'gold.txt': fmt(list(prep_mod.gold(kept, separator=Separator())))}
            jobs.append(Job('prep', 'wordseg.prepare', ['-q'] + (['-t'] if tol else []) + (['-P'] if allow else []) + ['-g', '@gold.txt', '@in.txt'],
                            {'in.txt': fmt(plines)}, expect(fg), outfiles=('gold.txt',)))
        # ---- eval
        text, gold, units = __import__('evalgen').random_triple(rng, ['a', 'b', 'c'], nutts=rng.randint(1, 5))
        inconsistent = rng.random() < 0.3
        g2 = gold[:-1] + [gold[-1] + 'x'] if inconsistent else gold

        def fe(text=text, g2=g2, units=units):
            r = eval_mod.evaluate(text, g2, units=units)
            return {'out': fmt('{}\t{}'.format(k, '%.4g' % v if v is not None else 'None') for k, v in r.items()),
                    'summary.json': json.dumps(eval_mod.summary(text, g2), indent=4)}
        jobs.append(Job('eval', 'wordseg.evaluate', ['-q', '-r', '@units.txt', '-s', '@summary.json', '@in.txt', '@gold.txt'],
                        {'in.txt': fmt(text), 'gold.txt': fmt(g2), 'units.txt': fmt(units)}, expect(fe), outfiles=('summary.json',)))

        def fe2(text=text, g2=g2):
            r = eval_mod.evaluate(text, g2)
            return fmt('{}\t{}'.format(k, '%.4g' % v if v is not None else 'None') for k, v in r.items())
        jobs.append(Job('eval', 'wordseg.evaluate', ['-q', '@in.txt', '@gold.txt'], {'in.txt': fmt(text), 'gold.txt': fmt(g2)}, expect(fe2)))
        # ---- stats
        trees, tags = tagged_corpus(rng, n=rng.choice([2, 8, 9]))
        for js in (False, True):
            def fs(tags=tags, js=js):
                results = CorpusStatistics([t + '\n' for t in tags], Separator()).describe_all()
                if js:
                    return json.dumps(results, indent=4) + '\n'
                return fmt(' '.join((name, k, str(v))) for name, st in results.items() for k, v in st.items())
            jobs.append(Job('stats', 'wordseg.statistics', ['-q'] + (['--json'] if js else []) + ['@in.txt'], {'in.txt': fmt(tags)}, expect(fs)))
        # ---- syll
        ons, vow = ['b', 'd', 'k', 'br'], ['a', 'o']
        words = [''.join(rng.choice(ons) + rng.choice(vow) for _ in range(rng.randint(1, 3))) for _ in range(5)]
        utts = [' '.join(p for p in w) + ' ;eword' for w in words[:3]] + ([' '.join('x') + ' ;eword'] if rng.random() < 0.4 else [])
        for strip in (False, True):
            for tol in (False, True):
                def fy(utts=utts, strip=strip, tol=tol):
                    return fmt(Syllabifier(list(ons), list(vow), separator=Separator()).syllabify([u + '\n' for u in utts], strip=strip, tolerant=tol))
                jobs.append(Job('syll', 'wordseg.syllabification', ['-q'] + (['-S'] if strip else []) + (['-t'] if tol else []) + ['@in.txt', '@ons.txt', '@vow.txt'],
                                {'in.txt': fmt(utts), 'ons.txt': fmt(ons), 'vow.txt': fmt(vow)}, expect(fy)))
        # ---- prepared text for the segmenters
        tu, _ = gens.random_text(rng, ['a', 'b', 'c'], nutts=rng.randint(1, 8))
        plines = gens.lines(tu)
        tr, _ = gens.random_text(rng, ['a', 'b', 'c'], nutts=rng.randint(1, 6))
        tlines = gens.lines(tr)
        small = [['a']] if rng.random() < 0.3 else None
        # ---- baseline
        # (seed 0 is a seed like any other: "-r 0" must give random.seed(0), not an unseeded run)
        for seed, p in ((rng.randint(1, 999), rng.choice([0.0, 0.5, 1.0, 1.5])), (0, rng.choice([0.2, 0.5, 0.8]))):
            def fb(plines=plines, seed=seed, p=p):
                random.seed(seed)
                return fmt(baseline.segment([l + '\n' for l in plines], probability=p))
            jobs.append(Job('baseline', 'wordseg.algos.baseline', ['-q', '-r', str(seed), '-P', str(p), '@in.txt'], {'in.txt': fmt(plines)}, expect(fb)))
        # ---- tp
        for thr in ('relative', 'absolute'):
            dep = rng.choice(['ftp', 'btp', 'mi'])
            src = gens.lines(small) if small else plines

            def ft(src=src, thr=thr, dep=dep):
                return fmt(tp.segment((l + '\n' for l in src), threshold=thr, dependency=dep))
            jobs.append(Job('tp', 'wordseg.algos.tp', ['-q', '-t', thr, '-d', dep, '@in.txt'], {'in.txt': fmt(src)}, expect(ft)))

        def ft2(plines=plines, tlines=tlines):
            return fmt(tp.segment((l + '\n' for l in plines), train_text=(l + '\n' for l in tlines)))
        jobs.append(Job('tp', 'wordseg.algos.tp', ['-q', '-T', '@train.txt', '@in.txt'], {'in.txt': fmt(plines), 'train.txt': fmt(tlines)}, expect(ft2)))
        # ---- puddle
        nf = rng.randint(1, len(plines) + 1)
        w = rng.randint(1, 3)

        def fp(plines=plines, nf=nf, w=w):
            return fmt(puddle.segment((l + '\n' for l in plines), window=w, nfolds=nf, njobs=1))
        jobs.append(Job('puddle', 'wordseg.algos.puddle', ['-q', '-w', str(w), '-f', str(nf), '@in.txt'], {'in.txt': fmt(plines)}, expect(fp)))

        def fp2(plines=plines, tlines=tlines, w=w):
            return fmt(puddle.segment((l + '\n' for l in plines), train_text=(l + '\n' for l in tlines), window=w, by_frequency=True))
        jobs.append(Job('puddle', 'wordseg.algos.puddle', ['-q', '-w', str(w), '-F', '-T', '@train.txt', '@in.txt'],
                        {'in.txt': fmt(plines), 'train.txt': fmt(tlines)}, expect(fp2)))
        # ---- dibs (train file given)
        trees, tags = tagged_corpus(rng)
        test = [' '.join(ph for w_ in t for s in w_ for ph in s) for t in trees]
        for kind in ('gold', 'phrasal', 'lexical'):
            thr = rng.choice([0.0, 0.25, 0.5, 1.0, 2.0])

            def fd(tags=tags, test=test, kind=kind, thr=thr):
                m = dibs.CorpusSummary([t + '\n' for t in tags], separator=Separator(), level='phone')
                return fmt(dibs.segment([t + '\n' for t in test], m, type=kind, threshold=thr))
            jobs.append(Job('dibs', 'wordseg.algos.dibs', ['-q', '-t', kind, '-U', str(thr), '-T', '@train.txt', '@in.txt'],
                            {'in.txt': fmt(test), 'train.txt': fmt(tags)}, expect(fd)))
        # ---- dpseg on the stand-in
        nfd = rng.randint(1, len(plines))

        def fdp(plines=plines, nfd=nfd):
            return fmt(dpseg.segment([l + '\n' for l in plines], nfolds=nfd, njobs=1, args='--randseed 9'))
        jobs.append(Job('dpseg', 'wordseg.algos.dpseg', ['-q', '-f', str(nfd), '-r', '9', '@in.txt'], {'in.txt': fmt(plines)}, None))
        jobs[-1].deferred = fdp
    return jobs


def ag_echo_jobs(ck, bindir):
    """every algorithm option of wordseg-ag set to a distinctive value and read back from the program's parameter echo"""
    rows = []
    values = {'--eval-every': ('x', '3'), '--niterations': ('n', '4'), '--resample-pycache-niter': ('R', '2'), '--randseed': ('r', '77'),
              '--pya': ('a', '0.25'), '--pyb': ('b', '50'), '--pya-beta-a': ('e', '1.5'), '--pya-beta-b': ('f', '2.5'),
              '--pyb-gamma-s': ('g', '30'), '--pyb-gamma-c': ('h', '0.5'), '--weight': ('w', '3'), '--train-frac': ('s', '0.5'),
              '--tstart': ('T', '4'), '--tstop': ('t', '2'), '--anneal-iterations': ('m', '7'), '--zstop': ('Z', '3'), '--ziterations': ('z', '1'),
              '--print-analyses-last': ('N', '2')}
    flags = {'--delay-init': ('D', '1'), '--dirichlet-prior': ('E', '1'), '--ordered-parse': ('I', '0'), '--predictive-parse-filter': ('P', '1'),
             '--random-training': ('S', '1')}
    text = fmt(['a b c', 'b a', 'c a b'])
    jobs = []
    items = list(values.items()) + list(flags.items()) + [('--skip-hastings', (None, None)), ('--print-compact-trees', (None, None))]
    if not ck.thorough:
        keep = {'--skip-hastings', '--ordered-parse', '--pyb-gamma-c', '--tstart', '--eval-every', '--pya', '--dirichlet-prior', '--ziterations'}
        items = [it for it in items if it[0] in keep]
    for opt, (key, val) in items:
        argv = ['-vv', '--nruns', '1', '-d', '100', '-n', '4', '-x', '2']
        if opt in values:
            argv = [a for a in argv]
            if opt == '--niterations':
                argv = ['-vv', '--nruns', '1', '-d', '100', '-x', '2']
            if opt == '--eval-every':
                argv = ['-vv', '--nruns', '1', '-d', '100', '-n', '4']
            argv += [opt, val]
        else:
            # a flag followed by another flag: neither may swallow the other
            argv += [opt, '--dirichlet-prior'] if opt != '--dirichlet-prior' else [opt]
        argv += ['@in.txt']
        j = Job('ag-echo', 'wordseg.algos.ag', argv, {'in.txt': text}, None, env={'WORDSEG_VERIF_BINDIR': bindir})
        j.check = (opt, key, val)
        jobs.append(j)
    return jobs


def judge_echo(job, res):
    opt, key, val = job.check
    if res['code'] != 0:
        return 'wordseg-ag %s failed with status %d: %s' % (opt, res['code'], res['err'][-300:])
    m = re.search(r'D = .*', res['err'])
    if not m:
        return 'no parameter echo in the output of wordseg-ag -vv'
    echo = dict(re.findall(r'(\w) = ([^,\s]+)', m.group(0)))
    if key is not None:
        got = echo.get(key)
        if got is None or float(got) != float(val):
            return 'option %s %s reached the program as %s = %s' % (opt, val, key, got)
    if opt != '--dirichlet-prior' and opt not in ('--eval-every', '--niterations') and not any(opt == o for o in ()):
        if '--dirichlet-prior' in job.argv and echo.get('E') != '1':
            return 'the flag following %s was swallowed (E = %s)' % (opt, echo.get('E'))
    return None


def main():
    ck = Check('C17')
    tr_fail = []
    try:
        tables = translate_options.main()
    except translate_options.TranslationError as e:
        tables = None
        tr_fail.append('translator: ' + str(e))
        for ext in ('.v', '.vo', '.vok', '.vos', '.glob'):
            try:
                os.remove(os.path.join(COQ, 'gen', 'Options' + ext))
            except OSError:
                pass
    failures = ck.prove(gen=['gen/Options.v'] if tables else []) + tr_fail
    if tables:
        ck.cov['option_tables'] = {k: len(v) for k, v in tables.items()}
    jobs = build_jobs(ck)
    for j in jobs:
        if j.expected is None and hasattr(j, 'deferred'):
            j.expected = expect(j.deferred)
    echo = []
    try:
        import agbuild
        bindir = agbuild.build()
        echo = ag_echo_jobs(ck, bindir)
    except Exception as e:  # noqa
        ck.cov['ag_note'] = 'ag not built: ' + str(e)[-200:]
    with ThreadPoolExecutor(max_workers=16) as ex:
        results = list(ex.map(lambda j: j.run(), jobs + echo))
    bad = []
    for j, r in zip(jobs + echo, results):
        why = judge_echo(j, r) if hasattr(j, 'check') else judge(j, r)
        desc = {'command': j.name, 'argv': j.argv, 'files': {k: v[:300] for k, v in j.files.items()}}
        ck.case(json.dumps(desc, sort_keys=True), True, sample={'command': j.name, 'argv': j.argv, 'expected': repr(j.expected)[:120], 'status': r['code']})
        ck.count('command:' + j.name)
        ck.count('expected:' + (j.expected[0] if j.expected else 'echo'))
        if why:
            bad.append((desc, r, why))
    for desc, r, why in bad[:3]:
        ck.violation({'site': 'python -m ' + desc['command'], 'input': desc, 'status': r['code'], 'stderr': r['err'][-400:], 'stdout_file': (r['out'] or '')[:400]},
                     'property fails on the implementation: ' + why)
    if not bad:
        finish_proof_failures(ck, failures)
    else:
        ck.cov['failed_obligations'] = failures
    return ck.finish(
        rule='%d command runs: prep, eval (with -r/-s), stats (raw/JSON), syll (strip x tolerant), baseline (seed, probability incl. invalid), tp (2 thresholds, train file, tiny corpora), '
             'puddle (window, folds incl. too many, train file + by_frequency), dibs (3 types, thresholds incl. invalid), dpseg on the stand-in, each compared byte for byte with the formatted '
             'result of the Python function called in-process (exit status and one-line fatal error on ValueError/RuntimeError); %d wordseg-ag runs on the program built from the tree reading '
             'each option back from its parameter echo. Non-trivial: every run.' % (len(jobs), len(echo)),
        assumptions=['argparse, the stream set-up and the formatting code are compared, not modelled in Coq; exceptions other than ValueError/RuntimeError are outside the property\'s statement'])


if __name__ == '__main__':
    sys.exit(main())
