"""C17 — each wordseg command does what its Python function does.

(a) option tables regenerated from the sources (gen/Options.v) + theorem;
(b)/(c) every command is run as `python -m wordseg.<module>` on generated
corpora and option combinations and compared with what the Python function
returns in-process for the same arguments, formatted as documented; the ag
options are read back from the parameter echo of the program built from the
tree; the dpseg options from the argv of the stand-in (stubs/dpseg writes it
to DPSEG_STUB_CAPTURE/<hash>.argv).

Dimensions: sep_jobs (-p/-s/-w triples, undefined levels), stdio_jobs (text on
stdin / result on stdout), option_jobs (baseline -O/-l, dibs -u/-b/-d/no -T,
syll -f, puddle -j, tp -p), ag_segment_jobs (wordseg-ag against ag.segment on
the built program, fixed seeds), dpseg_option_jobs (every option of the table,
zero and white space values included), failure_jobs (scripted failures of the
stand-ins under wordseg-ag / wordseg-dpseg)."""
import json
import os
import random
import re
import shutil
import subprocess
import sys
import tempfile
from concurrent.futures import ThreadPoolExecutor

from common import Check, VERIF, COQ, finish_proof_failures
import gens
import seplib as sl
import translate_options

STUBS = os.path.join(VERIF, 'harness', 'stubs')
os.environ['WORDSEG_VERIF_BINDIR'] = STUBS
from wordseg import prepare as prep_mod, evaluate as eval_mod  # noqa: E402
from wordseg.statistics import CorpusStatistics  # noqa: E402
from wordseg.syllabification import Syllabifier  # noqa: E402
from wordseg.separator import Separator  # noqa: E402
from wordseg.algos import tp, puddle, dibs, baseline, ag, dpseg  # noqa: E402

PY = '/venv/bin/python'
ENV = dict(os.environ, PYTHONPATH='/repo', PYTHONWARNINGS='ignore', PYTHONHASHSEED='0')


def fmt(lines):
    return '\n'.join(lines) + '\n'


def expect(f):
    """('ok', text) | ('fatal',) for ValueError/RuntimeError | ('other', name)"""
    try:
        return ('ok', f())
    except (ValueError, RuntimeError) as e:
        return ('fatal', type(e).__name__)
    except Exception as e:  # noqa
        return ('other', type(e).__name__)


class Job:
    """One run of `python -m <module>`. '@name' in argv is a file of the scratch directory.
    stdin: name of the file fed on standard input (it must then not be in argv);
    stdout: the result is read from standard output (no -o);
    setup(d) -> extra environment (e.g. writes a stand-in plan into d);
    capture: the dpseg stand-in records what it receives in d/cap (res['argvs'])."""

    def __init__(self, name, module, argv, files, expected, outfiles=(), env=None, stdin=None, stdout=False, setup=None, capture=False, tag=None):
        self.name, self.module, self.argv, self.files, self.expected, self.outfiles = name, module, argv, files, expected, outfiles
        self.env = env or {}
        self.stdin, self.stdout, self.setup, self.capture = stdin, stdout, setup, capture
        self.tag = tag or name

    def run(self):
        d = tempfile.mkdtemp(prefix='c17_')      # no '-': what a path spells is decided by the jobs, not by a random name
        try:
            for fn, content in self.files.items():
                open(os.path.join(d, fn), 'w', encoding='utf8').write(content)
            argv = [a.replace('@', d + '/') if isinstance(a, str) and a.startswith('@') else a for a in self.argv]
            env = dict(ENV, **self.env)
            if self.setup:
                env.update(self.setup(d))
            if self.capture:
                os.mkdir(os.path.join(d, 'cap'))
                env['DPSEG_STUB_CAPTURE'] = os.path.join(d, 'cap')
            cmd = [PY, '-m', self.module] + argv + ([] if self.stdout else ['-o', os.path.join(d, 'out.txt')])
            if self.stdin:
                r = subprocess.run(cmd, input=self.files[self.stdin].encode('utf8'), capture_output=True, env=env, cwd=d)
            else:
                r = subprocess.run(cmd, stdin=subprocess.DEVNULL, capture_output=True, env=env, cwd=d)
            err = r.stderr.decode('utf8', 'replace')
            if self.stdout:
                out = r.stdout.decode('utf8', 'replace')
            else:
                out = open(os.path.join(d, 'out.txt'), encoding='utf8').read() if os.path.exists(os.path.join(d, 'out.txt')) else None
            extra = {f: (open(os.path.join(d, f), encoding='utf8').read() if os.path.exists(os.path.join(d, f)) else None) for f in self.outfiles}
            res = dict(code=r.returncode, out=out, err=err, extra=extra, dir=d)
            if self.capture:
                cap = os.path.join(d, 'cap')
                res['argvs'] = [json.load(open(os.path.join(cap, f), encoding='utf8')) for f in sorted(os.listdir(cap)) if f.endswith('.argv')]
            return res
        finally:
            shutil.rmtree(d, ignore_errors=True)


def stdio_variant(j, stdin=True, stdout=True):
    """the same run with the input text on standard input and/or the result on standard output"""
    argv = [a for a in j.argv if not (stdin and a == '@in.txt')]
    n = Job(j.name, j.module, argv, j.files, j.expected, j.outfiles, j.env, stdin='in.txt' if stdin else None, stdout=stdout,
            setup=j.setup, capture=j.capture, tag=j.tag + '/' + '+'.join(x for x, y in (('stdin', stdin), ('stdout', stdout)) if y))
    if hasattr(j, 'deferred'):
        n.deferred = j.deferred
    if hasattr(j, 'alternatives'):
        n.alternatives = j.alternatives
    return n


READINGS = {}


def judge(job, res):
    if hasattr(job, 'alternatives'):
        whys = [judge_one(exp, res) for exp in job.alternatives]
        # which reading of the line ends the command follows (0: str.splitlines boundaries, 1: newlines only), when the
        # two readings give different results: every command must follow the same one (READINGS is judged at the end)
        if any(w is None for w in whys) and not all(w is None for w in whys):
            READINGS.setdefault(whys.index(None), []).append(job.tag)
        return None if any(w is None for w in whys) else whys[0]
    return judge_one(job.expected, res)


def judge_one(exp, res):
    if exp[0] == 'ok':
        want = exp[1] if isinstance(exp[1], dict) else {'out': exp[1]}
        if res['code'] != 0:
            return 'exit status %d (stderr %r) although the function returns normally' % (res['code'], res['err'][-200:])
        if res['out'] != want['out']:
            return 'output %r differs from the function result %r' % ((res['out'] or '')[:200], want['out'][:200])
        if not res['out'].endswith('\n'):
            return 'output is not newline terminated'
        for f, content in want.items():
            if f != 'out' and res['extra'].get(f) != content:
                return 'file %s %r differs from the function result %r' % (f, (res['extra'].get(f) or '')[:200], content[:200])
        return None
    if exp[0] == 'fatal':
        lines = [l for l in res['err'].strip().split('\n') if l]
        if res['code'] != 1 or len(lines) != 1 or not lines[0].startswith('fatal error:'):
            return '%s raised by the function but the command ended with status %d and stderr %r' % (exp[1], res['code'], res['err'][-300:])
        if res['out'] not in (None, ''):
            return 'a partial result was written although the command failed'
        return None
    return None      # other exception kinds: not covered by the property


def tagged_corpus(rng, n=None, sep=(' ', ';esyll', ';eword')):
    trees = [sl.rand_tree(rng, sl.PHONES['ascii']) for _ in range(n or rng.randint(2, 6))]
    return trees, [sl.render(t, sep, 'padded') for t in trees]


def build_jobs(ck):
    rng = ck.rng
    jobs = []
    reps = 8 if ck.thorough else 3
    for _ in range(reps):
        # ---- prep
        trees, tags = tagged_corpus(rng)
        bad = rng.random() < 0.4
        lines = tags + (['bad line'] if bad else [])
        rng.shuffle(lines)
        for unit in ('phone', 'syllable'):
            for tol in (False, True):
                def f(lines=lines, unit=unit, tol=tol):
                    return fmt(list(prep_mod.prepare(list(l + '\n' for l in lines), Separator(), unit=unit, tolerant=tol)))
                jobs.append(Job('prep', 'wordseg.prepare', ['-q', '-u', unit] + (['-t'] if tol else []) + ['@in.txt'], {'in.txt': fmt(lines)}, expect(f)))
        # -g (gold file) with and without -t and -P on a text with a punctuated utterance:
        # the gold file is gold() of exactly the utterances the prepared output keeps
        plines = list(tags)
        plines.insert(rng.randint(0, len(plines)), tags[0].replace(' ', ' ? ', 1))
        if rng.random() < 0.5:
            plines.insert(rng.randint(0, len(plines)), 'bad line')
        for tol, allow in ((True, True), (True, False), (False, True)):
            def fg(plines=plines, tol=tol, allow=allow):
                src = [l + '\n' for l in plines]
                out = list(prep_mod.prepare(src, Separator(), unit='phone', tolerant=tol, check_punctuation=not allow))

                def ok(l):
                    try:
                        prep_mod.check_utterance(l.strip(), Separator(), check_punctuation=not allow)
                        return True
                    except ValueError:
                        return False
                kept = [l for l in src if ok(l)] if tol else src
                return {'out': fmt(out), 'gold.txt': fmt(list(prep_mod.gold(kept, separator=Separator())))}
            jobs.append(Job('prep', 'wordseg.prepare', ['-q'] + (['-t'] if tol else []) + (['-P'] if allow else []) + ['-g', '@gold.txt', '@in.txt'],
                            {'in.txt': fmt(plines)}, expect(fg), outfiles=('gold.txt',)))
        # ---- eval
        text, gold, units = __import__('evalgen').random_triple(rng, ['a', 'b', 'c'], nutts=rng.randint(1, 5))
        inconsistent = rng.random() < 0.3
        g2 = gold[:-1] + [gold[-1] + 'x'] if inconsistent else gold

        def fe(text=text, g2=g2, units=units):
            r = eval_mod.evaluate(text, g2, units=units)
            return {'out': fmt('{}\t{}'.format(k, '%.4g' % v if v is not None else 'None') for k, v in r.items()),
                    'summary.json': json.dumps(eval_mod.summary(text, g2), indent=4)}
        jobs.append(Job('eval', 'wordseg.evaluate', ['-q', '-r', '@units.txt', '-s', '@summary.json', '@in.txt', '@gold.txt'],
                        {'in.txt': fmt(text), 'gold.txt': fmt(g2), 'units.txt': fmt(units)}, expect(fe), outfiles=('summary.json',)))

        def fe2(text=text, g2=g2):
            r = eval_mod.evaluate(text, g2)
            return fmt('{}\t{}'.format(k, '%.4g' % v if v is not None else 'None') for k, v in r.items())
        jobs.append(Job('eval', 'wordseg.evaluate', ['-q', '@in.txt', '@gold.txt'], {'in.txt': fmt(text), 'gold.txt': fmt(g2)}, expect(fe2)))
        # utterances separated by other line boundaries than "\n" (U+2028, NEL, form feed, CR LF) in all the files: whatever
        # the command takes for a line end, it takes the same in the text, gold and units files (both readings are accepted:
        # str.splitlines boundaries, or "\n" only)
        for brk in ('\u2028', '\x85', '\x0c', '\r\n'):
            files = {'in.txt': brk.join(text) + '\n', 'gold.txt': brk.join(gold) + '\n', 'units.txt': brk.join(units) + '\n'}
            alts = []
            for split in (str.splitlines, lambda c: c.split('\n')):
                def fe4(files=files, split=split):
                    t, g, u = ([l.strip() for l in split(files[n]) if l.strip()] for n in ('in.txt', 'gold.txt', 'units.txt'))
                    r = eval_mod.evaluate(t, g, units=u)
                    return fmt('{}\t{}'.format(k, '%.4g' % v if v is not None else 'None') for k, v in r.items())
                alts.append(expect(fe4))
            j = Job('eval', 'wordseg.evaluate', ['-q', '-r', '@units.txt', '@in.txt', '@gold.txt'], files, alts[0], tag='eval line boundary %r' % brk)
            j.alternatives = alts
            jobs.append(j)
        # the same for wordseg-stats (utterance counts depend on what ends a line)
        trees_lb, tags_lb = tagged_corpus(rng, n=9)
        for brk in ('\u2028', '\x0c'):
            files = {'in.txt': brk.join(tags_lb) + '\n'}
            alts = []
            for split in (str.splitlines, lambda c: c.split('\n')):
                def fs4(files=files, split=split):
                    results = CorpusStatistics([l + '\n' for l in split(files['in.txt'])], Separator()).describe_all()
                    return json.dumps(results, indent=4) + '\n'
                alts.append(expect(fs4))
            j = Job('stats', 'wordseg.statistics', ['-q', '--json', '@in.txt'], files, alts[0], tag='stats line boundary %r' % brk)
            j.alternatives = alts
            jobs.append(j)
        # scores that are exactly 0 (zero numerator, non-zero denominator) and undefined scores (zero denominator)
        # side by side: a text without internal boundaries, a gold with some, single-word utterances
        wz = [''.join(rng.choice('abc') for _ in range(rng.randint(2, 4))) for _ in range(3)]
        tz = [wz[0] + wz[1], wz[2]]
        gz = [wz[0] + ' ' + wz[1], wz[2][:1] + ' ' + wz[2][1:]]
        for tt, gg in ((tz, gz), (gz, tz), ([wz[0]], [wz[0]])):
            def fe3(tt=tt, gg=gg):
                r = eval_mod.evaluate(tt, gg)
                return fmt('{}\t{}'.format(k, '%.4g' % v if v is not None else 'None') for k, v in r.items())
            jobs.append(Job('eval', 'wordseg.evaluate', ['-q', '@in.txt', '@gold.txt'], {'in.txt': fmt(tt), 'gold.txt': fmt(gg)}, expect(fe3)))
        # ---- stats
        trees, tags = tagged_corpus(rng, n=rng.choice([2, 8, 9]))
        for js in (False, True):
            def fs(tags=tags, js=js):
                results = CorpusStatistics([t + '\n' for t in tags], Separator()).describe_all()
                if js:
                    return json.dumps(results, indent=4) + '\n'
                return fmt(' '.join((name, k, str(v))) for name, st in results.items() for k, v in st.items())
            jobs.append(Job('stats', 'wordseg.statistics', ['-q'] + (['--json'] if js else []) + ['@in.txt'], {'in.txt': fmt(tags)}, expect(fs)))
        # ---- syll
        ons, vow = ['b', 'd', 'k', 'br'], ['a', 'o']
        words = [''.join(rng.choice(ons) + rng.choice(vow) for _ in range(rng.randint(1, 3))) for _ in range(5)]
        utts = [' '.join(p for p in w) + ' ;eword' for w in words[:3]] + ([' '.join('x') + ' ;eword'] if rng.random() < 0.4 else [])
        for strip in (False, True):
            for tol in (False, True):
                def fy(utts=utts, strip=strip, tol=tol):
                    return fmt(Syllabifier(list(ons), list(vow), separator=Separator()).syllabify([u + '\n' for u in utts], strip=strip, tolerant=tol))
                jobs.append(Job('syll', 'wordseg.syllabification', ['-q'] + (['-S'] if strip else []) + (['-t'] if tol else []) + ['@in.txt', '@ons.txt', '@vow.txt'],
                                {'in.txt': fmt(utts), 'ons.txt': fmt(ons), 'vow.txt': fmt(vow)}, expect(fy)))
        # ---- prepared text for the segmenters
        tu, _ = gens.random_text(rng, ['a', 'b', 'c'], nutts=rng.randint(1, 8))
        plines = gens.lines(tu)
        tr, _ = gens.random_text(rng, ['a', 'b', 'c'], nutts=rng.randint(1, 6))
        tlines = gens.lines(tr)
        small = [['a']] if rng.random() < 0.3 else None
        # ---- baseline
        # (seed 0 is a seed like any other: "-r 0" must give random.seed(0), not an unseeded run)
        for seed, p in ((rng.randint(1, 999), rng.choice([0.0, 0.5, 1.0, 1.5])), (0, rng.choice([0.2, 0.5, 0.8]))):
            def fb(plines=plines, seed=seed, p=p):
                random.seed(seed)
                return fmt(baseline.segment([l + '\n' for l in plines], probability=p))
            jobs.append(Job('baseline', 'wordseg.algos.baseline', ['-q', '-r', str(seed), '-P', str(p), '@in.txt'], {'in.txt': fmt(plines)}, expect(fb)))
        # ---- tp
        for thr in ('relative', 'absolute'):
            dep = rng.choice(['ftp', 'btp', 'mi'])
            src = gens.lines(small) if small else plines

            def ft(src=src, thr=thr, dep=dep):
                return fmt(tp.segment((l + '\n' for l in src), threshold=thr, dependency=dep))
            jobs.append(Job('tp', 'wordseg.algos.tp', ['-q', '-t', thr, '-d', dep, '@in.txt'], {'in.txt': fmt(src)}, expect(ft)))

        def ft2(plines=plines, tlines=tlines):
            return fmt(tp.segment((l + '\n' for l in plines), train_text=(l + '\n' for l in tlines)))
        jobs.append(Job('tp', 'wordseg.algos.tp', ['-q', '-T', '@train.txt', '@in.txt'], {'in.txt': fmt(plines), 'train.txt': fmt(tlines)}, expect(ft2)))
        # the text and the train file use another line boundary than "\n": whatever the command takes for a line end, it takes
        # the same in both files (both readings accepted, as for wordseg-eval)
        for brk in ('\u2028', '\x0c'):
            files = {'in.txt': brk.join(plines) + '\n', 'train.txt': brk.join(tlines) + '\n'}
            for name, mod, fun, extra in (('tp', 'wordseg.algos.tp', lambda a, b: tp.segment(a, train_text=b), []),
                                          ('puddle', 'wordseg.algos.puddle', lambda a, b: puddle.segment(a, train_text=b, window=2), ['-w', '2'])):
                alts = []
                for split in (str.splitlines, lambda c: c.split('\n')):
                    def ftb(files=files, split=split, fun=fun):
                        a, b = ([l + '\n' for l in split(files[n]) if l.strip()] for n in ('in.txt', 'train.txt'))
                        return fmt(fun(a, b))
                    alts.append(expect(ftb))
                j = Job(name, mod, ['-q'] + extra + ['-T', '@train.txt', '@in.txt'], files, alts[0], tag='%s -T line boundary %r' % (name, brk))
                j.alternatives = alts
                jobs.append(j)
        # a text whose first character is U+FEFF (the mark some editors write at the beginning of a file): for the functions it
        # is a character like any other, so it is one for the commands too - in the input file, the train file and the gold file alike
        bl = ['\ufeff' + plines[0]] + list(plines[1:])

        def ftbom(bl=bl):
            return fmt(tp.segment((l + '\n' for l in bl)))
        jobs.append(Job('tp', 'wordseg.algos.tp', ['-q', '@in.txt'], {'in.txt': fmt(bl)}, expect(ftbom), tag='tp first character U+FEFF'))

        def ftbom2(bl=bl):
            return fmt(tp.segment((l + '\n' for l in bl), train_text=(l + '\n' for l in bl)))
        jobs.append(Job('tp', 'wordseg.algos.tp', ['-q', '-T', '@train.txt', '@in.txt'], {'in.txt': fmt(bl), 'train.txt': fmt(bl)}, expect(ftbom2),
                        tag='tp -T first character U+FEFF'))
        bt, bg = ['\ufeff' + text[0]] + list(text[1:]), ['\ufeff' + gold[0]] + list(gold[1:])

        def febom(bt=bt, bg=bg):
            r = eval_mod.evaluate(bt, bg)
            return fmt('{}\t{}'.format(k, '%.4g' % v if v is not None else 'None') for k, v in r.items())
        jobs.append(Job('eval', 'wordseg.evaluate', ['-q', '@in.txt', '@gold.txt'], {'in.txt': fmt(bt), 'gold.txt': fmt(bg)}, expect(febom),
                        tag='eval first character U+FEFF'))
        # ---- puddle
        nf = rng.randint(1, len(plines) + 1)
        w = rng.randint(1, 3)

        def fp(plines=plines, nf=nf, w=w):
            return fmt(puddle.segment((l + '\n' for l in plines), window=w, nfolds=nf, njobs=1))
        jobs.append(Job('puddle', 'wordseg.algos.puddle', ['-q', '-w', str(w), '-f', str(nf), '@in.txt'], {'in.txt': fmt(plines)}, expect(fp)))

        def fp2(plines=plines, tlines=tlines, w=w):
            return fmt(puddle.segment((l + '\n' for l in plines), train_text=(l + '\n' for l in tlines), window=w, by_frequency=True))
        jobs.append(Job('puddle', 'wordseg.algos.puddle', ['-q', '-w', str(w), '-F', '-T', '@train.txt', '@in.txt'],
                        {'in.txt': fmt(plines), 'train.txt': fmt(tlines)}, expect(fp2)))
        # an utterance that cannot be segmented in the MIDDLE of the text (a blank line, with a train file the
        # segmentation is lazy): the function raises once it gets there, the command must not have written
        # the utterances before it
        if len(plines) >= 2:
            mid = rng.randint(1, len(plines) - 1)
            blines = plines[:mid] + [''] + plines[mid:]

            def fp3(blines=blines, tlines=tlines, w=w):
                return fmt(puddle.segment((l + '\n' for l in blines), train_text=(l + '\n' for l in tlines), window=w))
            jobs.append(Job('puddle', 'wordseg.algos.puddle', ['-q', '-w', str(w), '-T', '@train.txt', '@in.txt'],
                            {'in.txt': fmt(blines), 'train.txt': fmt(tlines)}, expect(fp3)))

            def ft3(blines=blines):
                return fmt(tp.segment((l + '\n' for l in blines)))
            jobs.append(Job('tp', 'wordseg.algos.tp', ['-q', '@in.txt'], {'in.txt': fmt(blines)}, expect(ft3)))
        # ---- dibs (train file given)
        trees, tags = tagged_corpus(rng)
        test = [' '.join(ph for w_ in t for s in w_ for ph in s) for t in trees]
        for kind in ('gold', 'phrasal', 'lexical'):
            thr = rng.choice([0.0, 0.25, 0.5, 1.0, 2.0])

            def fd(tags=tags, test=test, kind=kind, thr=thr):
                m = dibs.CorpusSummary([t + '\n' for t in tags], separator=Separator(), level='phone')
                return fmt(dibs.segment([t + '\n' for t in test], m, type=kind, threshold=thr))
            jobs.append(Job('dibs', 'wordseg.algos.dibs', ['-q', '-t', kind, '-U', str(thr), '-T', '@train.txt', '@in.txt'],
                            {'in.txt': fmt(test), 'train.txt': fmt(tags)}, expect(fd)))
        # ---- dpseg on the stand-in
        nfd = rng.randint(1, len(plines))

        def fdp(plines=plines, nfd=nfd):
            return fmt(dpseg.segment([l + '\n' for l in plines], nfolds=nfd, njobs=1, args='--randseed 9'))
        jobs.append(Job('dpseg', 'wordseg.algos.dpseg', ['-q', '-f', str(nfd), '-r', '9', '@in.txt'], {'in.txt': fmt(plines)}, None))
        jobs[-1].deferred = fdp
    return jobs


# --------------------------------------------------------------------------------------
#  custom separators (-p/-s/-w), standard streams, per-command options
# --------------------------------------------------------------------------------------

DEFSEP = (' ', ';esyll', ';eword')
CSEP = ('_', '=', '/')          # every token followed by its separator (compact)
NOSYL = ('_', None, '/')        # syllable level undefined: -s ""


def separgs(sep):
    return ['-p', sep[0] or '', '-s', sep[1] or '', '-w', sep[2] or '']


def compact_corpus(rng, sep, n=None, phones='ascii'):
    trees = [sl.rand_tree(rng, sl.PHONES[phones]) for _ in range(n or rng.randint(2, 6))]
    return trees, [sl.render(t, sep, 'compact') for t in trees]


def nl(lines):
    return [l + '\n' for l in lines]


def prep_expected(lines, sep, unit, tol, allow, gold):
    def f():
        src = nl(lines)
        S = Separator(*sep)
        out = fmt(list(prep_mod.prepare(src, S, unit=unit, tolerant=tol, check_punctuation=not allow)))
        if not gold:
            return out

        def ok(l):
            try:
                prep_mod.check_utterance(l.strip(), S, check_punctuation=not allow)
                return True
            except ValueError:
                return False
        kept = [l for l in src if ok(l)] if tol else src
        return {'out': out, 'gold.txt': fmt(list(prep_mod.gold(kept, separator=S)))}
    return expect(f)


def stats_expected(lines, sep, js):
    def f():
        results = CorpusStatistics(nl(lines), Separator(*sep)).describe_all()
        if js:
            return json.dumps(results, indent=4) + '\n'
        return fmt(' '.join((name, k, str(v))) for name, st in results.items() for k, v in st.items())
    return expect(f)


def dibs_expected(train, test, sep, unit, kind, thr, pwb, diph):
    def f():
        m = dibs.CorpusSummary(nl(train), separator=Separator(*sep), level=unit)
        out = fmt(dibs.segment(nl(test), m, type=kind, threshold=thr, pwb=pwb))
        if not diph:
            return out
        items = sorted(m.diphones.items(), key=lambda kv: kv[1], reverse=True)
        return {'out': out, 'diph.txt': fmt('{} {} {}'.format(v, k[0], k[1]) for k, v in items)}
    return expect(f)


def units_of(tree, unit):
    if unit == 'phone':
        return ' '.join(ph for w in tree for s in w for ph in s)
    return ' '.join(''.join(s) for w in tree for s in w)


def sep_jobs(ck):
    """prep, stats, syll, dibs, baseline -O with a separator triple given on the command line"""
    rng = ck.rng
    jobs = []
    # (a triple of non-ASCII separators in both tiers: what is typed after -p/-s/-w must reach Separator() unchanged)
    seps = [CSEP, NOSYL, ('·', '‖', '§§')] + ([('p', 's', 'w'), (None, '=', '/'), (';', None, '<w>')] if ck.thorough else [])
    for rep in range(4 if ck.thorough else 1):
        for sep in seps:
            tg = 'sep' + repr(sep)
            phones = rng.choice(['ascii', 'multi', 'ipa']) if sep[0] else 'ascii'
            trees, tags = compact_corpus(rng, sep, phones=phones)
            # ---- prep
            lines = tags + (['bad line'] if rng.random() < 0.4 else [])
            rng.shuffle(lines)
            for unit in ('phone', 'syllable'):
                if unit == 'syllable' and sep[1] is None:
                    continue
                for tol in (False, True):
                    gold = rng.random() < 0.5
                    allow = rng.random() < 0.3
                    argv = ['-q', '-u', unit] + (['-t'] if tol else []) + (['-P'] if allow else []) + separgs(sep) + (['-g', '@gold.txt'] if gold else []) + ['@in.txt']
                    jobs.append(Job('prep', 'wordseg.prepare', argv, {'in.txt': fmt(lines)}, prep_expected(lines, sep, unit, tol, allow, gold),
                                    outfiles=('gold.txt',) if gold else (), tag='prep/' + tg))
            # ---- stats
            for js in (False, True):
                jobs.append(Job('stats', 'wordseg.statistics', ['-q'] + (['--json'] if js else []) + separgs(sep) + ['@in.txt'], {'in.txt': fmt(tags)},
                                stats_expected(tags, sep, js), tag='stats/' + tg))
            # ---- dibs: train file tagged with the custom separators
            for unit in ('phone', 'syllable'):
                if (unit == 'syllable' and sep[1] is None) or (unit == 'phone' and sep[0] is None):
                    continue
                test = [units_of(t, unit) for t in trees]
                kind = rng.choice(['gold', 'phrasal', 'lexical'])
                thr = rng.choice([0.0, 0.25, 0.5, 1.0])
                jobs.append(Job('dibs', 'wordseg.algos.dibs', ['-q', '-t', kind, '-U', str(thr), '-u', unit] + separgs(sep) + ['-T', '@train.txt', '@in.txt'],
                                {'in.txt': fmt(test), 'train.txt': fmt(tags)}, dibs_expected(tags, test, sep, unit, kind, thr, None, False), tag='dibs/' + tg))
            # ---- baseline with an oracle text tagged with the custom separators
            tu, _ = gens.random_text(rng, ['a', 'b', 'c'], nutts=rng.randint(1, 6))
            plines = gens.lines(tu)
            for level in ('phone', 'syllable'):
                seed = rng.choice([0, rng.randint(1, 999)])

                def fo(plines=plines, tags=tags, sep=sep, level=level, seed=seed):
                    random.seed(seed)
                    return fmt(baseline.segment_oracle(nl(plines), nl(tags), Separator(*sep), level))
                jobs.append(Job('baseline', 'wordseg.algos.baseline', ['-q', '-r', str(seed), '-O', '@oracle.txt', '-l', level] + separgs(sep) + ['@in.txt'],
                                {'in.txt': fmt(plines), 'oracle.txt': fmt(tags)}, expect(fo), tag='baseline-oracle/' + tg))
        # ---- syll: phones and words tagged with custom separators, syllable separator given
        ons, vow = ['b', 'd', 'k', 'br'], ['a', 'o']
        for sep in [CSEP] + ([('p', 's', 'w'), ('·', '‖', '§§')] if ck.thorough else []):
            words = [[rng.choice(ons) + rng.choice(vow) for _ in range(rng.randint(1, 3))] for _ in range(rng.randint(2, 5))]
            utts = []
            for _ in range(rng.randint(1, 4)):
                ws = [rng.choice(words) for _ in range(rng.randint(1, 3))]
                utts.append(''.join(''.join(ph + sep[0] for syl in w for ph in syl) + sep[2] for w in ws))
            if rng.random() < 0.4:
                utts.append('x' + sep[0] + sep[2])
            for strip in (False, True):
                tol = rng.random() < 0.5

                def fy(utts=utts, strip=strip, tol=tol, sep=sep):
                    return fmt(Syllabifier(list(ons), list(vow), separator=Separator(*sep)).syllabify(nl(utts), strip=strip, tolerant=tol))
                jobs.append(Job('syll', 'wordseg.syllabification', ['-q'] + (['-S'] if strip else []) + (['-t'] if tol else []) + separgs(sep) + ['@in.txt', '@ons.txt', '@vow.txt'],
                                {'in.txt': fmt(utts), 'ons.txt': fmt(ons), 'vow.txt': fmt(vow)}, expect(fy), tag='syll/sep' + repr(sep)))
    return jobs


def option_jobs(ck):
    """options no other job passes: baseline -O/-l, dibs -u/-b/-d and no -T, syll -f, puddle -j, tp -p"""
    rng = ck.rng
    jobs = []
    for rep in range(4 if ck.thorough else 1):
        trees, tags = tagged_corpus(rng)
        tu, _ = gens.random_text(rng, ['a', 'b', 'c'], nutts=rng.randint(2, 8))
        plines = gens.lines(tu)
        tr, _ = gens.random_text(rng, ['a', 'b', 'c'], nutts=rng.randint(1, 6))
        tlines = gens.lines(tr)
        # ---- baseline -O <oracle> -l phone|syllable (default separators, padded oracle)
        for level in ('phone', 'syllable'):
            seed = rng.randint(0, 999)

            def fo(plines=plines, tags=tags, level=level, seed=seed):
                random.seed(seed)
                return fmt(baseline.segment_oracle(nl(plines), nl(tags), Separator(), level))
            jobs.append(Job('baseline', 'wordseg.algos.baseline', ['-q', '-r', str(seed), '-O', '@oracle.txt', '-l', level, '@in.txt'],
                            {'in.txt': fmt(plines), 'oracle.txt': fmt(tags)}, expect(fo), tag='baseline -O -l ' + level))
        # the oracle file does not exist: main() raises ValueError itself
        jobs.append(Job('baseline', 'wordseg.algos.baseline', ['-q', '-O', '@missing.txt', '@in.txt'], {'in.txt': fmt(plines)}, ('fatal', 'ValueError'), tag='baseline -O missing'))
        # ---- dibs -u syllable / -b / -d with a train file
        for unit in ('phone', 'syllable'):
            test = [units_of(t, unit) for t in trees]
            for kind in ('phrasal', 'lexical', 'gold'):
                pwb = rng.choice([0.0, 0.1, 0.5, 1.0, 1.5])
                thr = rng.choice([0.0, 0.25, 0.5, 1.0])
                diph = rng.random() < 0.5
                jobs.append(Job('dibs', 'wordseg.algos.dibs', ['-q', '-t', kind, '-U', str(thr), '-b', str(pwb), '-u', unit] + (['-d', '@diph.txt'] if diph else []) + ['-T', '@train.txt', '@in.txt'],
                                {'in.txt': fmt(test), 'train.txt': fmt(tags)}, dibs_expected(tags, test, DEFSEP, unit, kind, thr, pwb, diph),
                                outfiles=('diph.txt',) if diph else (), tag='dibs -b -u %s' % unit))
        # ---- dibs without -T: the tagged input is the train text, and it is segmented once
        # prepared (separators removed) at the level the model is trained on
        for sep, unit in ((DEFSEP, 'phone'), (DEFSEP, 'syllable'), (CSEP, 'phone')):
            src = tags if sep == DEFSEP else [sl.render(t, sep, 'compact') for t in trees]
            kind = rng.choice(['phrasal', 'lexical', 'gold'])

            def fn(src=src, sep=sep, unit=unit, kind=kind):
                S = Separator(*sep)
                m = dibs.CorpusSummary(nl(src), separator=S, level=unit)
                return fmt(dibs.segment(list(prep_mod.prepare(nl(src), S, unit=unit)), m, type=kind))
            jobs.append(Job('dibs', 'wordseg.algos.dibs', ['-q', '-t', kind, '-u', unit] + (separgs(sep) if sep != DEFSEP else []) + ['@in.txt'],
                            {'in.txt': fmt(src)}, expect(fn), tag='dibs no -T, -u %s, %s separators' % (unit, 'default' if sep == DEFSEP else 'custom')))
        # ---- syll -f
        ons, vow = ['b', 'd', 'k', 'br'], ['a', 'o']
        ws = [''.join(rng.choice(ons) + rng.choice(vow) for _ in range(rng.randint(1, 3))) for _ in range(3)] + [rng.choice(['b', 'd', 'k', 'b', 'bd'])]
        rng.shuffle(ws)
        utts = [' '.join(p for p in w) + ' ;eword' for w in ws] + [' '.join(ws[0]) + ' ;eword ' + ' '.join(ws[1]) + ' ;eword']
        for fill in (True, False):
            for tol in (False, True):
                def fy(utts=utts, fill=fill, tol=tol):
                    return fmt(Syllabifier(list(ons), list(vow), separator=Separator(), filling_vowel=fill).syllabify(nl(utts), tolerant=tol))
                jobs.append(Job('syll', 'wordseg.syllabification', ['-q'] + (['-f'] if fill else []) + (['-t'] if tol else []) + ['@in.txt', '@ons.txt', '@vow.txt'],
                                {'in.txt': fmt(utts), 'ons.txt': fmt(ons), 'vow.txt': fmt(vow)}, expect(fy), tag='syll -f' if fill else 'syll'))
        # ---- puddle -j 2
        nf = rng.randint(2, max(2, len(plines)))
        w = rng.randint(1, 3)

        def fp(plines=plines, nf=nf, w=w):
            return fmt(puddle.segment((l + '\n' for l in plines), window=w, nfolds=nf, njobs=2))
        jobs.append(Job('puddle', 'wordseg.algos.puddle', ['-q', '-w', str(w), '-f', str(nf), '-j', '2', '@in.txt'], {'in.txt': fmt(plines)}, expect(fp), tag='puddle -j 2'))
        # -T with -j: main() raises ValueError itself
        jobs.append(Job('puddle', 'wordseg.algos.puddle', ['-q', '-j', '2', '-T', '@train.txt', '@in.txt'], {'in.txt': fmt(plines), 'train.txt': fmt(tlines)},
                        ('fatal', 'ValueError'), tag='puddle -j -T'))
        # ---- tp -p forward|backward (deprecated spelling of -d ftp|btp), train file missing
        for prob, dep in (('forward', 'ftp'), ('backward', 'btp')):
            thr = rng.choice(['relative', 'absolute'])

            def ft(plines=plines, thr=thr, dep=dep):
                return fmt(tp.segment((l + '\n' for l in plines), threshold=thr, dependency=dep))
            jobs.append(Job('tp', 'wordseg.algos.tp', ['-q', '-t', thr, '-p', prob, '@in.txt'], {'in.txt': fmt(plines)}, expect(ft), tag='tp -p'))
        jobs.append(Job('tp', 'wordseg.algos.tp', ['-q', '-T', '@missing.txt', '@in.txt'], {'in.txt': fmt(plines)}, ('fatal', 'RuntimeError'), tag='tp -T missing'))
    return jobs


def stdio_jobs(ck, jobs):
    """for every command, some of the runs again with the text on stdin and/or the result on stdout"""
    rng = ck.rng
    by = {}
    for j in jobs:
        if '@in.txt' in j.argv and not hasattr(j, 'check'):
            by.setdefault(j.name, []).append(j)
    res = []
    for name in sorted(by):
        cand = by[name]
        modes = [(True, True), (True, False), (False, True)]
        k = (6 if ck.thorough else 3) if name in ('prep', 'tp', 'baseline', 'eval') else (3 if ck.thorough else 1)
        # runs whose function returns normally first (the result travels through stdout), then any
        oks = [j for j in cand if j.expected and j.expected[0] == 'ok']
        picked = [oks[i] for i in sorted(rng.sample(range(len(oks)), min(max(1, k - 1), len(oks))))]
        others = [j for j in cand if j not in picked]
        picked += [others[i] for i in sorted(rng.sample(range(len(others)), min(k - len(picked), len(others))))]
        for i, j in enumerate(picked):
            res.append(stdio_variant(j, *modes[i % 3]))
    # the text on standard input is read as the files are: every run whose files use another line boundary than "\n" again with
    # the text on stdin (the gold and units files stay files)
    seen = set()
    for j in jobs:
        if hasattr(j, 'alternatives') and j.tag not in seen:
            seen.add(j.tag)
            res.append(stdio_variant(j, True, False))
    # a text that is not ASCII through the standard streams
    trees = [sl.rand_tree(rng, sl.PHONES['ipa']) for _ in range(3)]
    lines = [sl.render(t, DEFSEP, 'padded') for t in trees]
    res.append(stdio_variant(Job('prep', 'wordseg.prepare', ['-q', '@in.txt'], {'in.txt': fmt(lines)}, prep_expected(lines, DEFSEP, 'phone', False, False, False), tag='prep/ipa')))
    return res


# --------------------------------------------------------------------------------------
#  wordseg-ag against ag.segment on the program built from the tree
# --------------------------------------------------------------------------------------

def _in_env(env, f):
    """f() with these environment variables; the log handlers the wrappers create write to a null stream"""
    old = {k: os.environ.get(k) for k in env}
    os.environ.update(env)
    err = sys.stderr
    sys.stderr = open(os.devnull, 'w')
    try:
        return f()
    finally:
        sys.stderr = err
        for k, v in old.items():
            if v is None:
                os.environ.pop(k, None)
            else:
                os.environ[k] = v


def ag_segment_jobs(ck, bindir):
    """`python -m wordseg.algos.ag` on the real program against ag.segment called with the argument string
    main() builds (AG_ARGUMENTS order, short names, -i -> -h): fixed seeds, one job: deterministic"""
    rng = ck.rng
    jobs = []
    text = ['a b c a b', 'b a c', 'c a b a', 'a b', 'b a c a b']
    train = ['a b a b c', 'c a b', 'b a c c a', 'a b a b']
    cases = [
        # (command line, argument string of ag.segment, keyword arguments, train file?, grammar saved?)
        (['--nruns', '1', '-j', '1', '-r', '7', '-n', '10', '-x', '2'], '-d 100 -x 2 -n 10 -r 7', dict(nruns=1), False, False),
        (['--nruns', '2', '-r', '11', '-n', '8', '-x', '2', '-E', '-P', '-a', '0.0001', '-b', '10000', '-e', '1', '-f', '1', '-g', '100', '-i', '0.01', '-R', '-1',
          '--ignore-first-parses', '2'],
         '-d 100 -x 2 -n 8 -E -P -R -1 -r 11 -a 0.0001 -b 10000.0 -e 1.0 -f 1.0 -g 100.0 -h 0.01', dict(nruns=2, ignore_first_parses=2), True, False),
        (['--nruns', '1', '-r', '23', '-n', '6', '-x', '3', '--ignore-first-parses', '-1', '--save-grammar-to', '@g.lt'],
         '-d 100 -x 3 -n 6 -r 23', dict(nruns=1, ignore_first_parses=-1), False, True),
    ]
    if ck.thorough:
        for _ in range(4):
            seed, n, x = rng.randint(1, 999), rng.randint(3, 12), rng.randint(1, 3)
            cases.append((['--nruns', '2', '-r', str(seed), '-n', str(n), '-x', str(x), '-H', '-U', '2', '-t', '1', '-m', '3'],
                          '-d 100 -x %d -n %d -H -r %d -T 2.0 -t 1.0 -m 3' % (x, n, seed), dict(nruns=2), rng.random() < 0.5, False))
    for argv, argstr, kw, with_train, save in cases:
        files = {'in.txt': fmt(text)}
        if with_train:
            files['train.txt'] = fmt(train)
            argv = argv + ['-T', '@train.txt']

        def f(argstr=argstr, kw=kw, with_train=with_train, save=save):
            d = tempfile.mkdtemp(prefix='c17-ag-')
            try:
                k = dict(kw)
                if save:
                    k['save_grammar_to'] = os.path.join(d, 'g.lt')
                out = fmt(ag.segment(nl(text), train_text=nl(train) if with_train else None, args=argstr, njobs=1, tempdir=d, **k))
                return {'out': out, 'g.lt': open(os.path.join(d, 'g.lt'), encoding='utf8').read()} if save else out
            finally:
                shutil.rmtree(d, ignore_errors=True)
        j = Job('ag', 'wordseg.algos.ag', ['-q'] + argv + ['@in.txt'], files, None, outfiles=('g.lt',) if save else (), env={'WORDSEG_VERIF_BINDIR': bindir}, tag='ag real')
        j.deferred = lambda f=f: _in_env({'WORDSEG_VERIF_BINDIR': bindir}, f)
        jobs.append(j)
    return jobs


# --------------------------------------------------------------------------------------
#  wordseg-dpseg: what the program receives for every option of the table
# --------------------------------------------------------------------------------------

# option -> short name, kind, values (command line value -> value the program must receive). The spelling the
# program expects is the one of desc.add_options() in dpseg/src/dpseg.cc: estimator V/F/T/D, ngram 1/2,
# forget-method U/P, eval-maximize 0/1 (unsigned), do-mbdp bool.
DP_TABLE = {
    'debug-level': ('-d', 'uint', ['3', '0']),
    'eval-file': ('-e', 'file', ['@eval.txt', '@my eval.txt']),
    'eval-maximize': (None, 'flag', None),
    'eval-interval': (None, 'uint', ['4', '0']),
    'estimator': ('-E', 'map', {'viterbi': 'V', 'flip': 'F', 'tree': 'T', 'decayed-flip': 'D'}),
    'decay-rate': ('-D', 'float', ['0.75', '0', '0.1234567']),
    'samples-per-utt': ('-S', 'uint', ['17', '0']),
    'mode': ('-m', 'map', {'online': 'online', 'batch': 'batch'}),
    'ngram': ('-n', 'map', {'unigram': '1', 'bigram': '2'}),
    'do-mbdp': (None, 'flag', None),
    'a1': (None, 'float', ['0.25', '0', '1e-07']),
    'b1': (None, 'float', ['3.5', '0']),
    'a2': (None, 'float', ['0.125', '0']),
    'b2': (None, 'float', ['4.5', '0']),
    'Pstop': ('-p', 'float', ['0.3', '0', '0.0000004']),
    'hypersamp-ratio': ('-H', 'float', ['0.2', '0']),
    'nchartypes': (None, 'uint', ['31', '0']),
    'aeos': (None, 'float', ['2.5', '0']),
    'init-pboundary': ('-b', 'float', ['0.4', '0', '-1']),
    'pya-beta-a': (None, 'float', ['1.5', '0']),
    'pya-beta-b': (None, 'float', ['2.5', '0']),
    'pya-gamma-s': (None, 'float', ['12', '0']),
    'pya-gamma-c': (None, 'float', ['0.3', '0', '0.30000000000000004']),
    'trace-every': (None, 'uint', ['6', '0']),
    'nsubjects': ('-s', 'uint', ['2', '0']),
    'forget-rate': ('-F', 'float', ['5', '0']),
    'burnin-iterations': ('-i', 'uint', ['9', '0']),
    'anneal-iterations': (None, 'uint', ['8', '0']),
    'anneal-start-temperature': (None, 'float', ['3.5', '0']),
    'anneal-stop-temperature': (None, 'float', ['1.5', '0']),
    'anneal-a': (None, 'float', ['0.6', '0', '12345.678901']),
    'anneal-b': (None, 'float', ['0.7', '0']),
    'result-field-separator': (None, 'str', [',', ';', '\t', ' ']),      # "\t" is the documented default
    'forget-method': (None, 'map', {'proportional': 'P', 'uniformly': 'U'}),
    'token-memory': ('-N', 'uint', ['21', '0']),
    'type-memory': ('-L', 'uint', ['22', '0']),
    'randseed': ('-r', 'uint', ['5', '0']),
    'config-file': ('-c', 'file', ['@conf.txt']),
}
# options main() always sends because their argparse default is not None: harmless only when equal to the
# default of the program itself
DP_CPP_DEFAULTS = {'pya-beta-b': 1.0, 'pya-gamma-s': 10.0, 'pya-gamma-c': 0.1}


def dpseg_option_jobs(ck, tables):
    rng = ck.rng
    jobs = []
    text = fmt(['a b c a', 'b a c', 'c a b b', 'a b'])
    files = {'in.txt': text, 'eval.txt': 'abc\n', 'my eval.txt': 'abc\n', 'conf.txt': 'a1 = 0.5\n'}
    if tables:
        py = set(n for n, _ in tables['dpseg_python']) - {'output-file'}
        assert py == set(DP_TABLE), 'the option table of wordseg-dpseg changed: %s' % sorted(py ^ set(DP_TABLE))

    def mk(given, nfolds, tag):
        """given: {option: command line value | True (flag)}"""
        argv, want = ['-q', '-f', str(nfolds)], {}
        items = list(given.items())
        rng.shuffle(items)
        for opt, val in items:
            short, kind, vals = DP_TABLE[opt]
            spell = short if short and rng.random() < 0.5 else '--' + opt
            if kind == 'flag':
                argv.append(spell)
                want[opt] = ('flag', None)
            else:
                argv += [spell, val]
                want[opt] = (kind, vals[val] if kind == 'map' else val)
        j = Job('dpseg-options', 'wordseg.algos.dpseg', argv + ['@in.txt'], files, None, capture=True, tag=tag)
        j.dpcheck = (want, nfolds)
        return j

    def first(opt, zero=False):
        short, kind, vals = DP_TABLE[opt]
        if kind == 'flag':
            return True
        if kind == 'map':
            return rng.choice(sorted(vals))
        if zero:
            return '0' if '0' in vals else None
        return vals[0]
    # every option at once, distinctive values
    jobs.append(mk({o: first(o) for o in DP_TABLE}, 1, 'dpseg all options'))
    # every option that has one at its zero value, the flags absent
    z = {o: first(o, zero=True) for o in DP_TABLE if DP_TABLE[o][1] not in ('flag', 'map', 'file', 'str')}
    jobs.append(mk({o: v for o, v in z.items() if v is not None}, 2, 'dpseg all options zero'))
    # no option at all
    jobs.append(mk({}, 1, 'dpseg no option'))
    # each option alone (every value of the enumerated ones); a sample of them in the quick tier
    singles = []
    for o, (short, kind, vals) in DP_TABLE.items():
        if kind == 'flag':
            singles.append((o, True))
        else:
            singles += [(o, v) for v in (sorted(vals) if kind == 'map' else vals)]
    if not ck.thorough:
        must = [s for s in singles if s[0] in ('estimator', 'ngram', 'forget-method') or s in (('result-field-separator', '\t'), ('eval-file', '@my eval.txt'))
                or s in (('a1', '1e-07'), ('Pstop', '0.0000004'), ('decay-rate', '0.1234567'), ('anneal-a', '12345.678901'), ('pya-gamma-c', '0.30000000000000004'))]      # magnitudes and precisions
        rest = [s for s in singles if s not in must]
        singles = must + [rest[i] for i in sorted(rng.sample(range(len(rest)), 8))]
    for o, v in singles:
        jobs.append(mk({o: v}, rng.choice([1, 2]), 'dpseg option ' + o + ('' if v is True else ' ' + repr(v))))
    return jobs


def parse_dpseg_argv(argv):
    """--name value pairs as boost::program_options reads them; returns (dict name -> [values], problems)"""
    got, bad = {}, []
    i = 0
    while i < len(argv):
        a = argv[i]
        if not a.startswith('--'):
            bad.append('stray token %r' % a)
            i += 1
            continue
        if i + 1 >= len(argv) or argv[i + 1].startswith('--'):
            bad.append('option %s without value' % a)
            i += 1
            continue
        got.setdefault(a[2:], []).append(argv[i + 1])
        i += 2
    return got, bad


def judge_dpopts(job, res, tables):
    want, nfolds = job.dpcheck
    if res['code'] != 0:
        return 'wordseg-dpseg failed with status %d: %s' % (res['code'], res['err'][-300:])
    if not res.get('argvs'):
        return 'the program was never called'
    cpp = dict(tables['dpseg_cpp']) if tables else None
    for argv in res['argvs']:
        got, bad = parse_dpseg_argv(argv)
        if bad:
            return 'the program received %r: %s' % (argv, '; '.join(bad))
        if 'output-file' not in got:
            return 'no --output-file in %r' % (argv,)
        for name, vals in got.items():
            if len(vals) != 1:
                return 'option --%s received %d times: %r' % (name, len(vals), vals)
            v = vals[0]
            if cpp is not None:
                if name not in cpp:
                    return 'the program has no option --%s (received %r)' % (name, argv)
                k = cpp[name]
                if (k == 'uint' and not re.fullmatch(r'\d+', v)) or (k == 'float' and not re.fullmatch(r'-?(\d+\.?\d*|\.\d+)([eE][-+]?\d+)?', v)) \
                        or (k == 'bool' and v.lower() not in ('1', '0', 'true', 'false', 'on', 'off', 'yes', 'no')):
                    return 'option --%s received the value %r which the program cannot read as %s' % (name, v, k)
            if name == 'output-file' or name in want:
                continue
            if name in ('eval-maximize', 'do-mbdp') and v.lower() in ('0', 'false'):
                continue
            if name in DP_CPP_DEFAULTS and float(v) == DP_CPP_DEFAULTS[name]:
                continue
            return 'option --%s %s reached the program although it was not given' % (name, v)
        for name, (kind, val) in want.items():
            if name not in got:
                return 'option --%s %s given on the command line did not reach the program (received %r)' % (name, '' if val is None else val, argv[2:])
            v = got[name][0]
            if kind == 'flag':
                ok = v.lower() in ('1', 'true')
            elif kind in ('uint', 'float'):
                try:
                    ok = float(v) == float(val)
                except ValueError:
                    ok = False
            elif kind == 'file':
                ok = v == val.replace('@', res['dir'] + '/')
            else:
                ok = v == val
            if not ok:
                return 'option --%s %s reached the program as %r' % (name, '' if val is None else val, v)
    return None


# --------------------------------------------------------------------------------------
#  failures of the ag / dpseg programs under the commands (stand-ins with a scripted fate)
# --------------------------------------------------------------------------------------

def failure_jobs(ck):
    rng = ck.rng
    jobs = []
    text = ['a b c a b', 'b a c', 'c a b a', 'a b']

    def plan_setup(var, plan):
        def setup(d):
            p = dict(plan)
            if 'by_call' in p:
                p['counter'] = os.path.join(d, 'counter')
            pf = os.path.join(d, 'plan.json')
            json.dump(p, open(pf, 'w'))
            return {var: pf}
        return setup

    def in_process(setup, f):
        def g():
            d = tempfile.mkdtemp(prefix='c17-plan-')
            try:
                return _in_env(setup(d) if setup else {}, lambda: f(d))
            finally:
                shutil.rmtree(d, ignore_errors=True)
        return g
    # ---- wordseg-ag
    seed = rng.randint(1, 99)
    ag_cases = [
        ('ag exit status', {'default': {'how': ['exit', 3]}}, 1, {}),
        ('ag killed', {'by_seed': {str(seed + 1): {'how': ['signal', 9]}}}, 2, {}),
        ('ag fails after a complete output', {'by_seed': {str(seed): {'how': ['exit', 1]}}}, 2, {}),
        ('ag truncated output, status 0', {'by_seed': {str(seed): {'complete': 1, 'partial': 1}}}, 1, {}),
        ('ag no failure', {}, 2, {}),
        ('ag unknown category', {}, 1, {'category': 'Nope'}),
        ('ag too many parses ignored', {}, 1, {'ignore_first_parses': 50}),
        ('ag missing grammar', {}, 1, {'grammar_file': '@missing.lt'}),
    ]
    for tag, plan, nruns, kw in ag_cases:
        setup = plan_setup('AG_STUB_PLAN', plan)
        argv = ['-q', '--nruns', str(nruns), '-r', str(seed), '-n', '4', '-x', '2']
        for k, v in kw.items():
            argv += ['--' + {'category': 'category', 'ignore_first_parses': 'ignore-first-parses', 'grammar_file': 'grammar'}[k], str(v)]

        def f(d, nruns=nruns, kw=kw):
            k = {a: (b.replace('@', d + '/') if isinstance(b, str) else b) for a, b in kw.items()}
            return fmt(ag.segment(nl(text), args='-d 100 -x 2 -n 4 -r %d' % seed, nruns=nruns, njobs=1, tempdir=d, **k))
        j = Job('ag', 'wordseg.algos.ag', argv + ['@in.txt'], {'in.txt': fmt(text)}, None, setup=setup, tag=tag)
        j.deferred = in_process(setup, f)
        jobs.append(j)
    jobs.append(Job('ag', 'wordseg.algos.ag', ['-q', '--nruns', '1', '-n', '4', '-T', '@missing.txt', '@in.txt'], {'in.txt': fmt(text)}, ('fatal', 'ValueError'), tag='ag -T missing'))
    # ---- wordseg-dpseg
    dp_cases = [
        ('dpseg exit status', {'default': {'how': ['exit', 2]}}, 1, text),
        ('dpseg killed', {'default': {'how': ['signal', 11]}}, 2, text),
        ('dpseg second fold fails', {'by_call': [{}, {'how': ['exit', 4]}]}, 2, text),
        ('dpseg fails after writing everything', {'default': {'how': ['exit', 1], 'written': None}}, 1, text),
        ('dpseg no failure', {}, 2, text),
        ('dpseg first line of one symbol', {}, 1, ['a', 'a b', 'b a']),
    ]
    for tag, plan, nfolds, txt in dp_cases:
        setup = plan_setup('DPSEG_STUB_PLAN', plan)

        def f(d, nfolds=nfolds, txt=txt):
            return fmt(dpseg.segment(nl(txt), nfolds=nfolds, njobs=1, args='--randseed 4 --pya-beta-b 1.0 --pya-gamma-s 10.0 --pya-gamma-c 0.1'))
        j = Job('dpseg', 'wordseg.algos.dpseg', ['-q', '-f', str(nfolds), '-r', '4', '@in.txt'], {'in.txt': fmt(txt)}, None, setup=setup, tag=tag)
        j.deferred = in_process(setup, f)
        jobs.append(j)
    return jobs


def ag_echo_jobs(ck, bindir):
    """every algorithm option of wordseg-ag set to a distinctive value and read back from the program's parameter echo"""
    rows = []
    values = {'--eval-every': ('x', '3'), '--niterations': ('n', '4'), '--resample-pycache-niter': ('R', '2'), '--randseed': ('r', '77'),
              '--pya': ('a', '0.25'), '--pyb': ('b', '50'), '--pya-beta-a': ('e', '1.5'), '--pya-beta-b': ('f', '2.5'),
              '--pyb-gamma-s': ('g', '30'), '--pyb-gamma-c': ('h', '0.5'), '--weight': ('w', '3'), '--train-frac': ('s', '0.5'),
              '--tstart': ('T', '4'), '--tstop': ('t', '2'), '--anneal-iterations': ('m', '7'), '--zstop': ('Z', '3'), '--ziterations': ('z', '1'),
              '--print-analyses-last': ('N', '2')}
    flags = {'--delay-init': ('D', '1'), '--dirichlet-prior': ('E', '1'), '--ordered-parse': ('I', '0'), '--predictive-parse-filter': ('P', '1'),
             '--random-training': ('S', '1')}
    text = fmt(['a b c', 'b a', 'c a b'])
    jobs = []
    items = list(values.items()) + list(flags.items()) + [('--skip-hastings', (None, None)), ('--print-compact-trees', (None, None))]
    if not ck.thorough:
        keep = {'--skip-hastings', '--ordered-parse', '--pyb-gamma-c', '--tstart', '--eval-every', '--pya', '--dirichlet-prior', '--ziterations'}
        items = [it for it in items if it[0] in keep]
    # zero is a value like any other: it must reach the program too (pya = 0 is the Dirichlet process,
    # seed 0 a fixed seed), not be replaced by the program's default
    zeros = [('--pya', ('a', '0')), ('--randseed', ('r', '0')), ('--ziterations', ('z', '0')), ('--pya-beta-a', ('e', '0'))]
    if ck.thorough:
        zeros += [('--pya-beta-b', ('f', '0')), ('--pyb-gamma-s', ('g', '0')), ('--pyb-gamma-c', ('h', '0')), ('--resample-pycache-niter', ('R', '0'))]
    items = items + zeros
    # a file-valued option: the program must write that file (also when its name holds a space)
    # ... or spells the wrapper's own -r / -n / -x options, with and without digits behind them
    items = items + [('--print-grammar-file', ('FILE', 'grammar.out')), ('--print-grammar-file', ('FILE', 'grammar out.txt')),
                     ('--print-grammar-file', ('FILE', 'g-r1-n5-x3.out')), ('--print-grammar-file', ('FILE', 'grammar-run-new-x.out'))]
    # an option of the program that the command accepts and documents ("test strings to be parsed ... default is to test on
    # input") but never hands over: known finding option_accepted_and_ignored
    j = Job('ag-echo', 'wordseg.algos.ag', ['-vv', '--nruns', '1', '-d', '100', '-n', '4', '-x', '2', '--test-file', '@no-such-file.txt', '@in.txt'],
            {'in.txt': text}, None, env={'WORDSEG_VERIF_BINDIR': bindir}, tag='ag-echo --test-file')
    j.check = ('--test-file', 'IGNORED', 'no-such-file.txt')
    j.known_class = 'option_accepted_and_ignored'
    jobs.append(j)
    for opt, (key, val) in items:
        argv = ['-vv', '--nruns', '1', '-d', '100', '-n', '4', '-x', '2']
        if key == 'FILE':
            j = Job('ag-echo', 'wordseg.algos.ag', argv + [opt, '@' + val, '@in.txt'], {'in.txt': text}, None, outfiles=(val,), env={'WORDSEG_VERIF_BINDIR': bindir},
                    tag='ag-echo %s %r' % (opt, val))
            j.check = (opt, key, val)
            jobs.append(j)
            continue
        if opt in values:
            argv = [a for a in argv]
            if opt == '--niterations':
                argv = ['-vv', '--nruns', '1', '-d', '100', '-x', '2']
            if opt == '--eval-every':
                argv = ['-vv', '--nruns', '1', '-d', '100', '-n', '4']
            argv += [opt, val]
        else:
            # a flag followed by another flag: neither may swallow the other
            argv += [opt, '--dirichlet-prior'] if opt != '--dirichlet-prior' else [opt]
        argv += ['@in.txt']
        j = Job('ag-echo', 'wordseg.algos.ag', argv, {'in.txt': text}, None, env={'WORDSEG_VERIF_BINDIR': bindir}, tag='ag-echo ' + opt + ' ' + str(val))
        j.check = (opt, key, val)
        jobs.append(j)
    return jobs


def judge_echo(job, res):
    opt, key, val = job.check
    if key == 'IGNORED':
        # the program is told "-u <tmp>/test.ylt" whatever --test-file says: a file that does not exist goes unnoticed
        m = re.search(r'running "([^"]*)"', res['err'])
        if res['code'] == 0 and m and val not in m.group(1):
            return 'option %s %s is accepted but never reaches the program (its command line: %s)' % (opt, val, m.group(1)[-120:])
        return None
    if res['code'] != 0:
        return 'wordseg-ag %s failed with status %d: %s' % (opt, res['code'], res['err'][-300:])
    if key == 'FILE':
        if not res['extra'].get(val):
            return 'option %s %r: the program did not write that file' % (opt, val)
        return None
    m = re.search(r'D = .*', res['err'])
    if not m:
        return 'no parameter echo in the output of wordseg-ag -vv'
    echo = dict(re.findall(r'(\w) = ([^,\s]+)', m.group(0)))
    if key is not None:
        got = echo.get(key)
        # main.cc keeps both annealing temperatures as inverses (1.0/atof(optarg)); its echo prints
        # "T = 1.0/anneal_start" (the temperature given) but "t = anneal_stop" (the inverse of the one given)
        want = 1.0 / float(val) if key == 't' else float(val)
        if got is None or abs(float(got) - want) > 1e-9 * max(1.0, abs(want)):
            return 'option %s %s reached the program as %s = %s' % (opt, val, key, got)
    if opt != '--dirichlet-prior' and opt not in ('--eval-every', '--niterations') and not any(opt == o for o in ()):
        if '--dirichlet-prior' in job.argv and echo.get('E') != '1':
            return 'the flag following %s was swallowed (E = %s)' % (opt, echo.get('E'))
    return None


def main():
    ck = Check('C17')
    tr_fail = []
    try:
        tables = translate_options.main()
    except translate_options.TranslationError as e:
        tables = None
        tr_fail.append('translator: ' + str(e))
        for ext in ('.v', '.vo', '.vok', '.vos', '.glob'):
            try:
                os.remove(os.path.join(COQ, 'gen', 'Options' + ext))
            except OSError:
                pass
    mains = None
    try:
        import translate_mains
        mains = translate_mains.main()
    except Exception as e:  # noqa  (TranslationError of either translator)
        tr_fail.append('translator (main functions): ' + str(e))
        for ext in ('.v', '.vo', '.vok', '.vos', '.glob'):
            try:
                os.remove(os.path.join(COQ, 'gen', 'Mains' + ext))
            except OSError:
                pass
    failures = ck.prove(gen=(['gen/Options.v'] if tables else []) + (['gen/Mains.v'] if mains else [])) + tr_fail
    if mains:
        ck.cov['main_writes'] = {n: [k, l] for n, k, l in mains}
    if tables:
        ck.cov['option_tables'] = {k: len(v) for k, v in tables.items()}
    jobs = build_jobs(ck) + sep_jobs(ck) + option_jobs(ck) + failure_jobs(ck)
    echo = []
    try:
        import agbuild
        bindir = agbuild.build()
        echo = ag_echo_jobs(ck, bindir)
        jobs += ag_segment_jobs(ck, bindir)
    except Exception as e:  # noqa
        ck.cov['ag_note'] = 'ag not built: ' + str(e)[-200:]
    for j in jobs:
        if j.expected is None and hasattr(j, 'deferred'):
            j.expected = expect(j.deferred)
    jobs += stdio_jobs(ck, jobs)
    dpo = dpseg_option_jobs(ck, tables)
    allj = jobs + echo + dpo
    with ThreadPoolExecutor(max_workers=16) as ex:
        results = list(ex.map(lambda j: j.run(), allj))
    bad = []
    for j, r in zip(allj, results):
        why = judge_echo(j, r) if hasattr(j, 'check') else judge_dpopts(j, r, tables) if hasattr(j, 'dpcheck') else judge(j, r)
        desc = {'command': j.name, 'what': j.tag, 'argv': j.argv, 'stdin': j.stdin, 'stdout': j.stdout, 'files': {k: v[:300] for k, v in j.files.items()}}
        ck.case(json.dumps(desc, sort_keys=True), True, sample={'command': j.name, 'argv': j.argv, 'expected': repr(j.expected)[:120], 'status': r['code']})
        ck.count('command:' + j.name)
        ck.count('expected:' + (j.expected[0] if j.expected else 'echo' if hasattr(j, 'check') else 'argv'))
        ck.count('io:' + ('stdin' if j.stdin else 'file') + '->' + ('stdout' if j.stdout else 'file'))
        if any(a in ('-p', '-s', '-w') for a in j.argv) and j.name in ('prep', 'stats', 'syll', 'dibs', 'baseline'):
            ck.count('separators on the command line')
        if why and getattr(j, 'known_class', None) and ck.match_known('python -m ' + j.module, {j.known_class}):
            why = None
        if why:
            bad.append((desc, j, r, why))
    # one witness for every kind of failing run
    seen = set()
    for desc, j, r, why in bad:
        kind = re.sub(r"sep\(.*\)", 'sep', j.tag)
        if kind in seen or len(seen) >= 12:
            continue
        seen.add(kind)
        ck.violation({'site': 'python -m ' + j.module, 'input': desc, 'expected': repr(j.expected)[:400], 'status': r['code'], 'stderr': r['err'][-4000:],
                      'result': (r['out'] or '')[:400], 'received': r.get('argvs')},
                     'property fails on the implementation (%s): %s' % (j.tag, why))
    if len(READINGS) > 1:
        ck.violation({'site': 'python -m wordseg.*', 'input': {'files': 'utterances separated by U+2028 / NEL / FF instead of newlines',
                                                               'lines end at str.splitlines boundaries for': READINGS.get(0, [])[:8],
                                                               'lines end at newlines only for': READINGS.get(1, [])[:8]}},
                     'property fails on the implementation: the commands do not agree on what ends a line of their input files: '
                     '%d runs cut the text at every Unicode line boundary (%s ...), %d only at newlines (%s ...)'
                     % (len(READINGS.get(0, [])), ', '.join(READINGS.get(0, [])[:2]), len(READINGS.get(1, [])), ', '.join(READINGS.get(1, [])[:2])))
        bad.append(None)
    ck.cov['line_boundary_readings'] = {str(k): len(v) for k, v in READINGS.items()}
    ck.cov['failing_runs'] = len(bad)
    if not bad:
        finish_proof_failures(ck, failures)
    else:
        ck.cov['failed_obligations'] = failures
    return ck.finish(
        rule='%d command runs: prep, eval (with -r/-s), stats (raw/JSON), syll (strip x tolerant x filling vowel), baseline (seed, probability incl. invalid, oracle file x level), '
             'tp (2 thresholds, train file, tiny corpora, deprecated -p), puddle (window, folds incl. too many, njobs, train file + by_frequency), dibs (3 types, thresholds and pwb incl. invalid, '
             'unit, diphone file, with and without train file), each with default and custom separator triples (-p/-s/-w, syllable or phone level undefined) where the command has them, '
             'with the text as file or on stdin and the result in a file or on stdout, dpseg and ag on the stand-ins (incl. scripted failures of the programs), ag on the program built from the tree '
             'against ag.segment (fixed seeds), each compared byte for byte with the formatted result of the Python function called in-process (exit status and one-line fatal error on '
             'ValueError/RuntimeError); %d wordseg-ag runs on the built program reading each option (incl. zero values) back from its parameter echo; %d wordseg-dpseg runs on the stand-in '
             'comparing the received argument vector with the option given (all options at once, all at zero, each alone). Non-trivial: every run.' % (len(jobs), len(echo), len(dpo)),
        assumptions=['argparse, the stream set-up and the formatting code are compared, not modelled in Coq; exceptions other than ValueError/RuntimeError are outside the property\'s statement'])


if __name__ == '__main__':
    sys.exit(main())
