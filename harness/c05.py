"""C05 — evaluation scores equal their set-theoretic definitions."""
import sys
from fractions import Fraction

from common import load_corpus, Check, correspond, decode_result, call_impl, finish_proof_failures, text2j
import evalgen as eg

from wordseg import evaluate as ev


def dec_scores(w):
    def q(o):
        return None if not o else Fraction(o[0][0], o[0][1])

    def f(v):
        out = {}
        for k, c in zip(eg.SCORE_KEYS, v[:4]):
            out[k] = (q(c[3]), q(c[4]), q(c[5]))
        return out, q(v[4])
    return decode_result(w, f)


_FOREIGN = []


def impl_eval(text, gold, units):
    # a history: the same strings have been looked at before by OTHER Separator objects (the tagged corpus' one, a
    # word-only one) - as in a session that prepares, inspects and then scores a text; evaluate() must not care
    if not _FOREIGN:
        from wordseg.separator import Separator
        _FOREIGN.extend([Separator(phone=' ', syllable=None, word=';eword'), Separator(phone=None, syllable=None, word='_')])
    for k, line in enumerate(list(text)[:3] + list(gold)[:3]):
        for lvl in ('word', 'phone'):
            try:
                _FOREIGN[k % 2].tokenize(line, lvl, keep_boundaries=(k % 3 != 2))
            except Exception:      # noqa: the foreign separator may not have that level
                pass
    r = call_impl(ev.evaluate, list(text), list(gold), None if units is None else list(units))
    if r[0] == 'ok':
        return ('ok', eg.impl_scores(r[1]))
    return r


def eq_scores(m, i):
    if m[0] != i[0]:
        return False
    if m[0] == 'raise':
        return m[1] == i[1]
    (ms, ma), (is_, ia) = m[1], i[1]
    for k in eg.SCORE_KEYS:
        for a, b in zip(ms[k], is_[k]):
            if not eg.close(b, a):
                return False
    return eg.close(ia, ma)


def make_case(text, gold, units, family, consistent=True):
    def oracle(out):
        if not consistent:
            return None
        if out[0] != 'ok':
            return 'consistent pair raised ' + out[1]
        sc, ari = out[1]
        ref = eg.reference_scores(text, gold)
        for k in eg.SCORE_KEYS:
            for name, got, want in zip(('precision', 'recall', 'fscore'), sc[k], ref[k]):
                if not eg.close(got, want):
                    return '%s_%s = %r but the definition gives %s' % (k, name, got, want)
                if got is not None and not (0.0 <= got <= 1.0):
                    return '%s_%s = %r outside [0,1]' % (k, name, got)
        if units:
            # evaluate() drops the blank lines of text, gold and units independently and pairs what is left in order
            nb_t, nb_g, nb_u = ([x for x in ls if x.strip()] for ls in (text, gold, units))
            if not (len(nb_t) == len(nb_g) == len(nb_u)):
                return 'harness: text, gold and units do not have the same number of non-blank lines'
            lt = eg.labels_of(nb_t, nb_u)
            lg = eg.labels_of(nb_g, nb_u)
            if lt is not None and lg is not None:
                want = eg.reference_ari(lg, lt)
                if not eg.close(ari, want):
                    return 'adjusted_rand_index = %r but the pair-counting definition gives %s' % (ari, want)
                same = [eg.words_of(t) for t in nb_t] == [eg.words_of(g) for g in nb_g]
                if (abs(ari - 1.0) < 1e-12) != same:
                    return 'adjusted_rand_index = %r for %s segmentations' % (ari, 'identical' if same else 'different')
        # self score and swap symmetry, on the implementation
        s = impl_eval(text, text, units)
        if s[0] != 'ok':
            return 'scoring a text against itself raised ' + s[1]
        for k in eg.SCORE_KEYS:
            for v in s[1][0][k]:
                if v is not None and abs(v - 1.0) > 1e-12:
                    return 'self score %s = %r' % (k, v)
        if units and s[1][1] is not None and abs(s[1][1] - 1.0) > 1e-12:
            return 'self adjusted_rand_index = %r' % (s[1][1],)
        w = impl_eval(gold, text, units)
        if w[0] != 'ok':
            return 'swapped evaluation raised ' + w[1]
        for k in eg.SCORE_KEYS:
            p, r, f = sc[k]
            p2, r2, f2 = w[1][0][k]
            if not (eg.close(p, r2) and eg.close(r, p2) and eg.close(f, f2)):
                return 'swap symmetry broken for ' + k
        if units and not eg.close(ari, w[1][1]):
            return 'swap changes the adjusted_rand_index'
        return None

    def classes(out):
        ws = {w for l in list(text) + list(gold) for w in eg.words_of(l)}
        return {'underscore_in_lexicon'} if '_' in ws else set()

    return dict(op=501, arg=[text2j(text), text2j(gold), [] if units is None else [text2j(units)]],
                site='evaluate.evaluate', desc={'text': text, 'gold': gold, 'units': units, 'family': family},
                impl=lambda: impl_eval(text, gold, units), dec=dec_scores, eq=eq_scores,
                oracle=oracle, classes=classes,
                nontrivial=lambda m: m[0] == 'raise' or any(v not in (None, 1) for k in eg.SCORE_KEYS for v in m[1][0][k]))


def main():
    ck = Check('C05')
    failures = ck.prove()
    rng = ck.rng
    cases = []
    for c in load_corpus('C05'):
        cases.append(make_case(c['text'], c['gold'], c.get('units'), 'corpus'))
    L = 6 if ck.thorough else 4
    for s, tm, gm in eg.exhaustive_pairs(['a', 'b'], L):
        t = eg.apply_mask(s, tm)
        g = eg.apply_mask(s, gm)
        cases.append(make_case([t], [g], [' '.join(s)], 'exhaustive-1utt'))
    # two-utterance combinations of short strings
    small = [(s, tm, gm) for s, tm, gm in eg.exhaustive_pairs(['a', 'b'], 3)]
    for _ in range(1500 if ck.thorough else 150):
        a, b = rng.choice(small), rng.choice(small)
        text = [eg.apply_mask(a[0], a[1]), eg.apply_mask(b[0], b[1])]
        gold = [eg.apply_mask(a[0], a[2]), eg.apply_mask(b[0], b[2])]
        units = [' '.join(a[0]), ' '.join(b[0])]
        cases.append(make_case(text, gold, rng.choice([None, units]), 'exhaustive-2utt-sample'))
    alphas = [['a', 'b', 'c'], ['a', 'b', 'ab', 'ba', 'aa'], ['uː', 'dʒ', 'ʌ', 'ŋ'], ['_', 'a', 'b'], ['U', 'B', '_']]
    for k in range(4000 if ck.thorough else 300):
        al = alphas[k % len(alphas)]
        text, gold, units = eg.random_triple(rng, al)
        mode = rng.randint(0, 3)
        u = units if mode != 0 else None
        fam = 'random-' + ''.join(al)[:6]
        if mode == 2:
            text = [eg.respace(rng, t) for t in text]
            gold = [eg.respace(rng, g) for g in gold]
            fam += '-respaced'
            # the units text keeps its single spaces or is respaced too: the index must not depend on it
            if rng.random() < 0.5:
                u = [eg.respace(rng, x) for x in units]
                fam += '-units-respaced'
        if mode == 3:
            text = eg.interleave_blank(rng, text)
            gold = eg.interleave_blank(rng, gold)
            fam += '-blank'
            # blank lines are dropped from text, gold and units independently: the units text with or without its own
            if rng.random() < 0.5:
                u = eg.interleave_blank(rng, units)
                fam += '-units-blank'
            if rng.random() < 0.25:
                text = [eg.respace(rng, t) if t.strip() else t for t in text]
                fam += '-respaced'
        cases.append(make_case(text, gold, u, fam))
    # malformed stream: inconsistent pairs (correspondence only; C06 judges them)
    for k in range(400 if ck.thorough else 60):
        text, gold, units = eg.random_triple(rng, ['a', 'b', 'c'])
        which = rng.randint(0, 2)
        if which == 0:
            gold = gold[:-1] if len(gold) > 1 else gold + ['a']
        elif which == 1:
            gold[0] = gold[0] + 'x'
        else:
            units[0] = units[0] + ' x'
        cases.append(make_case(text, gold, units, 'malformed', consistent=False))
    for c in cases:
        ck.count('family:' + c['desc']['family'])
    correspond(ck, cases)
    n, problems = ck.coq_recheck()
    finish_proof_failures(ck, failures + problems)
    return ck.finish(
        rule='exhaustive (string over {a,b}, text mask, gold mask) up to length %d with units; sampled 2-utterance combinations; '
             'random multi-utterance corpora (repeated words, ambiguous and non-ASCII alphabets, lexicon containing "_", respaced, blank lines); '
             'inconsistent pairs as malformed stream. Floats compared with exact rationals (1e-9). '
             'Non-trivial = some score differs from 1/None or an error.' % L,
        assumptions=['sklearn.adjusted_rand_score computes the pair-confusion formula (checked against the reference on every case with units)'])


if __name__ == '__main__':
    sys.exit(main())
