"""C13 — corpus statistics equal direct counts of the tagged corpus."""
import collections
import math
import sys
from fractions import Fraction

from common import load_corpus, Check, correspond, decode_result, call_impl, finish_proof_failures, text2j, j2s
import seplib as sl
import evalgen as eg

from wordseg.statistics import CorpusStatistics
from wordseg.separator import Separator

SEPS = [(' ', ';esyll', ';eword'), ('_', ';esyll', ';eword'), (' ', None, ';eword'), (None, ';esyll', ';eword'),
        (None, None, ';eword'), ('_', None, ' '), (None, None, ' '), ('/', '=', '@@')]


def impl_stats(text, sep):
    def f():
        st = CorpusStatistics(list(text), Separator(*sep))
        d = st.describe_all()
        # the object can be asked again (reports per level, most common tokens, the whole description): a report
        # is a function of the corpus, not of what was asked before
        for level in st.separator.levels():
            st.most_common_tokens(level, n=2)
            st.most_common_tokens(level)
            if st.describe_tokens(level) != d[level + 's']:
                raise AssertionError('describe_tokens(%s) after describe_all() differs from the first report' % level)
        d2 = st.describe_all()
        if d2 != d:
            raise AssertionError('a second describe_all() on the same object differs from the first')
        return d, {k: dict(v) for k, v in st.unigram.items()}
    return call_impl(f)


def dec_stats(w):
    def q(v):
        return Fraction(v[0], v[1])

    def ls(v):
        return dict(tokens=v[0], types=v[1], hapaxes=v[2], unigram={j2s(k): q(p) for k, p in v[3]})

    def f(v):
        ent = None
        if v[3]:
            probs, n = v[3][0]
            ent = ([q(p) for p in probs], n)
        return dict(nutts=v[0], single=v[1], mattr=q(v[2]), entropy=ent, words=ls(v[4]),
                    syllables=ls(v[5][0]) if v[5] else None, phones=ls(v[6][0]) if v[6] else None)
    return decode_result(w, f)


def entropy_of(probs, n):
    return -1 * sum(float(p) * math.log(float(p), 2) / float(n - 1) for p in probs)


def eq_stats(m, i):
    if m[0] != i[0]:
        return False
    if m[0] == 'raise':
        return m[1] == i[1]
    mm = m[1]
    d, uni = i[1]
    c = d['corpus']
    if c['nutts'] != mm['nutts'] or c['nutts_single_word'] != mm['single'] or not eg.close(c['mattr'], mm['mattr']):
        return False
    if ('entropy' in c) != (mm['entropy'] is not None):
        return False
    if mm['entropy'] is not None and not eg.close(c['entropy'], entropy_of(*mm['entropy'])):
        return False
    for lv in ('words', 'syllables', 'phones'):
        if (lv in d) != (mm[lv] is not None):
            return False
        if lv in d:
            if any(d[lv][k] != mm[lv][k] for k in ('tokens', 'types', 'hapaxes')):
                return False
            u = uni[lv[:-1]]
            if set(u) != set(mm[lv]['unigram']) or any(not eg.close(u[k], mm[lv]['unigram'][k]) for k in u):
                return False
    return True


def reference(trees, sep):
    """direct counts over the token hierarchy"""
    p, s, w = sep
    words = [sl.words_of(t) for t in trees]
    levels = {'words': words}
    if s:
        levels['syllables'] = [sl.sylls_of(t, sep) for t in trees]
    if p:
        levels['phones'] = [sl.phones_of(t, sep) for t in trees]
    res = {}
    for lv, toks in levels.items():
        flat = [x for u in toks for x in u]
        cnt = collections.Counter(flat)
        res[lv] = dict(tokens=len(flat), types=len(cnt), hapaxes=sum(1 for v in cnt.values() if v == 1),
                       unigram={k: Fraction(v, len(flat)) for k, v in cnt.items()})
    flat = [x for u in words for x in u]
    # moving-average type/token ratio: the mean over ALL the windows of ten consecutive word tokens (len - 10 + 1 of them).
    # The code leaves the last window out (range(len - size)): known finding `mattr_last_window_missing`, its value is
    # kept next to the definition so that the finding can be told from any other discrepancy
    n = len(flat) - 10
    mattr = sum(Fraction(len(set(flat[x:x + 10])), 10) for x in range(n + 1)) / (n + 1)
    mattr_code = sum(Fraction(len(set(flat[x:x + 10])), 10) for x in range(n)) / n
    res['corpus'] = dict(nutts=len(trees), single=sum(1 for u in words if len(u) == 1), mattr=mattr, mattr_without_last_window=mattr_code)
    if p:
        nph = len([x for u in levels['phones'] for x in u])
        res['corpus']['entropy'] = entropy_of([res['words']['unigram'][x] for x in flat], nph)
    return res


TAILS = ['newline', 'newline', 'no-newline', 'blank-lines', 'blank-lines-no-newline']


def make_case(trees, sep, style, rng, family, tail='newline'):
    """tail: how the file ends after the last utterance"""
    lines = [sl.render(t, sep, style) for t in trees]
    text = []
    for l in lines:
        while rng.random() < 0.2:
            text.append(rng.choice(['\n', ' \n', '']))
        text.append(l + '\n')
    if tail == 'no-newline' and text:
        text[-1] = text[-1][:-1]                          # last utterance as read from a file without final newline
    if tail.startswith('blank-lines'):
        for _ in range(rng.randint(1, 3)):
            text.append(rng.choice(['\n', ' \n', '  \n', '\t\n']))
        if tail == 'blank-lines-no-newline':
            text.append(rng.choice([' ', '  ', '\t']))   # whitespace-only last line without newline
    family = family if tail == 'newline' else family + '+' + tail

    def oracle(out):
        why = oracle_but_mattr(out)
        if why or out[0] != 'ok':
            return why
        c, ref = out[1][0]['corpus'], reference(trees, sep)
        if not eg.close(c['mattr'], ref['corpus']['mattr']):
            return 'mattr %r differs from the definition %s (mean over all %d windows of ten word tokens)' % (
                c['mattr'], float(ref['corpus']['mattr']), ref['words']['tokens'] - 9)
        return None

    def oracle_but_mattr(out):
        if out[0] != 'ok':
            return 'describe_all raised ' + out[1]
        d, uni = out[1]
        ref = reference(trees, sep)
        c = d['corpus']
        if c['nutts'] != ref['corpus']['nutts'] or c['nutts_single_word'] != ref['corpus']['single']:
            return 'utterance counts %r differ from %r' % (dict(c), ref['corpus'])
        if 'entropy' in ref['corpus'] and not eg.close(c.get('entropy'), ref['corpus']['entropy']):
            return 'entropy %r differs from the definition %r' % (c.get('entropy'), ref['corpus']['entropy'])
        prev = None
        for lv in ('phones', 'syllables', 'words'):
            if (lv in ref) != (lv in d):
                return 'level %s reported/defined mismatch' % lv
            if lv not in ref:
                continue
            for k in ('tokens', 'types', 'hapaxes'):
                if d[lv][k] != ref[lv][k]:
                    return '%s.%s = %r, direct count %r' % (lv, k, d[lv][k], ref[lv][k])
            if not (d[lv]['hapaxes'] <= d[lv]['types'] <= d[lv]['tokens']):
                return 'hapaxes <= types <= tokens violated at ' + lv
            u = uni[lv[:-1]]
            if abs(sum(u.values()) - 1.0) > 1e-9:
                return 'unigram probabilities of %s sum to %r' % (lv, sum(u.values()))
            if set(u) != set(ref[lv]['unigram']) or any(not eg.close(u[k], ref[lv]['unigram'][k]) for k in u):
                return 'unigram distribution of %s differs from count/total' % lv
            if prev is not None and d[lv]['tokens'] > prev:
                return 'token counts increase from a lower level to ' + lv
            prev = d[lv]['tokens']
        return None
    def classes(out):
        # space-padded tagging whose spaces are not phone separators: the tokens of the implementation keep padding spaces
        if style != 'compact' and sep[0] != ' ' and out[0] == 'ok' and any(' ' in k for u in out[1][1].values() for k in u):
            return {'padding_space_inside_token'}
        # everything else agrees with the direct counts and the reported ratio is exactly the mean without the last window
        if out[0] == 'ok' and oracle_but_mattr(out) is None:
            ref = reference(trees, sep)
            m = out[1][0]['corpus']['mattr']
            if not eg.close(m, ref['corpus']['mattr']) and eg.close(m, ref['corpus']['mattr_without_last_window']):
                return {'mattr_last_window_missing'}
        return set()
    return dict(op=1301, arg=[text2j(text), sl.sepj(sep)], site='statistics.CorpusStatistics',
                desc={'text': text, 'sep': sep, 'family': family},
                impl=lambda: impl_stats(text, sep), dec=dec_stats, eq=eq_stats, oracle=oracle, classes=classes, nontrivial=lambda m: True)


def main():
    ck = Check('C13')
    failures = ck.prove()
    rng = ck.rng
    cases = []
    n = 1200 if ck.thorough else 150
    for k in range(n):
        fam = ['ascii', 'multi', 'ipa'][k % 3]
        sep = SEPS[k % len(SEPS)]
        phones = sl.PHONES[fam]
        lexi = [sl.rand_tree(rng, phones, nwords=1)[0] for _ in range(rng.randint(2, 8))]
        trees = []
        while sum(len(t) for t in trees) <= 10 + rng.randint(0, 15):
            trees.append([rng.choice(lexi) for _ in range(rng.randint(1, 5))])
        if not all(sl.tree_ok(t, sep) for t in trees):
            continue
        # space-padded tagging for every triple that allows it (padded; fullpad with a non-space phone separator)
        pads = [st for st in sl.padded_styles(sep) if st != 'joined-padded']
        style = rng.choice(pads) if pads and rng.random() < 0.6 else 'compact'
        cases.append(make_case(trees, sep, style, rng, 'trees-%s-%s' % (fam, style), tail=TAILS[(k // len(SEPS)) % len(TAILS)]))
    # separators written with their leading space (' ;esyll', ' ;eword' next to the phone separator ' '): the tags of the usual
    # format 'hh ih r ;esyll ;eword' read as strings; the lower separator is then part of the higher ones and the levels must
    # be taken from the word down. Homographs with different syllabifications included, so that a left-over tag would show.
    nested = (' ', ' ;esyll', ' ;eword')
    for k in range(40 if ck.thorough else 8):
        phones = sl.PHONES[['ascii', 'ipa'][k % 2]]
        lexi = [sl.rand_tree(rng, phones, nwords=1)[0] for _ in range(rng.randint(2, 6))]
        flat = [ph for syl in lexi[0] for ph in syl]
        if len(flat) >= 3:
            lexi += [[flat[:1], flat[1:]], [flat[:2], flat[2:]]]
        trees = []
        while sum(len(t) for t in trees) <= 11 + rng.randint(0, 12):
            trees.append([rng.choice(lexi) for _ in range(rng.randint(1, 4))])
        if all(sl.tree_ok(t, (' ', ';esyll', ';eword')) for t in trees):      # (tree_ok refuses nested separators: judged on the bare tags)
            cases.append(make_case(trees, nested, 'joined-inner', rng, 'trees-nested-separators', tail=TAILS[k % len(TAILS)]))
    # homographs: word tokens with the same surface string but another syllabification or another grouping
    # of the characters into phones ('a.ba' / 'ab.a', 'tʃ ɪ' / 't ʃ ɪ'): every token counts with its own hierarchy
    for k in range(120 if ck.thorough else 24):
        sep = SEPS[k % len(SEPS)]
        phones = ['a', 'b', 'ab', 'ba'] if k % 2 else ['t', 'ʃ', 'tʃ', 'ɪ']
        base = [rng.choice(phones) for _ in range(rng.randint(3, 5))]

        def regroup(seq):
            # another hierarchy for the same characters: re-cut the character string into phones, then into syllables
            chars, out, i = ''.join(seq), [], 0
            while i < len(chars):
                n = 2 if chars[i:i + 2] in phones and rng.random() < 0.5 else 1
                out.append(chars[i:i + n])
                i += n
            syls, j = [], 0
            while j < len(out):
                n = rng.randint(1, 2)
                syls.append(out[j:j + n])
                j += n
            return syls
        variants = [regroup(base) for _ in range(4)]
        other = [sl.rand_tree(rng, phones, nwords=1)[0] for _ in range(3)]
        words = [rng.choice(variants + other) for _ in range(rng.randint(12, 20))]
        trees = []
        while words:
            n = rng.randint(1, 5)
            trees.append(words[:n])
            words = words[n:]
        if not all(sl.tree_ok(t, sep) for t in trees):
            continue
        cases.append(make_case(trees, sep, 'compact', rng, 'homographs', tail=rng.choice(TAILS)))
    # extreme type profiles at one level: every word a hapax (all types occur once), no hapax at all (every type
    # at least twice), a single type, exactly one hapax in first / last position of the frequency order
    for k in range(80 if ck.thorough else 20):
        fam = ['ascii', 'multi', 'ipa'][k % 3]
        sep = SEPS[k % len(SEPS)]
        pool = []
        for _ in range(400):
            w = sl.rand_tree(rng, sl.PHONES[fam], nwords=1)[0]
            if w not in pool:
                pool.append(w)
            if len(pool) >= 16:
                break
        profile = k % 5
        if profile == 0:
            words = pool[:rng.randint(11, len(pool))] if len(pool) >= 11 else pool * 2
        elif profile == 1:
            words = [w for w in pool[:rng.randint(3, 6)] for _ in range(rng.randint(2, 4))]
        elif profile == 2:
            words = [pool[0]] * rng.randint(11, 15)
        elif profile == 3:
            words = [pool[0]] + [w for w in pool[1:5] for _ in range(3)]
        else:
            words = pool[:12] + [pool[3]]
        while len(words) < 11:
            words = words + words
        rng.shuffle(words)
        trees = []
        while words:
            n = rng.randint(1, 5)
            trees.append(words[:n])
            words = words[n:]
        if not all(sl.tree_ok(t, sep) for t in trees):
            continue
        cases.append(make_case(trees, sep, 'compact', rng, 'type-profile-%d' % profile, tail=rng.choice(TAILS)))
    # every total number of word tokens in a range (hapaxes and twice-seen words included): the statistics
    # are ratios of counts, and float formulas that recover counts from probabilities go wrong only at some totals
    for W in list(range(11, 40)) + list(range(40, 261 if ck.thorough else 111)):
        fam = ['ascii', 'multi', 'ipa'][W % 3]
        sep = SEPS[W % len(SEPS)]
        lexi = [sl.rand_tree(rng, sl.PHONES[fam], nwords=1)[0] for _ in range(rng.randint(5, 9))]
        words = [lexi[0], lexi[1], lexi[1], lexi[2]] + [rng.choice(lexi[3:]) for _ in range(W - 4)]
        rng.shuffle(words)
        trees = []
        shape = W % 7          # one utterance holding every word / single-word utterances only / mixed
        while words:
            k = len(words) if shape == 0 else 1 if shape == 1 else rng.randint(1, 6)
            trees.append(words[:k])
            words = words[k:]
        if not all(sl.tree_ok(t, sep) for t in trees):
            continue
        cases.append(make_case(trees, sep, 'compact', rng, 'token-total-sweep', tail=rng.choice(TAILS)))
        # the same total in space-padded tagging, with another triple
        sep2 = SEPS[(W + 3) % len(SEPS)]
        pads = [st for st in sl.padded_styles(sep2) if st != 'joined-padded']
        if pads and all(sl.tree_ok(t, sep2) for t in trees):
            cases.append(make_case(trees, sep2, pads[W % len(pads)], rng, 'token-total-sweep-padded', tail=rng.choice(TAILS)))
    # malformed stream: too few words, empty corpus, no word separator (correspondence only)
    for text, sep in ((['a b ;eword\n'], (' ', None, ';eword')), ([], (' ', None, ';eword')), (['\n', ' \n'], (' ', None, ';eword')),
                      (['a b c\n'], (' ', None, None)), ([';eword\n'], (' ', ';esyll', ';eword')), (['a ;eword b ;eword\n'] * 6, (' ', None, ';eword'))):
        c = make_case([], sep, 'compact', rng, 'malformed')
        c['arg'] = [text2j(text), sl.sepj(sep)]
        c['desc'] = {'text': text, 'sep': sep, 'family': 'malformed'}
        c['impl'] = (lambda text=text, sep=sep: impl_stats(text, sep))
        c['oracle'] = None
        cases.append(c)
    for c in cases:
        ck.count('family:' + c['desc']['family'])
    correspond(ck, cases)
    nre, problems = ck.coq_recheck()
    finish_proof_failures(ck, failures + problems)
    return ck.finish(
        rule='%d random corpora of more than ten word tokens built from word/syllable/phone trees (repeated words, multi-character and non-ASCII phones, lines with their newline, '
             'blank and whitespace-only lines between and after the utterances, last line with or without newline) x %d separator triples with phone and/or syllable level undefined '
             'x compact / space-padded tagging (padded, fullpad; also with non-space and undefined phone separators), and a sweep over every total number of word tokens in compact and padded tagging; '
             'describe_all() and unigram compared with the model and with direct counts '
             '(floats vs exact rationals, 1e-9; the entropy sum is evaluated in floating point from the model\'s rational ingredients).' % (n, len(SEPS)))


if __name__ == '__main__':
    sys.exit(main())
