"""C09 — TP boundary rule: correspondence of TP/Model.v with tp.segment and a
positional oracle computed independently from raw counts (exact fractions)."""
import collections
import sys
from fractions import Fraction

from common import Check, correspond, decode_result, call_impl, finish_proof_failures, text2j, j2text
import gens

from wordseg.algos import tp

THR = ['relative', 'absolute']
DEP = ['ftp', 'btp', 'mi']
EPS = Fraction(1, 10**9)


MARK = ('<utterance boundary>',)      # equal to no unit (the code used the string 'UB' before fix 52858bf)


def stream(text_units):
    s = []
    for i, u in enumerate(text_units):
        if i:
            s.append(MARK)
        s.extend(u)
    return s


def expected_cuts(text_units, train_units, thr, dep):
    """positional rule of the property. Returns (list of per-utterance
    {cut: True/False/None(not judged)}, near_tie flag)"""
    U = stream(text_units)
    T = stream(train_units) if train_units is not None else U
    uni = collections.Counter(T)
    big = collections.Counter(zip(T[:-1], T[1:]))

    def val(a, b):
        f = big.get((a, b), 0)
        if f == 0:
            return Fraction(1) if dep == 'mi' else Fraction(0)
        if dep == 'ftp':
            return Fraction(f, uni[a])
        if dep == 'btp':
            return Fraction(f, uni[b])
        return Fraction(f, uni[a] * uni[b])     # argument of log2

    near = False

    def lt(x, y):     # x < y, flagging near ties
        nonlocal near
        if x != y and abs(x - y) * 10**9 < max(abs(x), abs(y)):
            near = True
        return x < y

    types = list(big.keys())
    n = len(types)

    def le_mean(v):
        nonlocal near
        if n == 0:
            return v <= (1 if dep == 'mi' else 0)
        if dep == 'mi':
            a, b = v ** n, Fraction(1)
            for t in types:
                b *= val(*t)
            if a == b or abs(a - b) * 10**9 < max(a, b) * n:
                near = True
            return a <= b
        a = v
        vals = [val(*t) for t in types]
        b = sum(vals) / n
        # an exact tie is judged ("not greater than the mean" gives a boundary) when the float computation is
        # exact too: every dependency value is a dyadic rational, so the sum, the mean (equal to a) and the
        # comparison carry no rounding; other ties and near ties are not judged
        dyadic = all(x.denominator & (x.denominator - 1) == 0 and x.denominator <= 2**20 for x in vals)
        if (a == b and not dyadic) or (a != b and abs(a - b) * 10**9 < max(abs(a), abs(b))):
            near = True
        return a <= b

    res = []
    p = 0
    pos = 0   # index in U of the first unit of the current utterance
    for utt in text_units:
        cuts = {}
        for j in range(1, len(utt)):
            q = pos + j - 1          # pair (U[q], U[q+1]) inside the utterance
            if thr == 'relative':
                if q == 0 or q + 2 >= len(U):
                    cuts[j] = None   # first / last pair of the whole stream: not judged
                else:
                    cuts[j] = lt(val(U[q], U[q + 1]), val(U[q - 1], U[q])) and lt(val(U[q], U[q + 1]), val(U[q + 1], U[q + 2]))
            else:
                cuts[j] = le_mean(val(U[q], U[q + 1]))
        res.append(cuts)
        pos += len(utt) + 1
    return res, near


def in_scope(text_units, train_units):
    """inputs on which the positional rule is defined and C01 holds:
    >= 3 units (texts containing 'UB' are in scope since fix 52858bf)"""
    return sum(len(u) for u in text_units) + max(0, len(text_units) - 1) >= 3


def make_case(ck, text_units, train_units, ti, di, family, before=None):
    text = gens.lines(text_units)
    train = None if train_units is None else gens.lines(train_units)
    thr, dep = THR[ti], DEP[di]
    scope = in_scope(text_units, train_units)

    def dec(w):
        r = decode_result(w[0], j2text)
        return (r, bool(w[1]))

    def impl():
        if before is not None:
            # a history: another text segmented first with the SAME training text and dependency (any threshold); the
            # call under test must answer as if it were the first one
            call_impl(tp.segment, gens.lines(before), None if train is None else list(train), THR[1 - ti], dep)
            call_impl(tp.segment, gens.lines(before), None if train is None else list(train), thr, dep)
        return call_impl(tp.segment, list(text), None if train is None else list(train), thr, dep)

    def oracle(out):
        if not scope:
            return None
        if out[0] != 'ok':
            return 'in-scope input raised ' + out[1]
        bad = gens.aligned(text_units, out[1])
        if bad:
            return bad
        exp, near = expected_cuts(text_units, train_units, thr, dep)
        if near:
            return None
        for i, (u, o) in enumerate(zip(text_units, out[1])):
            cuts = gens.seg_cuts(u, o)
            for j, e in exp[i].items():
                if e is None:
                    continue
                if (j in cuts) != e:
                    return ('utterance %d: boundary between unit %d and %d is %s but the rule says %s'
                            % (i, j - 1, j, j in cuts, e))
        return None

    return dict(op=901, arg=[text2j(text), [] if train is None else [text2j(train)], ti, di],
                site='tp.segment', desc={'text': text, 'train': train, 'threshold': thr, 'dependency': dep, 'family': family},
                impl=impl, dec=dec, oracle=oracle,
                eq=lambda m, i: m[0] == i,
                skip=lambda m: m[1] and (not scope or expected_cuts(text_units, train_units, thr, dep)[1]), res_of=lambda m: m[0],
                nontrivial=lambda m: m[0][0] == 'raise' or any(' ' in u for u in m[0][1]))


def main():
    ck = Check('C09')
    failures = ck.prove()
    cases = []
    rng = ck.rng
    max_units = 6 if ck.thorough else 5
    # exhaustive over {a, b}
    for tu in gens.exhaustive_texts(['a', 'b'], max_units, 3):
        trains = [None]
        if sum(len(u) for u in tu) <= 4:
            trains += [[['a', 'b', 'a']], [['b', 'b'], ['a']]]
        for tr in trains:
            for ti in range(2):
                for di in range(3):
                    cases.append(make_case(ck, tu, tr, ti, di, 'exhaustive-ab'))
    # random corpora with planted words, several alphabets; marker alphabet mandatory
    nrand = 3000 if ck.thorough else 350
    for k in range(nrand):
        alpha = gens.ALPHABETS[['ascii1', 'prefixy', 'ipa', 'marker'][k % 4]]
        sub = rng.sample(alpha, min(len(alpha), rng.randint(2, 5)))
        tu, _ = gens.random_text(rng, sub, nutts=rng.randint(1, 10))
        mode = rng.randint(0, 2)
        tr = None if mode == 0 else (tu if mode == 1 else gens.random_text(rng, sub)[0])
        cases.append(make_case(ck, tu, tr, rng.randint(0, 1), rng.randint(0, 2),
                               'random-' + ['ascii1', 'prefixy', 'ipa', 'marker'][k % 4]))
    # call histories: a text full of pairs the training text never shows is segmented first with the same training text
    for k in range(200 if ck.thorough else 40):
        sub = ['a', 'b', 'c', 'd'] if k % 2 == 0 else ['uː', 'dʒ', 'ʌ', 'ŋ']
        tr = gens.random_text(rng, sub[:3], nutts=rng.randint(2, 6))[0]
        tu = gens.random_text(rng, sub[:3], nutts=rng.randint(1, 5))[0]
        before = [[rng.choice(sub) for _ in range(rng.randint(2, 8))] for _ in range(rng.randint(1, 4))] + [[sub[3], sub[0], sub[3], sub[1], sub[2], sub[3]]]
        c = make_case(ck, tu, tr, k % 2, (k // 2) % 3, 'history-same-train', before=before)
        c['desc']['segmented_before'] = gens.lines(before)
        cases.append(c)
    # a training text that is given but holds no bigram (no line, one blank line, one unit): every pair of the
    # text is then unseen (dependency 0); it must not be mistaken for "no training text"
    for tu in [t for t in gens.exhaustive_texts(['a', 'b'], 4, 2)] + [gens.random_text(rng, ['a', 'b', 'c'], nutts=rng.randint(1, 5))[0] for _ in range(20)]:
        for tr in ([], [[]], [['a']]):
            for ti in range(2):
                cases.append(make_case(ck, tu, tr, ti, rng.randint(0, 2), 'empty-train'))
        # blank lines inside / around the training text (two boundary markers in a row are a bigram like any other)
        for tr in ([['a', 'b'], [], ['b', 'a']], [[], ['a', 'b', 'a']], [['b', 'a'], ['a'], []]):
            cases.append(make_case(ck, tu, tr, rng.randint(0, 1), rng.randint(0, 2), 'blank-lines-in-train'))
    for alpha in ('ascii1', 'ipa', 'marker'):
        for tu in gens.degenerate_texts(gens.ALPHABETS[alpha]):
            for ti in range(2):
                for di in range(3):
                    cases.append(make_case(ck, tu, None, ti, di, 'degenerate-' + alpha))
    # counts in the thousands: neighbouring dependencies that differ by a few 1e-7 in absolute value (1/1999 against 1/2000)
    # and by 5e-4 in relative value - far beyond rounding, still a dip
    big = [['w', 'x', 'y', 'z']] + [['w']] * 1998 + [['x']] * 1999
    big2 = [['z', 'y', 'x', 'w']] + [['w', 'q']] * 1998 + [['x', 'q']] * 1999
    for di in range(3):
        cases.append(make_case(ck, big, None, 0, di, 'large-counts'))
        cases.append(make_case(ck, [big[0], ['w', 'x']], big[1:] + [big[0]], 0, di, 'large-counts'))
        cases.append(make_case(ck, big2, None, di % 2, di, 'large-counts'))
    # malformed stream: blank lines, extra whitespace, empty text (correspondence only)
    for text in ([], [''], ['a b', '', 'c d e'], ['  a  b ', 'c\td'], ['a b c', ' '], ['a\xa0b c d']):
        for ti in range(2):
            for di in range(3):
                c = make_case(ck, [l.split() for l in text], None, ti, di, 'malformed')
                c['arg'][0] = text2j(text)
                c['desc']['text'] = text
                c['impl'] = (lambda text=text, ti=ti, di=di: call_impl(tp.segment, list(text), None, THR[ti], DEP[di]))
                # irregular white space between the units (runs of spaces, tabs, a no-break space) does not count:
                # same answer as for the text written with single spaces
                if text:
                    norm = [' '.join(l.split()) for l in text]

                    def ws_oracle(out, norm=norm, ti=ti, di=di):
                        ref = call_impl(tp.segment, list(norm), None, THR[ti], DEP[di])
                        return None if out == ref else 'irregular white space changes the result: %r, with single spaces %r' % (out, ref)
                    c['oracle'] = ws_oracle
                else:
                    c['oracle'] = None
                cases.append(c)
    for c in cases:
        ck.count('family:' + c['desc']['family'])
    correspond(ck, cases)
    n, problems = ck.coq_recheck()
    finish_proof_failures(ck, failures + problems)
    return ck.finish(
        rule='exhaustive texts over {a,b} (<=%d units, <=3 utterances) x optional training texts x 2 thresholds x 3 dependencies; '
             '%d random planted-lexicon corpora over ascii/prefixy/ipa/marker alphabets; degenerate shapes; malformed stream. '
             'Cases whose exact decision margin is below 1e-9 (all exact ties of the absolute threshold) are skipped and counted. '
             'Non-trivial = the model inserts at least one boundary or raises.' % (max_units, nrand),
        assumptions=['float comparisons agree with exact rational comparisons when the relative margin is >= 1e-9',
                     'math.log(x, 2) is monotone; first and last pair of the whole stream are not judged in relative mode (DESIGN C09)'])


if __name__ == '__main__':
    sys.exit(main())
