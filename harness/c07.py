"""C07 — folding: correspondence of Folding/Model.v with wordseg/folding.py and
the property oracle on the implementation's own answers."""
import itertools
import sys

from common import Check, correspond, decode_result, call_impl, finish_proof_failures

from wordseg import folding
from wordseg.algos import puddle
from common import text2j, j2text


def dec_folds(w):
    return decode_result(w, lambda v: (v[0], v[1]))


def impl_fold(text, k, fb):
    mine = None if fb is None else list(fb)
    r = call_impl(folding.fold, list(text), k, mine)
    if r[0] == 'ok' and mine is not None:
        # the boundaries belong to the caller: unchanged by the call, and a second call with the SAME list
        # object (e.g. to fold a second, aligned text) gives the same folds
        if mine != list(fb):
            return ('ok', ('boundaries-modified', mine))
        r2 = call_impl(folding.fold, list(text), k, mine)
        if r2 != r:
            return ('ok', ('second-call-differs', repr(r2)[:200]))
    if r[0] == 'ok':
        return ('ok', ([list(f) for f in r[1][0]], list(r[1][1])))
    return r


def impl_round(text, k, fb):
    def f():
        folds, index = folding.fold(list(text), k, None if fb is None else list(fb))
        return folding.unfold(folds, index)
    return call_impl(f)


def oracle_fold(text, k, fb, valid):
    """the property statement, checked directly on the implementation output"""
    n = len(text)

    def chk(out):
        if not valid:
            # k < 1 or k > len(text) raises ValueError: whatever the boundaries given (fix 3836b17: it was not checked when
            # k = 1 or when the caller gave the boundaries)
            if not 1 <= k <= n:
                return None if out == ('raise', 'ValueError') else 'k=%d n=%d must raise ValueError, got %r' % (k, n, out)
            return None
        if out[0] != 'ok':
            return 'valid request raised ' + out[1]
        if out[1][0] == 'boundaries-modified':
            return 'fold() modified the fold_boundaries list of its caller: %r became %r' % (fb, out[1][1])
        if out[1][0] == 'second-call-differs':
            return 'a second fold() call with the same boundaries list gives another result: ' + out[1][1]
        folds, index = out[1]
        b = fb if fb is not None else [i * (n // k) for i in range(k)]
        if k == 1:
            b = [0]
        if len(folds) != len(b) or len(index) != len(b):
            return 'expected %d folds' % len(b)
        blocks = [text[b[i]:b[i + 1]] for i in range(len(b) - 1)] + [text[b[-1]:]]
        finals = []
        for f, ix in zip(folds, index):
            if len(f) != n or (n <= 30 and sorted(f) != sorted(text)):      # (a rotation, checked next, is a permutation)
                return 'a fold is not a permutation of the text'
            c = text.index(f[0]) if f and f[0] in text else 0      # lines are distinct
            if f != text[c:] + text[:c]:
                return 'a fold is not a rotation of the text'
            finals.append(f[ix:])
        for j, bl in enumerate(blocks):
            if sum(1 for fi in finals if fi == bl) < 1:
                return 'block %d is the final block of no fold' % j
        if finals != blocks[::-1]:
            return 'final blocks are not the blocks in reverse fold order'
        un = call_impl(folding.unfold, folds, index)
        if un != ('ok', text):
            return 'unfold(fold(text)) != text: %r' % (un,)
        # line-wise transformation, and a per-fold transformation
        tf = [[(x, 't') for x in f] for f in folds]
        un = call_impl(folding.unfold, tf, index)
        if un != ('ok', [(x, 't') for x in text]):
            return 'unfold of transformed folds is not the transformed text'
        # the transformed folds handed over lazily (a map object, a generator, an iterator over a tuple), as a caller
        # writes unfold(map(segment_fold, folds), index): same answer as with a list
        want = [(x, 't') for x in text]
        for kind, lazy in (('map', lambda: map(lambda f: [(x, 't') for x in f], folds)),
                           ('generator', lambda: ([(x, 't') for x in f] for f in folds)),
                           ('iterator', lambda: iter(tuple(tf))), ('tuple', lambda: tuple(tuple(f) for f in tf))):
            un = call_impl(folding.unfold, lazy(), index)
            if un[0] != 'ok' or list(un[1]) != want:
                return 'unfold of transformed folds given as a %s is not the transformed text: %r' % (kind, un if un[0] != 'ok' else un[1][:4])
        # a transformation whose values are lists (tokenised lines), some of them empty or nested: lines stay opaque
        def tok(x):
            return [] if x % 4 == 1 else [['n', x]] if x % 4 == 2 else ['L%d' % x, x]
        tf = [[tok(x) for x in f] for f in folds]
        un = call_impl(folding.unfold, tf, index)
        if un != ('ok', [tok(x) for x in text]):
            return 'unfold of folds whose lines are lists is not the transformed text (lines are not opaque values)'
        # a transformation that maps some lines to the empty string: still one line per line
        tf = [['' if x % 3 == 0 else 'L%d' % x for x in f] for f in folds]
        un = call_impl(folding.unfold, tf, index)
        if un != ('ok', ['' if x % 3 == 0 else 'L%d' % x for x in text]):
            return 'unfold of folds with emptied lines is not the transformed text (one line per input line)'
        return None
    return chk


def main():
    ck = Check('C07')
    failures = ck.prove()
    N = 120 if ck.thorough else 40
    NB = 11 if ck.thorough else 8
    cases = []
    # 1. boundaries and default fold for every (n, k) up to the bound, invalid k included
    for n in range(0, N + 1):
        text = list(range(0, n))  # distinct opaque lines; 0 is falsy on purpose
        ks = list(range(-1, n + 3)) if n <= (40 if ck.thorough else 12) else sorted(set(
            [-1, 0, 1, 2, 3, n - 1, n, n + 1, n + 2] + [ck.rng.randint(1, n) for _ in range(12 if ck.thorough else 6)]))
        for k in ks:
            valid = 1 <= k <= n
            cases.append(dict(
                op=701, arg=[n, k], site='folding.boundaries', desc={'n': n, 'k': k},
                impl=(lambda text=text, k=k: call_impl(folding.boundaries, text, k)),
                dec=decode_result,
                oracle=(lambda out, n=n, k=k, valid=valid:
                        (None if out == ('raise', 'ValueError') else 'must raise ValueError') if not valid else
                        (None if out[0] == 'ok' and len(out[1]) == k and out[1][0] == 0
                         and all(a < b for a, b in zip(out[1], out[1][1:])) and out[1][-1] < n
                         else 'boundaries not k strictly increasing indices from 0 below n: %r' % (out,))),
                nontrivial=lambda m: True))
            cases.append(dict(
                op=702, arg=[text, k, []], site='folding.fold', desc={'n': n, 'k': k, 'fb': None},
                impl=(lambda text=text, k=k: impl_fold(text, k, None)),
                dec=dec_folds, oracle=oracle_fold(text, k, None, valid),
                nontrivial=lambda m: m[0] == 'raise' or len(m[1][0]) > 1))
            cases.append(dict(
                op=704, arg=[text, k, []], site='folding.fold+unfold', desc={'n': n, 'k': k, 'fb': None, 'roundtrip': True},
                impl=(lambda text=text, k=k: impl_round(text, k, None)),
                dec=decode_result, nontrivial=lambda m: True))
    # 1b. texts whose lines are themselves lists (token lists, empty lists): fold/unfold must not look inside
    for n in range(1, 9):
        ltext = [[] if i % 3 == 1 else [['w', i]] if i % 3 == 2 else ['u%d' % i, 'v%d' % i] for i in range(n)]
        for k in range(1, n + 1):
            def impl(ltext=ltext, k=k):
                def f():
                    folds, index = folding.fold([list(l) for l in ltext], k)
                    return folds, index, folding.unfold(folds, index)
                return call_impl(f)

            def oracle(out, ltext=ltext, k=k):
                if out[0] != 'ok':
                    return 'fold/unfold of a text of list-valued lines raised ' + out[1]
                folds, index, un = out[1]
                if un != ltext:
                    return 'unfold(fold(text)) != text for list-valued lines: %r' % (un,)
                if any(sorted(map(repr, f)) != sorted(map(repr, ltext)) for f in folds):
                    return 'a fold of list-valued lines is not a permutation of the lines'
                return None
            cases.append(dict(op=702, arg=[list(range(n)), k, []], site='folding.fold(list-valued lines)', desc={'n': n, 'k': k, 'lines': 'lists'},
                              impl=impl, dec=lambda w, ltext=ltext: decode_result(w, lambda v: ([[ltext[i] for i in f] for f in v[0]], v[1], ltext)),
                              oracle=oracle, nontrivial=lambda m: True))
    # 2. every strictly increasing boundary vector starting at 0 (valid), n <= NB
    nvalid = 0
    for n in range(1, NB + 1):
        text = list(range(0, n))  # distinct opaque lines; 0 is falsy on purpose
        for k in range(2, n + 1):
            for rest in itertools.combinations(range(1, n), k - 1):
                fb = [0] + list(rest)
                nvalid += 1
                cases.append(dict(
                    op=702, arg=[text, k, [fb]], site='folding.fold', desc={'n': n, 'k': k, 'fb': fb},
                    impl=(lambda text=text, k=k, fb=fb: impl_fold(text, k, fb)),
                    dec=dec_folds, oracle=oracle_fold(text, k, fb, True),
                    nontrivial=lambda m: True))
    # 3. malformed stream: boundary vectors outside the property's hypothesis
    #    (model and code must still agree; no oracle)
    nmal = 300 if ck.thorough else 120
    for _ in range(nmal):
        n = ck.rng.randint(0, 7)
        text = list(range(0, n))  # distinct opaque lines; 0 is falsy on purpose
        k = ck.rng.randint(0, 4)
        fb = [ck.rng.randint(0, n + 2) for _ in range(ck.rng.randint(0, 4))]
        cases.append(dict(
            op=702, arg=[text, k, [fb]], site='folding.fold', desc={'n': n, 'k': k, 'fb': fb, 'malformed': True},
            impl=(lambda text=text, k=k, fb=fb: impl_fold(text, k, fb)),
            dec=dec_folds, oracle=oracle_fold(text, k, fb, False),      # judged only on "an invalid fold count raises ValueError"
            nontrivial=lambda m: True))
        ck.count('malformed')
    # 4. the clients' fold -> per-fold transformation -> unfold composition (puddle.segment):
    #    distinct lines, fold counts up to 14, the output must be the input in its original order
    for n in (range(1, 15) if not ck.thorough else range(1, 31)):
        text = ['w%d x%d' % (i, i) for i in range(n)]
        for k in sorted({1, 2, 3, n // 2, n - 1, n, 9, 10, 11, 12, 13}):
            if not 1 <= k <= n:
                continue

            def impl(text=text, k=k):
                return call_impl(lambda: list(puddle.segment(list(text), nfolds=k, njobs=1)))

            def oracle(out, text=text):
                if out[0] != 'ok':
                    return 'puddle.segment raised ' + out[1]
                if [o.replace(' ', '') for o in out[1]] != [t.replace(' ', '') for t in text]:
                    return 'fold/unfold inside puddle.segment does not restore the original order: %r' % (out[1][:4],)
                return None
            cases.append(dict(op=1101, arg=[text2j(text), [], 2, 0, k], site='puddle.segment(fold/unfold)', desc={'n': n, 'nfolds': k, 'client': 'puddle'},
                              impl=impl, dec=lambda w: decode_result(w, j2text), oracle=oracle, nontrivial=lambda m: True))
    correspond(ck, cases)
    n, problems = ck.coq_recheck()
    finish_proof_failures(ck, failures + problems)
    return ck.finish(
        rule='exhaustive: every (n,k), n<=%d (all k in -1..n+2 for n<=12 in quick and n<=40 in thorough, sampled k beyond) through boundaries, fold, fold+unfold; '
             'every valid boundary vector for n<=%d (%d vectors); %d malformed boundary vectors. '
             'Non-trivial = more than one fold or an error; distinct = distinct (n,k,fb,site).' % (N, NB, nvalid, nmal),
        assumptions=['lines are opaque; indices non-negative; len(text) < 2^53 so int(len/k) is the floor'],
        extra={'exhaustive': True})


if __name__ == '__main__':
    sys.exit(main())
