"""C19 — seeds and job counts never change what a segmenter returns: call
histories executed in one process, every call compared with the pure model's
answer for that call alone."""
import os
import random
import shutil
import sys
import shlex
import getopt
import tempfile
from fractions import Fraction

from common import Check, VERIF, correspond, decode_result, call_impl, finish_proof_failures, text2j, j2text, s2j, j2s
import gens
import seplib as sl
import c01
import c09
import c10

os.environ['WORDSEG_VERIF_BINDIR'] = os.path.join(VERIF, 'harness', 'stubs')
from wordseg.algos import tp, puddle, dibs, baseline, ag, dpseg  # noqa: E402
from wordseg.separator import Separator  # noqa: E402
import c03  # noqa: E402  (sets up the dpseg stand-in environment)

SEEN = {}


def _ag_optstring():
    """the getopt string of the ag program, read from /repo's main.cc on every run"""
    import re
    for line in open('/repo/wordseg/algos/ag/src/main.cc', encoding='utf8', errors='replace'):
        m = re.match(r'\s*while \(\(chr = getopt\(argc, argv, "([^"]+)"\)\)', line)
        if m:
            return m.group(1)
    raise RuntimeError('getopt call not found in main.cc')


AG_OPTSTRING = _ag_optstring()


def as_kind(text, kind):
    if kind == 'tuple':
        return tuple(text)
    if kind == 'generator':
        return (l for l in text)
    return list(text)


def repeatable(key, out):
    """same arguments, same result on every call of the history"""
    if key in SEEN and SEEN[key] != out:
        return 'a repeated call returned %r, the first one %r' % (out, SEEN[key])
    SEEN.setdefault(key, out)
    return None


def tp_call(rng, tu, tr, ti=None, di=None):
    ti = rng.randint(0, 1) if ti is None else ti
    di = rng.randint(0, 2) if di is None else di
    kind = rng.choice(['list', 'tuple', 'generator'])
    c = c09.make_case(None, tu, tr, ti, di, 'history-tp-' + kind)
    text = gens.lines(tu)
    train = None if tr is None else gens.lines(tr)
    c['impl'] = lambda: call_impl(tp.segment, as_kind(text, kind), None if train is None else as_kind(train, kind), c09.THR[ti], c09.DEP[di])
    c['oracle'] = lambda out: repeatable(('tp', tuple(text), None if train is None else tuple(train), ti, di), out)
    return c


def puddle_call(rng, tu, frozen):
    text = gens.lines(tu)
    window = rng.choice([1, 2, 3])
    byfreq = rng.random() < 0.5
    kind = rng.choice(['list', 'tuple', 'generator'])
    if frozen:
        tr = gens.random_text(rng, sorted({u for us in tu for u in us}))[0]
        c = c01.puddle_case(tu, tr, window, byfreq, 5, 'history-puddle-frozen-' + kind)
        train = gens.lines(tr)
        c['impl'] = lambda: call_impl(lambda: list(puddle.segment(as_kind(text, kind), train_text=as_kind(train, kind), window=window, by_frequency=byfreq)))
        key = ('puddle-frozen', tuple(text), tuple(train), window, byfreq)
    else:
        nfolds = rng.randint(1, len(text))
        njobs = rng.choice([1, 2, 4, 8])
        c = c01.puddle_case(tu, None, window, byfreq, nfolds, 'history-puddle-njobs%d' % njobs)
        c['impl'] = lambda: call_impl(lambda: list(puddle.segment(as_kind(text, kind), window=window, by_frequency=byfreq, nfolds=nfolds, njobs=njobs)))
        key = ('puddle', tuple(text), window, byfreq, nfolds)      # njobs is NOT part of the key
    c['oracle'] = lambda out: repeatable(key, out)
    return c


def puddle_frozen_nested_cases(rng, n):
    """frozen-model PUDDLE on texts built so that a lexicon word is matched at a NON-initial position with both
    boundary conditions met, and the chunk that precedes it comes back later: a frozen model that learns
    anything while segmenting gives another answer for the later utterance than for that utterance alone"""
    out = []
    for k in range(n):
        alpha = rng.sample('abcdefgh', 6)
        words = []
        while len(words) < 4:
            w = [rng.choice(alpha) for _ in range(rng.randint(2, 4))]
            if w not in words:
                words.append(w)
        window = 2 if k % 3 else 1
        ending = rng.choice(words)[-window:]
        chunk = [rng.choice(alpha) for _ in range(rng.randint(1, 3))] + ending
        wa, wb, wc, wd = (rng.choice(words) for _ in range(4))
        tu = [chunk + wa + wb, wc + chunk + wd, wc + chunk + wd, chunk + wd]
        byfreq = k % 2 == 0
        text, train = gens.lines(tu), gens.lines(words)
        c = c01.puddle_case(tu, words, window, byfreq, 5, 'puddle-frozen-nested')
        c['impl'] = lambda text=text, train=train, window=window, byfreq=byfreq: call_impl(
            lambda: list(puddle.segment(list(text), train_text=list(train), window=window, by_frequency=byfreq)))

        def oracle(o, text=text, train=train, window=window, byfreq=byfreq):
            if o[0] != 'ok':
                return None
            for i, line in enumerate(text):
                alone = list(puddle.segment([line], train_text=list(train), window=window, by_frequency=byfreq))
                if alone != [o[1][i]]:
                    return ('with a frozen model, utterance %d %r is segmented %r after the others and %r alone'
                            % (i, line, o[1][i], alone[0]))
            return None
        c['oracle'] = oracle
        out.append(c)
    return out


def baseline_call(rng, tu):
    """with or without re-seeding: the model receives the stream the call will consume"""
    text = gens.lines(tu)
    p = rng.choice([0.0, 0.25, 0.5, 0.75, 1.0])
    reseed = rng.choice([None, None, None, 7, 13, 0, 0, 2**32 - 1, 2**63 + 11, 10**30])
    ntok = sum(len(l.strip().split(' ')) for l in text)
    box = {}

    def impl():
        if reseed is not None:
            random.seed(reseed)
        r = random.Random()
        r.setstate(random.getstate())
        box['draws'] = [Fraction(r.random()) for _ in range(ntok + 2)]
        out = call_impl(lambda: list(baseline.segment(as_kind(text, rng.choice(['list', 'tuple', 'generator'])), p)))
        box['next'] = Fraction(random.random())
        return out
    return dict(text=text, p=p, reseed=reseed, impl=impl, box=box, ntok=ntok)


def dibs_call(rng):
    c = None
    while c is None:
        c = c01.dibs_case(rng, 'history-dibs')
    key = ('dibs', str(c['desc']))        # the input kind is NOT part of the key
    # the same call as c10.make_case builds, with the training and test texts given as list, tuple or generator
    d = c['desc']
    train, test, sep, level, typ = d['train'], d['test'], d['sep'], d['level'], d['type']
    thr = Fraction(d['threshold'])
    pwb = None if d['pwb'] is None else Fraction(d['pwb'])
    k1, k2 = rng.choice(['list', 'tuple', 'generator']), rng.choice(['list', 'tuple', 'generator'])

    def impl():
        def f():
            m = dibs.CorpusSummary(as_kind(train, k1), separator=Separator(*sep), level=level)
            summ = dict(nlines=m.summary['nlines'], nwords=m.summary['nwords'], nphones=m.summary['nphones'],
                        lexicon=dict(m.lexicon),
                        phrase_initial={k[0]: v for k, v in m.phrase_initial.items()},
                        phrase_final={k[0]: v for k, v in m.phrase_final.items()},
                        internal=dict(m.internal_diphones), spanning=dict(m.spanning_diphones),
                        diphones=dict(m.diphones))
            try:
                out = ('ok', list(dibs.segment(as_kind(test, k2), m, type=typ, threshold=float(thr),
                                               pwb=None if pwb is None else float(pwb))))
            except Exception as e:  # noqa
                out = ('raise', type(e).__name__)
            return summ, out
        return call_impl(f)
    c['impl'] = impl
    c['desc'] = dict(d, family='history-dibs-%s-%s' % (k1, k2))

    def oracle(out):
        bad = repeatable(key, out)
        if bad or out[0] != 'ok':
            return bad
        # the same call in a FRESH copy of the module (no class or module state left by earlier calls)
        import importlib.util
        spec = importlib.util.spec_from_file_location('dibs_fresh_copy', dibs.__file__)
        fresh = importlib.util.module_from_spec(spec)
        spec.loader.exec_module(fresh)
        try:
            m = fresh.CorpusSummary(list(train), separator=Separator(*sep), level=level)
            ref = ('ok', list(fresh.segment(list(test), m, type=typ, threshold=float(thr), pwb=None if pwb is None else float(pwb))))
        except Exception as e:  # noqa
            ref = ('raise', type(e).__name__)
        if out[1][1] != ref:
            return 'dibs.segment returns %r after the earlier calls of this history, %r in a fresh copy of the module' % (out[1][1], ref)
        return None
    c['oracle'] = oracle
    return c


def main():
    ck = Check('C19')
    failures = ck.prove()
    rng = ck.rng
    nh = 60 if ck.thorough else 8
    total = []
    base_cases = []
    for h in range(nh):
        alpha = rng.choice([['a', 'b', 'c'], ['uː', 'dʒ', 'ʌ'], ['a', 'b', 'ab', 'ba']])
        pool = [gens.random_text(rng, alpha, nutts=rng.randint(2, 8))[0] for _ in range(3)]
        cases = []
        for step in range(rng.randint(6, 20)):
            tu = rng.choice(pool)
            k = rng.randint(0, 5)
            if k == 0:
                tr = rng.choice([None, rng.choice(pool)])
                ti, di = rng.randint(0, 1), rng.randint(0, 2)
                cases.append(tp_call(rng, tu, tr, ti, di))
                if rng.random() < 0.6:
                    # the same model again: another text, then the first call repeated
                    cases.append(tp_call(rng, rng.choice(pool), tr, ti, di))
                    cases.append(tp_call(rng, tu, tr, ti, di))
            elif k == 1:
                cases.append(puddle_call(rng, tu, frozen=True))
            elif k == 2:
                cases.append(puddle_call(rng, tu, frozen=False))
            elif k == 3:
                cases.append(dibs_call(rng))
            else:
                cases.append(('baseline', baseline_call(rng, tu)))
        # run the history in order; baseline calls need their stream captured at call time
        ordered = []
        for c in cases:
            if isinstance(c, tuple):
                b = c[1]
                out = b['impl']()
                draws = b['box']['draws']
                cc = dict(op=101, arg=[text2j(b['text']), 1, [Fraction(b['p']).numerator, Fraction(b['p']).denominator], [[d.numerator, d.denominator] for d in draws]],
                          site='baseline.segment', desc={'text': b['text'], 'probability': b['p'], 'reseed': b['reseed'], 'family': 'history-baseline'},
                          impl=(lambda out=out: out), dec=lambda w: decode_result(w, lambda v: [j2s(x) for x in v[0]]),
                          oracle=((lambda o, b=b: repeatable(('baseline', tuple(b['text']), b['p'], b['reseed']), o)) if b['reseed'] is not None else None),
                          nontrivial=lambda m: True)
                ordered.append(cc)
            else:
                # evaluate now, in history order
                out = c['impl']()
                c['impl'] = (lambda out=out: out)
                ordered.append(c)
        total.extend(ordered)
    # a training text without any utterance is a training text like any other: the same answer whether it comes as a list,
    # a tuple, an iterator or a generator (and never the answer for "no training text")
    for k in range(24 if ck.thorough else 6):
        tu = gens.random_text(rng, ['a', 'b', 'c'], nutts=rng.randint(2, 5))[0]
        ti, di = k % 2, k % 3
        for kind in ('list', 'tuple', 'generator', 'iterator'):
            c = c09.make_case(None, tu, [], ti, di, 'history-tp-empty-train-' + kind)
            text = gens.lines(tu)
            empty = {'list': [], 'tuple': (), 'generator': (l for l in []), 'iterator': iter([])}[kind]
            out = call_impl(tp.segment, list(text), empty, c09.THR[ti], c09.DEP[di])
            c['impl'] = (lambda out=out: out)
            c['oracle'] = (lambda o, text=text, ti=ti, di=di: repeatable(('tp', tuple(text), (), ti, di), o))
            total.append(c)
    for c in total:
        ck.count('family:' + c['desc']['family'].split('-njobs')[0])
        if c['site'] == 'baseline.segment':
            ck.count('baseline_reseed:%s' % c['desc']['reseed'])
    correspond(ck, total)
    # dpseg: same result for every job count and on repeated calls (stand-in seeded by --randseed)
    extra = []
    for k in range(12 if ck.thorough else 3):
        tu, _ = gens.random_text(rng, ['a', 'b', 'c', 'd'], nutts=rng.randint(3, 9))
        nf = rng.randint(1, len(tu))
        outs = []
        for j, nj in enumerate((1, 1, 2, 4, 8, 3)):
            kind = ['list', 'tuple', 'generator'][(j + k) % 3]
            outs.append(call_impl(lambda: list(dpseg.segment(as_kind(gens.lines(tu), kind), nfolds=nf, njobs=nj, args='--randseed 5'))))
            ck.case('dpseg-njobs:%d:%d:%d' % (k, j, nj), True, sample={'dpseg': gens.lines(tu), 'nfolds': nf, 'njobs': nj, 'input': kind})
            ck.count('dpseg_njobs:%d' % nj)
            ck.count('dpseg_input:' + kind)
        if any(o != outs[0] for o in outs):
            ck.violation({'site': 'dpseg.segment', 'input': {'text': gens.lines(tu), 'nfolds': nf}, 'outputs': [repr(o) for o in outs]},
                         'property fails on the implementation: dpseg.segment differs across job counts / repeated calls')
    # AG seeds
    seed_cases = []
    for k in range(300 if ck.thorough else 60):
        s = rng.randint(0, 99999)
        if k % 4 == 3:
            # magnitudes: the seed is an integer of any size for the wrapper (the program reads it with strtoul and its
            # generator keeps 32 bits: consecutive seeds stay distinct), so values at and around 2**16, 2**31, 2**32, 2**63, 2**64
            s = rng.choice([0, 2**16 - 1, 2**31 - 1, 2**31, 2**32 - 1, 2**32, 2**63 - 1, 2**64 - 1, 10**30]) - rng.choice([0, 0, 1, 2, 3, 5])
            s = max(s, 0)
        tmpl = rng.choice(['-r %d', '-n 10 -r %d -x 2', '-E -r%d -R -1', '-R -1 -r  %d', '-d 0 -x 2',
                           # file-valued options whose names contain what looks like -r / -n / -x (with or without digits),
                           # quoted names with spaces, the seed given twice (the last one counts)
                           '-G out-r1/g.lt -r %d', '-G /tmp/my-new-x2-dir/g.lt -n 10 -r %d', "-G 'my -r 5 dir/g.lt' -r %d -x 2",
                           '-F trace-r.txt -d 0', '-A parses-n3.prs -x 2 -r%d', '-G grammar-run.lt -F log-x.txt -n 4',
                           "-r 3 -G 'a b.lt' -r %d", '-G c17-r1m5te5p/grammar.out -d 100', "-G '/tmp/c17-r1m5 te5p/grammar out.txt' -r %d"])
        args = tmpl % s if '%d' in tmpl else tmpl
        nruns = rng.randint(1, 6)
        if k < 6:
            # on every run: seeds whose successors cross 2**31, 2**32 and 2**64 (the runs must still get seed, seed+1, ...)
            args = ['-r %d', '-n 10 -r%d -x 2', "-G 'a b.lt' -r %d"][k % 3] % [2**32 - 2, 2**32 - 1, 2**31 - 2, 2**64 - 2, 2**32, 2**63 - 1][k]
            nruns = 4
        rs = rng.randint(0, 10**6)

        def impl(args=args, nruns=nruns, rs=rs):
            random.seed(rs)
            return call_impl(lambda: [shlex.split(a) for a in ag._setup_seed(args, nruns)])
        r = random.Random(rs)
        rnd = [r.randint(0, 2**16) for _ in range(nruns)]

        def oracle(out, args=args, nruns=nruns):
            if out[0] != 'ok':
                return '_setup_seed raised ' + out[1]
            # what the program itself reads (getopt with the option string of main.cc): the seed a run really uses is its
            # LAST -r; every other option and value must be the one given
            def parse(tokens):
                opts, rest = getopt.gnu_getopt(list(tokens), AG_OPTSTRING)
                return [int(v) for o, v in opts if o == '-r'], [(o, v) for o, v in opts if o != '-r'], rest
            given, others, rest = parse(shlex.split(args))
            seeds = []
            for a in out[1]:
                sa, oa, ra = parse(a)
                if not sa:
                    return 'a run has no seed: %r' % (a,)
                seeds.append(sa[-1])
                if (oa, ra) != (others, rest):
                    return 'something else than the seed changed: the program reads %r from %r, %r was given' % (oa, a, args)
            if given and seeds != [given[-1] + i for i in range(nruns)]:
                return 'the seeds of the runs %r are not derived from the given one (%s + run)' % (seeds, given[-1])
            if given and len(set(seeds)) != nruns:
                return 'the derived seeds are not distinct: %r' % seeds
            return None
        seed_cases.append(dict(op=1504, arg=[[s2j(t) for t in shlex.split(args)], nruns, rnd], site='ag._setup_seed',
                               desc={'args': args, 'nruns': nruns, 'family': 'ag-seeds'},
                               impl=impl, dec=lambda w: decode_result(w, lambda v: [j2text(t) for t in v]), oracle=oracle, nontrivial=lambda m: True))
    correspond(ck, seed_cases)
    correspond(ck, puddle_frozen_nested_cases(rng, 300 if ck.thorough else 40))
    # AG with a fixed seed, single job, on the program built from the tree: same result on every call
    try:
        import agbuild
        import c02
        bindir = agbuild.build()
        for k in range(6 if ck.thorough else 2):
            tu, _ = gens.random_text(rng, ['a', 'b', 'c'], nutts=rng.randint(2, 5))
            res = []
            for rep in range(2):
                r, runs, left, args = c02.run_case(ck, bindir, tu, None, 6, 2, 40 + k, 2, 1, 0, None, 'Colloc0', 'ag-repeat')
                res.append(r)
                ck.case('ag-repeat:%d:%d' % (k, rep), True, sample={'ag': gens.lines(tu), 'args': args})
            if res[0] != res[1]:
                ck.violation({'site': 'ag.segment', 'input': {'text': gens.lines(tu), 'args': args}, 'outputs': [repr(r) for r in res]},
                             'property fails on the implementation: ag.segment with a fixed seed and one job differs between two calls')
        # seed 0 is a seed like any other (the program used to read it as "seed from the clock"): an ambiguous
        # text and few iterations, so that the seed matters, and more than a second between the two calls
        import time
        r0 = random.Random(3)
        tu = [[r0.choice('abcdefg') for _ in range(r0.randint(3, 9))] for _ in range(25)]
        for seed, nruns in ((0, 1), (0, 2)) if not ck.thorough else ((0, 1), (0, 2), (1, 1), (65535, 2)):
            res = []
            for rep in range(2):
                r, runs, left, args = c02.run_case(ck, bindir, tu, None, 3, 1, seed, nruns, 1, 0, None, 'Colloc0', 'ag-repeat-seed%d' % seed)
                res.append(r)
                ck.case('ag-repeat-seed:%d:%d:%d' % (seed, nruns, rep), True, sample={'ag': gens.lines(tu)[:3], 'args': args})
                if rep == 0:
                    time.sleep(1.1)
            if res[0] != res[1]:
                ck.violation({'site': 'ag.segment', 'input': {'text': gens.lines(tu), 'args': args, 'nruns': nruns}, 'outputs': [repr(r)[:300] for r in res]},
                             'property fails on the implementation: ag.segment with the fixed seed %d and one job differs between two calls made a second apart' % seed)
    except Exception as e:  # noqa
        ck.cov['ag_note'] = 'real ag not exercised: ' + str(e)[-200:]
    n, problems = ck.coq_recheck()
    finish_proof_failures(ck, failures + problems)
    return ck.finish(
        rule='%d histories of 6-20 calls in one process mixing TP, DiBS, PUDDLE (frozen model / online with njobs in {1,2,4,8} x nfolds) and the baseline (re-seeded with 0, small and very large seeds, or continuing the global stream), '
             'inputs given as list, tuple or generator; every call compared with the model\'s answer for that call alone (for the baseline: for the stream position read from the interpreter just before the call) '
             'and with the first result of the same call in the history; dpseg across job counts 1-8 with list, tuple and generator inputs; _setup_seed on generated argument strings; repeated single-job AG runs on the real program. '
             'Non-trivial: every call.' % nh,
        assumptions=['purity of an implementation is a correspondence over histories, not a model property', 'determinism of the dpseg program itself cannot be examined here (not buildable)'])


if __name__ == '__main__':
    sys.exit(main())
