"""C11 — PUDDLE: histories of train / segment(update) / segment(frozen) calls
against Puddle/Model.v, plus an independent reference of the documented
procedure, prefix causality, frozen-model and train-concatenation checks."""
import collections
import copy
import itertools
import sys

from common import load_corpus, Check, correspond, decode_result, call_impl, finish_proof_failures, text2j, j2s, EXN
import gens

from wordseg.algos import puddle

KIND = {0: 'train', 1: 'segment_update', 2: 'segment_frozen'}


def run_impl_history(window, byfreq, ops):
    """returns list of per-op results: ('ok', outputs, (lex, beg, end)) or ('raise', name)"""
    m = puddle.Puddle(window=window, by_frequency=byfreq)
    res = []
    for kind, text in ops:
        try:
            if kind == 0:
                m.train(list(text))
                out = []
            else:
                out = list(m.segment(list(text), update_model=(kind == 1)))
        except Exception as e:  # noqa
            res.append(('raise', type(e).__name__))
            break
        res.append(('ok', out, (dict(m._lexicon), dict(m._beginning), dict(m._ending))))
    return res


def run_impl_lazy(window, byfreq, ops, gi):
    """ops[gi] and ops[gi + 2] are the two halves of ONE segment() call on one text: its generator is started,
    the first half consumed, ops[gi + 1] run completely, then the generator finished.  Same result shape as
    run_impl_history (a generator suspended after its k-th yield has processed exactly k utterances)."""
    m = puddle.Puddle(window=window, by_frequency=byfreq)
    res = []

    def snap():
        return (dict(m._lexicon), dict(m._beginning), dict(m._ending))
    try:
        k = 0
        while k < len(ops):
            kind, text = ops[k]
            if k == gi:
                g = m.segment(list(text) + list(ops[gi + 2][1]), update_model=(kind == 1))
                first = [next(g) for _ in range(len(text))]
                res.append(('ok', first, snap()))
                kind2, text2 = ops[gi + 1]
                if kind2 == 0:
                    m.train(list(text2))
                    out2 = []
                else:
                    out2 = list(m.segment(list(text2), update_model=(kind2 == 1)))
                res.append(('ok', out2, snap()))
                res.append(('ok', list(g), snap()))
                k += 3
                continue
            if kind == 0:
                m.train(list(text))
                out = []
            else:
                out = list(m.segment(list(text), update_model=(kind == 1)))
            res.append(('ok', out, snap()))
            k += 1
    except Exception as e:  # noqa
        res.append(('raise', type(e).__name__))
    return res


def dec_history(w):
    res = []
    for r in w:
        if r[0] == 1:
            res.append(('raise', EXN.get(r[1], str(r[1]))))
        else:
            out = [j2s(u) for u in r[1]]
            st = tuple({j2s(k): v for k, v in c} for c in r[2])
            res.append(('ok', out, st))
    return res


# ---- independent reference of the documented procedure ----

def pslice(u, a, b):
    return u[a:b]      # (non-negative bounds only: the n-gram BEFORE a position is taken with max(0, .), fix e3d63e5)


def ref_process(lex, beg, end, utt, window, byfreq, update):
    """returns the list of words; updates the three counters when `update`"""
    out = []

    while True:
        n = len(utt)
        hit = None
        for i in range(n):
            j = i
            while j < n:
                if ''.join(utt[i:j + 1]) in lex:
                    jj = j
                    if byfreq:
                        best = None
                        for k in range(j, n):
                            c = lex[''.join(utt[i:k + 1])] if ''.join(utt[i:k + 1]) in lex else 0
                            if best is None or c >= best[1]:
                                best = (k, c)
                        jj = best[0]
                    prev_ok = i == 0 or ''.join(utt[max(0, i - window):i]) in end      # the (at most window) units before position i
                    next_ok = ''.join(pslice(utt, jj + 1, jj + 1 + window)) in beg
                    if prev_ok and next_ok:
                        hit = (i, jj)
                        break
                    j = jj + 1
                else:
                    j += 1
            if hit:
                break
        if not hit:
            pieces = [(0, n - 1)]
        else:
            i, jj = hit
            pieces = ([(0, i - 1)] if i else []) + [(i, jj)]
        for a, b in pieces:
            w = ''.join(utt[a:b + 1])
            out.append(w)
            if update:
                lex[w] += 1
                if b + 1 - a >= 2:
                    beg[''.join(pslice(utt, a, a + window))] += 1
                    end[''.join(utt[max(0, b + 1 - window):b + 1])] += 1      # the last (at most window) units up to b
        if not hit or hit[1] == n - 1:
            return out
        utt = utt[hit[1] + 1:]


def ref_history(window, byfreq, ops):
    lex, beg, end = collections.Counter(), collections.Counter(), collections.Counter()
    res = []
    for kind, text in ops:
        out = []
        for line in text:
            utt = line.strip().split()
            if not utt:
                res.append(('raise', 'ValueError'))
                return res
            words = ref_process(lex, beg, end, utt, window, byfreq, kind != 2)
            out.append(' '.join(words))
        res.append(('ok', [] if kind == 0 else out, (dict(lex), dict(beg), dict(end))))
    return res


def make_case(window, byfreq, ops, family):
    def oracle(out):
        ref = ref_history(window, byfreq, ops)
        if out != ref:
            for k, (a, b) in enumerate(zip(out, ref)):
                if a != b:
                    return 'op %d (%s): implementation %r, documented procedure %r' % (k, KIND[ops[k][0]], a, b)
            return 'history lengths differ'
        # frozen segmentation leaves the model unchanged; outputs aligned with inputs
        prev = None
        for (kind, text), r in zip(ops, out):
            if r[0] != 'ok':
                break
            if kind == 2 and prev is not None and r[2] != prev:
                return 'segment(update_model=False) changed the model'
            if kind != 0:
                bad = gens.aligned([l.split() for l in text], r[1])
                if bad:
                    return bad
            prev = r[2]
        # prefix causality, on the implementation: for update and frozen segmentation alike, the output of every
        # prefix of the text (every prefix of texts of <= 5 utterances, three prefixes of longer ones) is the
        # prefix of the output. The model reached before op k is rebuilt once and copied for each prefix.
        for k, (kind, text) in enumerate(ops):
            if kind != 0 and len(text) > 1 and k < len(out) and out[k][0] == 'ok':
                n = len(text)
                cuts = range(1, n) if n <= 5 else sorted({1, n // 2, n - 1})
                base = puddle.Puddle(window=window, by_frequency=byfreq)
                for k0, t0 in ops[:k]:
                    if k0 == 0:
                        base.train(list(t0))
                    else:
                        list(base.segment(list(t0), update_model=(k0 == 1)))
                for cut in cuts:
                    m2 = puddle.Puddle(window=window, by_frequency=byfreq)
                    m2._lexicon, m2._beginning, m2._ending = (collections.Counter(base._lexicon), collections.Counter(base._beginning),
                                                              collections.Counter(base._ending))
                    try:
                        o2 = list(m2.segment(list(text[:cut]), update_model=(kind == 1)))
                    except Exception as e:  # noqa
                        return 'segmenting the first %d utterances of op %d raised %s' % (cut, k, type(e).__name__)
                    if o2 != out[k][1][:cut]:
                        return 'output of a prefix is not the prefix of the output (op %d %s, first %d of %d utterances: %r vs %r)' % (
                            k, KIND[kind], cut, n, o2, out[k][1][:cut])
        # Puddle.__eq__: two models with the same history are equal; another window, another by_frequency or
        # another content make them different (one history in eight, it costs three replays)
        if hash(str(ops)) % 8 == 0 and all(r[0] == 'ok' for r in out):
            def replay(w, f, upto=None):
                mm = puddle.Puddle(window=w, by_frequency=f)
                for k0, t0 in (ops if upto is None else ops[:upto]):
                    if k0 == 0:
                        mm.train(list(t0))
                    else:
                        list(mm.segment(list(t0), update_model=(k0 == 1)))
                return mm
            a, b = replay(window, byfreq), replay(window, byfreq)
            if not (a == b):
                return 'two Puddle models with the same history are not equal (==)'
            if a == replay(window + 1, byfreq) or a == replay(window, not byfreq):
                return 'Puddle models with different window / by_frequency compare equal'
            empty = puddle.Puddle(window=window, by_frequency=byfreq)
            if (a == empty) != (not a._lexicon and not a._beginning and not a._ending):
                return 'a trained Puddle model compares equal to an empty one (or an empty one does not)'
        # train(A) then train(B) == train(A + B), wherever two train calls follow each other
        for k in range(len(ops) - 1):
            if ops[k][0] == 0 and ops[k + 1][0] == 0 and len(out) >= k + 2 and out[k + 1][0] == 'ok':
                h3 = run_impl_history(window, byfreq, ops[:k] + [(0, list(ops[k][1]) + list(ops[k + 1][1]))])
                if h3[-1][0] != 'ok' or h3[-1][2] != out[k + 1][2]:
                    return 'train(A); train(B) differs from train(A + B) (ops %d, %d)' % (k, k + 1)
        return None

    return dict(op=1102, arg=[window, int(byfreq), [[k, text2j(t)] for k, t in ops]], site='puddle.Puddle',
                desc={'window': window, 'by_frequency': byfreq, 'ops': [[KIND[k], t] for k, t in ops], 'family': family},
                impl=lambda: run_impl_history(window, byfreq, ops), dec=dec_history, oracle=oracle,
                res_of=lambda m: ('ok',) if all(r[0] == 'ok' for r in m) else ('raise', m[-1][1]),
                nontrivial=lambda m: any(r[0] == 'ok' and any(' ' in u for u in r[1]) for r in m))


UTTS3 = [seq for m in (1, 2, 3) for seq in itertools.product('ab', repeat=m)]


def rand_text(rng, alpha, lex, n):
    t, _ = gens.random_text(rng, alpha, nutts=n, lex=lex, max_words=3)
    return gens.lines(t)


def main():
    ck = Check('C11')
    failures = ck.prove()
    rng = ck.rng
    cases = []
    for c in load_corpus('C11'):
        cases.append(make_case(c['window'], c['by_frequency'], [(k, t) for k, t in c['ops']], 'corpus'))
    n = 15000 if ck.thorough else 2500
    alphas = [['a', 'b'], ['a', 'b', 'c'], ['a', 'b', 'ab', 'ba'], ['uː', 'dʒ', 'ʌ', 'ŋ'], ['U', 'B', '_', 'a']]
    # lazily consumed segment() generators interleaved with other calls on the same model: the generator keeps
    # the mode it was asked for (frozen / updating) and reads the model as it is when each utterance is taken;
    # it is the history [first half, the other call, second half]
    for k in range(1500 if ck.thorough else 250):
        alpha = alphas[k % len(alphas)]
        lexi = gens.planted_lexicon(rng, alpha, nwords=rng.randint(2, 4))
        window, byfreq = rng.choice([1, 2, 2, 3]), rng.random() < 0.5
        pre = [(rng.choice([0, 1]), rand_text(rng, alpha, lexi, rng.randint(1, 4)))]
        gk = rng.choice([1, 2, 2])
        gtext = rand_text(rng, alpha, lexi, rng.randint(2, 5))
        cut = rng.randint(1, len(gtext) - 1)
        other = (rng.choice([0, 0, 1, 2]), rand_text(rng, alpha, lexi, rng.randint(0, 3)))
        ops = pre + [(gk, gtext[:cut]), other, (gk, gtext[cut:])]
        c = make_case(window, byfreq, ops, 'lazy-interleaving')
        c['impl'] = (lambda window=window, byfreq=byfreq, ops=ops: run_impl_lazy(window, byfreq, ops, 1))
        cases.append(c)
    for k in range(n):
        alpha = alphas[k % len(alphas)]
        lexi = gens.planted_lexicon(rng, alpha, nwords=rng.randint(2, 4))
        window = rng.choice([1, 2, 2, 3, 4])
        byfreq = rng.random() < 0.5
        nops = rng.randint(1, 3) if k % 3 else rng.randint(3, 8)
        ops = []
        for _ in range(nops):
            kind = rng.choice([0, 1, 1, 2])
            ops.append((kind, rand_text(rng, alpha, lexi, rng.randint(1, 6))))
        if k % 50 == 0:
            ops.append((1, ['a b', '', 'a']))      # malformed: blank line -> ValueError
        cases.append(make_case(window, byfreq, ops, 'random-%d' % len(alpha)))
    # exhaustive short histories: every pair of calls (train / segment-update / segment-frozen)^2 over every text of
    # <= 2 utterances of <= 3 units on {a, b} with at most `tot` units in all, window 1..2 x by_frequency. The
    # procedure does not look at the symbols' identity (only equality of strings and counts), so the first text
    # starts with 'a' without loss of generality.
    def flush():
        # in batches: the exhaustive family of the thorough tier has several hundred thousand histories
        for c in cases:
            ck.count('family:' + c['desc']['family'])
            ck.count('window:%d' % c['desc']['window'])
            ck.count('nops:%d' % len(c['desc']['ops']))
        correspond(ck, cases)
        del cases[:]
    tot = 5 if ck.thorough else 3
    small = [gens.lines(t) for t in gens.exhaustive_texts(['a', 'b'], tot, 2) if all(len(u) <= 3 for u in t)]
    nex = 0
    for t1 in small:
        if not t1[0].startswith('a'):
            continue
        for t2 in small:
            for k1 in range(3):
                for k2 in range(3):
                    for window in (1, 2):
                        for byfreq in (False, True):
                            cases.append(make_case(window, byfreq, [(k1, t1), (k2, t2)], 'exhaustive-2-calls'))
                            nex += 1
        if len(cases) > 60000:
            flush()
    # beyond the exhaustive bound: pairs of calls over the full scope (<= 2 utterances of <= 3 units each), sampled
    full = [gens.lines([list(a)] + ([list(b)] if b else [])) for a in UTTS3 for b in [None] + UTTS3]
    for _ in range(20000 if ck.thorough else 12000):
        cases.append(make_case(rng.choice([1, 2]), rng.random() < 0.5, [(rng.randint(0, 2), rng.choice(full)), (rng.randint(0, 2), rng.choice(full))], 'sampled-2-calls'))
    # train(A); train(B) against train(A + B), at any place of a history
    for k in range(3000 if ck.thorough else 400):
        alpha = alphas[k % len(alphas)]
        lexi = gens.planted_lexicon(rng, alpha, nwords=rng.randint(2, 4))
        ops = [(rng.choice([0, 1, 2]), rand_text(rng, alpha, lexi, rng.randint(1, 4))) for _ in range(rng.randint(0, 2))]
        ops += [(0, rand_text(rng, alpha, lexi, rng.randint(1, 6))), (0, rand_text(rng, alpha, lexi, rng.randint(1, 6)))]
        if rng.random() < 0.3:
            ops.append((0, rand_text(rng, alpha, lexi, rng.randint(1, 3))))
        if rng.random() < 0.5:
            ops.append((rng.choice([1, 2]), rand_text(rng, alpha, lexi, rng.randint(1, 4))))
        cases.append(make_case(rng.choice([1, 2, 2, 3, 4]), rng.random() < 0.5, ops, 'train-train'))
    flush()
    nre, problems = ck.coq_recheck()
    finish_proof_failures(ck, failures + problems)
    return ck.finish(
        rule='exhaustively every history of 2 calls over the texts of <= 2 utterances of <= 3 units on {a,b} with <= %d units in all (first unit a, by symmetry) x window 1-2 x by_frequency (%d histories), '
             'sampled pairs of calls over the full scope beyond that, histories with consecutive train calls (train(A);train(B) against train(A+B) at any place); %d random histories of 1-8 train/segment(update)/segment(frozen) calls over planted-lexicon texts on 5 alphabets x window 1-4 x by_frequency; '
             'after every call the outputs and the three counters are compared with the model and with an independent reference of the documented procedure; '
             'prefix causality (every prefix of every segmented text of <= 5 utterances, update and frozen), frozen-model and train-concatenation are checked on the implementation. '
             'Non-trivial = some output utterance contains a boundary.' % (tot, nex, n))


if __name__ == '__main__':
    sys.exit(main())
