"""C11 — PUDDLE: histories of train / segment(update) / segment(frozen) calls
against Puddle/Model.v, plus an independent reference of the documented
procedure, prefix causality, frozen-model and train-concatenation checks."""
import collections
import copy
import sys

from common import load_corpus, Check, correspond, decode_result, call_impl, finish_proof_failures, text2j, j2s, EXN
import gens

from wordseg.algos import puddle

KIND = {0: 'train', 1: 'segment_update', 2: 'segment_frozen'}


def run_impl_history(window, byfreq, ops):
    """returns list of per-op results: ('ok', outputs, (lex, beg, end)) or ('raise', name)"""
    m = puddle.Puddle(window=window, by_frequency=byfreq)
    res = []
    for kind, text in ops:
        try:
            if kind == 0:
                m.train(list(text))
                out = []
            else:
                out = list(m.segment(list(text), update_model=(kind == 1)))
        except Exception as e:  # noqa
            res.append(('raise', type(e).__name__))
            break
        res.append(('ok', out, (dict(m._lexicon), dict(m._beginning), dict(m._ending))))
    return res


def dec_history(w):
    res = []
    for r in w:
        if r[0] == 1:
            res.append(('raise', EXN.get(r[1], str(r[1]))))
        else:
            out = [j2s(u) for u in r[1]]
            st = tuple({j2s(k): v for k, v in c} for c in r[2])
            res.append(('ok', out, st))
    return res


# ---- independent reference of the documented procedure ----

def pslice(u, a, b):
    return u[a:b]      # Python slice semantics are part of the documented behaviour


def ref_process(lex, beg, end, utt, window, byfreq, update):
    """returns the list of words; updates the three counters when `update`"""
    out = []

    while True:
        n = len(utt)
        hit = None
        for i in range(n):
            j = i
            while j < n:
                if ''.join(utt[i:j + 1]) in lex:
                    jj = j
                    if byfreq:
                        best = None
                        for k in range(j, n):
                            c = lex[''.join(utt[i:k + 1])] if ''.join(utt[i:k + 1]) in lex else 0
                            if best is None or c >= best[1]:
                                best = (k, c)
                        jj = best[0]
                    prev_ok = i == 0 or ''.join(pslice(utt, i - window, i)) in end
                    next_ok = ''.join(pslice(utt, jj + 1, jj + 1 + window)) in beg
                    if prev_ok and next_ok:
                        hit = (i, jj)
                        break
                    j = jj + 1
                else:
                    j += 1
            if hit:
                break
        if not hit:
            pieces = [(0, n - 1)]
        else:
            i, jj = hit
            pieces = ([(0, i - 1)] if i else []) + [(i, jj)]
        for a, b in pieces:
            w = ''.join(utt[a:b + 1])
            out.append(w)
            if update:
                lex[w] += 1
                if b + 1 - a >= 2:
                    beg[''.join(pslice(utt, a, a + window))] += 1
                    end[''.join(pslice(utt, b + 1 - window, b + 1))] += 1
        if not hit or hit[1] == n - 1:
            return out
        utt = utt[hit[1] + 1:]


def ref_history(window, byfreq, ops):
    lex, beg, end = collections.Counter(), collections.Counter(), collections.Counter()
    res = []
    for kind, text in ops:
        out = []
        for line in text:
            utt = line.strip().split()
            if not utt:
                res.append(('raise', 'ValueError'))
                return res
            words = ref_process(lex, beg, end, utt, window, byfreq, kind != 2)
            out.append(' '.join(words))
        res.append(('ok', [] if kind == 0 else out, (dict(lex), dict(beg), dict(end))))
    return res


def make_case(window, byfreq, ops, family):
    def oracle(out):
        ref = ref_history(window, byfreq, ops)
        if out != ref:
            for k, (a, b) in enumerate(zip(out, ref)):
                if a != b:
                    return 'op %d (%s): implementation %r, documented procedure %r' % (k, KIND[ops[k][0]], a, b)
            return 'history lengths differ'
        # frozen segmentation leaves the model unchanged; outputs aligned with inputs
        prev = None
        for (kind, text), r in zip(ops, out):
            if r[0] != 'ok':
                break
            if kind == 2 and prev is not None and r[2] != prev:
                return 'segment(update_model=False) changed the model'
            if kind != 0:
                bad = gens.aligned([l.split() for l in text], r[1])
                if bad:
                    return bad
            prev = r[2]
        # prefix causality, on the implementation
        for k, (kind, text) in enumerate(ops):
            if kind == 1 and len(text) > 1 and out[k][0] == 'ok' if k < len(out) else False:
                cut = len(text) // 2
                h2 = run_impl_history(window, byfreq, ops[:k] + [(kind, text[:cut])])
                if h2[-1][0] != 'ok' or h2[-1][1] != out[k][1][:cut]:
                    return 'output of a prefix is not the prefix of the output (op %d)' % k
        # train(A) then train(B) == train(A + B)
        if len(ops) >= 2 and ops[0][0] == 0 and ops[1][0] == 0 and len(out) >= 2 and out[1][0] == 'ok':
            h3 = run_impl_history(window, byfreq, [(0, list(ops[0][1]) + list(ops[1][1]))])
            if h3[0][0] != 'ok' or h3[0][2] != out[1][2]:
                return 'train(A); train(B) differs from train(A + B)'
        return None

    return dict(op=1102, arg=[window, int(byfreq), [[k, text2j(t)] for k, t in ops]], site='puddle.Puddle',
                desc={'window': window, 'by_frequency': byfreq, 'ops': [[KIND[k], t] for k, t in ops], 'family': family},
                impl=lambda: run_impl_history(window, byfreq, ops), dec=dec_history, oracle=oracle,
                res_of=lambda m: ('ok',) if all(r[0] == 'ok' for r in m) else ('raise', m[-1][1]),
                nontrivial=lambda m: any(r[0] == 'ok' and any(' ' in u for u in r[1]) for r in m))


def rand_text(rng, alpha, lex, n):
    t, _ = gens.random_text(rng, alpha, nutts=n, lex=lex, max_words=3)
    return gens.lines(t)


def main():
    ck = Check('C11')
    failures = ck.prove()
    rng = ck.rng
    cases = []
    for c in load_corpus('C11'):
        cases.append(make_case(c['window'], c['by_frequency'], [(k, t) for k, t in c['ops']], 'corpus'))
    n = 15000 if ck.thorough else 2500
    alphas = [['a', 'b'], ['a', 'b', 'c'], ['a', 'b', 'ab', 'ba'], ['uː', 'dʒ', 'ʌ', 'ŋ'], ['U', 'B', '_', 'a']]
    for k in range(n):
        alpha = alphas[k % len(alphas)]
        lexi = gens.planted_lexicon(rng, alpha, nwords=rng.randint(2, 4))
        window = rng.choice([1, 2, 2, 3, 4])
        byfreq = rng.random() < 0.5
        nops = rng.randint(1, 3) if k % 3 else rng.randint(3, 8)
        ops = []
        for _ in range(nops):
            kind = rng.choice([0, 1, 1, 2])
            ops.append((kind, rand_text(rng, alpha, lexi, rng.randint(1, 6))))
        if k % 50 == 0:
            ops.append((1, ['a b', '', 'a']))      # malformed: blank line -> ValueError
        cases.append(make_case(window, byfreq, ops, 'random-%d' % len(alpha)))
    for c in cases:
        ck.count('family:' + c['desc']['family'])
        ck.count('window:%d' % c['desc']['window'])
        ck.count('nops:%d' % len(c['desc']['ops']))
    correspond(ck, cases)
    nre, problems = ck.coq_recheck()
    finish_proof_failures(ck, failures + problems)
    return ck.finish(
        rule='%d random histories of 1-8 train/segment(update)/segment(frozen) calls over planted-lexicon texts on 5 alphabets x window 1-4 x by_frequency; '
             'after every call the outputs and the three counters are compared with the model and with an independent reference of the documented procedure; '
             'prefix causality, frozen-model and train-concatenation are checked on the implementation. Non-trivial = some output utterance contains a boundary.' % n)


if __name__ == '__main__':
    sys.exit(main())
