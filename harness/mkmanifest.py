"""Regenerate MANIFEST.json from the table below (kept valid at all times)."""
import json, os
V = os.path.dirname(os.path.dirname(os.path.abspath(__file__)))
CHECKS = json.load(open(os.path.join(V, 'harness', 'checks.json')))
props = [json.loads(l) for l in open(os.path.join(V, 'properties.jsonl'))]
checks = []
na = []
for p in props:
    pid = p['id']
    c = CHECKS.get(pid)
    if not c or c.get('not_applicable'):
        na.append({'property_id': pid, 'reason': (c or {}).get('not_applicable', 'not built yet in this round (see DESIGN.md section 7, order of construction)')})
        continue
    checks.append({
        'property_id': pid,
        'quick_cmd': './check %s --tier quick' % pid,
        'thorough_cmd': './check %s --tier thorough' % pid,
        'evidence_file': '/verif/evidence/%s.json' % pid,
        'replay_cmd_template': './check %s --replay {path}' % pid,
        'engine': 'coq-model+correspondence',
        'level_claimed': {'category': 'proof', 'text': c['text'], 'design_ref': 'DESIGN.md section 3, ' + pid},
        'level_note': c['note'],
        'technique': c.get('technique', 'machine-checked proof in Coq 8.16 of a hand-written Gallina model + extracted-model/implementation correspondence check'),
    })
m = {
    'version': 1,
    'setup_cmd': 'bash /verif/build.sh',
    'hooks': {
        'guard': 'WORDSEG_VERIF_BINDIR',
        'enable': 'checks export WORDSEG_VERIF_BINDIR=<scratch dir with ag/dpseg stand-ins or freshly built binaries>; /repo is imported from its working tree with PYTHONPATH=/repo',
        'baseline_off_cmd': 'cd /repo && env -u WORDSEG_VERIF_BINDIR /venv/bin/python -m pytest -ra -q -p no:cacheprovider --timeout=900 --continue-on-collection-errors',
        'source_commits': json.load(open(os.path.join(V, 'harness', 'hook_commits.json'))) if os.path.exists(os.path.join(V, 'harness', 'hook_commits.json')) else [],
        'add_only': True,
    },
    'engines': [{'name': 'coq-model+correspondence', 'path': '/verif/coq',
                 'serves_properties': [c['property_id'] for c in checks],
                 'kind_free_text': 'Coq 8.16 development (models, proofs, Props/Cxx.v with Print Assumptions), extracted to OCaml and run against the implementation imported from /repo by harness/cXX.py'}],
    'checks': checks,
    'not_applicable': na,
    'notes': 'See DESIGN.md. Known findings: KNOWN_FINDINGS.jsonl.',
}
json.dump(m, open(os.path.join(V, 'MANIFEST.json'), 'w'), indent=1)
print(len(checks), 'checks;', len(na), 'not applicable')
