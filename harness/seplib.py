"""Tagged-corpus trees, separator triples and renderings (C04, C08, C10, C13, C14, C20)."""

PHONES = {
    'ascii': ['a', 'b', 'c', 'd', 'k', 'o'],
    'multi': ['aa', 'b', 'ch', 'th', 'o', 'ng'],
    # (a\u0303, e\u0301: decomposed spellings of letters that have a precomposed code point; \u212b: a canonical
    #  singleton - a text must come back code point for code point, not in some normal form)
    'ipa': ['uː', 'a\u0303', 'dʒ', 'e\u0301', 'ʌ', 'oʊ', 'ŋ', 'ã', 'ɛ', 'tʃ', '\u212b'],
    'sepfrag': ['e', 'w', 'o', 'r', 'd', 's', 'y', 'l'],     # letters of ;eword / ;esyll
}

# (phone, syllable, word); None = undefined level
SEPARATORS = [
    (' ', ';esyll', ';eword'),
    ('_', ';esyll', ';eword'),
    (' ', None, ';eword'),
    (None, ';esyll', ';eword'),
    (None, None, ';eword'),
    ('_', None, ' '),
    (None, None, ' '),
    ('p', 's', 'w'),
    ('/', '=', '@@'),
    ('·', '‖', '§§'),
    (' ', '_', ';eword'),
    ('_', ' ', ';eword'),
    (';', None, ';;;eword'.replace(';;;', '<w>')),
]


def rand_tree(rng, phones, nwords=None, maxsyll=3, maxphones=3):
    """utterance = list of words; word = list of syllables; syllable = list of phones"""
    nwords = nwords or rng.randint(1, 4)
    return [[[rng.choice(phones) for _ in range(rng.randint(1, maxphones))]
             for _ in range(rng.randint(1, maxsyll))]
            for _ in range(nwords)]


def tree_ok(tree, sep):
    """tokens must not contain a separator, whitespace, or overlap one; separators
    distinct and none a substring of another"""
    seps = [s for s in sep if s]
    for a in seps:
        for b in seps:
            if a is not b and a in b:
                return False
    for w in tree:
        for s in w:
            for p in s:
                if not p or any(c.isspace() for c in p):
                    return False
                for x in seps:
                    if x.strip() and (x.strip() in p):
                        return False
    return True


def render(tree, sep, style='compact'):
    """compact: every token is followed by its separator, nothing else.
    padded: wordseg's usual look, tokens and separators joined by single spaces
    (only meaningful when the phone separator is a space or undefined)."""
    p, s, w = sep
    if style == 'compact':
        out = ''
        for word in tree:
            for syl in word:
                if p is None:
                    out += ''.join(syl)
                else:
                    out += ''.join(ph + p for ph in syl)
                if s is not None:
                    out += s
            if w is not None:
                out += w
        return out
    if style == 'padded':
        toks = []
        for word in tree:
            if p is None and s is None:
                toks.append(''.join(ph for syl in word for ph in syl))
                if w is not None:
                    toks.append(w)
                continue
            for syl in word:
                if p is None:
                    toks.append(''.join(syl))
                elif p == ' ':
                    toks.extend(syl)
                else:
                    toks.append(p.join(syl) + p)
                if s is not None:
                    toks.append(s)
            if w is not None:
                toks.append(w)
        return ' '.join(toks)
    if style == 'fullpad':
        # every token and every separator is surrounded by single spaces
        toks = []
        for word in tree:
            for syl in word:
                for ph in syl:
                    toks.append(ph)
                    if p is not None and p != ' ':
                        toks.append(p)
                if p is None:
                    pass
                if s is not None:
                    toks.append(s)
            if w is not None:
                toks.append(w)
        return ' '.join(toks)
    if style in ('joined', 'joined-padded'):
        # tokens joined BY their separators, no trailing separator at any level
        pad = ' ' if style == 'joined-padded' else ''

        def j(x, items):
            if x is None:
                return ''.join(items)
            if x == ' ' or not pad:
                return x.join(items)
            return (pad + x + pad).join(items)
        words = tree
        if w is None:      # no word level: one flat sequence of syllables
            words = [[syl for word in words for syl in word]]
        if s is None:      # no syllable level: the phones of a word are joined directly
            words = [[[ph for syl in word for ph in syl]] for word in words]
        return j(w, [j(s, [j(p, syl) for syl in word]) for word in words])
    if style == 'joined-inner':
        # every word is followed by the word separator (as DiBS requires of a training line), but inside a word the
        # syllables are joined BY the syllable separator and the phones of a syllable BY the phone separator: h_e/l_o;eword
        def ji(x, items):
            return ''.join(items) if x is None else x.join(items)
        out = ''
        for word in tree:
            sylls = word if s is not None else [[ph for syl in word for ph in syl]]
            out += ji(s, [ji(p, syl) for syl in sylls]) + (w if w is not None else '')
        return out
    raise ValueError(style)


def padding_ok(sep):
    """space-padded joining is meaningful for this triple: there is a separator to pad, and the space is either
    no separator at all or the separator of the lowest defined level (a space that separates syllables or words
    cannot also pad the levels below it)"""
    defined = [x for x in sep if x]
    return bool(defined) and (' ' not in defined or defined[0] == ' ')


def padded_styles(sep):
    """the space-padded styles of render() applicable to the triple (fullpad puts spaces between phones: it needs
    a phone separator)"""
    if not padding_ok(sep):
        return []
    return ['padded', 'joined-padded'] + (['fullpad'] if sep[0] and sep[0] != ' ' else [])


def phones_of(tree, sep):
    """the flat phone-level tokens the separator can distinguish"""
    p, s, w = sep
    if p is not None:
        return [ph for word in tree for syl in word for ph in syl]
    if s is not None:
        return [''.join(syl) for word in tree for syl in word]
    return [''.join(ph for syl in word for ph in syl) for word in tree]


def sylls_of(tree, sep):
    p, s, w = sep
    if s is not None:
        return [''.join(syl) for word in tree for syl in word]
    return [''.join(ph for syl in word for ph in syl) for word in tree]


def words_of(tree):
    return [''.join(ph for syl in word for ph in syl) for word in tree]


def sepj(sep):
    from common import s2j
    return [[] if x is None else [s2j(x)] for x in sep]
