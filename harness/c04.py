"""C04 — prepare and gold are aligned, separator-free views of the corpus."""
import sys

from common import load_corpus, Check, correspond, decode_result, call_impl, finish_proof_failures, text2j, j2text, EXN
import seplib as sl

from wordseg import prepare as prep
from wordseg.separator import Separator

SEPS = [
    (' ', ';esyll', ';eword'), ('_', ';esyll', ';eword'), (' ', None, ';eword'), ('_', None, ';eword'),
    ('/', '=', '@@'), ('·', '‖', '§§'), (' ', '_', ';eword'), ('_', '=', ';e w'), ('_', None, '<w>'),
    (';p', ';s', ';w'), (';p', None, ';w'),      # a multi-character phone separator
    ('_', ' ', ';eword'), ('_', '= s', ';eword'), ('_ _', '=', ';eword'),      # spaces inside the syllable / phone separator (compact tagging only)
]
# phones made of the LETTERS of the separators above (a separator is a string, not a set of characters)
sl.PHONES['sepchars'] = ['p', 's', 'w', 'pʰ', 'ap', 'h', 'wa']


def impl_prepare(text, sep, unit, cp=True, tolerant=False):
    out = []
    try:
        for l in prep.prepare(list(text), Separator(*sep), unit=unit, check_punctuation=cp, tolerant=tolerant):
            out.append(l)
    except Exception as e:  # noqa
        import re
        m = re.match(r'line (\d+):', str(e))
        return (out, (type(e).__name__, int(m.group(1)) if m and isinstance(e, ValueError) else 0))
    return (out, None)


def dec_prepare(w):
    end = None if not w[1] else (EXN.get(w[1][0], str(w[1][0])), w[1][1])
    return (j2text(w[0]), end)


def prepare_case(text, sep, unit, family, cp=True, tolerant=False, oracle=None, site='prepare.prepare'):
    return dict(op=402, arg=[text2j(text), sl.sepj(sep), 0 if unit == 'phone' else 1, int(cp), int(tolerant)], site=site,
                desc={'text': text, 'sep': sep, 'unit': unit, 'check_punctuation': cp, 'tolerant': tolerant, 'family': family},
                impl=lambda: impl_prepare(text, sep, unit, cp, tolerant), dec=dec_prepare, oracle=oracle,
                res_of=lambda m: ('ok',) if m[1] is None else ('raise', m[1][0]),
                nontrivial=lambda m: True)


def gold_case(text, sep, family, oracle=None):
    return dict(op=403, arg=[text2j(text), sl.sepj(sep)], site='prepare.gold',
                desc={'text': text, 'sep': sep, 'family': family},
                impl=lambda: call_impl(lambda: list(prep.gold(list(text), Separator(*sep)))),
                dec=lambda w: decode_result(w, j2text), oracle=oracle, nontrivial=lambda m: True)


def spurious(trees, sep, lines):
    """some separator occurs in a compact line where the joining did not put it"""
    for t, utt in zip(trees, lines):
        nph = sum(len(s) for w in t for s in w)
        nsy = sum(len(w) for w in t)
        want = {0: nph, 1: nsy, 2: len(t)}
        for i, x in enumerate(sep):
            if x and sum(1 for k in range(len(utt)) if utt.startswith(x, k)) > want[i]:
                return True
    return False


def tree_cases(rng, trees, sep, style, family, check_punct=True):
    lines = [sl.render(t, sep, style) for t in trees]
    cls = (lambda out: {'spurious_separator_occurrence'} if style == 'compact' and spurious(trees, sep, lines) else set())
    text = []
    kept = []
    for l in lines:
        while rng.random() < 0.25:
            text.append(rng.choice(['', ' ', '\n']))
        text.append(l + rng.choice(['', '\n', ' ']))
        kept.append(l)
    phones = [' '.join(ph for w in t for s in w for ph in s) for t in trees]
    sylls = [' '.join(''.join(s) for w in t for s in w) for t in trees]
    words = [' '.join(sl.words_of(t)) for t in trees]
    frag = [x.strip() for x in sep if x and x.strip()]

    def views_ok(name, want):
        def f(out):
            if name == 'gold':
                if out[0] != 'ok':
                    return 'gold raised ' + out[1]
                got = out[1]
            else:
                if out[1] is not None:
                    return '%s raised %r on a well-formed text' % (name, out[1])
                got = out[0]
            if got != want:
                for i, (a, b) in enumerate(zip(got, want)):
                    if a != b:
                        return '%s line %d is %r, expected %r' % (name, i, a, b)
                return '%s yields %d lines for %d non-empty input lines' % (name, len(got), len(want))
            for l in got:
                if any(x in l for x in frag):
                    return '%s output contains a separator fragment: %r' % (name, l)
            return None
        return f
    out = [prepare_case(text, sep, 'phone', family, cp=check_punct, oracle=views_ok('prepare(phone)', phones)),
           gold_case(text, sep, family, oracle=views_ok('gold', words))]
    if sep[1]:
        out.append(prepare_case(text, sep, 'syllable', family, cp=check_punct, oracle=views_ok('prepare(syllable)', sylls)))
    for c in out:
        c['classes'] = cls
    return out


def large_corpus_command(ck, rng):
    """wordseg-prep on corpora of more than 10000 / 20000 utterances (a size no in-process case reaches), with blank lines
    interleaved: the prepared and gold files are the function results, one line per non-empty input line"""
    import os
    import shutil
    import subprocess
    import tempfile
    from wordseg.prepare import prepare, gold
    from wordseg.separator import Separator
    sep = ('_', ';esyll', ';eword')
    pool = []
    while len(pool) < 40:
        t = sl.rand_tree(rng, sl.PHONES['ipa'])
        if sl.tree_ok(t, sep):
            pool.append(sl.render(t, sep, 'compact'))
    for size, unit in ((10003, 'phone'), (20001, 'syllable')) if ck.thorough else ((10003, 'syllable'),):
        lines = []
        for i in range(size):
            lines.append(pool[(i * 7 + i // 40) % len(pool)])
            if i % 997 == 0:
                lines.append('')
        d = tempfile.mkdtemp(prefix='c04_')
        try:
            open(os.path.join(d, 'in.txt'), 'w', encoding='utf8').write('\n'.join(lines) + '\n')
            r = subprocess.run(['/venv/bin/python', '-m', 'wordseg.prepare', '-q', '-u', unit, '-p', sep[0], '-s', sep[1], '-w', sep[2],
                                '-o', os.path.join(d, 'prep.txt'), '-g', os.path.join(d, 'gold.txt'), os.path.join(d, 'in.txt')],
                               capture_output=True, env=dict(os.environ, PYTHONPATH='/repo', PYTHONWARNINGS='ignore'), cwd=d)
            S = Separator(*sep)
            want_p = list(prepare(lines, S, unit=unit))
            want_g = list(gold(lines, S))
            got = {}
            for name in ('prep.txt', 'gold.txt'):
                fn = os.path.join(d, name)
                got[name] = open(fn, encoding='utf8').read() if os.path.exists(fn) else None
            why = None
            nonempty = sum(1 for l in lines if l.strip())
            if r.returncode != 0:
                why = 'wordseg-prep exits with status %d: %s' % (r.returncode, r.stderr.decode('utf8', 'replace')[-300:])
            elif len(want_p) != nonempty or len(want_g) != nonempty:
                why = 'prepare()/gold() return %d/%d lines for %d non-empty input lines' % (len(want_p), len(want_g), nonempty)
            else:
                for name, want in (('prep.txt', want_p), ('gold.txt', want_g)):
                    if got[name] != '\n'.join(want) + '\n':
                        gl = (got[name] or '').split('\n')
                        bad = next((i for i, (a, b) in enumerate(zip(gl, want)) if a != b), min(len(gl), len(want)))
                        why = 'wordseg-prep wrote %d lines in %s for %d utterances; first difference at line %d: %r instead of %r' % (
                            len(gl) - 1, name, len(want), bad + 1, gl[bad][:80] if bad < len(gl) else None, want[bad][:80] if bad < len(want) else None)
                        break
            ck.case('large-corpus-command:%d:%s' % (size, unit), True, sample={'utterances': size, 'unit': unit, 'sep': sep})
            ck.count('family:large-corpus-command')
            if why:
                ck.violation({'site': 'python -m wordseg.prepare', 'input': {'utterances': size, 'unit': unit, 'sep': sep,
                                                                           'corpus': 'pool[(i*7 + i//40) % 40] for i < size, a blank line after every 997th', 'pool': pool}},
                             'property fails on the implementation: ' + why)
        finally:
            shutil.rmtree(d, ignore_errors=True)


def main():
    ck = Check('C04')
    failures = ck.prove()
    rng = ck.rng
    cases = []
    for c in load_corpus('C04'):
        cases.extend(tree_cases(rng, c['trees'], tuple(c['sep']), c.get('style', 'compact'), 'corpus', check_punct=False))
    n = 1500 if ck.thorough else 130
    for k in range(n):
        fam = ['ascii', 'multi', 'ipa', 'sepfrag', 'sepchars'][k % 5]
        sep = SEPS[k % len(SEPS)]
        trees = [sl.rand_tree(rng, sl.PHONES[fam]) for _ in range(rng.randint(1, 5))]
        if not all(sl.tree_ok(t, sep) for t in trees):
            continue
        styles = ['compact', 'padded'] + (['fullpad'] if sep[0] not in (None, ' ') else [])
        if any(x and ' ' in x and x != ' ' for x in sep[:2]) or sep[1] == ' ':
            styles = ['compact']          # a separator with spaces cannot be told from padding
        for st in styles:
            cases.extend(tree_cases(rng, trees, sep, st, 'trees-%s-%s' % (fam, st)))
    # long utterances (dozens of words, a hundred phones and more in ONE line): every separator occurrence and every run
    # of padding spaces of the line must be handled, not only the first few dozen
    for k in range(24 if ck.thorough else 6):
        sep = [SEPS[0], ('_', ';esyll', ';eword'), (' ', None, ';eword')][k % 3] if k < 3 else SEPS[k % len(SEPS)]
        tree = sl.rand_tree(rng, sl.PHONES[['ascii', 'ipa', 'multi'][k % 3]], nwords=rng.randint(16, 28))
        if not sl.tree_ok(tree, sep):
            continue
        styles = ['compact', 'padded'] + (['fullpad'] if sep[0] not in (None, ' ') else [])
        if any(x and ' ' in x and x != ' ' for x in sep[:2]) or sep[1] == ' ':
            styles = ['compact']
        short = sl.rand_tree(rng, sl.PHONES['ascii'])
        for st in styles:
            cases.extend(tree_cases(rng, [short, tree, short] if sl.tree_ok(short, sep) else [tree], sep, st, 'long-utterance-%s' % st))
    # outside the quantifier (correspondence only): undefined phone/word level, syllable level without syllables
    for k in range(200 if ck.thorough else 30):
        sep = rng.choice([(None, ';esyll', ';eword'), (' ', ';esyll', None), (None, None, ';eword'), (' ', None, ';eword')])
        tree = sl.rand_tree(rng, sl.PHONES['ascii'])
        line = sl.render(tree, sep, 'compact')
        cases.append(prepare_case([line], sep, rng.choice(['phone', 'syllable']), 'malformed-levels'))
        cases.append(gold_case([line], sep, 'malformed-levels'))
    for c in cases:
        ck.count('family:' + c['desc']['family'])
    correspond(ck, cases)
    large_corpus_command(ck, rng)
    nre, problems = ck.coq_recheck()
    finish_proof_failures(ck, failures + problems)
    return ck.finish(
        rule='%d draws of 1-5 random word/syllable/phone trees x %d separator triples (syllable optionally undefined, phone separator space or not, multi-character and non-ASCII, word separator with an inner space) '
             'x compact/padded tagging x interleaved blank lines and trailing newlines, plus utterances of 16-28 words (more than a hundred phones in one line), through prepare(phone), prepare(syllable) and gold; oracle: the three views recomputed from the trees. '
             'Every case is non-trivial (distinct tree/separator/view).' % (n, len(SEPS)),
        assumptions=['the word separator has no leading/trailing whitespace (prepare strips each line before checking its end)'])


if __name__ == '__main__':
    sys.exit(main())
