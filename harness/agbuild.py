"""Builds the ag program from /repo's working tree into a scratch directory
(removed at exit) and returns the directory (usable as WORDSEG_VERIF_BINDIR)."""
import atexit
import os
import shutil
import subprocess
import tempfile

_dir = None


def build(sanitize=False):
    global _dir
    if _dir and not sanitize:
        return _dir
    d = tempfile.mkdtemp(prefix='verif-agbuild-')
    atexit.register(shutil.rmtree, d, ignore_errors=True)
    env = dict(os.environ)
    args = ['cmake', '/repo/wordseg/algos/ag', '-DCMAKE_BUILD_TYPE=Release']
    if sanitize:
        args = ['cmake', '/repo/wordseg/algos/ag', '-DCMAKE_BUILD_TYPE=RelWithDebInfo', '-DCMAKE_CXX_COMPILER=clang++-14',
                '-DCMAKE_CXX_FLAGS=-fsanitize=address,undefined -fno-omit-frame-pointer']
    r = subprocess.run(args, cwd=d, capture_output=True, text=True, env=env)
    if r.returncode != 0:
        raise RuntimeError('cmake failed: ' + (r.stdout + r.stderr)[-800:])
    r = subprocess.run(['make', '-j16'], cwd=d, capture_output=True, text=True, env=env)
    if r.returncode != 0 or not os.path.exists(os.path.join(d, 'ag')):
        raise RuntimeError('building ag failed: ' + (r.stdout + r.stderr)[-1200:])
    if not sanitize:
        _dir = d
    return d
