"""Translator (C17a): option tables of the ag and dpseg commands, regenerated on
every run from the Python and C++ sources, emitted as coq/gen/Options.v.

Python side (dynamic, from the imported modules): for every declared argument
the flag the wrapper really puts on the program's command line and whether a
value follows. C++ side (static, from the sources): the getopt string and case
labels of ag/src/main.cc; the program_options declarations of dpseg/src/dpseg.cc.
Fail-closed."""
import argparse
import os
import re
import sys

REPO = '/repo'
VERIF = os.path.dirname(os.path.dirname(os.path.abspath(__file__)))
OUT = os.path.join(VERIF, 'coq', 'gen', 'Options.v')


class TranslationError(Exception):
    pass


def strip_cpp_comments(src):
    src = re.sub(r'/\*.*?\*/', '', src, flags=re.S)
    return '\n'.join(re.sub(r'//.*$', '', l) for l in src.split('\n'))


def ag_python_rows():
    os.environ.setdefault('WORDSEG_VERIF_BINDIR', os.path.join(VERIF, 'harness', 'stubs'))
    sys.path.insert(0, REPO)
    from wordseg.algos import ag
    rows = []
    for a in ag.AG_ARGUMENTS:
        if a.parsed_name() == 'test_file':
            continue           # excluded by _command_line_arguments, set by the wrapper itself
        ns = argparse.Namespace(**{a.parsed_name(): (True if a.type == bool else (7 if a.type in (int, float) else 'x'))})
        s = ag._command_line_arguments(ns)
        m = re.fullmatch(r'-(\w)( \S+)?', s.strip())
        if not m:
            raise TranslationError('ag: option %s is rendered as %r' % (a.name, s))
        rows.append((a.name, m.group(1), m.group(2) is not None))
    # options the wrapper adds itself in _segment_single
    rows.append(('<test file>', 'u', True))
    rows.append(('<category>', 'c', True))
    return rows


def ag_cpp_tables():
    src = strip_cpp_comments(open(os.path.join(REPO, 'wordseg/algos/ag/src/main.cc')).read())
    m = re.findall(r'getopt\s*\(\s*argc\s*,\s*argv\s*,\s*"([^"]*)"\s*\)', src)
    if len(m) != 1:
        raise TranslationError('ag: expected exactly one getopt call, found %d' % len(m))
    spec = m[0]
    opts = []
    i = 0
    while i < len(spec):
        c = spec[i]
        takes = i + 1 < len(spec) and spec[i + 1] == ':'
        opts.append((c, takes))
        i += 2 if takes else 1
    cases = re.findall(r"case\s+'(\w)'\s*:", src)
    echo = re.findall(r'"[#,]\s*(\w) = "\s*<<', src)
    return opts, cases, echo


def dpseg_python_rows():
    os.environ.setdefault('WORDSEG_VERIF_BINDIR', os.path.join(VERIF, 'harness', 'stubs'))
    sys.path.insert(0, REPO)
    from wordseg.algos import dpseg
    rows = []
    for a in dpseg.DPSEG_ARGUMENTS:
        t = a.type
        kind = ('bool' if t == bool else 'int' if t == int else 'float' if t == float else 'str')
        rows.append((a.name.lstrip('-'), kind))
    # value rewriting in main(): `if k == 'ngram': v = {'unigram': 1, 'bigram': 2}[v]`
    src = open(os.path.join(REPO, 'wordseg/algos/dpseg.py')).read()
    for key, body in re.findall(r"if k == '(\w+)':\s*v = \{([^}]*)\}\[v\]", src):
        vals = [x.split(':')[1].strip() for x in body.split(',') if ':' in x]
        kind = 'int' if vals and all(re.fullmatch(r'-?\d+', v) for v in vals) else 'str'
        rows = [(n, kind if n.replace('-', '_') == key else k) for n, k in rows]
    rows.append(('randseed', 'int'))
    rows.append(('config-file', 'str'))
    rows.append(('output-file', 'str'))
    return rows


def dpseg_cpp_table():
    src = strip_cpp_comments(open(os.path.join(REPO, 'wordseg/algos/dpseg/src/dpseg.cc')).read())
    m = re.search(r'desc\.add_options\(\)(.*?);', src, re.S)
    if not m:
        raise TranslationError('dpseg: add_options() block not found')
    decl = []
    for name, rest in re.findall(r'\(\s*"([^"]+)"\s*,(.*?)(?=\(\s*"|\Z)', m.group(1), re.S):
        long = name.split(',')[0]
        t = re.search(r'po::value<\s*([\w:]+)\s*>', rest)
        kind = 'none'
        if t:
            kind = {'U': 'uint', 'F': 'float', 'std::string': 'str', 'bool': 'bool'}.get(t.group(1))
            if kind is None:
                raise TranslationError('dpseg: unknown value type %s for --%s' % (t.group(1), long))
        decl.append((long, kind))
    if len(decl) < 10:
        raise TranslationError('dpseg: only %d options recognised' % len(decl))
    return decl


def skip_condition(path, funcname):
    """the condition on the value `v` under which the command leaves an option out: the `if ... : continue`
    at the head of the loop over vars(args).items(), minus its `k in excluded_args` disjunct"""
    import ast
    tree = ast.parse(open(path).read())
    fn = [n for n in ast.walk(tree) if isinstance(n, ast.FunctionDef) and n.name == funcname]
    if len(fn) != 1:
        raise TranslationError('%s: function %s not found' % (path, funcname))
    loops = [n for n in ast.walk(fn[0]) if isinstance(n, ast.For) and isinstance(n.target, ast.Tuple)
             and [getattr(e, 'id', None) for e in n.target.elts] == ['k', 'v']]
    if len(loops) != 1:
        raise TranslationError('%s: expected one loop "for k, v in vars(args).items()" in %s' % (path, funcname))
    first = loops[0].body[0]
    if not (isinstance(first, ast.If) and len(first.body) == 1 and isinstance(first.body[0], ast.Continue) and not first.orelse):
        raise TranslationError('%s: the loop of %s does not start with "if ...: continue"' % (path, funcname))

    def const(n):
        if isinstance(n, ast.Constant):
            v = n.value
            if v is None:
                return 'PNone'
            if v is True or v is False:
                return 'PBool %s' % ('true' if v else 'false')
            if isinstance(v, int):
                return 'PNum (%d # 1)%%Q' % v
            if isinstance(v, float) and v == int(v):
                return 'PNum (%d # 1)%%Q' % int(v)
            if isinstance(v, str):
                return 'PStr %s' % coq_str(v)
        raise TranslationError('%s: constant not understood in the skip condition: %s' % (path, ast.dump(n)))

    def is_v(n):
        return isinstance(n, ast.Name) and n.id == 'v'

    def tr(n):
        if isinstance(n, ast.BoolOp):
            parts = [tr(x) for x in n.values]
            parts = [x for x in parts if x is not None]
            if not parts:
                return None
            op = 'CAnd' if isinstance(n.op, ast.And) else 'COr'
            out = parts[0]
            for x in parts[1:]:
                out = '(%s %s %s)' % (op, out, x)
            return out
        if isinstance(n, ast.UnaryOp) and isinstance(n.op, ast.Not):
            return '(CNot %s)' % tr(n.operand)
        if isinstance(n, ast.Compare) and len(n.ops) == 1:
            left, op, right = n.left, n.ops[0], n.comparators[0]
            if isinstance(left, ast.Name) and left.id == 'k' and isinstance(op, ast.In) and isinstance(right, ast.Name) and right.id == 'excluded_args':
                return None          # the Python-only arguments, not a condition on the value
            if is_v(left):
                if isinstance(op, ast.In) and isinstance(right, (ast.Tuple, ast.List)):
                    return '(CIn [%s])' % '; '.join(const(e) for e in right.elts)
                table = {ast.Eq: 'CEq', ast.NotEq: 'CNe', ast.Is: 'CIs', ast.IsNot: 'CIsNot'}
                for t, name in table.items():
                    if isinstance(op, t):
                        return '(%s (%s))' % (name, const(right))
        raise TranslationError('%s: skip condition of %s not understood: %s' % (path, funcname, ast.unparse(n)))

    test = first.test
    if isinstance(test, ast.BoolOp) and isinstance(test.op, ast.Or) and tr(test.values[0]) is None:
        c = tr(ast.BoolOp(op=ast.Or(), values=test.values[1:])) if len(test.values) > 2 else tr(test.values[1])
    else:
        raise TranslationError('%s: the skip condition of %s is not "k in excluded_args or ..."' % (path, funcname))
    if c is None:
        raise TranslationError('%s: no condition on the value in %s' % (path, funcname))
    return c, ast.unparse(test)


def coq_str(s):
    return '[' + '; '.join('%d%%N' % ord(c) for c in s) + ']'


def main():
    agp = ag_python_rows()
    ago, agc, age = ag_cpp_tables()
    dpp = dpseg_python_rows()
    dpc = dpseg_cpp_table()
    text = ['(* GENERATED by harness/translate_options.py from ag.py, dpseg.py, ag/src/main.cc, dpseg/src/dpseg.cc - do not edit. *)',
            'From WS Require Import Base.Py.',
            '(* what the Python wrapper puts on the ag command line: (flag, value follows) *)',
            'Definition ag_py_rows : list (N * bool) := [%s].' % '; '.join('(%d%%N, %s)' % (ord(f), 'true' if v else 'false') for _, f, v in agp),
            '(* getopt string of main.cc: (flag, argument required) *)',
            'Definition ag_getopt : list (N * bool) := [%s].' % '; '.join('(%d%%N, %s)' % (ord(f), 'true' if v else 'false') for f, v in ago),
            'Definition ag_cases : list N := [%s].' % '; '.join('%d%%N' % ord(c) for c in agc),
            '(* kind codes: 0 bool, 1 int, 2 float, 3 str / C++: 0 none, 1 uint, 2 float, 3 str, 4 bool *)',
            'Definition dp_py_rows : list (list N * N) := [%s].' % '; '.join('(%s, %d%%N)' % (coq_str(n), {'bool': 0, 'int': 1, 'float': 2, 'str': 3}[k]) for n, k in dpp),
            'Definition dp_cpp_rows : list (list N * N) := [%s].' % '; '.join('(%s, %d%%N)' % (coq_str(n), {'none': 0, 'uint': 1, 'float': 2, 'str': 3, 'bool': 4}[k]) for n, k in dpc),
            ]
    agskip, agsrc = skip_condition(os.path.join(REPO, 'wordseg/algos/ag.py'), '_command_line_arguments')
    dpskip, dpsrc = skip_condition(os.path.join(REPO, 'wordseg/algos/dpseg.py'), 'main')
    text += ['From Coq Require Import QArith.', 'From WS Require Import Cli.Options.',
             '(* ag.py: if %s: continue *)' % agsrc.replace('*)', '* )'),
             'Definition ag_skip_cond : cond := %s.' % agskip,
             '(* dpseg.py: if %s: continue *)' % dpsrc.replace('*)', '* )'),
             'Definition dp_skip_cond : cond := %s.' % dpskip,
             '']
    text = '\n'.join(text)
    os.makedirs(os.path.dirname(OUT), exist_ok=True)
    if not os.path.exists(OUT) or open(OUT).read() != text:
        open(OUT, 'w').write(text)
    return dict(ag_python=agp, ag_getopt=ago, ag_cases=agc, ag_echo=age, dpseg_python=dpp, dpseg_cpp=dpc)


if __name__ == '__main__':
    try:
        r = main()
        print({k: len(v) for k, v in r.items()})
    except TranslationError as e:
        print('TRANSLATION-ERROR: %s' % e)
        sys.exit(2)
