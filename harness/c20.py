"""C20 — preparation rejects malformed lines and keeps its outputs aligned."""
import os
import shutil
import string
import subprocess
import sys
import tempfile
from concurrent.futures import ThreadPoolExecutor

from common import load_corpus, Check, correspond, decode_result, call_impl, finish_proof_failures, text2j, j2text, s2j, EXN
import seplib as sl
from c04 import impl_prepare, dec_prepare, prepare_case

from wordseg import prepare as prep
from wordseg.separator import Separator

SEPS = [(' ', ';esyll', ';eword'), (' ', None, ';eword'), ('_', ';esyll', ';eword'), ('_', None, '<w>')]


def reference_reject(line, sep, cp):
    """the property's list of defects, evaluated on the stripped line"""
    p, s, w = sep
    core = line
    for x in (w, s, p):
        if x:
            core = core.replace(x, '')
    if not core.strip():
        return 'empty'
    if cp and any(c in string.punctuation for c in core):
        return 'punctuation'
    if any(x and line.startswith(x) for x in (p, s, w)):
        return 'leading separator'
    if not line.endswith(w):
        return 'no final word separator'
    if s and s in line:
        toks = line.split(p)
        if any(a != s for a, b in zip(toks[:-1], toks[1:]) if b == w):
            return 'word without final syllable separator'
    return None


def occurrences(line, sep):
    return [sum(1 for i in range(len(line)) if line.startswith(x, i)) if x else 0 for x in sep]


def punct_variants(rng, tree, sep, style, chars=string.punctuation, tries=4):
    """a punctuation mark (any of string.punctuation that does not complete a separator occurrence) at the start,
    in the middle and at the end of a phone, and as a phone of its own"""
    out = []
    for place in ('start', 'middle', 'end', 'own'):
        for _ in range(tries):
            c = rng.choice(chars)
            wi = rng.randrange(len(tree))
            si = rng.randrange(len(tree[wi]))
            pi = rng.randrange(len(tree[wi][si]))

            def variant(ch):
                t = [[list(s) for s in w] for w in tree]
                ph = t[wi][si][pi]
                if place == 'own':
                    t[wi][si].insert(pi, ch)
                else:
                    t[wi][si][pi] = {'start': ch + ph, 'middle': ph[:1] + ch + (ph[1:] or ph), 'end': ph + ch}[place]
                return sl.render(t, sep, style)
            cand = variant(c)
            # the mark must not create a separator occurrence: same counts as with a neutral letter in its place
            if occurrences(cand, sep) == occurrences(variant('z'), sep):
                out.append(('punctuation-' + place, cand))
                break
    return out


def defects(rng, line, sep, tree=None, style=None):
    """single-defect variants of a well-formed line"""
    p, s, w = sep
    out = [('missing-final-wordsep', line[:len(line) - len(w)].rstrip() if line.endswith(w) else line)]
    out.append(('leading-wordsep', w + (' ' if p == ' ' else '') + line))
    if s:
        out.append(('leading-syllsep', s + (' ' if p == ' ' else '') + line))
    if p:
        # (a leading space is taken off by prepare's strip(): a defect for check_utterance only)
        out.append(('leading-phonesep', p + line))
    pos = rng.randint(0, len(line))
    out.append(('punctuation', line[:pos] + rng.choice('!?.,') + line[pos:]))
    if tree is not None:
        out.extend(punct_variants(rng, tree, sep, style))
    # a stray punctuation mark that also occurs inside a separator (';' of ';esyll', '<' of '<w>')
    own = sorted({c for x in (p, s, w) if x for c in x if c in string.punctuation})
    for _ in range(3):
        if not own:
            break
        pos, c = rng.randint(0, len(line)), rng.choice(own)
        cand = line[:pos] + (c + ' ' if p == ' ' else c) + line[pos:]
        # the mark must be a mark inside the text, not a damaged or a spurious separator: the separator occurrences
        # are those of the line with a neutral letter in its place, and deleting one kind of separator does not
        # make another one appear (that input belongs to the known class spurious_separator_occurrence of C04)
        neutral = line[:pos] + ('z ' if p == ' ' else 'z') + line[pos:]
        stable = all(occurrences(cand.replace(x, ''), tuple(y if y != x else None for y in sep)) ==
                     occurrences(neutral.replace(x, ''), tuple(y if y != x else None for y in sep))
                     for x in (p, s, w) if x and x != ' ')
        # ... and it neither damages nor completes an occurrence of the line itself (the phone separator ' ' is
        # counted apart: the mark comes with its own space)
        same = all(a == b for a, b, x in zip(occurrences(cand, sep), occurrences(line, sep), sep) if x != ' ')
        if reference_reject(cand, sep, True) == 'punctuation' and same and occurrences(cand, sep) == occurrences(neutral, sep) and stable:
            out.append(('punctuation-separator-char', cand))
            break
    if s and p == ' ' and (' ' + s + ' ' + w) in line:
        out.append(('missing-syllsep', line.replace(' ' + s + ' ' + w, ' ' + w, 1)))
    out.append(('blank', rng.choice(['', ' ', '  '])))
    out.append(('only-separators', w))
    return out


def check_case(line, sep, cp, family):
    def oracle(out):
        why = reference_reject(line, sep, cp)
        if why and out != ('raise', 'ValueError'):
            return 'line with defect "%s" not rejected with ValueError: %r' % (why, out)
        if not why and out[0] != 'ok':
            return 'well-formed line rejected with ' + out[1]
        return None
    return dict(op=401, arg=[s2j(line), sl.sepj(sep), int(cp)], site='prepare.check_utterance',
                desc={'line': line, 'sep': sep, 'check_punctuation': cp, 'family': family},
                impl=lambda: call_impl(lambda: prep.check_utterance(line, Separator(*sep), check_punctuation=cp) and None),
                dec=lambda w: decode_result(w, lambda v: None), oracle=oracle, nontrivial=lambda m: m[0] == 'raise')


def text_case(text, sep, unit, cp, tolerant, family):
    def oracle(out):
        got, end = out
        status = [(None if not l.strip() else (reference_reject(l.strip(), sep, cp) or 'ok')) for l in text]
        if tolerant:
            if end is not None:
                return 'tolerant mode raised %r' % (end,)
            good = [l for l, st in zip(text, status) if st == 'ok']
            want, wend = impl_prepare(good, sep, unit, cp, False)
            if wend is not None or want != got:
                return 'tolerant output is not the prepared form of exactly the accepted lines'
        else:
            bad = [i for i, st in enumerate(status) if st not in (None, 'ok')]
            if bad:
                if end != ('ValueError', bad[0] + 1):
                    return 'first rejected line is %d but prepare ended with %r' % (bad[0] + 1, end)
                if len(got) != sum(1 for st in status[:bad[0]] if st == 'ok'):
                    return 'lines before the first error were not all yielded'
            elif end is not None:
                return 'well-formed text raised %r' % (end,)
        return None
    c = prepare_case(text, sep, unit, family, cp=cp, tolerant=tolerant, oracle=oracle)
    c['nontrivial'] = lambda m: m[1] is not None or len(m[0]) < sum(1 for l in text if l.strip())
    return c


def run_cli(text, sep, unit, cp, tolerant, with_gold):
    d = tempfile.mkdtemp(prefix='c20-')
    try:
        inp = os.path.join(d, 'in.txt')
        with open(inp, 'w', encoding='utf8') as f:
            f.write(''.join(l if l.endswith('\n') else l + '\n' for l in text))
        cmd = ['/venv/bin/python', '-m', 'wordseg.prepare', '-q', '-u', unit, '-p', sep[0] or '', '-s', sep[1] or '', '-w', sep[2] or '',
               '-o', os.path.join(d, 'out.txt'), inp]
        if tolerant:
            cmd.insert(4, '-t')
        if not cp:
            cmd.insert(4, '-P')
        if with_gold:
            cmd[4:4] = ['-g', os.path.join(d, 'gold.txt')]
        r = subprocess.run(cmd, capture_output=True, text=True, env=dict(os.environ, PYTHONPATH='/repo', PYTHONWARNINGS='ignore'))

        def rd(name):
            p = os.path.join(d, name)
            return open(p, encoding='utf8').read() if os.path.exists(p) else None
        return dict(code=r.returncode, out=rd('out.txt'), gold=rd('gold.txt'), err=r.stderr)
    finally:
        shutil.rmtree(d, ignore_errors=True)


def cli_case(text, sep, unit, cp, tolerant, with_gold, family):
    def dec(w):
        end = None if not w[1] else (EXN.get(w[1][0], str(w[1][0])), w[1][1])
        g = None
        if w[2]:
            g = decode_result(w[2][0], j2text)
        return (j2text(w[0]), end, g)

    def eq(m, i):
        prepared, end, g = m
        if end is not None:
            return i['code'] == 1 and i['err'].startswith('fatal error: line %d:' % end[1]) if end[0] == 'ValueError' else i['code'] != 0
        if i['code'] != 0 or i['out'] != '\n'.join(prepared) + '\n':
            return False
        if with_gold:
            return g is not None and g[0] == 'ok' and i['gold'] == '\n'.join(g[1]) + '\n'
        return i['gold'] is None

    def oracle(i):
        if i['code'] == 0:
            if not i['out'].endswith('\n'):
                return 'output not newline terminated'
            if with_gold:
                a = i['out'].split('\n')[:-1]
                b = i['gold'].split('\n')[:-1]
                if a == [''] :
                    a = []
                if b == ['']:
                    b = []
                if len(a) != len(b) or any(x.replace(' ', '') != y.replace(' ', '') for x, y in zip(a, b)):
                    return 'prepared and gold files are not aligned line for line (%d vs %d lines)' % (len(a), len(b))
        else:
            if i['code'] != 1 or not i['err'].startswith('fatal error:') or len(i['err'].strip().split('\n')) != 1:
                return 'failure is not exit status 1 with a one-line fatal error: code %d, stderr %r' % (i['code'], i['err'][-200:])
        return None
    return dict(op=404, arg=[text2j([l.rstrip('\n') + '\n' for l in text]), sl.sepj(sep), 0 if unit == 'phone' else 1, int(cp), int(tolerant)],
                site='wordseg-prep', desc={'text': text, 'sep': sep, 'unit': unit, 'check_punctuation': cp, 'tolerant': tolerant, 'gold': with_gold, 'family': family},
                impl=None, dec=dec, eq=eq, oracle=oracle,
                res_of=lambda m: ('ok',) if m[1] is None else ('raise', m[1][0]),
                nontrivial=lambda m: True)


def main():
    ck = Check('C20')
    failures = ck.prove()
    rng = ck.rng
    cases = []
    ntexts = 400 if ck.thorough else 60
    cli = []
    cli_pool = []      # (text, sep, defect name): candidates for the command line runs
    for k in range(ntexts):
        sep = SEPS[k % len(SEPS)]
        fam = ['ascii', 'ipa', 'multi'][k % 3]
        style = 'padded' if sep[0] == ' ' else 'compact'
        good, gtrees = [], []
        for _ in range(rng.randint(1, 5)):
            t = sl.rand_tree(rng, sl.PHONES[fam])
            if sl.tree_ok(t, sep):
                good.append(sl.render(t, sep, style))
                gtrees.append(t)
        if not good:
            continue
        cp = rng.random() < 0.8
        for l, t in zip(good, gtrees):
            cases.append(check_case(l, sep, cp, 'wellformed'))
            for name, bad in defects(rng, l, sep, t, style):
                if bad:
                    for cpx in ((True, False) if name.startswith('punctuation') else (cp,)):
                        cases.append(check_case(bad, sep, cpx, 'defect-' + name))
        # texts mixing well-formed lines with one defective variant: at every position when the text is short,
        # at a random one otherwise
        base = list(good)
        i0 = rng.randrange(len(good))
        for name, bad in defects(rng, good[i0], sep, gtrees[i0], style):
            every = len(base) <= 4 or ck.thorough
            for pos in (range(len(base) + 1) if every else [rng.randint(0, len(base))]):
                text = base[:pos] + [bad] + base[pos:]
                if rng.random() < 0.3:
                    # the very same defective line once more, elsewhere in the text: every copy is rejected
                    q = rng.randint(0, len(text))
                    text = text[:q] + [bad] + text[q:]
                if rng.random() < 0.5:
                    # blank lines anywhere, also before the defective line: they are skipped but counted
                    for _ in range(rng.randint(1, 2)):
                        q = rng.randint(0, len(text))
                        text = text[:q] + [rng.choice(['', ' ', '  ', '\t', '\xa0', '\u3000 '])] + text[q:]
                unit = 'syllable' if sep[1] and rng.random() < 0.4 else 'phone'
                for tol in (False, True):
                    for cpx in ((True, False) if name.startswith('punctuation') else (cp,)):
                        cases.append(text_case(text, sep, unit, cpx, tol, 'text-' + name))
                cli_pool.append((text, sep, name))
        cases.append(text_case(base, sep, 'phone', cp, False, 'text-wellformed'))
        cli_pool.append((base, sep, 'wellformed'))
    # the command: every combination of (-t, -P, -g, unit) on a text with a punctuation mark and on a text with
    # another defect (the first candidates of the pool that allow the unit), then random combinations
    rng.shuffle(cli_pool)
    combos = [(tol, cp, g, unit) for tol in (False, True) for cp in (True, False) for g in (False, True) for unit in ('phone', 'syllable')]
    for want_punct in (True, False):
        for tol, cp, g, unit in combos:
            for i, (text, sep, name) in enumerate(cli_pool):
                if name.startswith('punctuation') == want_punct and name != 'wellformed' and (unit == 'phone' or sep[1]):
                    cli.append(cli_case(text, sep, unit, cp, tol, g, 'cli-%s%s%s%s-%s' % ('t' if tol else '', '' if cp else 'P', 'g' if g else '', unit[0], name)))
                    del cli_pool[i]
                    break
    for text, sep, name in cli_pool[:(130 if ck.thorough else 12)]:
        unit = 'syllable' if sep[1] and rng.random() < 0.4 else 'phone'
        cli.append(cli_case(text, sep, unit, rng.random() < 0.6, rng.random() < 0.6, rng.random() < 0.7, 'cli-' + name))
    # every punctuation character x placement x triple on a fixed tree
    sweep_tree = [[['ka', 'to'], ['mi']], [['ne', 'so']]]
    for sep in SEPS:
        style = 'padded' if sep[0] == ' ' else 'compact'
        for c in string.punctuation:
            for name, bad in punct_variants(rng, sweep_tree, sep, style, chars=c, tries=1):
                for cpx in (True, False):
                    cases.append(check_case(bad, sep, cpx, 'sweep-' + name))
    # run the command line cases 16-wide
    with ThreadPoolExecutor(max_workers=16) as ex:
        results = list(ex.map(lambda c: run_cli(c['desc']['text'], c['desc']['sep'], c['desc']['unit'], c['desc']['check_punctuation'],
                                                c['desc']['tolerant'], c['desc']['gold']), cli))
    for c, r in zip(cli, results):
        c['impl'] = (lambda r=r: r)
    cases.extend(cli)
    for c in cases:
        ck.count('family:' + c['desc']['family'])
    correspond(ck, cases)
    nre, problems = ck.coq_recheck()
    finish_proof_failures(ck, failures + problems)
    return ck.finish(
        rule='%d draws of well-formed renderings (4 separator triples, compact/padded) with every single-defect variant (missing final word separator, leading word/syllable/phone separator, '
             'punctuation mark drawn from string.punctuation at the start/middle/end of a phone and as a phone of its own, missing word-final syllable separator, blank line, separators only) '
             'through check_utterance; texts with one defect at every position (texts of up to 4 lines; a random position in longer ones) through prepare in strict and tolerant mode x check_punctuation x unit; '
             'a sweep of every punctuation character x placement x triple; %d runs of python -m wordseg.prepare covering every combination of -t, -P, -g and -u twice. '
             'Non-trivial = a rejected line / an error / a dropped line.'
             % (ntexts, len(cli)))


if __name__ == '__main__':
    sys.exit(main())
