"""C14 — syllabification only adds syllable marks, at maximal-onset positions."""
import os
import sys

from common import load_corpus, Check, correspond, decode_result, call_impl, finish_proof_failures, text2j, j2text, s2j
import seplib as sl

from wordseg.separator import Separator
from wordseg.syllabification import Syllabifier

DATADIR = '/repo/data/syllabification'
SEPS = [(';', '_', ' '), (' ', ';esyll', ';eword'), (None, '_', ' '), ('.', '=', '/')]
SEPS[3] = ('/', '=', '@')


def impl_syllabify(ons, vow, sep, filling, text, strip, tolerant):
    def f():
        s = Syllabifier(list(ons), list(vow), separator=Separator(*sep), filling_vowel=filling)
        return s.syllabify(list(text), strip=strip, tolerant=tolerant)
    return call_impl(f)


def render_utt(words, sep, with_phones, wide=False):
    """words: list of list of single-character phones"""
    p, s, w = sep
    if with_phones and p:
        if w == ' ':
            return ''.join(''.join(ph + p for ph in word) + w for word in words)
        return ''.join(''.join(ph + p for ph in word) + w for word in words)
    if wide and w == ' ':
        # irregular white space between the words of an utterance written without phone separators
        return '  '.join(''.join(word) for word in words)
    return w.join(''.join(word) for word in words) + (w if w != ' ' else '')


_BLANK_RNG = __import__('random').Random(14)


def make_case(ons, vow, sep, filling, words_per_utt, with_phones, strip, tolerant, family, valid, blanks=None, wide=False):
    words_per_utt = [list(ws) for ws in words_per_utt]
    if blanks is None:
        blanks = _BLANK_RNG.random() < 0.35 and len(words_per_utt) > 0
    if blanks:
        # blank utterances (no word at all) among the others: each is an utterance like any other, it comes back as
        # an empty line at its place, also when other utterances are dropped in tolerant mode
        for _ in range(_BLANK_RNG.randint(1, 2)):
            words_per_utt.insert(_BLANK_RNG.randint(0, len(words_per_utt)), [])
        family = family + '+blank'
    text = [render_utt(ws, sep, with_phones, wide) if ws else _BLANK_RNG.choice(['', '  ', '\t']) for ws in words_per_utt]
    vowel_chars = set(vow)

    def oracle(out):
        S = Separator(*sep)
        closed = all(o[i:] in ons for o in ons for i in range(1, len(o)))
        multi = with_phones and any(len(ph) > 1 for ws in words_per_utt for w in ws for ph in w)
        if out[0] != 'ok':
            if out[1] != 'ValueError':
                return 'failure is not a ValueError: ' + out[1]
            if tolerant:
                # (the generated texts contain no syllable separator, the only thing tolerant mode refuses)
                return 'tolerant mode raised ValueError instead of dropping the utterance that cannot be syllabified'
            if valid and closed and not tolerant:
                if not multi:
                    return 'a text of syllabifiable words raised ' + out[1]
                # multi-character phones: the words are syllabifiable character by character, so the
                # only legitimate reason to refuse the utterance is a syllable boundary inside a phone
                plain = impl_syllabify(ons, vow, sep, filling, [render_utt(ws, sep, False) for ws in words_per_utt if ws], False, False)
                if plain[0] != 'ok':
                    return 'a text of syllabifiable words raised %s (also without phone separators)' % plain[1]
                cut = False
                for ws, o in zip([ws for ws in words_per_utt if ws], plain[1]):
                    for w, wo in zip(ws, S.tokenize(o, 'word', keep_boundaries=True)):
                        pb, k = set(), 0
                        for ph in w:
                            k += len(ph)
                            pb.add(k)
                        k = 0
                        for syl in S.tokenize(wo, 'syllable', keep_boundaries=False):
                            k += len(syl)
                            if k not in pb:
                                cut = True
                if not cut:
                    return 'a text of syllabifiable words raised ValueError although no syllable boundary falls inside a phone'
            return None
        outs = out[1]
        # per-utterance behaviour: tolerant output = strict outputs of the accepted utterances, in order
        singles = [impl_syllabify(ons, vow, sep, filling, [t], strip, False) for t in text]
        acc = [r[1][0] for r in singles if r[0] == 'ok']
        if any(r[0] != 'ok' and r[1] != 'ValueError' for r in singles):
            return 'an utterance alone raises %r' % ([r for r in singles if r[0] != 'ok'][0],)
        if outs != acc:
            return 'output is not the strict output of exactly the accepted utterances, in order'
        kept = [t for t, r in zip(text, singles) if r[0] == 'ok']
        for t, o in zip(kept, outs):
            def phones(u):
                ws = S.tokenize(u, 'word', keep_boundaries=True)
                if sep[0]:
                    return [S.tokenize(S.remove(x, 'syllable') if sep[1] in x else x, 'phone', keep_boundaries=False) if sep[0] in x
                            else [S.remove(x, 'syllable')] for x in ws]
                return [[S.remove(x, 'syllable')] for x in ws]
            win, wout = phones(t), phones(o)
            if [''.join(w) for w in win] != [''.join(w) for w in wout]:
                return 'words changed: input %r, output without syllable marks %r' % (win, wout)
            if sep[0] and sep[0] in t:
                # phone separators present: same phones, in order, in every word
                pin = [S.tokenize(x, 'phone', keep_boundaries=False) for x in S.tokenize(t, 'word', keep_boundaries=True)]
                pout = [[ph for syl in S.tokenize(x, 'syllable', keep_boundaries=True) for ph in S.tokenize(syl, 'phone', keep_boundaries=False)]
                        for x in S.tokenize(o, 'word', keep_boundaries=True)]
                if pin != pout:
                    return 'phones changed: input %r, output %r' % (pin, pout)
            for word in S.tokenize(o, 'word', keep_boundaries=True):
                sylls = [S.remove(x) for x in S.tokenize(word, 'syllable', keep_boundaries=True)]
                plain = ''.join(sylls)
                pos = 0
                for syl in sylls:
                    nv = sum(1 for c in syl if c in vowel_chars)
                    if nv != 1 and not (filling and nv == 0 and len(sylls) == 1):
                        return 'syllable %r of %r has %d vowels' % (syl, word, nv)
                    k = 0
                    while k < len(syl) and syl[k] not in vowel_chars:
                        k += 1
                    onset = syl[:k]
                    if nv == 1:
                        if onset and onset not in ons:
                            return 'syllable %r begins with %r which is not a listed onset' % (syl, onset)
                        if pos > 0 and plain[pos - 1] not in vowel_chars and (plain[pos - 1] + onset) in ons:
                            return 'onset %r of %r can be extended leftwards to %r' % (onset, word, plain[pos - 1] + onset)
                    pos += len(syl)
        return None

    return dict(op=1401, arg=[text2j(ons), text2j(vow), sl.sepj(sep), int(filling), text2j(text), int(strip), int(tolerant)],
                site='Syllabifier.syllabify',
                desc={'onsets': ons, 'vowels': vow, 'sep': sep, 'filling_vowel': filling, 'text': text, 'strip': strip, 'tolerant': tolerant, 'family': family},
                impl=lambda: impl_syllabify(ons, vow, sep, filling, text, strip, tolerant),
                dec=lambda w: decode_result(w, j2text), oracle=oracle,
                nontrivial=lambda m: m[0] == 'raise' or any(sep[1] in u for u in m[1]))


def gen_inventory(rng):
    cons = rng.sample('bdfgklmnprstvz', rng.randint(3, 7))
    vow = rng.sample('aeiou', rng.randint(1, 4))
    ons = set(cons[:rng.randint(2, len(cons))])
    for _ in range(rng.randint(0, 6)):
        n = rng.randint(2, 3)
        cl = ''.join(rng.choice(cons) for _ in range(n))
        ons.add(cl)
        if rng.random() < 0.6:          # suffix-closed
            for i in range(1, n):
                ons.add(cl[i:])
    if rng.random() < 0.2:
        # glides written with the vowel symbol: a vowel that is also listed as a one-character onset
        # (it stays a syllable nucleus: a vowel is never taken into the onset of the next one)
        ons.update(rng.sample(vow, rng.randint(1, min(2, len(vow)))))
    return sorted(ons), vow, cons


def gen_word(rng, ons, vow, cons, valid):
    """valid words: (onset vowel)+ with an optional final coda drawn from the onsets' consonants"""
    w = ''
    for _ in range(rng.randint(1, 3)):
        if rng.random() < 0.8:
            w += rng.choice(ons)
        w += rng.choice(vow)
    if not valid:
        kind = rng.randint(0, 2)
        if kind == 0:
            w = ''.join(rng.choice(cons) for _ in range(rng.randint(1, 3)))       # no vowel
        elif kind == 1:
            w = w + '?'                                                           # unknown symbol
        else:
            w = ''.join(rng.choice(cons) for _ in range(3)) + w                   # leading cluster, maybe not an onset
    elif rng.random() < 0.4:
        w += rng.choice(sorted({c for o in ons for c in o}))
    return list(w)


def load_lang(name):
    o = os.path.join(DATADIR, name + '_onsets.txt')
    v = os.path.join(DATADIR, name + '_vowels.txt')
    if os.path.exists(o) and os.path.exists(v):
        return Syllabifier.open_datafile(o), Syllabifier.open_datafile(v)
    return None


def group_phones(rng, word):
    out, i = [], 0
    while i < len(word):
        n = 2 if i + 1 < len(word) and rng.random() < 0.3 else 1
        out.append(''.join(word[i:i + n]))
        i += n
    return out


def group_phones_long(rng, word):
    """groups of 1-4 adjacent characters, vowels included (e.g. 'al', 'tsa')"""
    out, i = [], 0
    while i < len(word):
        n = rng.choice([1, 1, 2, 3, 4])
        out.append(''.join(word[i:i + n]))
        i += n
    return out


def group_phones_onsets(rng, word, ons, vow):
    """the usual case in real data: a whole consonant cluster that is a listed onset is one phone (an affricate,
    a consonant + glide written as one symbol); the other characters stay single phones"""
    out, i = [], 0
    while i < len(word):
        j = i
        while j < len(word) and word[j] not in vow:
            j += 1
        run = ''.join(word[i:j])
        if len(run) > 1 and run in ons and rng.random() < 0.8:
            out.append(run)
        elif len(run) > 2 and run[1:] in ons and rng.random() < 0.5:
            out.extend([run[0], run[1:]])
        else:
            out.extend(run)
        if j < len(word):
            out.append(word[j])
        i = j + 1
    return out


# Switch for the families with long / onset-aligned phone groups: when True, utterances in which a syllable boundary
# falls inside a multi-character phone are left out of them (used while Syll/Model.v lagged behind commit 88bc4d9,
# IndexError -> ValueError; the pair-grouping family and corpus/C14 always exercise that case).
AVOID_PHONE_CUT = False


def cuts_a_phone(ons, vow, sep, filling, words):
    """the utterance is refused with its phone separators but accepted without them"""
    a = impl_syllabify(ons, vow, sep, filling, [render_utt(words, sep, True)], False, False)
    b = impl_syllabify(ons, vow, sep, filling, [render_utt(words, sep, False)], False, False)
    return a[0] != 'ok' and b[0] == 'ok'


def consonant_onsets(ons, vow):
    return [o for o in ons if not any(c in vow for c in o)]


def main():
    ck = Check('C14')
    failures = ck.prove()
    rng = ck.rng
    cases = []
    for c in load_corpus('C14'):
        cases.append(make_case(c['onsets'], c['vowels'], tuple(c['sep']), c['filling'], c['utts'], c['with_phones'], c['strip'], c['tolerant'],
                               'corpus', c['valid']))
    n = 3000 if ck.thorough else 400
    for k in range(n):
        ons, vow, cons = gen_inventory(rng)
        sep = SEPS[k % len(SEPS)]
        valid = rng.random() < 0.7
        utts = []
        for _ in range(rng.randint(1, 4)):
            ok = valid or rng.random() < 0.5
            utts.append([gen_word(rng, ons, vow, cons, ok or rng.random() < 0.5) for _ in range(rng.randint(1, 4))])
        with_phones = sep[0] is not None and rng.random() < 0.6
        filling = rng.random() < 0.3
        fam = 'generated-%s' % ('valid' if valid else 'mixed')
        r = rng.random()
        if with_phones and r < 0.25:
            # multi-character phones: adjacent characters of a word grouped into one phone
            utts = [[group_phones(rng, w) for w in ws] for ws in utts]
            fam += '-multichar'
        elif with_phones and r < 0.55:
            # longer groups, and groups aligned with the onsets
            if r < 0.45:
                utts = [[group_phones_onsets(rng, w, ons, vow) for w in ws] for ws in utts]
                fam += '-multichar-onsets'
            else:
                utts = [[group_phones_long(rng, w) for w in ws] for ws in utts]
                fam += '-multichar-long'
            if AVOID_PHONE_CUT:
                utts = [ws for ws in utts if not cuts_a_phone(ons, vow, sep, filling, ws)] or [[[vow[0]]]]
        cases.append(make_case(ons, vow, sep, filling, utts, with_phones, rng.random() < 0.4, rng.random() < 0.4, fam, valid))
    # histories: ONE Syllabifier instance reused for several calls with different options and
    # overlapping texts; every call must equal the model's answer for that call alone
    for k in range(400 if ck.thorough else 60):
        ons, vow, cons = gen_inventory(rng)
        sep = SEPS[k % len(SEPS)]
        filling = rng.random() < 0.3
        pool = [[gen_word(rng, ons, vow, cons, True) for _ in range(rng.randint(1, 3))] for _ in range(3)]
        with_phones = sep[0] is not None and rng.random() < 0.5
        try:
            inst = Syllabifier(list(ons), list(vow), separator=Separator(*sep), filling_vowel=filling)
        except Exception:
            continue
        for step in range(rng.randint(2, 4)):
            utts = [rng.choice(pool) for _ in range(rng.randint(1, 3))]
            st, tol = rng.random() < 0.5, rng.random() < 0.5
            text = [render_utt(ws, sep, with_phones) for ws in utts]
            out = call_impl(lambda: inst.syllabify(list(text), strip=st, tolerant=tol))
            c = make_case(ons, vow, sep, filling, utts, with_phones, st, tol, 'history-same-instance', True, blanks=False)
            c['impl'] = (lambda out=out: out)
            fresh = impl_syllabify(ons, vow, sep, filling, text, st, tol)
            c['oracle'] = (lambda o, fresh=fresh: None if o == fresh else
                           'a reused Syllabifier returns %r, a fresh one %r for the same call' % (o, fresh))
            cases.append(c)
    # a vowel-less word completed by the filling vowel: words that are a listed onset (accepted: one syllable without
    # vowel), other consonant strings (accepted only if they happen to be an onset), next to ordinary words; and the
    # same texts without the option (refused or dropped)
    for k in range(800 if ck.thorough else 120):
        ons, vow, cons = gen_inventory(rng)
        sep = SEPS[k % len(SEPS)]
        cons_ons = consonant_onsets(ons, vow)
        filling = rng.random() < 0.85
        valid = filling
        utts = []
        for _ in range(rng.randint(1, 3)):
            ws = []
            for _ in range(rng.randint(1, 3)):
                r = rng.random()
                if r < 0.4 and cons_ons:
                    ws.append(list(rng.choice(cons_ons)))
                elif r < 0.55:
                    w = [rng.choice(cons) for _ in range(rng.randint(1, 3))]
                    valid = valid and ''.join(w) in ons
                    ws.append(w)
                else:
                    ws.append(gen_word(rng, ons, vow, cons, True))
            utts.append(ws)
        if not any(not any(c in vow for c in w) for ws in utts for w in ws):
            utts[-1].append(list(rng.choice(cons_ons or cons)))
            valid = valid and bool(cons_ons)
        with_phones = sep[0] is not None and rng.random() < 0.5
        fam = 'vowel-less-%s' % ('filling' if filling else 'no-filling')
        if with_phones and rng.random() < 0.4:
            utts = [[group_phones_onsets(rng, w, ons, vow) for w in ws] for ws in utts]
            if AVOID_PHONE_CUT:
                utts = [ws for ws in utts if not cuts_a_phone(ons, vow, sep, filling, ws)] or [[list(rng.choice(cons_ons or cons))]]
            fam += '-multichar'
        cases.append(make_case(ons, vow, sep, filling, utts, with_phones, rng.random() < 0.4, rng.random() < 0.4, fam, valid))
    # bundled language data, words sampled from their own symbols (single-character vowels only): strict and tolerant
    # mode, every separator triple, the filling vowel, phones grouped along the onsets (consonant + glide as one phone)
    langs = [(l, l, l) for l in ('cspanish', 'catalan', 'chintang', 'japanese')] + [('aspanish+cspanish', 'aspanish', 'cspanish'), ('qom+english', 'qom', 'english')]
    for lang, lo, lv in langs:
        po, pv = os.path.join(DATADIR, lo + '_onsets.txt'), os.path.join(DATADIR, lv + '_vowels.txt')
        if not (os.path.exists(po) and os.path.exists(pv)):
            continue
        ons, vow = Syllabifier.open_datafile(po), Syllabifier.open_datafile(pv)
        if any(len(v) != 1 for v in vow):
            vow1 = [v for v in vow if len(v) == 1]
        else:
            vow1 = vow
        cons = sorted({c for o in ons for c in o if c not in vow1})
        if not cons or not vow1:
            continue
        cons_ons = consonant_onsets(ons, vow1)
        for k in range(80 if ck.thorough else 16):
            sep = SEPS[k % len(SEPS)]
            tolerant = (k // len(SEPS)) % 2 == 0
            filling = k % 3 == 2
            # words the inventory syllabifies when it is suffix-closed (the oracle checks that it is): strict mode must accept them
            utts = [[gen_word(rng, ons, vow1, cons, True) for _ in range(rng.randint(1, 4))] for _ in range(rng.randint(1, 3))]
            if filling and cons_ons:
                utts[rng.randrange(len(utts))].append(list(rng.choice(cons_ons)))
            valid = True
            if tolerant and rng.random() < 0.5:
                utts.insert(rng.randint(0, len(utts)), [gen_word(rng, ons, vow1, cons, False)])
                valid = False
            with_phones = sep[0] is not None and rng.random() < 0.6
            fam = 'bundled-%s-%s' % (lang, 'tolerant' if tolerant else 'strict')
            if with_phones and rng.random() < 0.5:
                utts = [[group_phones_onsets(rng, w, ons, vow1) for w in ws] for ws in utts]
                if AVOID_PHONE_CUT:
                    utts = [ws for ws in utts if not cuts_a_phone(ons, vow, sep, filling, ws)] or [[[vow1[0]]]]
            ck.count('bundled_sep:%r' % (sep,))
            ck.count('bundled_filling:%s' % filling)
            cases.append(make_case(ons, vow, sep, filling, utts, with_phones, rng.random() < 0.5, tolerant, fam, valid))
            if not with_phones and sep[2] == ' ' and k < 8:
                # the same utterances with runs of spaces between the words (a phone level may be defined although the text
                # has no phone separator): same words, same syllables
                cases.append(make_case(ons, vow, sep, filling, utts, False, k % 2 == 0, tolerant, fam + '-wide-spaces', valid, wide=True))
    # malformed stream: syllable separator already present, empty lists, undefined levels (correspondence only)
    extra = [(['b'], ['a'], (';', '_', ' '), False, ['ba_ ba'], False, False),
             ([], ['a'], (';', '_', ' '), False, ['ba'], False, False),
             (['b'], [], (';', '_', ' '), False, ['ba'], False, False),
             (['b'], ['a'], (';', None, ' '), False, ['ba'], False, False),
             (['b'], ['a'], (' ', ';esyll', ';eword'), False, ['ba;eword ba;eword'], False, False),
             (['b'], ['a'], (' ', ';esyll', ';eword'), False, ['b a ;eword', ''], True, False)]
    for ons, vow, sep, fil, text, st, tol in extra:
        c = make_case(ons or ['x'], vow or ['y'], sep, fil, [], False, st, tol, 'malformed', False)
        c['arg'] = [text2j(ons), text2j(vow), sl.sepj(sep), int(fil), text2j(text), int(st), int(tol)]
        c['desc'].update({'onsets': ons, 'vowels': vow, 'text': text})
        c['impl'] = (lambda ons=ons, vow=vow, sep=sep, fil=fil, text=text, st=st, tol=tol: impl_syllabify(ons, vow, sep, fil, text, st, tol))
        c['oracle'] = None
        cases.append(c)
    for c in cases:
        ck.count('family:' + c['desc']['family'])
    correspond(ck, cases)
    nre, problems = ck.coq_recheck()
    finish_proof_failures(ck, failures + problems)
    return ck.finish(
        rule='%d generated consonant/vowel inventories with random onset lists (suffix-closed or not, clusters up to 3) x texts of valid and invalid words '
             'x 4 separator triples x with/without phone separators (single characters, pairs, groups of up to 4 characters, whole onset clusters as one phone) x strip x tolerant x filling vowel; '
             'vowel-less words with and without the filling vowel; the bundled data/syllabification inventories (4 languages + 2 onset/vowel pairings) with words sampled from their symbols, strict and tolerant, 4 separator triples, filling vowel; '
             'malformed stream. Oracle: tolerant = strict outputs of the accepted utterances, same words/phones once syllable marks are removed, one vowel per syllable, listed and non-extendable onsets. '
             'Non-trivial = a syllable mark placed or an error.' % n,
        assumptions=['vowels are single characters; onsets contain no separator character; an onset contains a vowel symbol only as a one-character glide entry'])


if __name__ == '__main__':
    sys.exit(main())
