"""C15 — AG parse aggregation is exact and independent of thread scheduling.

(a) ParseCounter.update: program regenerated from the AST (gen/ParseCounterProg.v),
    theorem over all schedules; the real method is driven through single- and
    double-preemption schedules at bytecode granularity.
(b) most frequent parse, independent of arrival order.
(c) number of parses: wrapper arithmetic vs the real binary built from the tree;
    ignore_first_parses semantics through ag.segment with the scripted stand-in.
"""
import collections
import itertools
import json
import os
import random
import subprocess
import sys
import shlex
import tempfile
import shutil

from common import Check, VERIF, correspond, decode_result, call_impl, finish_proof_failures, text2j, j2text, s2j, j2s
import sched
import translate_parsecounter

STUBS = os.path.join(VERIF, 'harness', 'stubs')
os.environ['WORDSEG_VERIF_BINDIR'] = STUBS
from wordseg.algos import ag  # noqa: E402

TEXT = ['a b c', 'b a', 'c c a b']


def _counter_signature(njobs):
    """(extra positional arguments, keyword arguments) segment() passes to ParseCounter for this job count"""
    rec = []
    real = ag.ParseCounter

    class Recording(real):
        def __init__(self, nutts, *a, **kw):
            rec.append((tuple(a), tuple(sorted(kw.items()))))
            real.__init__(self, nutts, *a, **kw)
    d = tempfile.mkdtemp(prefix='c15-sig-')
    ag.ParseCounter = Recording
    try:
        ag.segment(list(TEXT), args='-n 2 -x 1 -r 5', nruns=2, njobs=njobs, tempdir=d)
    except Exception:  # noqa
        pass
    finally:
        ag.ParseCounter = real
        shutil.rmtree(d, ignore_errors=True)
    return rec[0] if rec else None


def schedule_cases(ck):
    """drive real threads through ParseCounter.update under scripted schedules"""
    results = []
    parses2 = [['a b', 'c'], ['a b', 'c d']]
    n = sched.count_opcodes(lambda: ag.ParseCounter(2).update(parses2[0]))
    ck.cov['opcodes_per_update'] = n
    if n == 0:
        return [({'schedule': 'n/a'}, 'the bytecode scheduler saw no opcode of ParseCounter.update')], 0
    scheds = []
    # every single-preemption schedule of two threads: thread 0 runs k opcodes, thread 1 runs to the end, thread 0 finishes
    for k in range(n + 1):
        scheds.append(('2 threads, preempt thread 0 after %d opcodes' % k, 2, [0] * k + [1] * (n + 8)))
    # double preemption (sampled) and three threads
    rng = ck.rng
    nd = 300 if ck.thorough else 40
    for _ in range(nd):
        k1, k2 = rng.randint(0, n), rng.randint(0, n)
        scheds.append(('2 threads, 0 runs %d, 1 runs %d, then 0' % (k1, k2), 2, [0] * k1 + [1] * k2 + [0] * (n + 8)))
    for _ in range(nd):
        ks = [rng.randint(0, n) for _ in range(3)]
        order = rng.sample([0, 1, 2], 3)
        s = []
        for t in order:
            s += [t] * ks[t]
        scheds.append(('3 threads %r prefixes %r' % (order, ks), 3, s))
    # the counter as segment() itself builds it, for every kind of job count joblib accepts (negative ones mean "all the
    # processors but ..."): the constructor arguments segment() uses are recorded and the single-preemption schedules are
    # replayed on counters built with them
    factories = [('ParseCounter(2)', lambda: ag.ParseCounter(2))]
    seen_sig = {((), ())}
    import joblib
    for nj in (2, 3, -1, -2):
        if joblib.effective_n_jobs(nj) <= 1:
            continue          # the runs of such a call are not concurrent: its counter needs no protection
        sig = _counter_signature(nj)
        if sig is not None and sig not in seen_sig:
            seen_sig.add(sig)
            factories.append(('the counter of segment(njobs=%d): ParseCounter(n%s)' % (nj, ''.join(', %r' % (a,) for a in sig[0]) + ''.join(', %s=%r' % kv for kv in sig[1])),
                              lambda sig=sig: ag.ParseCounter(2, *sig[0], **dict(sig[1]))))
    ck.cov['counter_constructions'] = [f[0] for f in factories]
    single = [sc for sc in scheds if 'preempt thread 0' in sc[0]]
    bad = []
    for fname, factory in factories:
      for name, nth, s in (scheds if fname == 'ParseCounter(2)' else single):
        name = name if fname == 'ParseCounter(2)' else name + ' [' + fname + ']'
        pc = factory()
        ps = [parses2[i % 2] for i in range(nth)]
        fns = [(lambda p=p: pc.update(p)) for p in ps]
        sched.run_schedule(fns, s)
        want = [collections.Counter(p[i] for p in ps) for i in range(2)]
        ok = pc.nparses == nth and all(dict(pc.counters[i]) == dict(want[i]) for i in range(2))
        ck.case('sched:' + name, True, sample={'schedule': name, 'nparses': pc.nparses})
        ck.count('schedules')
        if not ok:
            bad.append(({'schedule': name, 'picks': s[:200], 'threads': nth, 'parses': ps,
                         'observed': {'nparses': pc.nparses, 'counters': [dict(c) for c in pc.counters]}},
                        'an update was lost or doubled under schedule "%s": nparses=%d, counters=%r'
                        % (name, pc.nparses, [dict(c) for c in pc.counters])))
    return bad, len(scheds)


def stub_lines(args, test):
    """raw output of the stand-in for these arguments (what ag.segment will read back)"""
    d = tempfile.mkdtemp(prefix='c15-')
    try:
        tf = os.path.join(d, 'test.ylt')
        open(tf, 'w', encoding='utf8').write('\n'.join(test) + '\n')
        r = subprocess.run([os.path.join(STUBS, 'ag'), 'grammar'] + shlex.split(args) + ['-u', tf, '-c', 'Colloc0'],
                           input=b'', capture_output=True)
        return r.stdout.decode('utf8').split('\n')[:-1]
    finally:
        shutil.rmtree(d, ignore_errors=True)


def segment_case(ck, n, x, seed, ignore, nruns, family, njobs=1, extra='', prefix='', eff=None):
    # extra: further options AFTER the counts and the seed (file names that spell -n9, -x7, -r ...)
    # prefix: options BEFORE them (the same option given earlier in another spelling: the LAST occurrence counts, for the
    # program - getopt - and for the wrapper alike); eff: the (n, x) in force when `extra` repeats them after the seed
    args = prefix + ('-n %d ' % n if n is not None else '') + ('-x %d ' % x if x is not None else '') + '-r %d' % seed + extra
    nn, xx = (2000 if n is None else n), (1 if x is None else x)
    if eff:
        nn, xx = eff
    emitted = len(range(0, nn, xx)) + 1
    runs = [stub_lines(args.replace('-r %d' % seed, '-r %d' % (seed + i)), TEXT) for i in range(nruns)]

    def impl():
        d = tempfile.mkdtemp(prefix='c15-seg-')
        try:
            return call_impl(ag.segment, list(TEXT), args=args, nruns=nruns, njobs=njobs, ignore_first_parses=ignore, tempdir=d)
        finally:
            shutil.rmtree(d, ignore_errors=True)

    def oracle(out):
        trees = []
        for lines in runs:
            ts, cur = [], []
            for l in lines:
                if l.strip() == '':
                    if cur:
                        ts.append(cur); cur = []
                else:
                    cur.append(l.strip())
            if len(ts) != emitted:
                return 'stand-in emitted %d parses, expected %d' % (len(ts), emitted)
            trees.append(ts)
        if ignore >= emitted:
            return None if out == ('raise', 'RuntimeError') else 'ignoring %d of %d parses must be an error, got %r' % (ignore, emitted, out)
        k = ignore if ignore >= 0 else max(0, emitted + ignore)
        kept = [t for ts in trees for t in ts[k:]]
        if ignore < 0 and any(len(ts[k:]) != min(-ignore, emitted) for ts in trees):
            return 'internal'
        if out[0] != 'ok':
            return 'segment raised %s although %d parses remain' % (out[1], len(kept))
        for i in range(len(TEXT)):
            c = collections.Counter(t[i] for t in kept)
            best = max(c.values())
            if c[out[1][i]] != best:
                return 'utterance %d: %r is not a most frequent parse among the %d kept ones' % (i, out[1][i], len(kept))
            if out[1][i] != min(k2 for k2, v in c.items() if v == best):
                return 'utterance %d: tie not broken independently of arrival order' % i
        return None
    return dict(op=1502, arg=[len(TEXT), [s2j(t) for t in shlex.split(args)], ignore, [text2j(r) for r in runs]], site='ag.segment',
                desc={'args': args, 'ignore_first_parses': ignore, 'nruns': nruns, 'njobs': njobs, 'family': family},
                impl=impl, dec=lambda w: decode_result(w, j2text), oracle=oracle,
                nontrivial=lambda m: True)


def yield_case(rng):
    lines = []
    for _ in range(rng.randint(0, 6)):
        for _ in range(rng.randint(0, 3)):
            lines.append(rng.choice(['a b', ' a', 'b ', 'c d e']))
        lines.append(rng.choice(['', ' ', '']))
    if rng.random() < 0.5:
        lines.append('x y')
    k = rng.randint(-2, 6)
    return dict(op=1501, arg=[text2j(lines), k], site='ag.yield_parses', desc={'lines': lines, 'ignore': k, 'family': 'yield_parses'},
                impl=lambda: list(ag.yield_parses(list(lines), ignore_firsts=k)),
                dec=lambda w: [j2text(t) for t in w], res_of=lambda m: ('ok',), nontrivial=lambda m: len(m) > 0)


def counter_case(rng):
    """arrival-order independence of the aggregation, on the implementation and the model"""
    nutts = rng.randint(1, 3)
    pool = ['a b', 'ab', 'a  b'.replace('  ', ' '), 'b a', 'ba']
    parses = [[rng.choice(pool) for _ in range(nutts)] for _ in range(rng.randint(1, 8))]
    runs = [[l for p in parses for l in p + ['']]]

    def impl():
        def f():
            pc = ag.ParseCounter(nutts)
            for p in parses:
                pc.update(p)
            return pc.most_common()
        return call_impl(f)

    def oracle(out):
        if out[0] != 'ok':
            return 'most_common raised ' + out[1]
        for _ in range(4):
            q = list(parses)
            rng.shuffle(q)
            pc = ag.ParseCounter(nutts)
            for p in q:
                pc.update(p)
            if pc.most_common() != out[1]:
                return 'most_common depends on the arrival order of the parses'
        return None
    return dict(op=1502, arg=[nutts, [s2j(t) for t in '-n 1 -x 1'.split()], 0, [text2j(r) for r in runs]], site='ag.ParseCounter',
                desc={'parses': parses, 'family': 'counter'}, impl=impl, dec=lambda w: decode_result(w, j2text), oracle=oracle,
                nontrivial=lambda m: True)


def nparses_case(args, ignore):
    def impl():
        # the arithmetic is inlined in segment(): observe it through the error / no-error outcome on the stand-in
        return None
    return None


def real_binary_counts(ck):
    """count the parses the real program emits for a grid of (n, x) and compare with the model's `emitted`"""
    import agbuild
    from common import run_model_batch
    bad = []
    try:
        bindir = agbuild.build()
    except Exception as e:  # noqa
        return [({'build': str(e)[-300:]}, 'the ag program could not be built from /repo: %s' % str(e)[-200:])], 0
    d = tempfile.mkdtemp(prefix='c15-real-')
    try:
        gram = os.path.join(d, 'g.lt')
        open(gram, 'w').write(ag.build_colloc0_grammar(['a', 'b', 'c']))
        train = os.path.join(d, 'train.ylt')
        open(train, 'w').write('a b c\nb a\n')
        grid = [(n, x) for n in range(0, 13 if not ck.thorough else 41) for x in range(1, 6 if not ck.thorough else 10)]
        if not ck.thorough:
            grid = [g for g in grid if g[0] <= 12]
        model = run_model_batch([(1505, [n, x]) for n, x in grid])
        for (n, x), m in zip(grid, model):
            r = subprocess.run('cat %s | %s %s -n %d -x %d -r 7 -d 0 -u %s -c Colloc0' % (train, os.path.join(bindir, 'ag'), gram, n, x, train),
                               shell=True, capture_output=True)
            blocks = [b for b in r.stdout.decode('utf8').split('\n\n') if b.strip()]
            ck.case('real:%d:%d' % (n, x), True, sample={'n': n, 'x': x, 'parses_emitted': len(blocks), 'model': m})
            ck.count('real_binary_runs')
            if r.returncode != 0:
                bad.append(({'n': n, 'x': x}, 'ag exited with status %d' % r.returncode))
            elif len(blocks) != m:
                bad.append(({'n': n, 'x': x, 'emitted': len(blocks), 'model': m},
                            'the ag program emits %d parses for -n %d -x %d, the wrapper model expects %d' % (len(blocks), n, x, m)))
        return bad, len(grid)
    finally:
        shutil.rmtree(d, ignore_errors=True)


def main():
    ck = Check('C15')
    tr_fail = []
    try:
        prog = translate_parsecounter.main()
    except translate_parsecounter.TranslationError as e:
        prog = None
        tr_fail.append('translator: ' + str(e))
        for ext in ('.v', '.vo', '.vok', '.vos', '.glob'):
            try:
                os.remove(os.path.join(VERIF, 'coq', 'gen', 'ParseCounterProg' + ext))
            except OSError:
                pass
    failures = ck.prove(gen=['gen/ParseCounterProg.v'] if prog else []) + tr_fail
    ck.cov['generated_program'] = prog
    rng = ck.rng
    bad, nsched = schedule_cases(ck)
    for w, what in bad[:2]:
        ck.violation(dict(w, site='ag.ParseCounter.update'), 'property fails on the implementation: ' + what)
    cases = []
    grid = [(4, 2), (5, 2), (6, 3), (7, 3), (3, 1), (0, 1), (15, 10), (2, 5)]
    for n, x in grid:
        emitted = len(range(0, n, x)) + 1
        for ig in range(-emitted - 1, emitted + 2):
            if ck.thorough or rng.random() < 0.5:
                nr = rng.randint(1, 3)
                # the answer must not depend on the job count (runs share one ParseCounter across threads)
                cases.append(segment_case(ck, n, x, 100 + n, ig, nr, 'ignore-grid', njobs=rng.randint(1, 4)))
    cases.append(segment_case(ck, None, 400, 5, -1, 1, 'default-n'))
    cases.append(segment_case(ck, 6, None, 5, -2, 2, 'default-x', njobs=2))
    cases.append(segment_case(ck, 7, 2, 9, -2, 4, 'four-runs', njobs=4))
    # file-valued options whose names spell the wrapper's own options: the counts and the seed are those given, not those in the names
    cases.append(segment_case(ck, 6, 2, 11, -2, 2, 'file-names', extra=' -F log-n9-x7-r.txt'))
    cases.append(segment_case(ck, 5, None, 3, 1, 3, 'file-names', njobs=2, extra=" -G 'out -n 40 -x 9/g-r77.lt'"))
    cases.append(segment_case(ck, None, 500, 8, -1, 1, 'file-names', extra=' -A parses-new-x.prs'))
    # -n / -x given twice in different spellings ('-x3' attached, '-x 1' separated), in both orders: the last one counts
    cases.append(segment_case(ck, 6, 1, 5, -1, 2, 'mixed-spellings', prefix='-x3 '))
    cases.append(segment_case(ck, 6, 1, 5, 6, 2, 'mixed-spellings', prefix='-x3 '))
    cases.append(segment_case(ck, 4, 2, 9, -2, 2, 'mixed-spellings', prefix='-n6 ', njobs=2))
    cases.append(segment_case(ck, 6, 3, 7, -1, 2, 'mixed-spellings', prefix='-x1 '))
    cases.append(segment_case(ck, 6, 1, 5, -1, 2, 'mixed-spellings', extra=' -x3', eff=(6, 3)))
    cases.append(segment_case(ck, 6, 3, 4, 2, 1, 'mixed-spellings', extra=' -n4 -x 1 -x2', eff=(4, 2)))
    # the fixed seed 0 (run i works with seed 0 + i, like any other seed), for several job counts
    for nj in (1, 3):
        cases.append(segment_case(ck, 6, 2, 0, -2, 3, 'seed-zero', njobs=nj))
    for _ in range(600 if ck.thorough else 80):
        cases.append(yield_case(rng))
    for _ in range(600 if ck.thorough else 80):
        cases.append(counter_case(rng))
    for c in cases:
        ck.count('family:' + c['desc']['family'])
    correspond(ck, cases)
    rb, ngrid = real_binary_counts(ck)
    for w, what in rb[:2]:
        ck.violation(dict(w, site='ag binary'), 'property fails on the implementation: ' + what)
    nre, problems = ck.coq_recheck()
    if not any(not nf for _, _, nf in ck.violations):
        finish_proof_failures(ck, failures + problems)
    else:
        ck.cov['failed_obligations'] = failures + problems
    return ck.finish(
        rule='(a) %d bytecode-level schedules of 2-3 real threads in ParseCounter.update (every single-preemption point of two threads, sampled double preemptions and 3-thread prefixes); '
             '(b) random parse lists: most_common vs the model and under shuffles; (c) ag.segment on the stand-in for (n, x) grids x every ignore_first_parses in -emitted-1..emitted+1 x nruns 1-3, '
             'yield_parses on random block structures, and the real ag program built from /repo run on %d (n, x) pairs to count the parses it emits. Non-trivial: every case.' % (nsched, ngrid),
        assumptions=['CPython executes one bytecode at a time under the GIL; the scheduler pre-empts only between opcodes of update()',
                     'the thread program is regenerated from the AST of ParseCounter.update on every run'])


if __name__ == '__main__':
    sys.exit(main())
