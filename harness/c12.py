"""C12 — the error summary classifies every gold token exactly once, correctly."""
import collections
import sys

from common import load_corpus, Check, correspond, decode_result, call_impl, finish_proof_failures, text2j
import evalgen as eg

from wordseg import evaluate as ev

CATS = ('over', 'under', 'mis', 'correct')


def reference_summary(text, gold):
    """the property statement, from spans and shared boundaries"""
    res = {c: collections.Counter() for c in CATS}
    for t, g in zip(text, gold):
        tw, gw = eg.words_of(t), eg.words_of(g)
        tb, gb = {0}, {0}
        acc = 0
        for w in tw:
            acc += len(w); tb.add(acc)
        acc = 0
        for w in gw:
            acc += len(w); gb.add(acc)
        shared = sorted(tb & gb)
        a = 0
        for w in gw:
            b = a + len(w)
            s = max(x for x in shared if x <= a)
            e = min(x for x in shared if x >= b)
            lg = sum(1 for x in gb if s < x <= e)
            lt = sum(1 for x in tb if s < x <= e)
            if lg == 1 and lt == 1:
                cat = 'correct'
            elif lg == 1:
                cat = 'over'
            elif lt == 1:
                cat = 'under'
            else:
                cat = 'mis'
            res[cat][w] += 1
            a = b
    return res


def make_case(text, gold, family):
    def impl():
        r = call_impl(ev.summary, list(text), list(gold))
        if r[0] == 'ok':
            # the same summary built step by step on ONE SegmentationSummary object, exported after every
            # utterance (and the exports left untouched afterwards): the last export is the summary of the whole
            def stepwise():
                s = ev.SegmentationSummary()
                exports = []
                for t, g in zip(text, gold):
                    s.summarize_utterance(t, g)
                    exports.append(s.to_dict())
                return exports[-1] if exports else s.to_dict()
            r2 = call_impl(stepwise)
            if r2 != r:
                return ('raise', 'AssertionError')      # reported by the oracle below

            def two_batches():
                s = ev.SegmentationSummary()
                h = len(text) // 2
                s.summarize(list(text[:h]), list(gold[:h]))
                s.to_dict()['over']['<caller>'] = 99          # an export belongs to the caller
                s.summarize(list(text[h:]), list(gold[h:]))
                return s.to_dict()
            if call_impl(two_batches) != r:
                return ('raise', 'AssertionError')
            return ('ok', [list(r[1][k].items()) for k in CATS])
        return r

    def dec(w):
        return decode_result(w, lambda v: [[(''.join(map(chr, k)), c) for k, c in cat] for cat in v])

    def oracle(out):
        if out == ('raise', 'AssertionError'):
            return 'a SegmentationSummary fed utterance by utterance and exported after each one ends with another summary than summary(text, gold)'
        if out[0] != 'ok':
            return 'consistent pair raised ' + out[1]
        ref = reference_summary(text, gold)
        ngold = sum(len(eg.words_of(g)) for g in gold)
        total = sum(c for cat in out[1] for _, c in cat)
        if total != ngold:
            return 'category counts sum to %d for %d gold tokens' % (total, ngold)
        for name, items in zip(CATS, out[1]):
            if dict(items) != dict(ref[name]):
                return 'category %s is %r, the definition gives %r' % (name, dict(items), dict(ref[name]))
            if items != sorted(items, key=lambda kv: (-kv[1], kv[0])):
                return 'category %s is not sorted by decreasing count then word' % name
        hits = sum(len(eg.spans_of(t) & eg.spans_of(g)) for t, g in zip(text, gold))
        if sum(c for _, c in out[1][3]) != hits:
            return 'correct total differs from the token hit count %d' % hits
        return None
    return dict(op=1201, arg=[text2j(text), text2j(gold)], site='evaluate.summary',
                desc={'text': text, 'gold': gold, 'family': family}, impl=impl, dec=dec, oracle=oracle,
                nontrivial=lambda m: m[0] == 'raise' or any(m[1][i] for i in range(3)))


def main():
    ck = Check('C12')
    failures = ck.prove()
    rng = ck.rng
    cases = []
    for c in load_corpus('C12'):
        cases.append(make_case(c['text'], c['gold'], 'corpus'))
    L = 7 if ck.thorough else 5
    for s, tm, gm in eg.exhaustive_pairs(['a', 'b'], L):
        if ck.thorough and len(s) == 7 and rng.random() < 0.8:
            continue
        cases.append(make_case([eg.apply_mask(s, tm)], [eg.apply_mask(s, gm)], 'exhaustive'))
    # the docstring's family: repeated letters so that word types repeat; mixed-case and accented alphabets, where the
    # order of equal-count words (plain code-point order) differs from a case-folded or locale order
    for k in range(3000 if ck.thorough else 300):
        text, gold, _ = eg.random_triple(rng, [['a', 'b'], ['a', 'b', 'c'], ['uː', 'dʒ', 'a'], ['a', 'A', 'B', 'b'], ['Z', 'a', '_', 'z', 'É', 'é']][k % 5],
                                         nutts=rng.randint(1, 6), maxunits=9)
        if k % 5 == 0:
            text = [eg.respace(rng, t) for t in text]
        cases.append(make_case(text, gold, 'random-multi'))
        if k % 4 == 1:
            # a corpus repeats utterances: the same (text, gold) pair several times, shuffled among the others
            idx = [i for i in range(len(text)) for _ in range(rng.choice([1, 2, 3]))]
            rng.shuffle(idx)
            cases.append(make_case([text[i] for i in idx], [gold[i] for i in idx], 'random-repeated-utterances'))
    # utterances of more than a thousand words, with more than a thousand chunks of every kind
    w = ['ab', 'a', 'b', 'ba']
    gold_long = ' '.join(w[i % 4] for i in range(2600))
    chars = gold_long.replace(' ', '')
    cases.append(make_case([' '.join(chars)], [gold_long], 'long-utterance'))                                   # over-segmented
    cases.append(make_case([gold_long], [' '.join(chars)], 'long-utterance'))                                   # under-segmented
    cases.append(make_case([' '.join(chars[i:i + 3] for i in range(0, len(chars), 3))], [gold_long], 'long-utterance'))   # mis-segmented
    # chunks (maximal spans without a boundary common to text and gold) of hundreds and thousands of letters
    cases.append(make_case([chars], [gold_long], 'long-chunk'))                                                    # one text word for 2600 gold words
    cases.append(make_case([gold_long], [chars], 'long-chunk'))                                                    # one gold word of 3900 letters
    w300 = 'ab' * 150
    cases.append(make_case(['x ' + w300[:140] + ' ' + w300[140:] + ' y'], ['x ' + w300 + ' y'], 'long-chunk'))     # a 300-letter gold word cut in two
    s282 = w300[:282]
    cases.append(make_case(['x ' + ' '.join(s282[i:i + 3] for i in range(0, 282, 3)) + ' y'],
                           ['x ' + s282[:2] + ' ' + ' '.join(s282[i:i + 3] for i in range(2, 282, 3)) + ' y'], 'long-chunk'))   # 282 letters without a common inner boundary
    correspond(ck, cases)
    n, problems = ck.coq_recheck()
    finish_proof_failures(ck, failures + problems)
    return ck.finish(
        rule='exhaustive pairs of boundary masks over strings on {a,b} up to length %d; random multi-utterance pairs with repeated word types '
             '(respaced variants). Oracle: categories recomputed from spans and shared boundaries, totals, sort order, token hit count. '
             'Non-trivial = at least one over/under/mis entry.' % L,
        extra={'exhaustive': not ck.thorough})


if __name__ == '__main__':
    sys.exit(main())
